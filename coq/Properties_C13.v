(* C13 — parallel primitives and lock-free containers equal their sequential spec.
   Only statements closed by `exact`, each followed by Print Assumptions.
   Models: Par/ParDefs.v (parallel.h), Par/Sched.v (legal TBB behaviours),
   Par/UnionFind.v, Par/HashTable.v (lock-free containers). *)
From Coq Require Import List Arith Bool ZArith Permutation Sorted.
From MV Require Import Par.Sched Par.ParDefs Par.SortModel Par.ScanModel Par.InstModel Par.ReduceSites Gen.ReduceSites Par.Containers Par.RadixModel Par.RadixBuf Par.UFConc Par.HTConc Par.UFProgress.
Import ListNotations.

(* ---- stable_sort(Par, first, last, comp)  [mergeSort / mergeSortRec / mergeRec]
   For every comparator that is a strict weak order, every sequential threshold
   >= 2 (pinned: 10^4) and every input, the parallel merge sort terminates and
   returns exactly the stable insertion sort of the input; that result is
   sorted, a permutation, and keeps the input order inside every class of
   mutually equivalent elements.  parallel_invoke interleavings do not appear:
   the two tasks write disjoint halves (list concatenation in the model). *)
Theorem stable_sort_spec :
  forall (A : Type) (lt : A -> A -> bool) (thr : nat) (l : list A),
    (forall a b, lt a b = true -> lt b a = false) ->
    (forall a b c, lt a b = false -> lt b c = false -> lt a c = false) ->
    2 <= thr ->
    merge_sort lt thr l = Some (isort lt l) /\
    StronglySorted (fun a b => lt b a = false) (isort lt l) /\
    Permutation l (isort lt l) /\
    (forall p : A -> bool, (forall x y, p x = true -> p y = true -> lt x y = false) ->
                           filter p (isort lt l) = filter p l).
Proof.
  intros A lt thr l Ha Hn Ht.
  exact (conj (merge_sort_correct lt Ha Hn thr l Ht)
        (conj (isort_sorted lt Ha Hn l)
        (conj (isort_perm lt l) (fun p Hp => isort_stable lt p l Hp)))).
Qed.
Print Assumptions stable_sort_spec.

Example stable_sort_hyps_satisfiable :
  (forall a b, Nat.ltb a b = true -> Nat.ltb b a = false) /\
  merge_sort (fun a b : nat * nat => Nat.ltb (fst a) (fst b)) 2 [(3,0);(1,1);(3,2);(1,3);(2,4)]
  = Some [(1,1);(1,3);(2,4);(3,0);(3,2)].
Proof. split; [intros a b H; apply Nat.ltb_lt in H; apply Nat.ltb_ge; apply Nat.lt_le_incl; exact H | reflexivity]. Qed.

(* ---- stable_sort(Par, first, last) on unsigned integral keys: the radix path
   (details::radix_sort: LSB_radix_sort per block = is_sorted shortcut, one
   stable counting pass per byte unless the histogram says the byte is constant,
   buffer parity; SortedRange blocks joined by mergeRec or plain concatenation)
   over keys of nbytes bytes: for every threshold >= 2, every input and every
   legal parallel_reduce schedule (any split tree, lazily or eagerly split
   bodies) the result is the stable sort of the input.  (Since 1f3be2f4 signed
   types take the merge sort path: stable_sort_spec.) *)
Theorem radix_sort_spec :
  forall (thr nbytes : nat) (xs : list Z) (grain : nat) (t : rtree),
    2 <= thr ->
    (forall x, In x xs -> (0 <= x < 256 ^ Z.of_nat nbytes)%Z) ->
    legal_reduce grain (length xs) t = true ->
    radix_sort thr nbytes xs t = Some (isort Z.ltb xs).
Proof. intros thr nbytes xs grain t Ht Hr HL. exact (radix_sort_correct thr nbytes xs grain t Ht Hr HL). Qed.
Print Assumptions radix_sort_spec.

Example radix_hyps_satisfiable :
  legal_reduce 1 6 (RNode 2 true RLeaf (RNode 4 false RLeaf RLeaf)) = true /\
  radix_sort 2 2 [513; 2; 70; 258; 2; 1]%Z (RNode 2 true RLeaf (RNode 4 false RLeaf RLeaf)) = Some [1; 2; 2; 70; 258; 513]%Z.
Proof. split; reflexivity. Qed.

(* one counting pass is a stable partition by its byte and advances the LSD invariant *)
Theorem radix_pass_spec :
  forall (k : nat) (l : list Z),
    Permutation l (radix_pass k l) /\
    (StronglySorted (fun x y => (x mod 256 ^ Z.of_nat k <= y mod 256 ^ Z.of_nat k)%Z) l ->
     StronglySorted (fun x y => (x mod 256 ^ Z.of_nat (S k) <= y mod 256 ^ Z.of_nat (S k))%Z) (radix_pass k l)).
Proof. intros k l. exact (conj (radix_pass_perm k l) (radix_pass_sorted k l)). Qed.
Print Assumptions radix_pass_spec.

(* the parallel merge alone: details::mergeRec on two sorted runs = std::merge *)
Theorem merge_rec_spec :
  forall (A : Type) (lt : A -> A -> bool) (thr fuel : nat) (l1 l2 : list A),
    (forall a b, lt a b = true -> lt b a = false) ->
    (forall a b c, lt a b = false -> lt b c = false -> lt a c = false) ->
    2 <= thr ->
    StronglySorted (fun a b => lt b a = false) l1 ->
    StronglySorted (fun a b => lt b a = false) l2 ->
    length l1 + length l2 < fuel ->
    pmerge lt fuel thr l1 l2 = Some (merge lt l1 l2).
Proof.
  intros A lt thr fuel l1 l2 Ha Hn Ht S1 S2 Hf.
  exact (pmerge_correct lt Ha Hn fuel thr l1 l2 Ht S1 S2 Hf).
Qed.
Print Assumptions merge_rec_spec.

(* the hypothesis 2 <= thr is forced: with kSeqThreshold = 1 mergeRec never returns *)
Theorem merge_rec_threshold_one_refuted : forall fuel, pmerge Nat.ltb fuel 1 [2] [1] = None.
Proof. exact pmerge_threshold_one_diverges. Qed.
Print Assumptions merge_rec_threshold_one_refuted.

(* ---- parallel_scan protocol (ScanBody / CopyIfScanBody / lambda form)
   For an associative f with two-sided identity, every body of the shape
   "temp := f temp (m i); final scan may write emit(temp, i)" whose sequential
   writes hit distinct cells: the protocol run under ANY legal schedule
   (Sched.legal_scan: any splits, any pre-scans, any legal order) leaves the
   same sum and the same buffer as the single sequential final scan. *)
Theorem scan_protocol_spec :
  forall (T V : Type) (identity : T) (f : T -> T -> T) (m : nat -> T)
         (emit : T -> nat -> option (nat * V)) (init : T) (n : nat) (ops : list scan_op) (out0 : nat -> V),
    (forall a b c, f (f a b) c = f a (f b c)) ->
    (forall a, f identity a = a) -> (forall a, f a identity = a) ->
    legal_scan n ops = true ->
    (forall i j q, In i (seq 0 n) -> In j (seq 0 n) ->
        sW f m emit init i = Some q -> sW f m emit init j = Some q -> i = j) ->
    fst (scan_par identity f m emit init ops out0) = fst (scan_seq f m emit n init out0) /\
    forall p, snd (scan_par identity f m emit init ops out0) p = snd (scan_seq f m emit n init out0) p.
Proof.
  intros T V identity f m emit init n ops out0 Ha Hl Hr HL Hinj.
  exact (scan_par_seq identity f m emit Ha Hl Hr init n ops out0 HL Hinj).
Qed.
Print Assumptions scan_protocol_spec.

(* exclusive_scan(Par, xs, out, init, f, identity) = std::exclusive_scan *)
Theorem scan_spec :
  forall (T : Type) (identity : T) (f : T -> T -> T) (xs : list T) (init : T)
         (ops : list scan_op) (out0 : nat -> T),
    (forall a b c, f (f a b) c = f a (f b c)) ->
    (forall a, f identity a = a) -> (forall a, f a identity = a) ->
    legal_scan (length xs) ops = true ->
    fst (excl_scan_par identity f xs init ops out0) = fold_left f xs init /\
    forall p, snd (excl_scan_par identity f xs init ops out0) p =
              if p <? length xs then fold_left f (firstn p xs) init else out0 p.
Proof.
  intros T identity f xs init ops out0 Ha Hl Hr HL.
  exact (excl_scan_correct identity f Ha Hl Hr xs init ops out0 HL).
Qed.
Print Assumptions scan_spec.

Example scan_hyps_satisfiable :
  legal_scan 5 (scan_ops_two_pass 5 (Node 2 Leaf (Node 3 Leaf Leaf))) = true /\
  legal_scan 5 (scan_ops_serial 5 (Node 2 Leaf (Node 3 Leaf Leaf))) = true /\
  map (snd (excl_scan_par 0%Z Z.add [1;2;3;4;5]%Z 100%Z (scan_ops_two_pass 5 (Node 2 Leaf (Node 3 Leaf Leaf))) (fun _ => 0%Z)))
      (seq 0 5) = [100; 101; 103; 106; 110]%Z.
Proof. repeat split. Qed.

(* exclusive_scan / inclusive_scan run IN PLACE (d_first == first: documented as
   allowed, used in-tree by face_op.cpp, impl.cpp, quickhull.cpp).  The model has
   ONE buffer; ScanBody reads input[i] into a temporary before it stores
   output[i].  Schedules: legal_scan plus what TBB guarantees about the two
   passes (an index is pre-scanned only before it is final-scanned, and
   final-scanned once: Sched.pbf). *)
Theorem scan_spec_inplace :
  forall (T : Type) (identity : T) (f : T -> T -> T) (xs : list T) (init : T) (ops : list scan_op),
    (forall a b c, f (f a b) c = f a (f b c)) ->
    (forall a, f identity a = a) -> (forall a, f a identity = a) ->
    legal_scan_inplace (length xs) ops = true ->
    fst (excl_scan_inplace identity f xs init ops) = fold_left f xs init /\
    forall p, snd (excl_scan_inplace identity f xs init ops) p =
              if p <? length xs then fold_left f (firstn p xs) init else nth p xs identity.
Proof.
  intros T identity f xs init ops Ha Hl Hr HL.
  exact (excl_scan_inplace_correct identity f Ha Hl Hr xs init ops HL).
Qed.
Print Assumptions scan_spec_inplace.

Theorem inclusive_scan_spec_inplace :
  forall (xs : list Z) (ops : list scan_op),
    legal_scan_inplace (length xs) ops = true ->
    forall p, snd (incl_scan_inplace xs ops) p =
              if p <? length xs then fold_left Z.add (firstn (S p) xs) 0%Z else nth p xs 0%Z.
Proof. intros xs ops HL. exact (incl_scan_inplace_correct xs ops HL). Qed.
Print Assumptions inclusive_scan_spec_inplace.

Example scan_inplace_hyps_satisfiable :
  legal_scan_inplace 5 (scan_ops_two_pass 5 (Node 2 Leaf (Node 3 Leaf Leaf))) = true /\
  map (snd (excl_scan_inplace 0%Z Z.add [1;2;3;4;5]%Z 100%Z (scan_ops_two_pass 5 (Node 2 Leaf (Node 3 Leaf Leaf))))) (seq 0 5)
  = [100; 101; 103; 106; 110]%Z.
Proof. split; reflexivity. Qed.

(* the theorem rests on the read-before-write order inside the loop: a body that
   reads input[i] after storing output[i] computes f(temp,temp) when run in place *)
Example scan_body_read_after_write_breaks_inplace :
  snd (ascan_range_read_after_write Z.add (seq 0 3) 0%Z (fun i => nth i [1; 2; 3]%Z 0%Z)) 2 = 0%Z /\
  snd (ascan_range Z.add (fun temp _ => temp) true (seq 0 3) 0%Z (fun i => nth i [1; 2; 3]%Z 0%Z)) 2 = 3%Z.
Proof. exact read_after_write_breaks_inplace. Qed.

(* inclusive_scan(Par, xs, out) = std::inclusive_scan (lambda form, std::plus) *)
Theorem inclusive_scan_spec :
  forall (xs : list Z) (ops : list scan_op) (out0 : nat -> Z),
    legal_scan (length xs) ops = true ->
    forall p, snd (incl_scan_par xs ops out0) p =
              if p <? length xs then fold_left Z.add (firstn (S p) xs) 0%Z else out0 p.
Proof. intros xs ops out0 HL. exact (incl_scan_correct xs ops out0 HL). Qed.
Print Assumptions inclusive_scan_spec.

(* copy_if(Par, xs, out, pred) = std::copy_if: count, kept elements in order,
   nothing written past them; for every legal schedule of the scan *)
Theorem copy_if_spec :
  forall (V : Type) (d : V) (p : V -> bool) (xs : list V) (ops : list scan_op) (out0 : nat -> V),
    legal_scan (length xs) ops = true ->
    fst (copy_if_par d p xs ops out0) = length (filter p xs) /\
    map (snd (copy_if_par d p xs ops out0)) (seq 0 (fst (copy_if_par d p xs ops out0))) = filter p xs /\
    forall q, fst (copy_if_par d p xs ops out0) <= q -> snd (copy_if_par d p xs ops out0) q = out0 q.
Proof. intros V d p xs ops out0 HL. exact (copy_if_par_correct d p xs ops out0 HL). Qed.
Print Assumptions copy_if_spec.

(* the CopyIfScanBody protocol by itself (what unique() relies on; copy_if()
   re-runs std::copy_if after it, so copy_if_spec alone would not show it) *)
Theorem copy_if_scan_body_spec :
  forall (V : Type) (d : V) (p : V -> bool) (xs : list V) (ops : list scan_op) (out0 : nat -> V),
    legal_scan (length xs) ops = true ->
    let r := copy_if_body_par (fun i => p (nth i xs d)) (fun i => nth i xs d) ops out0 in
    fst r = length (filter p xs) /\ map (snd r) (seq 0 (fst r)) = filter p xs /\
    forall q, fst r <= q -> snd r q = out0 q.
Proof. intros V d p xs ops out0 HL. exact (copy_if_body_correct d p xs ops out0 HL). Qed.
Print Assumptions copy_if_scan_body_spec.

(* remove_if / remove (Par) = keep the elements that do not satisfy pred, in order *)
Theorem remove_if_spec :
  forall (V : Type) (d : V) (p : V -> bool) (xs : list V) (ops : list scan_op),
    legal_scan (length xs) ops = true ->
    remove_if_par d p xs ops = filter (fun v => negb (p v)) xs.
Proof. intros V d p xs ops HL. exact (remove_if_par_correct d p xs ops HL). Qed.
Print Assumptions remove_if_spec.

(* unique(Par) = std::unique (after fix 8dafdd9e: a run of equal values that
   continues from the previous chunk overwrites the last kept element): for
   every MAX_BUFFER_SIZE >= 1, every input and every legal schedule of every
   chunk's parallel_scan *)
Theorem unique_spec :
  forall (maxbuf : nat) (scheds : list (list scan_op)) (src : list Z),
    1 <= maxbuf ->
    scheds_legal (S (length src)) maxbuf (length src) scheds ->
    unique_par maxbuf scheds src = Some (dedup src).
Proof. intros maxbuf scheds src Hm HS. exact (unique_par_correct maxbuf scheds src Hm HS). Qed.
Print Assumptions unique_spec.

Example unique_hyps_satisfiable :
  scheds_legal 4 2 3 [serial_ops 1; serial_ops 0] /\
  unique_par 2 [serial_ops 1; serial_ops 0] [7; 7; 7]%Z = Some [7]%Z.
Proof. exact unique_example. Qed.

(* ---- reduce / transform_reduce / count_if (Par)  (after fix fc899df2)
   Blocks are folded in an optional accumulator and init is applied once: for
   EVERY init, given only associativity of f, every legal reduction tree with
   every choice of lazily/eagerly split bodies gives the left fold. *)
Theorem reduce_spec :
  forall (T : Type) (f : T -> T -> T) (xs : list T) (init : T) (grain : nat) (t : rtree),
    (forall a b c, f (f a b) c = f a (f b c)) ->
    legal_reduce grain (length xs) t = true ->
    reduce_par f xs init t = fold_left f xs init.
Proof. intros T f xs init grain t Ha HL. exact (reduce_par_correct f Ha xs init grain t HL). Qed.
Print Assumptions reduce_spec.

Example reduce_hyps_satisfiable :
  legal_reduce 1 5 (RNode 2 true RLeaf (RNode 3 false RLeaf RLeaf)) = true /\
  reduce_par Z.add [3; 9; 2; 7; 1]%Z 10%Z (RNode 2 true RLeaf (RNode 3 false RLeaf RLeaf)) = 32%Z.
Proof. split; reflexivity. Qed.

(* historical (finding F7, fixed by fc899df2): the previous body re-seeded every
   split body with init; about the OLD body only *)
Example reduce_before_fix_readded_init :
  reduce_par_before_fix Z.add [1; 1]%Z 10%Z (RNode 1 true RLeaf RLeaf) = 22%Z /\
  reduce_par Z.add [1; 1]%Z 10%Z (RNode 1 true RLeaf RLeaf) = 12%Z.
Proof. split; reflexivity. Qed.

(* every in-tree caller of reduce / transform_reduce (table regenerated from the
   sources by translate/c13_sites.py on every run) passes the identity of its
   operation as init.  Since fix fc899df2 this is no longer needed for
   correctness (reduce_spec holds for every init); it is kept as a tie: the
   sequential and the parallel branch then also agree for non-associative
   floating point roundings of `f init x`. *)
Theorem reduce_sites_pass_identities :
  forallb (fun s => site_ok (snd (fst s)) (snd s)) reduce_sites = true.
Proof. exact (eq_refl true). Qed.
Print Assumptions reduce_sites_pass_identities.

Theorem reduce_site_ok_means_identity : forall o i, site_ok o i = true ->
  match o, i with
  | OpPlus, IZero => forall a : Z, (a + 0 = a)%Z
  | OpAnd, ITrue => forall a : bool, a && true = a
  | OpMin, IPosInf => forall a, emin a PosInf = a
  | OpMax, INegInf => forall a, emax a NegInf = a
  | OpMinMax, ITopBottom => forall a b, (emin a PosInf, emax b NegInf) = (a, b)
  | _, _ => False
  end.
Proof. exact site_ok_is_identity. Qed.
Print Assumptions reduce_site_ok_means_identity.

(* all_of(Par) = std::all_of for every legal reduction schedule *)
Theorem all_of_spec :
  forall (X : Type) (p : X -> bool) (xs : list X) (grain : nat) (t : rtree),
    legal_reduce grain (length xs) t = true -> all_of_par p xs t = forallb p xs.
Proof. intros X p xs grain t HL. exact (all_of_par_correct p xs grain t HL). Qed.
Print Assumptions all_of_spec.

(* ---- for_each / for_each_n / transform / copy / fill / sequence / gather / scatter
   A body that in iteration i touches at most the cell W i (distinct
   iterations -> distinct cells) and replaces its content c by H i c: for every
   legal parallel_for schedule (any split tree, any leaf order) every cell ends
   as after the sequential loop. *)
Theorem for_each_family :
  forall (V : Type) (W : nat -> option nat) (H : nat -> V -> V) (grain n : nat) (s : for_sched)
         (o : nat -> V) (p : nat),
    legal_for grain n s = true ->
    (forall i j q, In i (seq 0 n) -> In j (seq 0 n) -> W i = Some q -> W j = Some q -> i = j) ->
    par_for W H n s o p = seq_for W H n o p.
Proof. intros V W H grain n s o p HL Hinj. exact (par_for_seq W H grain n s o p HL Hinj). Qed.
Print Assumptions for_each_family.

Example for_each_hyps_satisfiable :
  legal_for 1 5 (Node 2 Leaf (Node 4 Leaf Leaf), [2; 0; 1]) = true /\
  map (par_for (fst (fe_scatter (fun i => 4 - i) (fun i => Z.of_nat (10 * i))))
               (snd (fe_scatter (fun i => 4 - i) (fun i => Z.of_nat (10 * i))))
               5 (Node 2 Leaf (Node 4 Leaf Leaf), [2; 0; 1]) (fun _ => 0%Z)) (seq 0 5)
  = [40; 30; 20; 10; 0]%Z.
Proof. split; reflexivity. Qed.

(* ---- the radix path at buffer level: Hist::prefixSum (with canSkip), shuffle
   and the a/b buffer swap of LSB_radix_sort, ported loop by loop with their
   index arithmetic (Par/RadixBuf.v), refine the list-level model used by
   radix_sort_spec: shuffle with the prefix-summed histogram row writes exactly
   the stable partition, and the buffer LSB_radix_sort reports (flag = inTmp)
   holds the list-level result.  The histogram is additive and permutation
   invariant, so any parallel_for split / combinable assignment / combine order
   gives the same rows (histogram_any_split). *)
Theorem radix_shuffle_refines :
  forall (k : nat) (src : list Z) (tgt : nat -> Z),
    map (snd (shuffle k (psum (fun b => cntb k b src)) src tgt)) (seq 0 (length src)) = radix_pass k src.
Proof. intros k src tgt. exact (shuffle_refines_pass k src tgt). Qed.
Print Assumptions radix_shuffle_refines.

Theorem radix_prefix_sum_spec :
  forall (k : nat) (l : list Z),
    let '(out, count, skip) := prefix_row (length l) (fun b => cntb k b l) in
    (forall j, j < 256 -> out j = psum (fun b => cntb k b l) j) /\
    count = psum (fun b => cntb k b l) 256 /\ skip = can_skip k l.
Proof. intros k l. exact (prefix_row_spec k l). Qed.
Print Assumptions radix_prefix_sum_spec.

Theorem histogram_any_split :
  forall (nbytes : nat) (l1 l2 : list Z) (k b : nat), k < nbytes ->
    hist_merge (histogram nbytes (fun _ _ => 0) l1) (histogram nbytes (fun _ _ => 0) l2) k b
    = histogram nbytes (fun _ _ => 0) (l1 ++ l2) k b /\
    histogram nbytes (fun _ _ => 0) (l1 ++ l2) k b = cntb k b (l1 ++ l2) /\
    (forall l', Permutation (l1 ++ l2) l' -> cntb k b (l1 ++ l2) = cntb k b l').
Proof.
  intros nbytes l1 l2 k b Hk.
  exact (conj (histogram_merge nbytes l1 l2 k b Hk)
        (conj (histogram_count nbytes (l1 ++ l2) (fun _ _ => 0) k b Hk) (fun l' HP => cntb_perm k b _ l' HP))).
Qed.
Print Assumptions histogram_any_split.

Theorem lsb_radix_sort_buffers_refine :
  forall (nbytes : nat) (l : list Z) (tmp : nat -> Z),
    let '(a, b, t) := lsb_radix_sort_buf nbytes l tmp in
    to_list a (length l) = fst (lsb_radix_sort nbytes l) /\ t = snd (lsb_radix_sort nbytes l).
Proof. intros nbytes l tmp. exact (lsb_radix_sort_buf_refines nbytes l tmp). Qed.
Print Assumptions lsb_radix_sort_buffers_refine.

(* ---- DisjointSets (src/disjoint_sets.h): ANY number of threads, ANY interleaving.
   Threads are the small-step programs of Par/UFConc.v (findImpl: load / load /
   load / weak CAS per loop round; unite: two finds, two rank loads, strong CAS
   link, strong CAS rank bump, the retry loops), a configuration is the shared
   array plus all thread states, cstep lets any thread take one atomic step.
   When every call has returned, two elements have the same root iff the
   equivalence closure of the united pairs relates them; the (rank,id) parent
   order holds in every reachable configuration (so no cycle can ever form). *)
Theorem uf_partition :
  forall (n : nat) (ths0 : list thread) (st : uf_state) (ths : list thread),
    Forall (init_thread n) ths0 ->
    creach (uf_init n, ths0) (st, ths) ->
    Forall finished ths ->
    length st = n /\ ord_inv st /\
    forall a b, a < n -> b < n -> (same st a b <-> uf_equiv n (calls_of ths0) a b).
Proof. exact uf_concurrent_partition. Qed.
Print Assumptions uf_partition.

Example uf_partition_hyps_satisfiable :
  Forall (init_thread 4) [TU 0 1 (U_find1 1 (F_top 0)); TU 1 0 (U_find1 0 (F_top 1)); TF 3 (F_top 3)] /\
  cstep (uf_init 4, [TU 0 1 (U_find1 1 (F_top 0)); TF 3 (F_top 3)])
        (uf_init 4, set_nth 0 (TU 0 1 (U_find1 1 (F_done 0))) [TU 0 1 (U_find1 1 (F_top 0)); TF 3 (F_top 3)]).
Proof.
  split.
  - repeat constructor.
  - exact (CS (uf_init 4) [TU 0 1 (U_find1 1 (F_top 0)); TF 3 (F_top 3)] 0 _ _ _ eq_refl
              (TS_u _ 0 1 _ _ _ (US_f1 _ 1 _ _ _ (FS_top_root (uf_init 4) 0 0 eq_refl)))).
Qed.

(* Termination.  Sequentially (one thread): fuel n+1 always suffices, so the
   one-thread port always returns and yields the equivalence closure. *)
Theorem uf_sequential_terminates :
  forall (n : nat) (pairs : list (nat * nat)),
    Forall (fun pr => fst pr < n /\ snd pr < n) pairs ->
    exists st, uf_run_seq n pairs = Some st /\ length st = n /\ ord_inv st /\
               forall a b, a < n -> b < n -> (same st a b <-> uf_equiv n pairs a b).
Proof. exact uf_seq_partition_total. Qed.
Print Assumptions uf_sequential_terminates.

(* Under interleaving: every step that changes the shared array (= every
   successful compare-exchange: link, path halving, rank bump) strictly
   increases the measure  Phi = (sum of ranks)*(n^2+1) + (n^2 - sum_i above(parent i))
   and Phi is bounded (sum of ranks <= number of links, because each rank bump
   is paid for by a link of the same thread), so in ANY execution of ANY number
   of threads at most n*(n^2+1) + n^2 compare-exchanges succeed. *)
Theorem uf_successful_cas_bounded :
  forall (n : nat) (ths0 : list thread) (c : config) (k : nat),
    Forall (init_thread n) ths0 ->
    creach_k (uf_init n, ths0) c k -> k <= n * (n * n + 1) + n * n.
Proof. exact uf_cas_bound. Qed.
Print Assumptions uf_successful_cas_bounded.

(* PARTIAL (lock-freedom not closed): along a parent pointer the number of
   elements strictly above in the (rank,id) order decreases, and path halving
   does not change it (this is what bounds one find by n rounds and gives
   uf_sequential_terminates).  EXACT GAP: "between two array-changing steps every
   thread takes at most L(n) own steps" is not proved; it needs a per-thread
   potential that also covers the retry loops of unite (a strong CAS can fail
   once on a stale word; the retried attempt is computed from the unchanged
   array and then succeeds or returns).  With uf_successful_cas_bounded that
   would bound the length of every execution by (n*(n^2+1)+n^2+1) * T * L(n). *)
Theorem uf_above_decreases_partial :
  forall (st : uf_state) (x y : nat), klt st x y -> y < length st -> above st y < above st x.
Proof. exact above_decr. Qed.
Print Assumptions uf_above_decreases_partial.

(* ---- HashTableD::Insert (src/hashtable.h), keys only.  PARTIAL: safety for ANY
   interleaving — a claim (the strong CAS kOpen -> key by a thread that saw the
   earlier probe slots taken by other keys) preserves the open-addressing
   invariant; under it a key occupies at most one slot and operator[] finds it
   at that slot; and one thread's Insert (ported) either claims or finds the key.
   Missing: the value array, the Full()/used_ counter race, progress (an open
   slot is reached) for concurrent runs. *)
Theorem hash_insert_partial :
  forall (m : nat) (h : nat -> nat) (step : nat),
    (forall t t', ht_inv m h step t -> ht_claim m h step t t' -> ht_inv m h step t') /\
    (forall t s1 s2 K, ht_inv m h step t -> s1 < m -> s2 < m ->
        slot t s1 = Some K -> slot t s2 = Some K -> s1 = s2) /\
    (forall t s K, ht_inv m h step t -> s < m -> slot t s = Some K ->
        exists fuel, ht_find m h step fuel t K 0 = Some s) /\
    (forall fuel t K t' c, ht_inv m h step t -> 0 < m ->
        ht_insert_loop m h step fuel t K 0 = Some (t', c) ->
        ht_inv m h step t' /\ exists s, s < m /\ slot t' s = Some K).
Proof.
  intros m h step.
  exact (conj (ht_claim_preserves m h step)
        (conj (ht_key_unique m h step)
        (conj (ht_find_present m h step)
              (fun fuel t K t' c Hi Hm Hr =>
                 ht_insert_loop_spec m h step fuel t K 0 t' c Hi Hm (fun i' (Hlt : i' < 0) => match Nat.nlt_0_r i' Hlt with end) Hr)))).
Qed.
Print Assumptions hash_insert_partial.

Example hash_hyps_satisfiable :
  ht_run 8 (fun k => nth k [4; 7; 4; 4] 0) 1 9 (repeat None 8) 0 [0; 1; 0; 2; 3]
  = Some ([None; None; None; None; Some 0; Some 2; Some 3; Some 1], 4).
Proof. reflexivity. Qed.

(* ---- HashTableD::Insert with values and the used_ counter: ANY number of
   threads, ANY interleaving of the atomic steps (Full() load, strong CAS on the
   key slot, used_.fetch_add, value store) — Par/HTConc.v.  At quiescence every
   Insert that did not return because of Full() has its key in exactly one slot,
   operator[] reaches that slot, and the slot holds the value of the Insert that
   claimed it (an Insert of the same key; its own value if it claimed). *)
Theorem hash_insert :
  forall (m : nat) (h : nat -> nat) (step : nat) (ths0 : list hthread) (sh : hshared) (ths : list hthread),
    0 < m -> (forall t, In t ths0 -> ts t = I_full 0) ->
    hreach m h step (hinit m ths0) (sh, ths) ->
    (forall t, In t ths -> exists r, ts t = I_ret r) ->
    forall k t r, nth_error ths k = Some t -> ts t = I_ret r -> r <> RFull ->
    exists s fuel v', s < m /\ slot (hk sh) s = Some (tk t) /\
      ht_find m h step fuel (hk sh) (tk t) 0 = Some s /\
      (forall s2, s2 < m -> slot (hk sh) s2 = Some (tk t) -> s2 = s) /\
      slot (hv sh) s = Some v' /\
      (exists k0 t0, nth_error ths k0 = Some t0 /\ tk t0 = tk t /\ tv t0 = v' /\ ts t0 = I_ret (RClaimed s)) /\
      (r = RClaimed s -> v' = tv t).
Proof. exact hash_insert_concurrent. Qed.
Print Assumptions hash_insert.

(* used_ accounting: in every reachable configuration used_ + (claims whose
   fetch_add is pending) = number of claimed slots; at quiescence Entries() is
   the number of stored keys, so Full() then means "more than half the slots" *)
Theorem hash_used_accounting :
  forall (m : nat) (h : nat -> nat) (step : nat) (ths0 : list hthread) (c : hconfig),
    0 < m -> (forall t, In t ths0 -> ts t = I_full 0) ->
    hreach m h step (hinit m ths0) c ->
    hu (fst c) + cnt in_inc (snd c) = cnt is_some (hk (fst c)) /\
    ((forall t, In t (snd c) -> exists r, ts t = I_ret r) -> hu (fst c) = cnt is_some (hk (fst c))).
Proof. exact ht_used_accounting. Qed.
Print Assumptions hash_used_accounting.

(* probe sequences terminate while the table is not full (step = 1, the default):
   a thread still probing has passed i distinct taken slots, so i < Size() as long as a slot is open *)
Theorem hash_probe_terminates :
  forall (m : nat) (h : nat -> nat) (step : nat) (ths0 : list hthread) (sh : hshared) (ths : list hthread),
    step = 1 -> 0 < m -> (forall t, In t ths0 -> ts t = I_full 0) ->
    hreach m h step (hinit m ths0) (sh, ths) ->
    forall k t i, nth_error ths k = Some t -> (ts t = I_full i \/ ts t = I_cas i) ->
    (exists s, s < m /\ slot (hk sh) s = None) -> i < m.
Proof. exact ht_probe_terminates. Qed.
Print Assumptions hash_probe_terminates.

