(* C04 — results are bit-identical across schedules, thread counts and backends.

   What is PROVED here is the normalisation layer: each idiom the library uses
   to erase scheduling order, ported from the code (Par/NormaliseDefs.v), is
   schedule independent for ALL inputs and ALL schedules, under hypotheses that
   are stated and shown necessary.  "The stable sort" is any output satisfying
   the C++ specification of std::stable_sort (sorted w.r.t. the comparator,
   equivalent elements keep their order), so the statements cover
   std::stable_sort and parallel.h's merge / radix sorts alike.

   What is NOT proved (named gaps, repeated in the evidence file):
   GAP 1  AppendWholeEdges (boolean_result.cpp:475) hands out the slots of a
          face with AtomicAdd(facePtr), so the slot order of a face's halfedges
          depends on the schedule.  PROVED since round 3
          (assemble_halfedges_slot_order_independent): Face2Tri's loop assembly
          (AssembleHalfedges, ported) does NOT start from the first slot but
          from the smallest startVert of a std::multimap, so for a face whose
          startVerts are distinct the contours - as sequences of halfedge
          CONTENTS, including their rotation and their order - are the same
          for every slot order; what differs is only the slot NUMBER that
          labels each halfedge (PolyVert::idx).  REMAINS, not proved, tied
          dynamically by harness/c04_tri.cpp: the triangulator
          (TriangulateIdxHalfedges) must be equivariant under a relabelling of
          idx.  For a pinched face (a startVert occurring twice) the slot order
          does leak (assemble_pinched_face_slot_order_refuted).
   GAP 2  Winding03_ evaluates the winding number at ONE vertex per connected
          component, the concurrent union-find root, whose identity depends on
          the schedule.  PROVED (winding03_schedule_independent_given_constant_winding,
          on top of C13's uf_partition): the vertex->component map is
          schedule independent, and the result is too IF the winding oracle is
          constant on every component.  That hypothesis is geometric (Kernel02
          on doubles), NOT proved, tied dynamically by harness/c04_wind.cpp
          which evaluates the winding at EVERY vertex of every component.
   GAP 3  The end-to-end claim (whole programs) is explored, not proved:
          checks/C04.py compares byte hashes across builds, arenas and seeds.

   Only statements closed by `exact`, each followed by Print Assumptions. *)
From Coq Require Import ZArith List Bool Arith Permutation Sorted String.
From MV Require Import Par.NormaliseDefs Par.Normalise Par.NormaliseGen Par.NormaliseC13 Par.ParDefs Par.NormaliseGaps Par.Containers Par.UFConc Gen.Idioms.
Import ListNotations.

(* (a) sort_after_combine: records of a parallel loop are appended to
   thread-local lists by an arbitrary assignment of leaves to workers, leaves
   run in an arbitrary order, combine_each visits the workers in an arbitrary
   order; if the comparator separates the records actually produced, every
   stable sort of every such combination is the same list. *)
Theorem sort_after_combine :
  forall (A : Type) (lt : A -> A -> bool), strict_weak lt ->
  forall (chunks : list (list A)) (e1 : exec) (v1 : list nat) (e2 : exec) (v2 : list nat) (o1 o2 : list A),
    legal_run chunks e1 v1 -> legal_run chunks e2 v2 ->
    key_injective_on lt (List.concat chunks) ->
    is_stable_sort_of lt (combine_each v1 e1) o1 ->
    is_stable_sort_of lt (combine_each v2 e2) o2 ->
    o1 = o2.
Proof. exact (@sort_after_combine_lemma). Qed.
Print Assumptions sort_after_combine.

(* the specification of "stable sort" is inhabited (insertion sort), for every
   strict weak order and every input *)
Theorem stable_sort_exists :
  forall (A : Type) (lt : A -> A -> bool), strict_weak lt ->
  forall l : list A, is_stable_sort_of lt l (stable_sort lt l).
Proof. exact (@stable_sort_spec). Qed.
Print Assumptions stable_sort_exists.

(* manifold::stable_sort on the parallel path: C13's model of mergeSort /
   mergeSortRec / mergeRec (Par/ParDefs.merge_sort; proved equal to the stable
   insertion sort in Par/SortModel.v, tied to src/parallel.h by C13's
   correspondence and by the StableMergeBounds entry of the generated table)
   terminates and meets the stable-sort specification used above, for every
   strict weak order, every sequential threshold >= 2 and every input. *)
Theorem parallel_merge_sort_meets_stable_spec :
  forall (A : Type) (lt : A -> A -> bool), strict_weak lt ->
  forall (thr : nat) (l : list A), 2 <= thr ->
    exists o, merge_sort lt thr l = Some o /\ is_stable_sort_of lt l o.
Proof. exact (@parallel_merge_sort_meets_spec_lemma). Qed.
Print Assumptions parallel_merge_sort_meets_stable_spec.

(* Intersect12_ (boolean3.cpp:288-375): the comparator is the ported lambda on
   (p1q2[index], p1q2[1-index]); no injectivity hypothesis is needed because
   the payload (x12, v12) is a function k12 of the (edge, face) pair. *)
Theorem sort_after_combine_intersect12 :
  forall (P : Type) (forward : bool) (k12 : Z * Z -> P) (chunks : list (list (Z * Z)))
         (e1 : exec) (v1 : list nat) (e2 : exec) (v2 : list nat) (o1 o2 : list ((Z * Z) * P)),
    legal_run (map (i12_records k12) chunks) e1 v1 ->
    legal_run (map (i12_records k12) chunks) e2 v2 ->
    is_stable_sort_of (i12_lt forward) (combine_each v1 e1) o1 ->
    is_stable_sort_of (i12_lt forward) (combine_each v2 e2) o2 ->
    o1 = o2.
Proof. exact (@intersect12_normalised_lemma). Qed.
Print Assumptions sort_after_combine_intersect12.

(* Example: two legal runs with different combined lists, equal after sorting *)
Example sort_after_combine_example :
  legal_run ex_chunks ex_exec1 [1%nat; 0%nat] /\ legal_run ex_chunks ex_exec2 [2%nat; 7%nat; 5%nat] /\
  combine_each [1%nat; 0%nat] ex_exec1 <> combine_each [2%nat; 7%nat; 5%nat] ex_exec2 /\
  stable_sort (i12_lt true) (combine_each [1%nat; 0%nat] ex_exec1) =
  stable_sort (i12_lt true) (combine_each [2%nat; 7%nat; 5%nat] ex_exec2).
Proof. exact (conj ex_legal1 (conj ex_legal2 ex_sorted_equal)). Qed.

(* the injectivity hypothesis is necessary: with a comparator that does not
   separate the records a stable sort leaks the combine order *)
Theorem sort_after_combine_without_injective_key_refuted :
  exists (chunks : list (list (Z * Z))) (e : exec) (v1 v2 : list nat),
    strict_weak fst_lt /\ legal_run chunks e v1 /\ legal_run chunks e v2 /\
    stable_sort fst_lt (combine_each v1 e) <> stable_sort fst_lt (combine_each v2 e).
Proof. exact sort_after_combine_needs_injective_key_lemma. Qed.
Print Assumptions sort_after_combine_without_injective_key_refuted.

(* the general fact behind all of it: the output of a stable sort is a
   function of the per-equivalence-class subsequences of its input *)
Theorem stable_sort_determined_by_classes :
  forall (A : Type) (lt : A -> A -> bool), strict_weak lt ->
  forall l1 l2 o1 o2 : list A,
    same_classes lt l1 l2 -> is_stable_sort_of lt l1 o1 -> is_stable_sort_of lt l2 o2 -> o1 = o2.
Proof. exact (@stable_sort_determined). Qed.
Print Assumptions stable_sort_determined_by_classes.

(* std::sort instead of stable_sort: still one possible output when (and, by
   the refuted example, only when) the comparator separates the records *)
Theorem unstable_sort_is_stable_when_key_injective :
  forall (A : Type) (lt : A -> A -> bool), strict_weak lt ->
  forall l o : list A, key_injective_on lt l -> is_unstable_sort_of lt l o -> is_stable_sort_of lt l o.
Proof. exact (@unstable_is_stable_when_injective). Qed.
Print Assumptions unstable_sort_is_stable_when_key_injective.

(* FlagStore::run_par (edge_op.cpp:62-91): indices under < *)
Theorem flagstore_run_par_deterministic :
  forall (chunks : list (list Z)) (e1 : exec) (v1 : list nat) (e2 : exec) (v2 : list nat) (o1 o2 : list Z),
    legal_run chunks e1 v1 -> legal_run chunks e2 v2 ->
    is_stable_sort_of Z.ltb (combine_each v1 e1) o1 ->
    is_stable_sort_of Z.ltb (combine_each v2 e2) o2 -> o1 = o2.
Proof. exact flagstore_lemma. Qed.
Print Assumptions flagstore_run_par_deterministic.

(* pinched / duplicates (edge_op.cpp:1150-1160, 1296-1305): leaves append under
   a mutex in any order, then stable_sort + unique *)
Theorem pinched_duplicates_deterministic :
  forall (leaves1 leaves2 : list (list Z)) (o1 o2 : list Z),
    Permutation leaves1 leaves2 ->
    is_stable_sort_of Z.ltb (mutex_append leaves1) o1 ->
    is_stable_sort_of Z.ltb (mutex_append leaves2) o2 ->
    unique_z o1 = unique_z o2.
Proof. exact mutex_append_sorted_lemma. Qed.
Print Assumptions pinched_duplicates_deterministic.

(* RadixSortPairs (boolean2.cpp:634): the 64-bit encoding orders pairs
   lexicographically, so sorting the codes is sorting by a separating key *)
Theorem radix_pairs_encoding_is_lexicographic :
  forall a b : Z * Z,
    (0 <= snd a < 4294967296)%Z -> (0 <= snd b < 4294967296)%Z ->
    Z.ltb (encode_pair a) (encode_pair b) = lex_lt [fst; snd] a b.
Proof. exact encode_pair_lex. Qed.
Print Assumptions radix_pairs_encoding_is_lexicographic.

(* (b) EdgePos::operator< (boolean_result.cpp:191-202) is a strict total order
   on entries with distinct collisionIds *)
Theorem edgepos_order_total :
  (forall a, edgepos_lt a a = false) /\
  (forall a b c, edgepos_lt a b = true -> edgepos_lt b c = true -> edgepos_lt a c = true) /\
  (forall a b, collisionId a <> collisionId b -> edgepos_lt a b = true \/ edgepos_lt b a = true).
Proof. exact edgepos_order_total_lemma. Qed.
Print Assumptions edgepos_order_total.

(* hence sorting erases the insertion order of a concurrent bucket *)
Theorem edgepos_sort_erases_insertion_order :
  forall l1 l2 o1 o2 : list EdgePos,
    Permutation l1 l2 -> NoDup (map collisionId l1) ->
    is_stable_sort_of edgepos_lt l1 o1 -> is_stable_sort_of edgepos_lt l2 o2 -> o1 = o2.
Proof. exact edgepos_sort_erases_order_lemma. Qed.
Print Assumptions edgepos_sort_erases_insertion_order.

(* what the code really has: one collision pushes |inclusion| entries with
   the SAME collisionId as one locked run (boolean_result.cpp:232-240), runs
   arrive in any order; the stable_sort at the top of AppendPartialEdges /
   AppendNewEdges still yields one list, provided entries of different runs
   never agree on (edgePos, collisionId) *)
Theorem edgepos_bucket_canonical :
  forall (runs1 runs2 : list (list EdgePos)) (o1 o2 : list EdgePos),
    Permutation runs1 runs2 ->
    (forall r1 r2 a b, In r1 runs1 -> In r2 runs1 -> In a r1 -> In b r2 ->
                       edgePos a = edgePos b -> collisionId a = collisionId b -> r1 = r2) ->
    is_stable_sort_of edgepos_lt (List.concat runs1) o1 ->
    is_stable_sort_of edgepos_lt (List.concat runs2) o2 -> o1 = o2.
Proof. exact edgepos_bucket_canonical_lemma. Qed.
Print Assumptions edgepos_bucket_canonical.

Example edgepos_bucket_example :
  (forall r1 r2 a b, In r1 ex_runs -> In r2 ex_runs -> In a r1 -> In b r2 ->
                     edgePos a = edgePos b -> collisionId a = collisionId b -> r1 = r2) /\
  stable_sort edgepos_lt (List.concat ex_runs) = stable_sort edgepos_lt (List.concat (rev ex_runs)).
Proof. exact (conj ex_runs_hyp ex_runs_sorted). Qed.

(* (c) ReorderHalfedges (sort.cpp:563): whatever rotation each triangle's
   halfedges have in their three slots (pair indices pointing at the rotated
   slots), the result is the same, provided every triangle attains its
   smallest startVert once and has no removed halfedge. *)
Theorem reorder_halfedges_canonical :
  forall (m : list tri) (r : list nat),
    Forall tri_unique_min m ->
    reorder_halfedges (rotate_mesh r m) = reorder_halfedges m.
Proof. exact reorder_halfedges_canonical_lemma. Qed.
Print Assumptions reorder_halfedges_canonical.

Example reorder_halfedges_example :
  Forall tri_unique_min tet /\ rotate_mesh [1; 2; 0; 2]%nat tet <> tet /\
  reorder_halfedges (rotate_mesh [1; 2; 0; 2]%nat tet) = reorder_halfedges tet /\
  exists out, reorder_halfedges tet = Some out.
Proof. exact (conj tet_unique_min tet_reorder_example). Qed.

(* the hypothesis is necessary: a triangle with a repeated smallest startVert
   keeps a trace of its rotation *)
Theorem reorder_halfedges_without_unique_min_refuted :
  exists (m : list tri) (r : list nat), reorder_halfedges (rotate_mesh r m) <> reorder_halfedges m.
Proof. exact reorder_needs_unique_min. Qed.
Print Assumptions reorder_halfedges_without_unique_min_refuted.

(* GAP 1, the part that is proved: Face2Tri's three-edge branch emits a
   rotation of the triangle for every order of its halfedges in the slots.
   Missing: faces with four or more edges (AssembleHalfedges + triangulator). *)
Theorem face2tri_single_triangle_slot_order_partial :
  forall a b c : Z, a <> b -> b <> c -> c <> a ->
  forall h0 h1 h2 : Z * Z, In (h0, h1, h2) (perms3 (a, b) (b, c) (c, a)) ->
  In (face3 h0 h1 h2) [(a, b, c); (b, c, a); (c, a, b)].
Proof. exact face3_rotation_lemma. Qed.
Print Assumptions face2tri_single_triangle_slot_order_partial.

(* GAP 1: AssembleHalfedges (face_op.cpp:41-66), ported with its multimap.
   For a face whose halfedges have distinct startVerts, every assignment of
   the halfedges to the face's slots yields the same contours as sequences of
   halfedge contents (same order of contours, same rotation): the loop
   assembly starts from the smallest startVert, not from the first slot.  Both
   sides are Some (the assembly succeeded) or both None together. *)
Theorem assemble_halfedges_slot_order_independent :
  forall es es' : list (Z * Z),
    Permutation es es' -> NoDup (map fst es) ->
    option_map (contents es) (assemble_halfedges es) =
    option_map (contents es') (assemble_halfedges es').
Proof. exact assemble_slot_order_independent_lemma. Qed.
Print Assumptions assemble_halfedges_slot_order_independent.

Example assemble_halfedges_example :
  Permutation face_a face_a_perm /\ NoDup (map fst face_a) /\
  assemble_halfedges face_a <> assemble_halfedges face_a_perm /\
  option_map (contents face_a) (assemble_halfedges face_a) =
    Some [[(1,2);(2,3);(3,4);(4,1)]; [(5,6);(6,7);(7,5)]]%Z /\
  option_map (contents face_a_perm) (assemble_halfedges face_a_perm) =
    Some [[(1,2);(2,3);(3,4);(4,1)]; [(5,6);(6,7);(7,5)]]%Z.
Proof. exact face_a_example. Qed.

(* the distinct-startVert hypothesis is necessary: a pinched face *)
Theorem assemble_pinched_face_slot_order_refuted :
  exists es es' : list (Z * Z),
    Permutation es es' /\
    option_map (contents es) (assemble_halfedges es) <> option_map (contents es') (assemble_halfedges es').
Proof. exact assemble_pinched_face_depends_on_slots. Qed.
Print Assumptions assemble_pinched_face_slot_order_refuted.

(* GAP 2: Winding03_ (boolean3.cpp:398-458).  Two complete runs of the same
   unite calls under ANY interleavings (C13's concurrent union-find model) give
   the same vertex->component relation, and the same w03 array provided the
   winding oracle agrees on any two vertices of one component; root1 / root2
   are whatever roots the two runs ended with. *)
Theorem winding03_schedule_independent_given_constant_winding :
  forall (n : nat) (ths0 : list thread) (st1 : uf_state) (ths1 : list thread)
         (st2 : uf_state) (ths2 : list thread) (wind : nat -> Z) (root1 root2 : nat -> nat),
    Forall (init_thread n) ths0 ->
    creach (uf_init n, ths0) (st1, ths1) -> Forall finished ths1 ->
    creach (uf_init n, ths0) (st2, ths2) -> Forall finished ths2 ->
    (forall v, v < n -> root_of st1 v (root1 v)) ->
    (forall v, v < n -> root_of st2 v (root2 v)) ->
    (forall a b, a < n -> b < n -> uf_equiv n (calls_of ths0) a b -> wind a = wind b) ->
    (forall a b, a < n -> b < n -> (same st1 a b <-> same st2 a b)) /\
    forall v, v < n -> w03_result wind root1 v = w03_result wind root2 v.
Proof. exact winding03_lemma. Qed.
Print Assumptions winding03_schedule_independent_given_constant_winding.

Example winding03_hyps_satisfiable :
  Forall (init_thread 2) [] /\ creach (uf_init 2, []) (uf_init 2, []) /\ Forall finished [] /\
  (forall v, v < 2 -> root_of (uf_init 2) v v).
Proof. exact winding03_example. Qed.

(* (d) BatchBoolean's heap (csg_tree.cpp:32-42, 449-487): MeshCompare with the
   serial tie-break has a unique maximum, so the sequence of pops is the same
   for every heap layout; NumVert is an oracle *)
Theorem heap_order_deterministic :
  forall (P : Type) (o1 l1 l2 o2 : list ((Z * Z) * P)),
    Permutation l1 l2 -> NoDup (map (fun x => snd (mc_key x)) l1) ->
    drain l1 o1 -> drain l2 o2 -> o1 = o2.
Proof. exact (@drain_deterministic). Qed.
Print Assumptions heap_order_deterministic.

Example heap_order_example :
  NoDup (map (fun x => snd (mc_key x)) ex_heap) /\
  drain ex_heap [((24, 3), 103); ((24, 1), 101); ((8, 2), 102); ((8, 0), 100)]%Z.
Proof. exact ex_heap_drains. Qed.

(* tasks that finish in any order write distinct slots (parallelTmp[i],
   results[face], w03[verts[i]]): the array does not depend on the order *)
Theorem slot_writes_commute :
  forall (A : Type) (ws1 ws2 : list (nat * A)),
    Permutation ws1 ws2 -> NoDup (map fst ws1) ->
    forall init : list A, apply_writes init ws1 = apply_writes init ws2.
Proof. exact (@slot_writes_commute_lemma). Qed.
Print Assumptions slot_writes_commute.

(* (e) composition *)
Theorem composition :
  forall (S X : Type) (stages : list (S -> X -> X)),
    Forall (fun f => forall s1 s2 x, f s1 x = f s2 x) stages ->
    forall (ss1 ss2 : list S) (x : X),
      List.length ss1 = List.length stages -> List.length ss2 = List.length stages ->
      run_pipeline stages ss1 x = run_pipeline stages ss2 x.
Proof. exact (@composition_lemma). Qed.
Print Assumptions composition.

(* the table generated from /repo/src by translate/c04_idioms.py: every
   combinable / AtomicAdd / concurrent-container / mutex-append / task-group
   site is followed by a recognised normalisation or a justified allow-list
   entry, EXCEPT the sites flagged as schedule dependent (reported as
   violations with a replay), and the sites the theorems above are about exist
   with the normalisation the theorems assume *)
Theorem all_combines_normalised_except_flagged :
  sites_ok sites = true /\ expected_sites = true.
Proof. exact gen_all_combines_normalised. Qed.
Print Assumptions all_combines_normalised_except_flagged.

(* the comparators in the sources have the lexicographic shape that is modelled *)
Theorem comparators_as_modelled :
  cmp_i12 = Some ["p1q2[_][index]"; "p1q2[_][1-index]"]%string /\
  cmp_edgepos = Some ["edgePos"; "collisionId"]%string /\
  cmp_meshCompare = Some ["NumVert"; "second"]%string.
Proof. exact gen_comparators_as_modelled. Qed.
Print Assumptions comparators_as_modelled.
