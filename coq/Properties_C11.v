(* C11 — CrossSections are regularized and 2D Booleans compute the set operation.
   Level: translation_validation.  Only statements closed by `exact`, each
   followed by Print Assumptions.

   Layout: (1) the exact specification side (Wind2): winding number, pixel
   semantics, the code's fill rules; (2) soundness of the extracted checkers
   regular_check / formula_check that judge every output of the library;
   (3) proved integer/topological kernels of the implementation, for every
   answer of the floating-point oracles.
   NOT proved (decided on outputs by the checkers): that the sweep discovers
   every crossing and keeps the status order (Bentley-Ottmann correctness under
   the block rule), vertex merging and the incidence pre-split. *)
From Coq Require Import ZArith List Bool Permutation Sorting.Sorted.
From MV Require Import Geo.Wind2Defs Geo.Wind2 Geo.RegularDefs Geo.Regular.
From MV Require Geo.Vert1DDefs Geo.Vert1D Geo.WalkDefs Geo.Walk.
From MV Require Import Geo.EpsSitesDefs Gen.C11Eps Geo.EpsSites.
Import ListNotations.
Local Open Scope Z_scope.

(* ------------------------------------------------------------------ *)
(* (1) specification side                                              *)

Theorem wind2_app : forall (cs1 cs2 : list contour) (p : pt),
  wind2 (cs1 ++ cs2) p = wind2 cs1 p + wind2 cs2 p.
Proof. exact Wind2.wind2_app. Qed.
Print Assumptions wind2_app.

Theorem wind2_rotate : forall (n : nat) (c : contour) (p : pt),
  (n <= length c)%nat -> wind_contour (rotl n c) p = wind_contour c p.
Proof. exact Wind2.wind2_rotate. Qed.
Print Assumptions wind2_rotate.

Theorem wind2_reverse : forall (c : contour) (p : pt), wind_contour (rev c) p = - wind_contour c p.
Proof. exact Wind2.wind2_reverse. Qed.
Print Assumptions wind2_reverse.

Theorem area2_rotate_reverse : forall (n : nat) (c : contour), (n <= length c)%nat ->
  area2_contour (rotl n c) = area2_contour c /\ area2_contour (rev c) = - area2_contour c.
Proof. exact (fun n c H => conj (Wind2.area2_rotate n c H) (Wind2.area2_reverse c)). Qed.
Print Assumptions area2_rotate_reverse.

(* a CCW rectangle [x0,x1]x[y0,y1]: winding 1 strictly inside, 0 strictly outside *)
Theorem wind2_rect : forall x0 y0 x1 y1 px py : Z,
  x0 < x1 -> y0 < y1 ->
  (x0 < px < x1 -> y0 < py < y1 -> wind2 [rect x0 y0 x1 y1] (px, py) = 1) /\
  (px < x0 \/ x1 < px \/ py < y0 \/ y1 < py -> wind2 [rect x0 y0 x1 y1] (px, py) = 0).
Proof. exact Wind2.wind2_rect. Qed.
Print Assumptions wind2_rect.
Example wind2_rect_ex : wind2 [rect 1 1 4 3] (2, 2) = 1 /\ wind2 [rect 1 1 4 3] (5, 2) = 0 /\ wind2 [rev (rect 1 1 4 3)] (2, 2) = -1.
Proof. vm_compute. repeat split. Qed.

(* doubled coordinates: at the centre of pixel (i,j) the winding number of a lattice rectangle is the pixel indicator *)
Theorem wind2_rect_pixel : forall x0 y0 x1 y1 i j : Z,
  x0 < x1 -> y0 < y1 -> wind2 [rect2 x0 y0 x1 y1] (centre i j) = b2z (in_rect x0 y0 x1 y1 i j).
Proof. exact Wind2.wind2_rect_pixel. Qed.
Print Assumptions wind2_rect_pixel.

(* any Boolean expression over lattice rectangles: point-set semantics through
   winding numbers at pixel centres = the Boolean formula of the leaves' pixel sets *)
Theorem pixel_spec : forall (e : rexpr) (i j : Z), rexpr_wf e = true -> spec_inside e (centre i j) = pix e i j.
Proof. exact Wind2.pixel_spec. Qed.
Print Assumptions pixel_spec.
Example pixel_spec_ex : let e := RDiff (RUnion (RLeaf 0 0 3 2) (RLeaf 2 1 5 4)) (RLeaf 1 1 4 3) in
  rexpr_wf e = true /\ map (fun i => pix e i 1) [0;1;2;3;4] = [true;false;false;false;true]
  /\ map (fun i => spec_inside e (centre i 0)) [0;1;2;3] = [true;true;true;false].
Proof. vm_compute. repeat split. Qed.

(* the ported IsInside / Boolean2D rule selection on unit operands *)
Theorem fill_rule_table : forall (a b : bool),
  boolean2d_inside OpAdd (b2z a) (b2z b) = a || b /\
  boolean2d_inside OpIntersect (b2z a) (b2z b) = a && b /\
  boolean2d_inside OpSubtract (b2z a) (b2z b) = a && negb b /\
  is_inside WEvenOdd (b2z a + b2z b) = xorb a b /\
  is_inside WAdd (b2z a) = a /\ is_inside WEvenOdd (b2z a) = a /\ is_inside WEvenOdd (- b2z a) = a.
Proof. exact Wind2.fill_rule_table. Qed.
Print Assumptions fill_rule_table.

Theorem fill_rule_table_op : forall (op : op_type) (wa wb : Z), (wa = 0 \/ wa = 1) -> (wb = 0 \/ wb = 1) ->
  boolean2d_inside op wa wb = set_op op (0 <? wa) (0 <? wb).
Proof. exact Wind2.fill_rule_table_op. Qed.
Print Assumptions fill_rule_table_op.

(* BatchBoolean(Add / Subtract) concatenates the clips into one operand *)
Theorem batch_rule_table : forall (wa : Z) (ws : list Z), (wa = 0 \/ wa = 1) -> Forall (fun w => w = 0 \/ w = 1) ws ->
  is_inside WAdd (zsum (wa :: ws)) = (0 <? wa) || existsb (fun w => 0 <? w) ws /\
  is_inside WAdd (wa + -1 * zsum ws) = (0 <? wa) && negb (existsb (fun w => 0 <? w) ws).
Proof.
  exact (fun wa ws Ha H => conj (Wind2.add_rule_many (wa :: ws) (Forall_cons wa Ha H)) (Wind2.subtract_rule_many wa ws Ha H)).
Qed.
Print Assumptions batch_rule_table.

(* Which epsilon an arrangement resolves at: the table Gen/C11Eps.v is regenerated
   from src/cross_section.cpp on every run (translate/c11_eps.py); every call of
   Boolean2D / ApplyFillRule made by CrossSection (Boolean, BatchBoolean, the
   fill-rule constructors, WarpBatch) passes eps = InferEps(its own polygon
   arguments) - the "epsilon of the input edges" of the property - and never an
   inherited tolerance_. *)
Theorem eps_is_inferred_from_input_edges : eps_sites_ok eps_sites = true.
Proof. exact EpsSites.eps_sites_table_ok. Qed.
Print Assumptions eps_is_inferred_from_input_edges.

(* ------------------------------------------------------------------ *)
(* (2) the verified output checkers                                    *)

(* exact segment test: if it answers "no conflict" then the two closed
   segments have no common (rational) point other than a shared endpoint *)
Theorem seg_conflict_sound : forall e f : seg, fst e <> snd e -> fst f <> snd f ->
  seg_conflict e f = false -> ~ seg_conflict_decl e f.
Proof. exact Regular.seg_conflict_sound. Qed.
Print Assumptions seg_conflict_sound.
Example seg_conflict_ex :
  seg_conflict ((0,0),(4,4)) ((0,4),(4,0)) = true /\      (* proper crossing *)
  seg_conflict ((0,0),(4,0)) ((2,0),(2,3)) = true /\      (* T-junction *)
  seg_conflict ((0,0),(4,0)) ((2,0),(6,0)) = true /\      (* collinear overlap *)
  seg_conflict ((0,0),(4,0)) ((4,0),(6,0)) = false /\     (* collinear, end to end *)
  seg_conflict ((0,0),(4,0)) ((4,0),(4,3)) = false /\     (* shared endpoint *)
  seg_conflict ((0,0),(4,0)) ((0,1),(4,1)) = false.       (* parallel *)
Proof. vm_compute. repeat split. Qed.

(* regular_check: contours simple, no two edges cross/overlap/touch except at
   common endpoints (all pairs, by a proved x-sorted sweep), winding 0/1 at the samples *)
Theorem regular_check_sound : forall (cs : list contour) (pts : list pt), regular_check cs pts = true ->
  (forall c, In c cs -> NoDup c /\ (3 <= length c)%nat) /\
  (forall e, In e (all_edges cs) -> fst e <> snd e) /\
  ForallOrdPairs (fun e f => ~ seg_conflict_decl e f) (all_edges cs) /\
  (forall p, In p pts -> wind2 cs p = 0 \/ wind2 cs p = 1).
Proof. exact Regular.regular_check_sound. Qed.
Print Assumptions regular_check_sound.
Example regular_check_ex :
  regular_check [rect 0 0 4 4; rev (rect 1 1 3 3)] [(2,2); (0,0); (5,5); (1,2)] = true /\
  regular_check [[(0,0);(4,4);(4,0);(0,4)]] [] = false /\                 (* bow-tie *)
  regular_check [rect 0 0 4 4; rect 2 0 6 4] [] = false /\                (* overlapping edges *)
  regular_check [rect 0 0 4 4; rect 1 1 3 3] [(2,2)] = false.             (* winding 2 *)
Proof. vm_compute. repeat split. Qed.

(* exact distance test used to exclude samples within E of an input edge *)
Theorem far1_sound : forall (E : Z) (p : pt) (e : seg), 0 <= E -> far1 E p e = true -> seg_far_decl (E * E) p e.
Proof. exact Regular.far1_sound. Qed.
Print Assumptions far1_sound.

(* formula_check: at every sample farther than E from all input edges the
   result's winding number is 1 where the set formula holds and 0 elsewhere *)
Theorem formula_check_sound : forall (E : Z) (e : fexpr) (result : list contour) (pts : list pt),
  0 <= E -> formula_check E e result pts = true ->
  forall p, In p pts -> far_all E p (fedges e) = true ->
    (forall g, In g (fedges e) -> seg_far_decl (E * E) p g) /\ wind2 result p = b2z (feval e p).
Proof. exact Regular.formula_check_sound. Qed.
Print Assumptions formula_check_sound.
Example formula_check_ex :
  let a := [rect 0 0 4 4] in let b := [rect 2 2 6 6] in
  formula_check 0 (FAnd (FPos a) (FPos b)) [rect 2 2 4 4] [(3,3); (1,1); (5,5); (3,1)] = true /\
  formula_check 0 (FAnd (FPos a) (FPos b)) [rect 0 0 4 4] [(3,3); (1,1)] = false /\
  count_far 1 (FAnd (FPos a) (FPos b)) [(3,3); (1,1); (4,3); (9,9)] = 1.
Proof. vm_compute. repeat split. Qed.

(* with winding in {0,1} the sum of windings over the pixel centres is the pixel count *)
Theorem wind_sum_is_pixel_count : forall (cs : list contour) (pts : list pt), wind01 cs pts = true ->
  wind_sum cs pts = Z.of_nat (length (filter (fun p => wind2 cs p =? 1) pts)).
Proof. exact Regular.wind_sum_01. Qed.
Print Assumptions wind_sum_is_pixel_count.

(* ------------------------------------------------------------------ *)
(* (3) kernels of the implementation (for every oracle answer)         *)

(* MergeVerticals1D on one x-group: signed coverage is preserved at every ordinate *)
Theorem verticals_coverage : forall (segs : list Vert1DDefs.vseg) (t : Z),
  Vert1DDefs.cov (Vert1DDefs.merge_verticals_1d segs) t = Vert1DDefs.cov segs t.
Proof. exact Vert1D.verticals_coverage. Qed.
Print Assumptions verticals_coverage.

Theorem verticals_output_shape : forall segs : list Vert1DDefs.vseg,
  let out := Vert1DDefs.merge_verticals_1d segs in
  (forall lo hi m, In (lo, hi, m) out -> lo < hi /\ m <> 0) /\
  StronglySorted Vert1DDefs.seg_before out /\
  (forall lo hi m, In (lo, hi, m) out ->
     In lo (map fst (Vert1DDefs.build_delta segs)) /\ In hi (map fst (Vert1DDefs.build_delta segs))).
Proof. exact Vert1D.verticals_output_shape. Qed.
Print Assumptions verticals_output_shape.

(* PolySetAdd is addition in the chain group; a split [l->r] = [l->q] + [q->r]
   keeps the 0-boundary for EVERY q (the crossing point is a floating-point oracle) *)
Theorem polyset_add_bdry : forall (ps : Vert1DDefs.polyset) (a b : Vert1DDefs.pt) (m : Z) (v : Vert1DDefs.pt),
  Vert1DDefs.bdry (Vert1DDefs.polyset_add ps a b m) v
  = Vert1DDefs.bdry ps v + m * ((if Vert1DDefs.pt_eqb b v then 1 else 0) - (if Vert1DDefs.pt_eqb a v then 1 else 0)).
Proof. exact Vert1D.polyset_add_bdry. Qed.
Print Assumptions polyset_add_bdry.

Theorem split_preserves_chain : forall (ps : Vert1DDefs.polyset) (l q r : Vert1DDefs.pt) (m : Z) (v : Vert1DDefs.pt),
  Vert1DDefs.bdry (Vert1DDefs.polyset_add (Vert1DDefs.polyset_add ps l q m) q r m) v
  = Vert1DDefs.bdry (Vert1DDefs.polyset_add ps l r m) v.
Proof. exact Vert1D.split_preserves_chain. Qed.
Print Assumptions split_preserves_chain.

Theorem polyset_add_wf : forall (ps : Vert1DDefs.polyset) (a b : Vert1DDefs.pt) (m : Z),
  Vert1DDefs.polyset_wf ps -> Vert1DDefs.polyset_wf (Vert1DDefs.polyset_add ps a b m).
Proof. exact Vert1D.polyset_add_wf. Qed.
Print Assumptions polyset_add_wf.

(* closed input contours seed a balanced PolySet2 *)
Theorem closed_input_balanced : forall (cs : list (list Vert1DDefs.pt * Z)) (v : Vert1DDefs.pt),
  Vert1DDefs.bdry (Vert1DDefs.build_polyset cs) v = 0.
Proof. exact Vert1D.closed_input_balanced. Qed.
Print Assumptions closed_input_balanced.

(* partial: the port of the whole SweepPass (status_/pending_/events_, block
   rule) is not modelled; what is proved is that each primitive it uses to
   change the edge set (PolySetAdd, SplitAt = two adds, MergeVerticals1D)
   preserves the 0-boundary / coverage.  That every emitted piece goes
   through these primitives is by reading, not by proof. *)

(* OutEdgesToPolygons: on a balanced directed multigraph every walk closes and
   every edge is consumed exactly once, whatever the turn-choice oracle picks *)
Theorem balanced_walks_close :
  forall pick, Walk.pick_ok pick ->
  forall edges, Walk.balanced edges ->
  exists ws,
    WalkDefs.walks_full pick edges = Some ws /\
    (forall w, In w ws ->
       WalkDefs.walk_closed w = true /\
       WalkDefs.walk_verts w = map (fun e => fst (WalkDefs.edge_of edges e)) (WalkDefs.walk_edges w) /\
       WalkDefs.cyc_pairs (WalkDefs.walk_verts w) = map (WalkDefs.edge_of edges) (WalkDefs.walk_edges w)) /\
    Permutation (concat (map WalkDefs.walk_edges ws)) (seq 0 (length edges)) /\
    Permutation (concat (map (fun w => WalkDefs.cyc_pairs (WalkDefs.walk_verts w)) ws)) edges.
Proof. exact Walk.balanced_walks_close. Qed.
Print Assumptions balanced_walks_close.

(* ... and the emitted loops (after PushSimpleLoops) have no repeated vertex,
   at least 3 vertices, and the same chain as the retained edges *)
Theorem out_edges_to_loops_sound :
  forall pick, Walk.pick_ok pick ->
  forall edges, Walk.balanced edges ->
  exists ls,
    WalkDefs.out_edges_to_loops pick edges = Some ls /\
    (forall l, In l ls -> NoDup l /\ (3 <= length l)%nat) /\
    (forall a b, WalkDefs.coefc (concat (map WalkDefs.cyc_pairs ls)) a b = WalkDefs.coefc edges a b).
Proof. exact Walk.out_edges_to_loops_sound. Qed.
Print Assumptions out_edges_to_loops_sound.

(* the integer instance of the CcwTurnLess scan used in the correspondence run is an admissible oracle *)
Theorem pick_ccw_admissible : forall verts edges, Walk.pick_ok (WalkDefs.pick_ccw verts edges).
Proof. exact Walk.pick_ccw_ok. Qed.
Print Assumptions pick_ccw_admissible.
