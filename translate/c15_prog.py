"""C15 translator, structured layer: per function the statement structure (sequence / branch / loop) of
ctx-aware loops, calls of ctx-aware callees (bodies referenced in line), cancel checks, status checks,
returns and uses -- emitted as Coq data `list stmt` (Proto/CancelPathDefs.v) into Gen/CancelProg.v.
Coq then evaluates `table_ok` on it; `table_ok_paths_wok` turns that into the discipline of every path word.

Object-level functions (SimpleBoolean, BatchBoolean, BatchUnion, ToLeafNode, GetCsgLeafNode, Minkowski,
MakeSmoothImpl) are emitted like every other function: a callee that only has Cancelled-producing checks
(AbortF) and ends with no raw output unchecked is `closed`; after it returns, a possibly Cancelled object is
in flight until a cancel check or a status check, and only forwarding statements may touch it.

What is trusted here: the classification of single statements (check kinds, declarations are neutral, the
allow-lists below with one justification each) and the statement tree itself.  A Python mirror of the Coq
interpreter is used only to choose closed/open per callee and to print where the table fails."""
import re, os, sys
sys.path.insert(0, os.path.dirname(os.path.abspath(__file__)))
import c15_sites as S

# Statements that may run while a possibly Cancelled object (or an unchecked raw output) exists and do not
# consume it: (function regex, statement regex, justification).
FWD = [
    (r".", r"^if \( ctx_? \)$", "null test of the context pointer"),
    (r".", r"^(if \( ctx_? \) )?ctx_? -> (done|total)(Booleans|Phases) \. (store|fetch_add) \(", "progress/introspection counter; reads no mesh data"),
    (r"^SimpleBoolean$", r"^return leaf ;$", "returns the leaf built from the (possibly Cancelled) Impl"),
    (r"^BatchBoolean$", r"^if \( results \. size \( \) == [012] \)$", "size of the operand vector"),
    (r"^BatchBoolean$", r"^(heapNodes|tmp|results) \. (reserve|clear|pop_back|push_back|emplace_back) \(", "moves handles between containers"),
    (r"^BatchBoolean$", r"^std :: (make_heap|pop_heap|push_heap) \(", "orders handles by NumVert (0 for a Cancelled leaf); forwards them"),
    (r"^BatchBoolean$", r"^for \( (size_t|int) i = 0 ; i < (results \. size \( \)|4 && heapNodes \. size \( \) > 1|4) ; (\+\+ i|i \+\+) \)$", "index loop over handles"),
    (r"^BatchBoolean$", r"^for \( auto & result : tmp \)$", "iterates over result handles"),
    (r"^BatchBoolean$", r"^while \( heapNodes \. size \( \) > 1 \)$", "size of the handle heap"),
    (r"^BatchBoolean$", r"^(group \. wait \( \) ;|parallelSerial \[ i \] = nextSerial \+\+ ;|for \( int i = 0 ; i < 4 && parallelTmp \[ i \] ; i \+\+ \))", "task join / serial numbers / handle moves"),
    (r"^BatchUnion$", r"^while \( children \. size \( \) > 1 \)$", "size of the handle vector"),
    (r"^BatchUnion$", r"^(children|boxes|impls|tmp|disjointSets|it) (\.|->) (reserve|push_back|erase|clear) \(", "moves handles / boxes between containers"),
    (r"^BatchUnion$", r"^for \(", "index loops over handles, boxes and index sets (bounding boxes of a Cancelled leaf are empty boxes)"),
    (r"^BatchUnion$", r"^if \( (it == disjointSets \. end \( \)|set \. size \( \) == 1|ctx) \)$", "index-set bookkeeping"),
    (r"^BatchUnion$", r"^else$", "keyword"),
    (r"^BatchUnion$", r"^std :: swap \( children \. front \( \) , children \. back \( \) \) ;$", "swaps two handles"),
    (r"^BatchUnion$", r"^return children \. front \( \) ;$", "returns the only remaining handle (the Cancelled one if any)"),
    (r"^BatchBoolean$", r"^return (heapNodes \. front \( \) \. first|results \. front \( \)) ;$", "returns the only remaining handle"),
    (r"ToLeafNode$", r"^while \( ! stack \. empty \( \) \)$", "stack emptiness"),
    (r"ToLeafNode$", r"^if \( (frame -> finalize|! frame -> op_node -> cache_|frame -> positive_dest != nullptr|canCollapse|frame -> (positive|negative)_children \. empty \( \)) \)$", "frame bookkeeping; no mesh data"),
    (r"ToLeafNode$", r"^\* impl = \{", "stores the result handle as the node's only child"),
    (r"ToLeafNode$", r"^frame -> op_node -> cache_ = ", "publishes the (lazily transformed) result handle; status travels with the Impl"),
    (r"ToLeafNode$", r"^frame -> positive_dest -> push_back \(", "hands the result handle to the parent frame"),
    (r"ToLeafNode$", r"^(stack \. pop_back \( \) ;|frame -> finalize = true ;|else$|for \( size_t i = 0 ; i < impl -> size \( \) ; i \+\+ \)$|add_children \()", "frame bookkeeping"),
    (r"ToLeafNode$", r"^return cache_ ;$", "returns this node's published handle"),
    (r"ToLeafNode$", r"^if \( cache_ != nullptr \)$", "reads this node's own cache pointer"),
    (r"ToLeafNode$", r"^stack \. push_back \( std :: make_shared < CsgStackFrame > \(", "pushes the root frame; no mesh data"),
    (r"ToLeafNode$", r"^switch \( frame -> op_node -> op_ \)$", "operation kind"),
    (r"GetCsgLeafNode$", r"^if \( (ctx != nullptr|pNode_ -> GetNodeType \( \) != CsgNodeType :: Leaf) \)$", "null test / node kind"),
    (r"GetCsgLeafNode$", r"^return \* std :: static_pointer_cast < CsgLeafNode > \( pNode_ \) ;$", "returns the evaluated handle"),
    (r"GetCsgLeafNode$", r"^pNode_ = ", "stores the evaluated handle"),
    (r"Minkowski::evalBatch$", r"^return tree ;$", "returns the evaluated (possibly Cancelled) tree handle"),
    (r"Impl::Minkowski$", r"^(composedHulls|accumulated|validFaceHulls) \. (push_back|clear|reserve) \(", "moves handles between containers"),
    (r"Impl::Minkowski$", r"^(if \( ! (accumulated|validFaceHulls) \. empty \( \) \)|if \( accumulated \. size \( \) >= REDUCE_THRESHOLD \)|for \( size_t (offset|aFace) = |for \( auto & hull : faceHulls \)|else if \(|if \( ! inset && aConvex && bConvex \))", "container sizes / geometry of the operands, not of the batch results"),
    (r"Impl::Minkowski$", r"^if \( ! hull \. IsEmpty \( \) \)$", "emptiness of freshly built per-face hulls (no context involved)"),
    (r"Impl::Minkowski$", r"^for_each_n \( autoPolicy \(", "context-free loop building per-face hulls from the operands"),
    (r"Impl::Minkowski$", r"^return evalBatch \(", "AsOriginal() forwards a non-NoError status (PropagateStatus)"),
    (r"^Manifold::(Refine|RefineToLength|RefineToTolerance|Hull|MinkowskiSum|MinkowskiDifference)$", r"^return ", "wraps the Impl / forwards the callee's Manifold"),
    (r"^ExecutionContext::(FromMeshGL|Smooth|LevelSet)$", r"^return Manifold :: FromImpl \(", "wraps the Impl"),
    (r"^MakeSmoothImpl$", r"^return impl ;$", "returns the Impl built so far"),
]
STATUS_CHECK = re.compile(r"^if \( [\w>.\- ]*status_? != (?:Manifold :: )?Error :: NoError \)$")


class Prog:
    def __init__(self, an):
        self.an = an
        self.bodies = {}      # key -> node list
        self.closed_memo = {}
        self.ai_memo = {}

    # ---- classification of one plain statement / header
    def fwd(self, s, fn):
        name = self.an.fns[fn]["name"]
        return any(re.search(fre, name) and re.search(sre, s.text) for fre, sre, _ in FWD)

    def plain(self, s, fn):
        """node list of a simple statement without ctx-aware calls"""
        txt, first = s.text, (s.toks[0][0] if s.toks else "")
        loc = "%s:%d" % (self.an.fns[fn]["file"], s.line)
        if first == "return":
            return [("ret",)]      # a return hands its value to the caller: forwarding, never a use (documented limitation)
        if first == "break":
            return [("brk",)]
        if first == "continue":
            return [("cont",)]
        cls, eff = self.an.classify(s, fn)
        if cls in ("noop", "decl", "release", "allowed") or self.fwd(s, fn):
            return []
        return [("use", txt[:160], loc)]

    def header(self, s, fn):
        cls, eff = self.an.classify(s, fn)
        if cls == "allowed" or self.fwd(s, fn) or (s.kind == "loop" and self.an._plain_header(s)) or s.text == "else":
            return []
        return [("use", s.text[:160], "%s:%d" % (self.an.fns[fn]["file"], s.line))]

    # ---- structure
    def body(self, key):
        if key not in self.bodies:
            self.bodies[key] = None      # recursion guard
            self.bodies[key] = self.stmts(self.an.fns[key]["body"], key)
        if self.bodies[key] is None:
            raise S.TranslateError("recursive ctx-aware call through " + key)
        return self.bodies[key]

    def stmts(self, ss, fn):
        out = []
        for s in ss:
            if s is not None:
                out += self.stmt(s, fn)
        return out

    def stmt(self, s, fn):
        an = self.an
        loc = "%s:%d" % (an.fns[fn]["file"], s.line)
        if s.kind == "label":
            return []
        ck = an.check_kind(s)
        if ck:
            return [("abp" if ck == "AbortP" else "abf", loc)]
        if s.kind == "block":
            return self.stmts(s.body, fn)
        if s.kind == "if":
            if STATUS_CHECK.match(s.text) and s.els is None and re.search(r"\breturn\b", s.then.text if s.then.kind == "simple" else " ".join(x.text for x in s.then.body)):
                return [("stat", loc)]
            cls, eff = an.classify(s, fn)
            if cls == "allowed" and eff == "indep":
                return []
            pre = []
            if re.search(r"! (manifold :: )?IsCancelled \(", s.text):
                pre = [("obs", loc)]
            calls = self.calls(s, fn)
            hdr = [] if (pre or calls) else self.header(s, fn)
            a = self.stmt(s.then, fn)
            b = self.stmt(s.els, fn) if s.els is not None else []
            return pre + calls + hdr + [("if", a, b)]
        if s.kind == "loop":
            cls, eff = an.classify(s, fn)
            if cls == "allowed" and eff == "indep":
                return []
            calls = self.calls(s, fn)
            return calls + self.header(s, fn) + [("rep", self.stmt(s.body, fn))]
        if s.kind == "switch":
            segs, cur = [], None
            body = s.body.body if s.body.kind == "block" else [s.body]
            for x in body:
                if x.kind == "label":
                    if cur is None or cur:
                        cur = []
                        segs.append(cur)
                    continue
                if cur is None:
                    raise S.TranslateError("%s: statement before the first case label" % loc)
                cur.append(x)
            nodes = None
            for seg in reversed(segs):
                flat = []
                for x in seg:
                    flat += (x.body if x.kind == "block" else [x])
                flat = [x for x in flat if not (x.kind == "simple" and x.text == ";")]
                if flat and flat[-1].kind == "simple" and flat[-1].text == "break ;":
                    flat = flat[:-1]
                n = self.stmts(flat, fn)
                if any(self.has_brk(y) for y in n):
                    raise S.TranslateError("%s: break nested inside a switch case" % loc)
                nodes = n if nodes is None else [("if", n, nodes)]
            return self.header(s, fn) + (nodes or [])
        # simple
        if getattr(s, "lambda_def", None):
            return []
        calls = self.calls(s, fn)
        if calls:
            return calls + ([("ret",)] if s.text.startswith("return") else [])
        return self.plain(s, fn)

    def has_brk(self, n):
        if n[0] == "brk":
            return True
        if n[0] == "if":
            return any(self.has_brk(x) for x in n[1] + n[2])
        return False            # a break inside a nested loop belongs to that loop

    def calls(self, s, fn):
        an = self.an
        loc = "%s:%d" % (an.fns[fn]["file"], s.line)
        cs = an.ctx_calls(s, fn)
        names = [c for c, k in cs]
        out = []
        if "Boolean3::Boolean3" in names and "Boolean3::Result" in names:
            ctor = an.resolve("Boolean3::Boolean3", fn)
            res = an.resolve("Boolean3::Result", fn)
            if len(ctor) != 1 or len(res) != 1:
                raise S.TranslateError("%s: cannot resolve Boolean3 constructor/Result" % loc)
            # the temporary Boolean3 owns the constructor's tables; Result is their only consumer: one closed unit
            return [("composite", [("call", ctor[0], loc)], res[0], loc)]
        for callee, kind in cs:
            if kind == "loop":
                out.append(("loop", loc))
                continue
            ts = an.resolve(callee, fn)
            if len(ts) > 1:
                ts = [t for t in ts if t != fn]      # an overload forwarding to its sibling, not to itself
            if not ts:
                raise S.TranslateError("%s: cannot resolve ctx-aware callee %r" % (loc, callee))
            node = None
            for t in reversed(ts):
                node = [("call", t, loc)] if node is None else [("if", [("call", t, loc)], node)]
            out += node
        return out

    # ---- python mirror of the Coq interpreter (for closed/open and diagnostics)
    @staticmethod
    def join(x, y):
        if x is None: return y
        if y is None: return x
        return (x[0] or y[0], x[1] or y[1])

    def ai_list(self, inner, nodes, a, fails):
        ok, ret, brk, cont = True, None, None, None
        cur = a
        for n in nodes:
            r = self.ai1(inner, n, cur, fails)
            ok = ok and r[0]
            ret, brk, cont = self.join(ret, r[2]), self.join(brk, r[3]), self.join(cont, r[4])
            cur = r[1]
            if cur is None:
                break
        return (ok, cur, ret, brk, cont)

    def callee_nodes(self, n):
        if n[0] == "call":
            return self.body(n[1])
        ck = ("comp", id(n))
        if ck not in self.bodies:
            self.bodies[ck] = n[1] + self.body(n[2])      # composite
        return self.bodies[ck]

    def is_closed(self, n):
        key = ("c",) + ((n[1],) if n[0] == "call" else ("composite", n[2]))
        if key not in self.closed_memo:
            self.closed_memo[key] = False
            r = self.call_res(True, self.callee_nodes(n), (False, False), self.__dict__.setdefault("all_fails", []))
            self.closed_memo[key] = r[0]
        return self.closed_memo[key]

    def call_res(self, k, body, a, fails):
        mk = (id(body), k, a)
        if mk in self.ai_memo:
            return self.ai_memo[mk]
        self.ai_memo[mk] = self._call_res(k, body, a, fails)
        return self.ai_memo[mk]

    def _call_res(self, k, body, a, fails):
        r = self.ai_list(not k, body, a, fails)
        x = self.join(r[1], r[2])
        ok = r[0] and (not a[0] if k else True) and r[3] is None and r[4] is None and ((not x[0]) if (k and x is not None) else True)
        if r[0] and not ok and fails is not None and not (k and a[0]):
            fails.append("callee body %s: %s" % (k and "closed" or "open", "break/continue escapes" if (r[3] or r[4]) else "closed callee can end with a raw output unchecked"))
        return (ok, None if x is None else ((False, True) if k else (True, True)), None, None, None)

    def ai1(self, inner, n, a, fails):
        t = n[0]
        if t == "loop": return (True, (True, a[1]), None, None, None)
        if t in ("call", "composite"):
            k = self.is_closed(n)
            key = (id(n), k, a)
            r = self.call_res(k, self.callee_nodes(n), a, fails)
            if not r[0] and fails is not None and k and a[0]:
                fails.append("closed callee entered with an unchecked raw output at " + n[-1])
            return r
        if t == "abp":
            if not inner and fails is not None: fails.append("plain `return` on cancel in an API-level/closed function at " + n[1])
            return (inner, (False, False), None, None, None)
        if t == "abf": return (True, (False, False), None, None, None)
        if t == "stat": return (True, (a[0], False), None, None, None)
        if t == "obs": return (True, a, None, None, None)
        if t == "use":
            ok = not a[0] and not a[1]
            if not ok and fails is not None:
                fails.append("%s `%s` runs while %s" % (n[2], n[1][:90], "a ctx-aware call's output is unchecked" if a[0] else "a possibly Cancelled object is unchecked"))
            return (ok, a, None, None, None)
        if t == "if":
            x, y = self.ai_list(inner, n[1], a, fails), self.ai_list(inner, n[2], a, fails)
            return (x[0] and y[0], self.join(x[1], y[1]), self.join(x[2], y[2]), self.join(x[3], y[3]), self.join(x[4], y[4]))
        if t == "rep":
            le = lambda x, c: x is None or ((not x[0] or c[0]) and (not x[1] or c[1]))
            cur = a
            r = self.ai_list(inner, n[1], cur, None)
            for _ in range(2):
                nxt = self.join(self.join(cur, r[1]), r[4])
                if le(nxt, cur):
                    break
                cur = nxt
                r = self.ai_list(inner, n[1], cur, None)
            if fails is not None:
                r = self.ai_list(inner, n[1], cur, fails)
            if r[0] and not (le(r[1], cur) and le(r[4], cur)) and fails is not None:
                fails.append("loop state did not stabilise")
            return (r[0] and le(r[1], cur) and le(r[4], cur), self.join(cur, r[3]), r[2], None, None)
        if t == "ret": return (True, None, a, None, None)
        if t == "brk": return (True, None, None, a, None)
        if t == "cont": return (True, None, None, None, a)
        raise ValueError(n)

    def prog_ok(self, key, fails):
        r = self.ai_list(False, self.body(key), (False, False), fails)
        x = self.join(r[1], r[2])
        ok = r[0] and r[3] is None and r[4] is None and (x is None or not x[0])
        if r[0] and not ok and fails is not None:
            fails.append("%s can end with a ctx-aware call's output unchecked" % self.an.fns[key]["name"])
        return ok

    # ---- Coq
    def coq_name(self, key, cfg):
        names = self.__dict__.setdefault("_names", {})
        if key not in names:
            base = "fn_" + re.sub(r"\W+", "_", key).replace("__", "_u_")
            if base.endswith("_"):
                base += "u"
            while base in names.values():
                base += "x"
            names[key] = base
        return "%s_%s" % (names[key], cfg)

    def coq_nodes(self, nodes, cfg):
        out = []
        for n in nodes:
            t = n[0]
            if t == "loop": out.append("SLoop")
            elif t == "call": out.append("SCall %s %s" % ("true" if self.is_closed(n) else "false", self.coq_name(n[1], cfg)))
            elif t == "composite":
                out.append("SCall %s (%s ++ %s)" % ("true" if self.is_closed(n) else "false", self.coq_nodes(n[1], cfg), self.coq_name(n[2], cfg)))
            elif t == "abp": out.append("SAbortP")
            elif t == "abf": out.append("SAbortF")
            elif t == "stat": out.append("SStat")
            elif t == "obs": out.append("SObs")
            elif t == "use": out.append("SUse")
            elif t == "if": out.append("SIf %s %s" % (self.coq_nodes(n[1], cfg), self.coq_nodes(n[2], cfg)))
            elif t == "rep": out.append("SRep %s" % self.coq_nodes(n[1], cfg))
            elif t == "ret": out.append("SRet")
            elif t == "brk": out.append("SBrk")
            elif t == "cont": out.append("SCont")
        return "[" + "; ".join(out) + "]"

    def deps(self, nodes, acc):
        for n in nodes:
            if n[0] == "call":
                acc.append(n[1])
            elif n[0] == "composite":
                self.deps(n[1], acc); acc.append(n[2])
            elif n[0] == "if":
                self.deps(n[1], acc); self.deps(n[2], acc)
            elif n[0] == "rep":
                self.deps(n[1], acc)


class Matcher:
    """Is the logged site word of an uncancelled seq run a projection of some path of the root's grammar?
    Check tokens are compared by site tag (file:line); a loop consumes an optional LoopEntry tag and any run of
    LoopChunk tags; Observe-only sites that the grammar does not carry (PhaseBalance) are dropped from the word."""
    def __init__(self, prog, kinds):
        self.p, self.kinds = prog, kinds
        an = prog.an
        self.phase_tag = None
        for k, f in an.fns.items():
            if f["name"].endswith("::phase"):
                def find(ss):
                    for x in ss:
                        if x is None: continue
                        if an.check_kind(x): return "%s:%d" % (f["file"], x.line)
                        for sub in ([x.then, x.els] if x.kind == "if" else x.body if x.kind == "block" else []):
                            r = find([sub] if not isinstance(sub, list) else sub)
                            if r: return r
                    return None
                self.phase_tag = find(f["body"])
        self.phase_lines = set()
        for k, f in an.fns.items():
            if f["name"] == "Boolean3::Result":
                def walk(ss):
                    for x in ss:
                        if x is None: continue
                        if x.kind == "if" and re.match(r"^if \( auto c = phase \(", x.text): self.phase_lines.add("%s:%d" % (f["file"], x.line))
                        elif x.kind == "block": walk(x.body)
                        elif x.kind == "if": walk([x.then, x.els])
                        elif x.kind in ("loop", "switch"): walk([x.body])
                walk(f["body"])

    def tag_of(self, n):
        return self.phase_tag if n[1] in self.phase_lines else n[1]

    def run(self, root_key, tags):
        self.w = [t for t in tags if not (self.kinds.get(t) == "Observe" and not self.in_grammar(t))]
        r = self.seq(self.p.body(root_key), {0})
        ends = r[0] | r[1]
        return len(self.w) in ends, (max(ends | r[2] | r[3] | {0}), len(self.w))

    def in_grammar(self, t):
        g = self.__dict__.setdefault("_obs", None)
        if g is None:
            g = set()
            def walk(nodes):
                for n in nodes:
                    if n[0] == "obs": g.add(n[1])
                    elif n[0] == "if": walk(n[1]); walk(n[2])
                    elif n[0] == "rep": walk(n[1])
            for k in self.p.an.fns: walk(self.p.body(k))
            self._obs = g
        return t in g

    def seq(self, nodes, pos):
        fall, ret, brk, cont = set(pos), set(), set(), set()
        for n in nodes:
            if not fall:
                break
            f2, r2, b2, c2 = self.one(n, fall)
            fall = f2; ret |= r2; brk |= b2; cont |= c2
        return fall, ret, brk, cont

    def one(self, n, pos):
        t, w, E = n[0], self.w, set()
        if t in ("abp", "abf", "obs"):
            tg = self.tag_of(n)
            return {i + 1 for i in pos if i < len(w) and w[i] == tg}, E, E, E
        if t == "loop":
            out = set()
            for i in pos:
                j = i
                if j < len(w) and self.kinds.get(w[j]) == "LoopEntry":
                    j += 1
                out.add(j)
                while j < len(w) and self.kinds.get(w[j]) == "LoopChunk":
                    j += 1
                    out.add(j)
            return out, E, E, E
        if t in ("call", "composite"):
            mk = (id(n), frozenset(pos))
            memo = self.__dict__.setdefault("_memo", {})
            if mk not in memo:
                r = self.seq(self.p.callee_nodes(n), pos)
                memo[mk] = r[0] | r[1]
            return set(memo[mk]), E, E, E
        if t in ("stat", "use"):
            return set(pos), (set(pos) if t == "stat" else E), E, E      # a status check may return
        if t == "if":
            a, b = self.seq(n[1], pos), self.seq(n[2], pos)
            return a[0] | b[0], a[1] | b[1], a[2] | b[2], a[3] | b[3]
        if t == "rep":
            seen, frontier, ret, brk = set(pos), set(pos), set(), set()
            while frontier:
                r = self.seq(n[1], frontier)
                new = (r[0] | r[3]) - seen
                seen |= new; frontier = new; ret |= r[1]; brk |= r[2]
            return seen | brk, ret, E, E
        if t == "ret": return E, set(pos), E, E
        if t == "brk": return E, E, set(pos), E
        if t == "cont": return E, E, E, set(pos)
        raise ValueError(n)


def has_ctx_node(p, nodes):
    for n in nodes:
        if n[0] in ("loop", "call", "composite", "abp", "abf", "obs"):
            return True
        if n[0] == "if" and (has_ctx_node(p, n[1]) or has_ctx_node(p, n[2])):
            return True
        if n[0] == "rep" and has_ctx_node(p, n[1]):
            return True
    return False


def build(repo, cfg):
    an = S.Analysis(repo, cfg)
    p = Prog(an)
    for key in an.fns:
        p.body(key)
    called = set()
    for key in an.fns:
        acc = []
        p.deps(p.body(key), acc)
        called.update(acc)
    roots = [k for k in an.fns if has_ctx_node(p, p.body(k)) and
             (k not in called or an.fns[k]["name"] == "Manifold::GetCsgLeafNode") and an.fns[k]["file"] != "parallel.h"
             and not an.fns[k].get("local") and an.fns[k]["name"] not in ("IsCancelled", "ResetForStaticFactory")]
    # order definitions: callees first
    order, seen = [], set()
    def visit(k):
        if k in seen: return
        seen.add(k)
        acc = []
        p.deps(p.body(k), acc)
        for d in acc: visit(d)
        order.append(k)
    for r in roots: visit(r)
    return an, p, roots, order


def translate(repo, out_v=None):
    res = {"configs": {}}
    coq = ["(* GENERATED by translate/c15_prog.py from %s/src -- data only, do not edit. *)" % repo,
           "From Coq Require Import List String.", "From MV Require Import Proto.CancelDefs Proto.CancelPathDefs.",
           "Import ListNotations.", "Local Open Scope string_scope.", ""]
    for cfg in ("seq", "par"):
        an, p, roots, order = build(repo, cfg)
        for k in order:
            coq.append("Definition %s : list stmt := %s." % (p.coq_name(k, cfg), p.coq_nodes(p.body(k), cfg)))
        coq.append("Definition table_%s : table := [%s].\n" % (cfg, "; ".join('("%s", %s)' % (an.fns[r]["name"], p.coq_name(r, cfg)) for r in roots)))
        fails, okall = [], True
        for r in roots:
            f1 = []
            o = p.prog_ok(r, f1)
            if not o:
                fails += ["[%s] %s" % (an.fns[r]["name"], x) for x in (f1 or ["fails (reason reported under a callee above)"])]
            okall = o and okall
        if not okall:
            fails += [x for x in getattr(p, "all_fails", []) if "runs while" in x]
        def count(nodes, kind):
            c = 0
            for n in nodes:
                c += n[0] == kind
                if n[0] == "if": c += count(n[1], kind) + count(n[2], kind)
                if n[0] == "rep": c += count(n[1], kind)
                if n[0] == "composite": c += count(n[1], kind)
            return c
        res["configs"][cfg] = dict(
            roots=[an.fns[r]["name"] for r in roots], functions=len(order), ok=okall, fails=sorted(set(fails), key=lambda x: ("reason reported" in x, x.startswith("["), x))[:12],
            closed=sorted(an.fns[k]["name"] for k in order if p.is_closed(("call", k, ""))),
            open=sorted(an.fns[k]["name"] for k in order if not p.is_closed(("call", k, "")) and k not in roots),
            counts={kd: sum(count(p.body(k), kd) for k in order) for kd in ("loop", "call", "abp", "abf", "stat", "use", "rep", "if")})
        res["configs"][cfg]["_prog"] = (an, p, roots, order)
    txt = "\n".join(coq) + "\n"
    if out_v:
        os.makedirs(os.path.dirname(out_v), exist_ok=True)
        if not os.path.exists(out_v) or open(out_v).read() != txt:
            open(out_v, "w").write(txt)
    res["coq"] = txt
    return res


if __name__ == "__main__":
    repo = sys.argv[1] if len(sys.argv) > 1 else "/repo"
    r = translate(repo, sys.argv[2] if len(sys.argv) > 2 else None)
    for cfg, c in r["configs"].items():
        print("==", cfg, "ok" if c["ok"] else "NOT OK", c["functions"], "functions; roots:", c["roots"])
        print("   closed:", c["closed"])
        print("   open:", c["open"])
        print("   counts:", c["counts"])
        for f in c["fails"]:
            print("   !!", f)
