"""C20 translator: bindings/c/*.cpp + manifoldc.h/types.h + public C++ headers
   -> coq/Gen/CBind.v (data only) and build/c20/cbind.json (twin for the
   harness generator).

Route: one clang JSON AST dump (`-Xclang -ast-dump=json`) of a translation unit
that #includes the five binding sources; every exported C function body is
evaluated symbolically (locals inlined, implicit nodes stripped, file-local
helpers such as level_set/alloc_raw inlined) into a small expression language
whose leaves are the C parameters.  Anything the evaluator does not understand
raises Unclassified: the check reports a broken tie, it never guesses.
"""
import json, os, re, subprocess, sys, hashlib

SKIP_NS = ("std", "__gnu_cxx", "linalg", "__cxxabiv1", "__detail")
BIND_SRCS = ["conv.cpp", "manifoldc.cpp", "cross.cpp", "box.cpp", "rect.cpp"]


class Unclassified(Exception):
    pass


# --------------------------------------------------------------------- AST

def dump_ast(repo, workdir):
    os.makedirs(workdir, exist_ok=True)
    bdir = os.path.join(repo, "bindings/c")
    srcs = sorted(f for f in os.listdir(bdir) if f.endswith(".cpp"))
    order = [f for f in BIND_SRCS if f in srcs] + [f for f in srcs if f not in BIND_SRCS]
    tu = os.path.join(workdir, "all.cpp")
    with open(tu, "w") as f:
        for s in order:
            f.write('#include "%s"\n' % os.path.join(bdir, s))
    out = os.path.join(workdir, "all.json")
    cmd = ["clang++", "-std=c++17", "-fsyntax-only", "-DMANIFOLD_PAR=-1",
           "-I" + os.path.join(repo, "include"), "-I" + os.path.join(bdir, "include"), "-I" + bdir,
           "-Xclang", "-ast-dump=json", tu]
    with open(out, "w") as fo:
        p = subprocess.run(cmd, stdout=fo, stderr=subprocess.PIPE, text=True, timeout=600)
    if p.returncode != 0:
        raise Unclassified("clang could not parse the binding sources:\n" + p.stderr[-2000:])
    return out, order


def load_toplevel(path):
    """Split the (500 MB) dump at top-level declarations and json-parse only
    those outside the standard-library namespaces.  Works on bytes (no decoding
    of the parts that are thrown away)."""
    with open(path, "rb") as f:
        s = f.read()
    pat = b"\n    {\n"
    pos = s.find(b'\n  "inner": [\n')
    starts = []
    while True:
        j = s.find(pat, pos)
        if j < 0:
            break
        starts.append(j + 1)
        pos = j + len(pat)
    ends = starts[1:] + [s.rfind(b"\n  ]")]
    keep = []
    rk = re.compile(rb'\n      "kind": "(\w+)"')
    rn = re.compile(rb'\n      "name": "([^"]*)"')
    skip = tuple(x.encode() for x in SKIP_NS)
    for a, b in zip(starts, ends):
        head = s[a:a + 3000]
        k = rk.search(head)
        m = rn.search(head)
        if k and k.group(1) == b"NamespaceDecl" and m and m.group(1) in skip:
            continue
        if s.find(b"anifold", a, b) < 0:
            continue                      # C library / compiler builtins: nothing of the binding in there
        keep.append(json.loads(s[a:b].rstrip().rstrip(b",")))
    return keep


class Index:
    def __init__(self, tops):
        self.by_id = {}
        self.qual = {}
        self.parent = {}
        self.cfuncs = {}       # name -> list of FunctionDecl nodes (decls and the definition), extern "C"
        self.helpers = {}      # id -> FunctionDecl with a body (file-local helpers, to_c/from_c)
        self.enums = {}        # qualified name -> [enumerators]
        self.typedefs = {}
        for t in tops:
            self._walk(t, (), None, False)

    def _walk(self, n, path, parent, in_c):
        if not isinstance(n, dict):
            return
        k = n.get("kind", "")
        nid = n.get("id")
        name = n.get("name")
        if k.endswith("Decl") and nid:
            self.by_id[nid] = n
            self.qual[nid] = "::".join(path + ((name,) if name else ()))
            self.parent[nid] = parent
        if k == "LinkageSpecDecl":
            for c in n.get("inner", []):
                self._walk(c, path, n, n.get("language") == "C")
            return
        if k in ("NamespaceDecl", "CXXRecordDecl", "ClassTemplateDecl", "ClassTemplateSpecializationDecl"):
            sub = path + ((name,) if name else ("(anonymous)",)) if k == "NamespaceDecl" else path + ((name,) if name else ())
            if k == "ClassTemplateDecl":
                sub = path
            for c in n.get("inner", []):
                self._walk(c, sub, n, in_c)
            return
        if k == "EnumDecl":
            q = "::".join(path + ((name,) if name else ()))
            self.enums[q] = [c["name"] for c in n.get("inner", []) if c.get("kind") == "EnumConstantDecl"]
            for c in n.get("inner", []):
                if c.get("kind") == "EnumConstantDecl":
                    self.by_id[c["id"]] = c
                    self.qual[c["id"]] = q + "::" + c["name"]
            return
        if k in ("FunctionDecl", "CXXMethodDecl", "CXXConstructorDecl", "CXXDestructorDecl", "CXXConversionDecl"):
            for c in n.get("inner", []):
                if c.get("kind") == "ParmVarDecl":
                    self.by_id[c["id"]] = c
            has_body = any(c.get("kind") == "CompoundStmt" for c in n.get("inner", []))
            if in_c and k == "FunctionDecl" and name and name.startswith("manifold_"):
                self.cfuncs.setdefault(name, []).append(n)
            elif has_body and k == "FunctionDecl":
                self.helpers[nid] = n
            return
        if k == "FunctionTemplateDecl":
            for c in n.get("inner", []):
                if c.get("kind") == "FunctionDecl":
                    self._walk(c, path, n, in_c)
            return
        if k in ("TypedefDecl", "TypeAliasDecl") and name:
            self.typedefs[name] = n


def params_of(fn):
    return [c for c in fn.get("inner", []) if c.get("kind") == "ParmVarDecl"]


def body_of(fn):
    for c in fn.get("inner", []):
        if c.get("kind") == "CompoundStmt":
            return c
    return None


def qt(n):
    t = n.get("type", {})
    return t.get("qualType", "")


def canon(n):
    t = n.get("type", n.get("argType", {})) if "type" in n or "argType" in n else n
    return norm_type(t.get("desugaredQualType") or t.get("qualType", ""))


ALIASES = {}


def norm_type(s):
    s = s.replace("class ", "").replace("struct ", "")
    for a, b in ALIASES.items():
        s = re.sub(r"\b%s\b" % a, b, s)
    s = re.sub(r"^const ", "", s)
    s = re.sub(r"\bunsigned long\b", "size_t", s)
    s = re.sub(r"manifold::MeshGLP<float(, unsigned int)?>", "manifold::MeshGL", s)
    s = re.sub(r"manifold::MeshGLP<double, (unsigned long|size_t)>", "manifold::MeshGL64", s)
    s = re.sub(r"\b(?<!::)(vec2|vec3|vec4|ivec3|mat3x4|mat2x3|Manifold|CrossSection|RayHit|Box|Rect|SimplePolygon|Polygons|MeshGL|MeshGL64|ExecutionContext)\b(?!::)", r"manifold::\1", s)
    s = re.sub(r"\bstd::__cxx11::", "std::", s)
    s = re.sub(r",\s*std::allocator<[^<>]*(?:<[^<>]*>)?[^<>]*>\s*>", ">", s)
    s = re.sub(r"\s+", " ", s).strip()
    s = s.replace("linalg::vec<double, 2>", "manifold::vec2").replace("linalg::vec<double, 3>", "manifold::vec3") \
         .replace("linalg::vec<double, 4>", "manifold::vec4").replace("linalg::vec<int, 3>", "manifold::ivec3") \
         .replace("linalg::mat<double, 3, 4>", "manifold::mat3x4").replace("linalg::mat<double, 2, 3>", "manifold::mat2x3")
    s = s.replace("manifold::MeshGLP<float, unsigned int>", "manifold::MeshGL") \
         .replace("manifold::MeshGLP<double, unsigned long>", "manifold::MeshGL64")
    s = s.replace("std::vector<manifold::vec2>", "manifold::SimplePolygon")
    s = s.replace("std::vector<manifold::SimplePolygon>", "manifold::Polygons")
    return s


# ------------------------------------------------------------- evaluator

TRANSPARENT = ("ImplicitCastExpr", "ExprWithCleanups", "CXXBindTemporaryExpr", "MaterializeTemporaryExpr",
               "ParenExpr", "ConstantExpr", "CXXFunctionalCastExpr", "CXXStaticCastExpr")
VEC_TYPES = {"manifold::vec2": 2, "manifold::vec3": 3, "manifold::vec4": 4, "manifold::ivec3": 3}
MAT_TYPES = {"manifold::mat3x4": (3, 4), "manifold::mat2x3": (2, 3)}


def V(k, **kw):
    d = {"k": k}
    d.update(kw)
    return d


class Eval:
    """Symbolic evaluation of one exported function."""

    def __init__(self, ix, fn):
        self.ix = ix
        self.fn = fn
        self.env = {}
        self.effects = []
        self.news = []          # (mem expr, canonical type)
        self.plain_new = 0
        self.deletes = 0
        self.sizeofs = []
        self.complex = []       # statement kinds that are not straight-line (for/if)
        self.ret = None
        self.uses = {}
        self.depth = 0
        self.cparams = {p["id"]: p["name"] for p in params_of(fn)}
        self.dtor_calls = []
        self.callbacks = []     # direct invocations of a function-pointer parameter

    # -- statements
    def run(self):
        self.block(body_of(self.fn), top=True)

    def block(self, b, top=False):
        for st in b.get("inner", []):
            r = self.stmt(st)
            if r is not None:
                return r
        return None

    def stmt(self, st):
        k = st["kind"]
        if k == "DeclStmt":
            for d in st.get("inner", []):
                if d["kind"] == "VarDecl":
                    init = [c for c in d.get("inner", []) if "Expr" in c.get("kind", "") or c.get("kind", "").endswith("Operator") or c.get("kind", "").endswith("Literal")]
                    if init:
                        v = self.ev(init[0])
                        if d.get("init") == "call" and canon(d) in VEC_TYPES and v["k"] != "vec":
                            pass
                    else:
                        v = V("uninit", type=canon(d))
                    self.env[d["id"]] = v
                elif d["kind"] in ("UsingDirectiveDecl", "TypeAliasDecl", "TypedefDecl", "StaticAssertDecl"):
                    pass
                else:
                    raise Unclassified("declaration %s in body of %s" % (d["kind"], self.fn["name"]))
            return None
        if k == "ReturnStmt":
            inner = st.get("inner", [])
            self.ret = self.ev(inner[0]) if inner else V("void")
            return self.ret
        if k == "NullStmt":
            return None
        if k == "CompoundStmt":
            return self.block(st)
        if k == "IfStmt" and not (st.get("hasInit") or st.get("hasVar")):
            # structured: condition, effects of each branch (option-struct marshalling is checked block by block)
            self.complex.append(k)
            parts = [c for c in st.get("inner", []) if c and c.get("kind")]
            cond = self.ev(parts[0])
            branches = []
            for br in parts[1:3]:
                saved_eff, saved_ret = self.effects, self.ret
                self.effects = []
                self.stmt(br)
                branches.append(self.effects)
                self.effects, self.ret = saved_eff, saved_ret
            self.effects.append(V("if", c=cond, then=branches[0] if branches else [], els=branches[1] if len(branches) > 1 else []))
            return None
        if k in ("ForStmt", "IfStmt", "WhileStmt", "CXXForRangeStmt", "DoStmt", "SwitchStmt"):
            self.complex.append(k)
            # still evaluate the pieces so that parameter uses, news and effects are seen
            for c in st.get("inner", []):
                if not c or not c.get("kind"):
                    continue
                if c["kind"] in ("DeclStmt", "CompoundStmt", "ForStmt", "IfStmt"):
                    saved = self.ret
                    self.stmt(c)
                    self.ret = saved
                else:
                    self.effects.append(V("in_" + k, e=self.ev(c)))
            return None
        # expression statement
        self.effects.append(self.ev(st))
        return None

    # -- expressions
    def use(self, name):
        self.uses[name] = self.uses.get(name, 0) + 1

    def ev(self, n):
        k = n["kind"]
        inner = n.get("inner", [])
        if k in TRANSPARENT:
            v = self.ev(inner[-1])
            if k == "ImplicitCastExpr" and n.get("castKind") in ("IntegralToBoolean", "PointerToBoolean", "FloatingToBoolean"):
                return V("tobool", e=v)
            return v
        if k == "DeclRefExpr":
            rd = n["referencedDecl"]
            rk = rd["kind"]
            if rk == "ParmVarDecl":
                if rd["id"] in self.env:
                    return self.env[rd["id"]]
                if rd["id"] in self.cparams:
                    self.use(rd["name"])
                    return V("param", name=rd["name"], type=rd["type"]["qualType"])
                return V("local", name=rd["name"])          # lambda parameter
            if rk == "VarDecl":
                if rd["id"] in self.env:
                    return self.env[rd["id"]]
                return V("local", name=rd["name"])          # placeholders _1.., loop counters
            if rk in ("FunctionDecl", "CXXMethodDecl"):
                return V("fn", name=rd["name"], id=rd["id"], type=rd["type"]["qualType"])
            if rk == "EnumConstantDecl":
                return V("const", text=self.ix.qual.get(rd["id"], rd["name"]))
            raise Unclassified("reference to %s in %s" % (rk, self.fn["name"]))
        if k in ("IntegerLiteral", "FloatingLiteral"):
            return V("const", text=str(n.get("value")))
        if k == "CXXBoolLiteralExpr":
            return V("const", text="true" if n.get("value") else "false")
        if k == "CXXNullPtrLiteralExpr":
            return V("const", text="nullptr")
        if k == "StringLiteral":
            return V("const", text=n.get("value", ""))
        if k == "CXXDefaultArgExpr":
            return V("default")
        if k == "CXXThisExpr":
            return V("local", name="this")
        if k == "UnaryOperator":
            e = self.ev(inner[0])
            op = n["opcode"]
            if op == "*":
                return V("deref", e=e)
            if op == "!" and e["k"] == "const" and e["text"] in ("true", "false"):
                return V("const", text="false" if e["text"] == "true" else "true")
            if op == "!" and e["k"] == "tobool" and e["e"]["k"] == "const":
                return V("const", text="false" if e["e"]["text"] in ("true", "1") else "true")
            return V("un", op=op, e=e)
        if k == "BinaryOperator" or k == "CompoundAssignOperator":
            return V("bin", op=n["opcode"], l=self.ev(inner[0]), r=self.ev(inner[1]))
        if k == "ConditionalOperator":
            c = self.ev(inner[0])
            cc = c["e"] if c["k"] == "tobool" else c
            if cc["k"] == "const" and cc["text"] in ("nullptr", "false", "0"):
                return self.ev(inner[2])
            if cc["k"] in ("from_c",) or (cc["k"] == "const" and cc["text"] in ("true", "1")):
                return self.ev(inner[1])
            return V("cond", c=c, t=self.ev(inner[1]), e=self.ev(inner[2]))
        if k == "MemberExpr":
            base = self.ev(inner[0]) if inner else V("local", name="this")
            if n.get("isArrow"):
                base = V("deref", e=base)
            mid = n.get("referencedMemberDecl")
            d = self.ix.by_id.get(mid)
            if d is not None and d.get("kind") in ("CXXMethodDecl", "CXXDestructorDecl", "CXXConversionDecl"):
                return V("method", obj=base, name=n["name"], id=mid)
            if n.get("type", {}).get("qualType") == "<bound member function type>":
                return V("method", obj=base, name=n["name"], id=mid)
            return V("member", e=base, field=n["name"])
        if k == "CXXMemberCallExpr":
            m = self.ev(inner[0])
            args = [self.ev(a) for a in inner[1:]]
            if m["k"] != "method":
                raise Unclassified("member call through %s in %s" % (m["k"], self.fn["name"]))
            if m["name"].startswith("~"):
                self.dtor_calls.append((m["obj"], m["name"]))
            return self.mk_call(m["name"], m.get("id"), m["obj"], args, n)
        if k == "CXXOperatorCallExpr":
            f = self.ev(inner[0])
            args = [self.ev(a) for a in inner[1:]]
            if f["k"] != "fn":
                raise Unclassified("operator call through %s in %s" % (f["k"], self.fn["name"]))
            op = f["name"]
            if op == "operator()":
                return self.invoke(args[0], args[1:], n)
            if op == "operator[]":
                return V("index", e=args[0], i=args[1])
            d = self.ix.by_id.get(f["id"])
            if d is not None and d.get("kind") == "CXXMethodDecl":
                return self.mk_call(op, f["id"], args[0], args[1:], n)
            return self.mk_call(op, f["id"], None, args, n)
        if k == "CallExpr":
            f = self.ev(inner[0])
            args_n = inner[1:]
            if f["k"] == "fn":
                return self.call_fn(f, args_n, n)
            args = [self.ev(a) for a in args_n]
            return self.invoke(f, args, n)
        if k in ("CXXConstructExpr", "CXXTemporaryObjectExpr"):
            return self.construct(n)
        if k == "InitListExpr":
            t = canon(n)
            items = [self.ev(a) for a in inner]
            return self.mk_agg(t, items)
        if k == "CXXStdInitializerListExpr":
            return self.ev(inner[0])
        if k == "CXXNewExpr":
            return self.new_expr(n)
        if k == "CXXDeleteExpr":
            self.deletes += 1
            return V("delete", e=self.ev(inner[0]), type=canon(inner[0]) if inner else "")
        if k == "UnaryExprOrTypeTraitExpr":
            if n.get("name") == "sizeof":
                t = norm_type(n.get("argType", {}).get("desugaredQualType") or n.get("argType", {}).get("qualType", "")) if "argType" in n else canon(inner[0])
                self.sizeofs.append(t)
                return V("sizeof", type=t)
            raise Unclassified("%s in %s" % (n.get("name"), self.fn["name"]))
        if k == "CXXReinterpretCastExpr":
            return V("reinterpret", type=norm_type(n["type"]["qualType"]), e=self.ev(inner[0]))
        if k == "CStyleCastExpr":
            return V("reinterpret", type=norm_type(n["type"]["qualType"]), e=self.ev(inner[0]))
        if k == "LambdaExpr":
            return self.lambda_expr(n)
        if k == "CXXPseudoDestructorExpr":
            return V("method", obj=self.ev(inner[0]), name="~", id=None)
        if k == "ArraySubscriptExpr":
            return V("index", e=self.ev(inner[0]), i=self.ev(inner[1]))
        if k == "CXXScalarValueInitExpr":
            return V("const", text="0")
        if k == "DeclStmt":
            self.stmt(n)
            return V("void")
        raise Unclassified("expression kind %s in %s" % (k, self.fn["name"]))

    def callee_info(self, name, did):
        d = self.ix.by_id.get(did) if did else None
        if d is None:
            return {"name": name, "qual": None, "params": None, "kind": "std"}
        ps = []
        for p in params_of(d):
            dflt = None
            if p.get("init"):
                dflt = "has_default"
            ps.append({"name": p.get("name", ""), "type": norm_type(p["type"].get("desugaredQualType") or p["type"]["qualType"]), "default": dflt})
        kind = {"CXXMethodDecl": "method", "CXXConstructorDecl": "ctor", "FunctionDecl": "free"}.get(d["kind"], d["kind"])
        if d.get("storageClass") == "static" and kind == "method":
            kind = "static"
        return {"name": name, "qual": self.ix.qual.get(did, name), "params": ps, "kind": kind,
                "variadic": False, "sig": d.get("type", {}).get("qualType", "")}

    def mk_call(self, name, did, recv, args, n):
        return V("call", callee=self.callee_info(name, did), recv=recv, args=args, type=canon(n))

    def invoke(self, f, args, n):
        """Call through a function pointer / std::function value."""
        if f["k"] == "param":
            self.callbacks.append({"fn": f["name"], "args": args})
            return V("invoke_cb", fn=f["name"], args=args)
        return V("invoke", f=f, args=args)

    def call_fn(self, f, args_n, n):
        name = f["name"]
        if name in ("to_c", "from_c"):
            a = self.ev(args_n[0])
            dd = self.ix.by_id.get(f["id"])
            argt = canon(params_of(dd)[0]) if dd is not None else norm_type(f["type"].split("(")[1].rstrip(")").strip())
            rett = canon(n)
            ct, xt = (rett, argt) if name == "to_c" else (argt, rett)
            if ct.endswith("*"):
                return V(name, cls="handle", ctype=ct, cxxtype=xt, e=a)
            if re.match(r"Manifold(I?Vec\d)$", ct):
                return V(name, cls="vec", ctype=ct, cxxtype=xt, e=a)
            return V(name, cls="enum", ctype=ct, cxxtype=xt, e=a)
        if name == "copy_data":
            args = [self.ev(a) for a in args_n]
            return V("copy_data", mem=args[0], src=args[1], elem=norm_type(qt(n)).rstrip("*").strip())
        if name in ("vector_of_array", "vector_of_vec_array"):
            args = [self.ev(a) for a in args_n]
            return V("array", ptr=args[0], len=args[1], conv=name)
        if name == "bind":
            args = [self.ev(a) for a in args_n]
            return V("bind", fn=args[0], args=args[1:])
        if name == "move" or name == "forward":
            return self.ev(args_n[0])
        if name == "operator new":
            args = [self.ev(a) for a in args_n]
            return V("raw_alloc", size=args[0])
        helper = self.ix.helpers.get(f["id"])
        if helper is None:
            # template specialisation referenced through the pattern: look for a same-named helper
            cands = [h for h in self.ix.helpers.values() if h.get("name") == name]
            helper = cands[0] if len(cands) == 1 else None
        d = self.ix.by_id.get(f["id"])
        q = self.ix.qual.get(f["id"], "")
        if helper is not None and not q.startswith("manifold::"):
            return self.inline(helper, [self.ev(a) for a in args_n], f)
        if d is not None:
            return self.mk_call(name, f["id"], None, [self.ev(a) for a in args_n], n)
        raise Unclassified("call to unknown function %s in %s" % (name, self.fn["name"]))

    def inline(self, helper, args, f):
        if self.depth > 4:
            raise Unclassified("helper recursion in %s" % self.fn["name"])
        ps = params_of(helper)
        sub = Eval(self.ix, helper)
        sub.depth = self.depth + 1
        sub.cparams = {}
        sub.uses = self.uses
        for i, p in enumerate(ps):
            if i < len(args) and args[i]["k"] != "default":
                sub.env[p["id"]] = args[i]
            else:
                init = [c for c in p.get("inner", []) if c.get("kind")]
                if not init:
                    raise Unclassified("helper %s parameter %s without argument" % (helper["name"], p.get("name")))
                sub.env[p["id"]] = self.ev(init[0])
        # template type arguments: find the specialisation's T from the call's function type
        sub.targ = norm_type(re.sub(r"\s*\(.*$", "", f["type"]).rstrip("*").strip())
        sub.run()
        self.effects += sub.effects
        self.news += sub.news
        self.plain_new += sub.plain_new
        self.deletes += sub.deletes
        self.sizeofs += sub.sizeofs
        self.complex += sub.complex
        self.callbacks += sub.callbacks
        if sub.ret is None:
            return V("void")
        if helper.get("name") == "alloc_raw":
            return V("raw_alloc_typed", type=sub.targ, e=sub.ret)
        return sub.ret

    def construct(self, n):
        t = canon(n)
        inner = n.get("inner", [])
        args = [self.ev(a) for a in inner]
        ctor = n.get("ctorType", {}).get("qualType", "")
        if t in VEC_TYPES or t in MAT_TYPES:
            if len(args) == 1 and args[0]["k"] in ("vec", "mat", "from_c", "call", "member", "local", "index", "deref") :
                return args[0]                       # copy / move of a vector
            return self.mk_agg(t, args)
        live = [a for a in args if a["k"] != "default"]
        # copy / move construction is transparent
        m = re.match(r"void \((?:const )?(.+?) ?&&?\)( noexcept)?$", ctor)
        if len(args) == 1 and m and norm_type(m.group(1)) == t:
            return args[0]
        if t.startswith("std::function<") or t.startswith("std::_Bind") or t.startswith("std::initializer_list"):
            return args[0] if args else V("const", text="{}")
        if t.startswith("std::vector<") or t in ("manifold::SimplePolygon", "manifold::Polygons") or t.startswith("std::basic_") or t.startswith("std::pair") or t.startswith("std::__cxx11"):
            return V("construct", type=t, args=args)
        # a manifold:: class constructor with parameters: find its declaration by signature
        did = self.find_ctor(t, ctor)
        return V("call", callee=self.callee_info(t.split("::")[-1], did) if did else
                 {"name": t, "qual": t + "::" + t.split("::")[-1], "params": None, "kind": "ctor"},
                 recv=None, args=args, type=t, ctor=True)

    def find_ctor(self, t, ctor_type):
        for did, d in self.ix.by_id.items():
            if d.get("kind") == "CXXConstructorDecl" and d.get("type", {}).get("qualType") == ctor_type \
                    and self.ix.qual.get(did, "").startswith(t + "::"):
                return did
        return None

    def mk_agg(self, t, items):
        if t in VEC_TYPES:
            return V("vec", type=t, comps=items)
        if t in MAT_TYPES:
            return V("mat", type=t, cols=items)
        return V("agg", type=t, items=items)

    def new_expr(self, n):
        inner = n.get("inner", [])
        t = norm_type(n["type"].get("desugaredQualType") or n["type"]["qualType"]).rstrip("*").strip()
        # clang child order: [initialiser (a construct expression, also for default-init)], placement arguments
        init = None
        place = list(inner)
        if place and (n.get("initStyle") or (len(place) >= 2 and place[0].get("kind") in ("CXXConstructExpr", "InitListExpr"))):
            init = place.pop(0)
        if not n.get("isPlacement"):
            self.plain_new += 1
            return V("plain_new", type=t)
        if len(place) != 1:
            raise Unclassified("placement new with %d placement arguments in %s" % (len(place), self.fn["name"]))
        mem = self.ev(place[0])
        if init is None:
            iv = V("construct", type=t, args=[])
        else:
            iv = self.ev(init)
        self.news.append((mem, t))
        return V("new", mem=mem, type=t, init=iv)

    def lambda_expr(self, n):
        # find the call operator body; evaluate it with captures resolved through env
        cls = [c for c in n.get("inner", []) if c.get("kind") == "CXXRecordDecl"]
        body = [c for c in n.get("inner", []) if c.get("kind") == "CompoundStmt"]
        sub = Eval(self.ix, {"name": self.fn["name"] + "::<lambda>", "inner": body})
        sub.env = self.env
        sub.cparams = self.cparams
        sub.uses = self.uses
        sub.depth = self.depth + 1
        if body:
            sub.block(body[0])
        self.callbacks += sub.callbacks
        return V("lambda", effects=sub.effects, ret=sub.ret)


# ------------------------------------------------------------ summarising

AXES = ["x", "y", "z", "w"]


def walk(v):
    """All sub-values of a symbolic value."""
    if isinstance(v, dict):
        yield v
        for x in v.values():
            yield from walk(x)
    elif isinstance(v, (list, tuple)):
        for x in v:
            yield from walk(x)


def params_in(v):
    out = []
    for x in walk(v):
        if x.get("k") == "param" and x["name"] not in out:
            out.append(x["name"])
    return out


def strip_bool(v):
    return v["e"] if v.get("k") == "tobool" else v


def is_handle(v):
    """from_c(p) / *from_c(p) for an opaque handle parameter p -> p"""
    if v.get("k") == "deref":
        v = v["e"]
    if v.get("k") == "from_c" and v.get("cls") == "handle" and v["e"].get("k") == "param":
        return v["e"]["name"]
    return None


def vec_params(v):
    if v.get("k") == "vec" and all(strip_bool(c).get("k") == "param" for c in v["comps"]):
        return [strip_bool(c)["name"] for c in v["comps"]]
    return None


def find_callback(v):
    """A callback adapter inside v: std::bind(fn_param, _1.., ctx) invoked from a lambda."""
    binds = [x for x in walk(v) if x.get("k") == "bind" and x["fn"].get("k") == "param"]
    if not binds:
        return None
    b = binds[0]
    last = b["args"][-1] if b["args"] else {}
    ph = [a.get("name") for a in b["args"][:-1]]
    ph_ok = ph == ["_%d" % (i + 1) for i in range(len(ph))]
    ctx = last["name"] if last.get("k") == "param" else ""
    unchanged = last.get("k") == "param" and last.get("type") == "void *" and ph_ok
    # order of the arguments the lambda hands to the bound function
    order_ok = True
    for inv in [x for x in walk(v) if x.get("k") == "invoke" and x["f"].get("k") == "bind"]:
        fields = []
        for a in inv["args"]:
            a0 = a["e"] if a.get("k") == "to_c" else a
            if a0.get("k") == "member" and a0["e"].get("k") == "local":
                fields.append(a0["field"])
        if fields and fields != AXES[:len(fields)]:
            order_ok = False
        lam = inv.get("lam_params")
    return {"fn": b["fn"]["name"], "ctx": ctx, "unchanged": bool(unchanged), "order_ok": order_ok}


def route_of(v):
    v0 = strip_bool(v)
    k = v0.get("k")
    if k == "param":
        return {"r": "param", "p": v0["name"]}
    h = is_handle(v0)
    if h:
        return {"r": "handle", "p": h}
    if k == "from_c" and v0.get("cls") == "enum" and v0["e"].get("k") == "param":
        return {"r": "enum", "p": v0["e"]["name"], "cenum": v0["ctype"]}
    vp = vec_params(v0)
    if vp is not None:
        return {"r": "vec", "comps": vp}
    if k == "mat" and all(vec_params(c) is not None or (c.get("k") == "agg" and all(i.get("k") == "param" for i in c["items"])) for c in v0["cols"]):
        return {"r": "mat", "cols": [vec_params(c) or [i["name"] for i in c["items"]] for c in v0["cols"]]}
    if k == "default":
        return {"r": "default"}
    if k == "const":
        return {"r": "const", "txt": v0["text"]}
    cb = find_callback(v0)
    if cb and k in ("lambda", "bind"):
        return {"r": "callback", **cb}
    return {"r": "nested", "ps": params_in(v0)}


def collect_calls(v, out):
    """Every call to a function/constructor/method/operator, outermost first."""
    if isinstance(v, dict):
        if v.get("k") == "call":
            c = v["callee"]
            known = c.get("params") is not None
            out.append({"callee": c.get("qual") or ("std::" + c["name"]), "known": known, "kind": c.get("kind"),
                        "params": [p["name"] for p in c["params"]] if known else [],
                        "ptypes": [p["type"] for p in c["params"]] if known else [],
                        "defaults": [bool(p["default"]) for p in c["params"]] if known else [],
                        "recv": route_of(v["recv"]) if v.get("recv") is not None else None,
                        "args": [route_of(a) for a in v["args"]]})
        for x in v.values():
            collect_calls(x, out)
    elif isinstance(v, (list, tuple)):
        for x in v:
            collect_calls(x, out)


def result_of(ret):
    if ret is None or ret.get("k") == "void":
        return {"r": "void"}
    k = ret.get("k")
    if k == "call" and ret.get("type") == "void":
        return {"r": "void"}
    if k == "to_c" and ret["cls"] == "handle":
        e = ret["e"]
        if e.get("k") == "new" and e["mem"].get("k") == "param":
            return {"r": "place", "mem": e["mem"]["name"], "ty": e["type"], "cty": ret["ctype"]}
        if e.get("k") == "raw_alloc_typed":
            return {"r": "alloc", "ty": e["type"], "cty": ret["ctype"]}
        raise Unclassified("handle returned that is not a placement-new")
    if k == "agg" and ret["type"] == "ManifoldManifoldPair":
        rs = [result_of(i) for i in ret["items"]]
        if len(rs) == 2 and all(r["r"] == "place" for r in rs) and rs[0]["ty"] == rs[1]["ty"]:
            return {"r": "place2", "mem1": rs[0]["mem"], "mem2": rs[1]["mem"], "ty": rs[0]["ty"], "cty": rs[0]["cty"]}
        raise Unclassified("pair result")
    if k == "to_c" and ret["cls"] == "enum":
        return {"r": "enum", "cenum": ret["ctype"]}
    if k == "to_c" and ret["cls"] == "vec":
        return {"r": "vec", "fields": AXES[:VEC_TYPES.get(ret["cxxtype"], 0)], "via": "to_c"}
    if k == "agg" and re.match(r"Manifold(I?Vec\d)$", ret["type"]):
        fields = []
        for i in ret["items"]:
            if i.get("k") != "member":
                raise Unclassified("vector result component")
            fields.append(i["field"])
        return {"r": "vec", "fields": fields, "via": "components"}
    if k == "agg":
        fields = []
        for i in ret["items"]:
            i0 = i["e"] if i.get("k") == "to_c" else i
            if i0.get("k") != "member":
                raise Unclassified("struct result component")
            fields.append(i0["field"])
        return {"r": "struct", "cstruct": ret["type"], "fields": fields}
    if k == "copy_data" or (k == "reinterpret" and ret["e"].get("k") == "copy_data"):
        cd = ret if k == "copy_data" else ret["e"]
        if cd["mem"].get("k") != "param":
            raise Unclassified("copy_data destination")
        return {"r": "copy", "mem": cd["mem"]["name"]}
    if k == "sizeof":
        return {"r": "sizeof", "ty": ret["type"]}
    return {"r": "scalar"}


def summarise(ix, name, hdr, dfn, ev):
    pty = lambda p: p["type"].get("desugaredQualType") or p["type"]["qualType"]
    cps = [(p.get("name", ""), pty(p)) for p in params_of(dfn)]
    hps = [(p.get("name", ""), pty(p)) for p in params_of(hdr)] if hdr is not None else []
    res = result_of(ev.ret)
    calls = []
    collect_calls({"ret": ev.ret, "eff": ev.effects}, calls)
    # de-duplicate (a local used twice is substituted twice)
    seen, ucalls = set(), []
    for c in calls:
        key = json.dumps(c, sort_keys=True)
        if key not in seen:
            seen.add(key)
            ucalls.append(c)
    news = []
    for mem, t in ev.news:
        if mem.get("k") != "param":
            raise Unclassified("placement-new into something that is not a parameter in %s" % name)
        news.append((mem["name"], t))
    uses = dict(ev.uses)
    unused = [p for p, _ in cps if uses.get(p, 0) == 0]
    tree = {"ret": ev.ret, "eff": ev.effects}
    is_io = any(x.get("k") == "construct" and x.get("type", "").startswith("std::basic_") for x in walk(tree)) or \
        any(x.get("k") == "call" and (x["callee"].get("name") in ("ReadOBJ", "WriteOBJ")) for x in walk(tree))
    fnptr = [p for p, t in cps if "(*)" in t]
    cbs = []
    for fp in fnptr:
        got = None
        for x in walk(tree):
            if x.get("k") == "bind" and x["fn"].get("k") == "param" and x["fn"]["name"] == fp:
                cb = find_callback({"k": "lambda", "x": tree})
                got = (fp, cb["ctx"], cb["unchanged"] and cb["order_ok"])
                break
            if x.get("k") == "invoke_cb" and x["fn"] == fp:
                last = x["args"][-1] if x["args"] else {}
                got = (fp, last.get("name", "") if last.get("k") == "param" else "",
                       last.get("k") == "param" and last.get("type") == "void *")
                break
        cbs.append(got or (fp, "", False))
    new_rooted_effect = any(x.get("k") == "new" for e in ev.effects for x in walk(e))
    if res["r"] == "sizeof":
        kind = {"k": "size", "ty": res["ty"]}
        res = {"r": "scalar"}
    elif res["r"] == "alloc":
        szs = list(ev.sizeofs)
        kind = {"k": "alloc", "ty": res["ty"], "szty": szs[0] if len(szs) == 1 else "?", "cty": res["cty"]}
        res = {"r": "scalar"}
    elif ev.dtor_calls and len(ev.effects) == 1 and ev.ret is None:
        obj = ev.dtor_calls[0][0]
        h = is_handle(obj)
        fc = obj["e"] if obj.get("k") == "deref" else obj
        if not h:
            raise Unclassified("destructor call on something that is not a handle in %s" % name)
        kind = {"k": "destruct", "ty": fc["cxxtype"].rstrip("*").strip(), "cty": fc["ctype"]}
    elif ev.deletes and len(ev.effects) == 1 and ev.ret is None:
        d = ev.effects[0]
        h = is_handle(d["e"])
        if not h:
            raise Unclassified("delete of something that is not a handle in %s" % name)
        kind = {"k": "delete", "ty": d["e"]["cxxtype"].rstrip("*").strip(), "cty": d["e"]["ctype"]}
    elif is_io:
        kind = {"k": "io"}
    elif fnptr:
        kind = {"k": "callback"}
    elif ev.complex or new_rooted_effect:
        kind = {"k": "marshal"}
    else:
        kind = {"k": "wrap"}
    return {"name": name, "ret": dfn["type"]["qualType"].split("(")[0].strip(), "params": cps, "hparams": hps,
            "opts": option_blocks(name, cps, ix.plain_struct_names, tree),
            "kind": kind, "calls": ucalls, "result": res, "news": news, "plain_new": ev.plain_new,
            "deletes": ev.deletes, "unused": unused, "uses": uses, "cb": cbs, "complex": ev.complex,
            "tree": tree}


def expr_text(v):
    v = strip_bool(v)
    k = v.get("k")
    if k == "param":
        return v["name"]
    if k == "const":
        return v["text"]
    if k == "bin":
        return expr_text(v["l"]) + v["op"] + expr_text(v["r"])
    if k == "member" and v["e"].get("k") == "deref" and v["e"]["e"].get("k") == "param":
        return v["e"]["e"]["name"] + "->" + v["field"]
    raise Unclassified("length expression of kind %s" % k)


def option_blocks(name, cps, struct_names, tree):
    """Functions taking a pointer to a plain C options struct: every use of the struct must be a block
         if (opt->G != nullptr) { result->M = vector_of_array(opt->S, <len>); }
       -> (struct, [(G, S, len, M)]).  Anything else touching the struct is not understood (loud)."""
    optp = [(p, t[:-2].strip()) for p, t in cps if t.endswith(" *") and t[:-2].strip() in struct_names]
    if not optp:
        return None
    if len(optp) > 1:
        raise Unclassified("%s takes more than one options struct" % name)
    op, sname = optp[0]

    def field_of(v):
        v = strip_bool(v)
        if v.get("k") == "member" and v["e"].get("k") == "deref" and v["e"]["e"].get("k") == "param" and v["e"]["e"]["name"] == op:
            return v["field"]
        return None
    blocks, in_blocks = [], 0
    for eff in tree["eff"]:
        if eff.get("k") != "if":
            if op in params_in(eff):
                raise Unclassified("%s uses its options struct outside a guarded block" % name)
            continue
        c = strip_bool(eff["c"])
        g = None
        if c.get("k") == "bin" and c["op"] == "!=" and c["r"].get("k") == "const" and c["r"]["text"] == "nullptr":
            g = field_of(c["l"])
        elif field_of(c):
            g = field_of(c)
        if g is None or eff["els"]:
            raise Unclassified("%s: option block with an unexpected guard" % name)
        if len(eff["then"]) != 1:
            raise Unclassified("%s: option block guarded by %s has %d statements" % (name, g, len(eff["then"])))
        a = eff["then"][0]
        if not (a.get("k") == "call" and a["callee"]["name"] == "operator=" and len(a["args"]) == 2):
            raise Unclassified("%s: option block guarded by %s is not an assignment" % (name, g))
        dst, src = a["args"]
        if a.get("recv") is not None:
            dst, src = a["recv"], a["args"][0]
        if not (dst.get("k") == "member" and any(x.get("k") == "new" for x in walk(dst["e"]))):
            raise Unclassified("%s: option block guarded by %s does not assign a member of the result" % (name, g))
        if not (src.get("k") == "array" and field_of(src["ptr"])):
            raise Unclassified("%s: option block guarded by %s does not copy an options array" % (name, g))
        ln = field_of(src["len"]) or expr_text(src["len"])
        blocks.append((g, field_of(src["ptr"]), ln, dst["field"]))
    return {"fn": name, "struct": sname, "param": op, "blocks": blocks}


# ----------------------------------------------- conv.cpp: casts and enums

def conv_tables(ix):
    handles_from, handles_to, enum_from, enum_to, vec_convs = [], [], [], [], []
    for hid, h in ix.helpers.items():
        if h.get("name") not in ("to_c", "from_c"):
            continue
        ps = params_of(h)
        if len(ps) != 1:
            raise Unclassified("%s with %d parameters" % (h["name"], len(ps)))
        argt = canon(ps[0])
        rett = norm_type(re.sub(r"\s*\(.*$", "", h["type"]["qualType"]))
        body = body_of(h)
        ct, xt = (rett, argt) if h["name"] == "to_c" else (argt, rett)
        stmts = body.get("inner", [])
        if ct.endswith("*"):
            ev = Eval(ix, h)
            ev.run()
            r = ev.ret
            ok = r is not None and r.get("k") == "reinterpret" and r["e"].get("k") == "param" and len(stmts) == 1
            if not ok:
                raise Unclassified("%s(%s) is not a single reinterpret_cast of its argument" % (h["name"], argt))
            (handles_to if h["name"] == "to_c" else handles_from).append((ct, xt.rstrip("*").strip(), norm_type(r["type"]).rstrip("*").strip()))
        elif re.match(r"Manifold(I?Vec\d)$", ct):
            ev = Eval(ix, h)
            ev.run()
            r = ev.ret
            items = r.get("comps") or r.get("items") or (r.get("args") if r.get("k") == "call" else None)
            if items is None:
                raise Unclassified("%s(%s): unexpected body" % (h["name"], argt))
            fields = []
            for i in items:
                i = strip_bool(i)
                if i.get("k") != "member" or i["e"].get("k") != "param":
                    raise Unclassified("%s(%s): component is not a field of the argument" % (h["name"], argt))
                fields.append(i["field"])
            vec_convs.append((h["name"] + ":" + ct, fields))
        else:
            tbl = enum_switch(ix, h)
            if h["name"] == "from_c":
                xt = canon(stmts[0]["inner"][0])
            (enum_to if h["name"] == "to_c" else enum_from).append((ct, xt, tbl))
    return handles_from, handles_to, enum_from, enum_to, vec_convs


def const_name(ix, n):
    while n.get("kind") in TRANSPARENT:
        n = n["inner"][-1]
    if n.get("kind") == "DeclRefExpr" and n["referencedDecl"]["kind"] == "EnumConstantDecl":
        return n["referencedDecl"]["name"]
    raise Unclassified("enum switch: label/value is not an enumerator (%s)" % n.get("kind"))


def enum_switch(ix, h):
    """`T r = Default; switch (x) { case A: break; case B: r = X; break; ... } return r;`
       -> [(source enumerator, target enumerator)]"""
    stmts = body_of(h).get("inner", [])
    if len(stmts) < 3 or stmts[0]["kind"] != "DeclStmt" or stmts[-1]["kind"] != "ReturnStmt":
        raise Unclassified("enum conversion %s: unexpected shape" % h["type"]["qualType"])
    var = stmts[0]["inner"][0]
    dflt = const_name(ix, [c for c in var["inner"] if c.get("kind")][0])
    sw = [s for s in stmts if s["kind"] == "SwitchStmt"]
    if len(sw) != 1:
        raise Unclassified("enum conversion %s: expected one switch" % h["type"]["qualType"])
    comp = [c for c in sw[0]["inner"] if c.get("kind") == "CompoundStmt"][0]
    tbl = []
    pending = []

    def assign_target(st):
        if st["kind"] == "BinaryOperator" and st.get("opcode") == "=":
            return const_name(ix, st["inner"][1])
        return None
    for st in comp.get("inner", []):
        if st["kind"] == "CaseStmt":
            lab = const_name(ix, st["inner"][0])
            sub = st["inner"][-1]
            while sub["kind"] == "CaseStmt":
                pending.append(lab)
                lab = const_name(ix, sub["inner"][0])
                sub = sub["inner"][-1]
            pending.append(lab)
            if sub["kind"] == "BreakStmt":
                for l in pending:
                    tbl.append((l, dflt))
                pending = []
            else:
                t = assign_target(sub)
                if t is None:
                    raise Unclassified("enum conversion: unexpected statement %s after case" % sub["kind"])
                for l in pending:
                    tbl.append((l, t))
                pending = []
        elif st["kind"] == "BreakStmt":
            continue
        elif st["kind"] == "DefaultStmt":
            raise Unclassified("enum conversion with a default: arm")
        else:
            raise Unclassified("enum conversion: unexpected statement %s in switch" % st["kind"])
    return tbl


# ---------------------------------------------------------------- emission

def cq(s):
    return '"' + str(s).replace('"', '""') + '"'


def clist(xs):
    return "[" + "; ".join(xs) + "]"


def cpair(a, b):
    return "(%s, %s)" % (a, b)


def cbool(b):
    return "true" if b else "false"


def route_coq(r):
    if r is None:
        return "None"
    k = r["r"]
    if k == "param":
        return "RParam %s" % cq(r["p"])
    if k == "handle":
        return "RHandle %s" % cq(r["p"])
    if k == "enum":
        return "REnum %s %s" % (cq(r["p"]), cq(r["cenum"]))
    if k == "vec":
        return "RVec %s" % clist(map(cq, r["comps"]))
    if k == "mat":
        return "RMat %s" % clist(clist(map(cq, c)) for c in r["cols"])
    if k == "default":
        return "RDefault"
    if k == "const":
        return "RConst %s" % cq(r["txt"])
    if k == "callback":
        return "RCallback %s %s %s %s" % (cq(r["fn"]), cq(r["ctx"]), cbool(r["unchanged"]), cbool(r["order_ok"]))
    return "RNested %s" % clist(map(cq, r["ps"]))


def result_coq(r):
    k = r["r"]
    if k == "place":
        return "ResPlace %s %s" % (cq(r["mem"]), cq(r["ty"]))
    if k == "place2":
        return "ResPlace2 %s %s %s" % (cq(r["mem1"]), cq(r["mem2"]), cq(r["ty"]))
    if k == "enum":
        return "ResEnum %s" % cq(r["cenum"])
    if k == "vec":
        return "ResVec %s" % clist(map(cq, r["fields"]))
    if k == "struct":
        return "ResStruct %s %s" % (cq(r["cstruct"]), clist(map(cq, r["fields"])))
    if k == "copy":
        return "ResCopy %s" % cq(r["mem"])
    if k == "void":
        return "ResVoid"
    return "ResScalar"


def kind_coq(k):
    n = k["k"]
    if n == "size":
        return "KSize %s" % cq(k["ty"])
    if n == "alloc":
        return "KAlloc %s %s" % (cq(k["ty"]), cq(k["szty"]))
    if n == "destruct":
        return "KDestruct %s" % cq(k["ty"])
    if n == "delete":
        return "KDelete %s" % cq(k["ty"])
    return {"wrap": "KWrap", "marshal": "KMarshal", "callback": "KCallback", "io": "KIO"}[n]


def entry_coq(e):
    calls = []
    for c in e["calls"]:
        calls.append("{| cs_callee := %s; cs_known := %s; cs_params := %s; cs_recv := %s; cs_args := %s |}" % (
            cq(c["callee"]), cbool(c["known"]), clist(map(cq, c["params"])),
            ("Some (%s)" % route_coq(c["recv"])) if c["recv"] else "None",
            clist(route_coq(a) for a in c["args"])))
    pl = lambda ps: clist(cpair(cq(a), cq(b)) for a, b in ps)
    return ("{| e_name := %s; e_ret := %s;\n     e_params := %s;\n     e_hparams := %s;\n     e_kind := %s;\n     e_calls := %s;\n"
            "     e_result := %s; e_news := %s; e_plain_new := %d; e_deletes := %d; e_unused := %s;\n     e_cb := %s |}") % (
        cq(e["name"]), cq(e["ret"]), pl(e["params"]), pl(e["hparams"]), kind_coq(e["kind"]),
        clist(calls), result_coq(e["result"]), pl(e["news"]), e["plain_new"], e["deletes"],
        clist(map(cq, e["unused"])),
        clist("(%s, %s, %s)" % (cq(a), cq(b), cbool(c)) for a, b, c in e["cb"]))


def emit_coq(path, T):
    L = ["(* GENERATED by translate/c20_cbind.py from %s — data only, do not edit. *)" % T["source"],
         "From Coq Require Import String List.", "From MV Require Import Proto.CBindDefs.",
         "Import ListNotations.", "Local Open Scope string_scope.", ""]
    L.append("Definition table : list entry :=\n  [ " + ";\n    ".join(entry_coq(e) for e in T["entries"]) + " ].\n")
    L.append("Definition header_only : list string := %s.\n" % clist(map(cq, T["header_only"])))
    L.append("Definition undeclared : list string := %s.\n" % clist(map(cq, T["undeclared"])))
    tr = lambda xs: clist("(%s, %s, %s)" % (cq(a), cq(b), cq(c)) for a, b, c in xs)
    L.append("Definition handles_from : list (string * string * string) := %s.\n" % tr(T["handles_from"]))
    L.append("Definition handles_to : list (string * string * string) := %s.\n" % tr(T["handles_to"]))
    et = lambda xs: clist("(%s, %s, %s)" % (cq(a), cq(b), clist(cpair(cq(x), cq(y)) for x, y in t)) for a, b, t in xs)
    L.append("Definition enum_from : list (string * string * list (string * string)) := %s.\n" % et(T["enum_from"]))
    L.append("Definition enum_to : list (string * string * list (string * string)) := %s.\n" % et(T["enum_to"]))
    en = lambda d: clist(cpair(cq(k), clist(map(cq, v))) for k, v in d)
    L.append("Definition c_enums : list (string * list string) := %s.\n" % en(T["c_enums"]))
    L.append("Definition cxx_enums : list (string * list string) := %s.\n" % en(T["cxx_enums"]))
    L.append("Definition vec_convs : list (string * list string) := %s.\n" % en(T["vec_convs"]))
    L.append("Definition c_structs : list (string * list string) := %s.\n" % en(T["c_structs"]))
    L.append("Definition opaque_handles : list string := %s.\n" % clist(map(cq, T["opaque_handles"])))
    L.append("Definition option_structs : list string := %s.\n" % clist(map(cq, T.get("option_structs", []))))
    L.append("Definition opt_tables : list (string * string * list (string * string * string * string)) := %s.\n" % clist(
        "(%s, %s, %s)" % (cq(f), cq(st), clist("(%s, %s, %s, %s)" % tuple(map(cq, b)) for b in bl)) for f, st, bl in T.get("opt_tables", [])))
    txt = "\n".join(L)
    old = open(path).read() if os.path.exists(path) else None
    if old != txt:
        os.makedirs(os.path.dirname(path), exist_ok=True)
        with open(path, "w") as f:
            f.write(txt)


def translate(repo, workdir, coq_out=None, json_out=None, keep_dump=False):
    """Returns the table (dict).  Raises Unclassified on anything not understood."""
    dump, order = dump_ast(repo, workdir)
    tops = load_toplevel(dump)
    if not keep_dump:
        os.remove(dump)
    ix = Index(tops)
    # global aliases of conv.h (ManifoldVec, CrossSectionVec, RayHitVec)
    for t in tops:
        if t.get("kind") in ("TypeAliasDecl", "TypedefDecl") and t.get("name") in ("ManifoldVec", "CrossSectionVec", "RayHitVec"):
            ALIASES[t["name"]] = norm_type(t["type"].get("desugaredQualType") or t["type"]["qualType"])
    ix.plain_struct_names = set()
    for t in tops:
        for n in (t.get("inner", []) if t.get("kind") == "LinkageSpecDecl" else [t]):
            if n.get("kind") == "CXXRecordDecl" and str(n.get("name", "")).startswith("Manifold") and n.get("completeDefinition") \
                    and any(c.get("kind") == "FieldDecl" and "*" in c["type"]["qualType"] for c in n.get("inner", [])):
                ix.plain_struct_names.add(n["name"])       # a struct of optional arrays (vector structs ManifoldVecN are passed as arrays)
    entries, header_only, undeclared, problems = [], [], [], []
    for name, ds in ix.cfuncs.items():
        defs = [d for d in ds if body_of(d)]
        decls = [d for d in ds if not body_of(d)]
        if not defs:
            header_only.append(name)
            continue
        if len(defs) > 1:
            raise Unclassified("%s defined %d times" % (name, len(defs)))
        if not decls:
            undeclared.append(name)
        ev = Eval(ix, defs[0])
        try:
            ev.run()
            entries.append(summarise(ix, name, decls[0] if decls else None, defs[0], ev))
        except Unclassified as e:
            problems.append("%s: %s" % (name, e))
    if problems:
        raise Unclassified("cannot classify %d exported function(s): %s" % (len(problems), "; ".join(problems[:8])))
    hf, ht, ef, et_, vc = conv_tables(ix)
    c_enums = [(k, v) for k, v in ix.enums.items() if k.startswith("Manifold") and "::" not in k]
    used_cxx = sorted(set(x[1] for x in ef + et_))
    cxx_enums = [(k, ix.enums[k]) for k in used_cxx if k in ix.enums]
    if len(cxx_enums) != len(used_cxx):
        raise Unclassified("C++ enum(s) not found: %s" % [k for k in used_cxx if k not in ix.enums])
    c_structs, opaque = [], []
    for t in tops:
        for n in ([t] + t.get("inner", []) if t.get("kind") == "LinkageSpecDecl" else [t]):
            if n.get("kind") == "CXXRecordDecl" and str(n.get("name", "")).startswith("Manifold"):
                fs = [c["name"] for c in n.get("inner", []) if c.get("kind") == "FieldDecl"]
                if n.get("completeDefinition"):
                    c_structs.append((n["name"], fs))
                elif n["name"] not in opaque:
                    opaque.append(n["name"])
    opaque = [o for o in opaque if o not in [c[0] for c in c_structs]]
    T = {"source": "bindings/c/{%s}" % ",".join(order), "entries": entries, "header_only": header_only,
         "undeclared": undeclared, "handles_from": hf, "handles_to": ht, "enum_from": ef, "enum_to": et_,
         "c_enums": c_enums, "cxx_enums": cxx_enums, "vec_convs": vc, "c_structs": c_structs,
         "opaque_handles": opaque,
         "option_structs": sorted(ix.plain_struct_names),
         "opt_tables": [(e["opts"]["fn"], e["opts"]["struct"], e["opts"]["blocks"]) for e in entries if e.get("opts")]}
    if coq_out:
        emit_coq(coq_out, T)
    if json_out:
        os.makedirs(os.path.dirname(json_out), exist_ok=True)
        with open(json_out, "w") as f:
            json.dump(T, f, indent=1)
    return T


if __name__ == "__main__":
    repo = os.environ.get("VERIF_REPO", "/repo")
    root = os.path.dirname(os.path.dirname(os.path.abspath(__file__)))
    T = translate(repo, os.path.join(root, "build", "c20"), os.path.join(root, "coq", "Gen", "CBind.v"),
                  os.path.join(root, "build", "c20", "cbind.json"))
    print(len(T["entries"]), "functions")
