#!/usr/bin/env python3
"""C04 translator: scan /repo/src for every place where scheduling order can
enter a data structure (tbb::combinable / combine_each, AtomicAdd cursors and
accumulators, concurrent containers, mutex-guarded appends inside parallel
loops, task groups) and record, for each, the normalisation that the source
applies before the data can reach an output array.  Emits coq/Gen/Idioms.v
(data only) and returns the table.

A site that matches no rule, or whose rule's verification of the source text
fails (the sort was removed, stable_sort became sort, the comparator lost its
tie-break, ReorderHalfedges is no longer called ...), is emitted as
NotNormalised / UnstableSort and fails the obligation all_combines_normalised.
Allow-list entries carry a reason string.  Sites the exploration has shown to
be genuinely schedule dependent are emitted as Flagged "<violation key>".

Token-level matching on comment-stripped text; a construct the rules do not
recognise fails loudly."""
import os, re, sys

SRC_GLOBS = ("src",)


def strip_comments(t):
    def rep(m):
        s = m.group(0)
        return re.sub(r"[^\n]", " ", s) if s.startswith("/") else s
    return re.sub(r'//[^\n]*|/\*.*?\*/|"(?:\\.|[^"\\])*"', rep, t, flags=re.S)


def load(repo):
    out = {}
    d = os.path.join(repo, "src")
    for f in sorted(os.listdir(d)):
        if f.endswith((".cpp", ".h")):
            out["src/" + f] = strip_comments(open(os.path.join(d, f), errors="replace").read())
    return out


def lineno(text, pos):
    return text.count("\n", 0, pos) + 1


def balanced(text, start, open_ch="(", close_ch=")"):
    """text[start] == open_ch; returns index after the matching close."""
    depth = 0
    for i in range(start, len(text)):
        if text[i] == open_ch:
            depth += 1
        elif text[i] == close_ch:
            depth -= 1
            if depth == 0:
                return i + 1
    return len(text)


def norm_ws(s):
    return re.sub(r"\s+", " ", s).strip()


# ------------------------------------------------------------- comparators

def parse_lex(expr, lhs, rhs):
    """Recognise   A(l) < A(r) || (A(l) == A(r) && <rest>)   /  A(l) < A(r)
    where A(x) is any text with the variable in it; returns the list of field
    texts (with the variable replaced by '_') or None."""
    e = norm_ws(expr)
    while e.startswith("(") and balanced(e, 0) == len(e):
        e = e[1:-1].strip()
    fields = []
    while True:
        # split on top-level ||
        depth, cut = 0, None
        for i, ch in enumerate(e):
            if ch in "([":
                depth += 1
            elif ch in ")]":
                depth -= 1
            elif depth == 0 and e.startswith("||", i):
                cut = i
                break
        first = e if cut is None else e[:cut].strip()
        m = re.match(r"^(.*?[^<>=!])<([^<=].*)$", first)
        if not m:
            return None
        a, b = m.group(1).strip(), m.group(2).strip()
        fa, fb = field_of(a, lhs), field_of(b, rhs)
        if fa is None or fa != fb:
            return None
        fields.append(fa)
        if cut is None:
            return fields
        rest = e[cut + 2:].strip()
        while rest.startswith("(") and balanced(rest, 0) == len(rest):
            rest = rest[1:-1].strip()
        m = re.match(r"^(.*?)==(.*?)&&(.*)$", rest)
        if not m:
            return None
        ea, eb = field_of(m.group(1).strip(), lhs), field_of(m.group(2).strip(), rhs)
        if ea != fa or eb != fa:
            return None
        e = m.group(3).strip()
        while e.startswith("(") and balanced(e, 0) == len(e):
            e = e[1:-1].strip()


def field_of(text, var):
    """'p1q2[a][index]' with var 'a' -> 'p1q2[_][index]';  'edgePos' with var
    '' (implicit this) -> 'edgePos'; 'other.edgePos' with var 'other' -> 'edgePos'."""
    t = text.replace(" ", "")
    if var == "":
        return t if re.match(r"^\w+$", t) else None
    if t.startswith(var + "."):
        return t[len(var) + 1:]
    if re.search(r"\b%s\b" % re.escape(var), t):
        return re.sub(r"\b%s\b" % re.escape(var), "_", t)
    return None


def parse_if_chain(body, lhs, rhs):
    """if (A(l) != A(r)) return A(l) < A(r); ... return B(l) < B(r);"""
    b = norm_ws(body)
    fields = []
    stmts = [s.strip() for s in b.split(";") if s.strip()]
    i = 0
    pending = {}
    for s in stmts:
        m = re.match(r"^const \w+ (\w+) = (.*)$", s)
        if m:
            pending[m.group(1)] = m.group(2)
            continue
        m = re.match(r"^if \((.*?) != (.*?)\) return (.*?) < (.*)$", s)
        if m:
            if (m.group(1), m.group(2)) != (m.group(3), m.group(4)):
                return None
            fields.append((m.group(1), m.group(2)))
            continue
        m = re.match(r"^return (.*?) < (.*)$", s)
        if m:
            fields.append((m.group(1), m.group(2)))
            break
        return None
    out = []
    for a, b2 in fields:
        a = pending.get(a, a)
        b2 = pending.get(b2, b2)
        fa, fb = field_of(a, lhs), field_of(b2, rhs)
        if fa is None or fa != fb:
            return None
        out.append(fa)
    return out


def enclosing_struct(text, pos):
    """name of the innermost `struct NAME {` whose braces contain pos, or None"""
    best = None
    for m in re.finditer(r"\bstruct\s+(\w+)[^;{]*\{", text):
        if m.start() > pos:
            break
        end = balanced(text, m.end() - 1, "{", "}")
        if m.end() <= pos < end:
            best = (m.group(1), m.start(), end)
    return best


def only_sequential_call_sites(src, name, def_file, def_span):
    """True iff the functor `name` is constructed at least once, and every place
    that names it (outside its own definition) lies inside the argument list of a
    for_each / for_each_n / transform call whose first argument is the literal
    ExecutionPolicy::Seq.  Returns (ok, description)."""
    uses, bad = 0, []
    for f, t in src.items():
        for m in re.finditer(r"\b%s\b" % re.escape(name), t):
            if f == def_file and def_span[0] <= m.start() < def_span[1]:
                continue
            uses += 1
            ok = False
            for c in re.finditer(r"\b(for_each_n|for_each|transform)\s*\(", t[max(0, m.start() - 600):m.start()]):
                op = max(0, m.start() - 600) + c.end() - 1
                end = balanced(t, op)
                if op < m.start() < end:
                    first = norm_ws(t[op + 1:end]).split(",")[0].strip()
                    ok = first == "ExecutionPolicy::Seq"
            if not ok:
                bad.append("%s:%d" % (f, lineno(t, m.start())))
    if uses == 0:
        return False, "functor %s is never invoked by a recognised call" % name
    if bad:
        return False, "functor %s has a call site without the literal ExecutionPolicy::Seq: %s" % (name, ", ".join(bad[:3]))
    return True, "functor %s: all %d call sites pass the literal ExecutionPolicy::Seq" % (name, uses)


def split_args(argtext):
    out, depth, cur = [], 0, ""
    for ch in argtext:
        if ch in "([{<" and not (ch == "<" and False):
            depth += ch != "<"
        elif ch in ")]}":
            depth -= 1
        if ch == "," and depth == 0:
            out.append(cur.strip())
            cur = ""
        else:
            cur += ch
    if cur.strip():
        out.append(cur.strip())
    return out


def collisions_calls(t):
    """every X.Collisions<..>(recorder, ...) call: (pos, recorder name, parallel flag text)"""
    res = []
    for m in re.finditer(r"\bCollisions<\w+>\s*\(", t):
        end = balanced(t, m.end() - 1)
        args = split_args(t[m.end():end - 1])
        if len(args) < 2:
            continue
        # (recorder, queries[, parallel[, ctx]])  or  (recorder, f, n[, parallel[, ctx]])
        view_form = ".cview(" in args[1] or ".view(" in args[1] or len(args) == 2
        k = 2 if view_form else 3
        flag = args[k] if len(args) > k else "true(default)"
        res.append((m.start(), args[0], norm_ws(flag)))
    return res


def unite_mode(t, pos):
    """how the unite call at pos is driven: ('seq', why) or ('par', why)"""
    # inside the argument list of a for_each*/ transform call?
    for c in re.finditer(r"\b(for_each_n|for_each|transform)\s*\(", t[max(0, pos - 1500):pos]):
        op = max(0, pos - 1500) + c.end() - 1
        end = balanced(t, op)
        if op < pos < end:
            first = norm_ws(t[op + 1:end]).split(",")[0].strip()
            if first == "ExecutionPolicy::Seq":
                return "seq", "for_each with the literal ExecutionPolicy::Seq"
            return "par", "inside %s(%s, ...)" % (c.group(1), first[:40])
    # inside a lambda handed to a collider recorder?
    for lm in re.finditer(r"auto (\w+) = \[[^\]]*\]\s*\([^)]*\)\s*\{", t[max(0, pos - 800):pos]):
        lb = max(0, pos - 800) + lm.end() - 1
        le = balanced(t, lb, "{", "}")
        if lb < pos < le:
            fn = lm.group(1)
            rm = re.search(r"auto (\w+) = MakeSimpleRecorder\(%s\);" % fn, t[le:le + 400])
            if not rm:
                return "par", "lambda %s with an unrecognised driver" % fn
            for cpos, rec, flag in collisions_calls(t):
                if rec == rm.group(1) and cpos > le and cpos < le + 1200:
                    if flag == "false":
                        return "seq", "collider recorder driven by Collisions(..., parallel=false)"
                    return "par", "collider recorder driven by Collisions(..., parallel=%s)" % flag
            return "par", "recorder %s: no Collisions call found" % rm.group(1)
    return "seq", "plain sequential statement / loop"


# ------------------------------------------------------------------ rules

class Site:
    def __init__(self, file, line, what, kind):
        self.file, self.line, self.what, self.kind = file, line, what, kind
        self.norm, self.detail = "NotNormalised", "no rule matched"

    def row(self):
        return dict(file=self.file, line=self.line, what=self.what, kind=self.kind, norm=self.norm, detail=self.detail)


def find_sort_after(text, pos, target, upto=6000):
    """first (stable_)sort call on `target` after pos: returns (kind, args)"""
    seg = text[pos:pos + upto]
    m = re.search(r"((?:manifold::|std::)?(?:stable_sort|sort))\s*\(\s*(?:autoPolicy\((?:[^()]|\([^()]*\))*\)\s*,\s*)?%s\.begin\(\)" % re.escape(target), seg)
    if not m:
        return None, None
    start = pos + m.start()
    op = text.index("(", start)
    end = balanced(text, op)
    return m.group(1), text[op + 1:end - 1]


def rules(src):
    """returns (sites, comparators) for the given comment-stripped sources"""
    sites, cmps = [], {}

    def add(file, pos, what, kind):
        s = Site(file, lineno(src[file], pos), what, kind)
        sites.append(s)
        return s

    # ---- combinables -----------------------------------------------------
    for f, t in src.items():
        for m in re.finditer(r"tbb::combinable<(.+?)>\s+(\w+)", t):
            ty, var = norm_ws(m.group(1)), m.group(2)
            s = add(f, m.start(), "combinable<%s> %s" % (ty, var), "Combinable")
            has_combine = re.search(r"\b%s\s*\.\s*combine_each\b|\btls\.combine_each\b" % re.escape(var), t) is not None
            if f == "src/boolean3.cpp" and var == "store":
                # Kernel12Recorder::get() -> Intersect12_: stable_sort(i12, lexicographic (edge, face))
                p = t.find("Intersections result = recorder.get()")
                kind, args = find_sort_after(t, p, "i12") if p >= 0 else (None, None)
                if kind is None:
                    s.norm, s.detail = "NotNormalised", "no sort of i12 after recorder.get() in Intersect12_"
                    continue
                lam = re.search(r"\[&\]\s*\(\s*auto (\w+)\s*,\s*auto (\w+)\s*\)\s*\{\s*return (.*?);\s*\}", args, flags=re.S)
                fields = parse_lex(lam.group(3), lam.group(1), lam.group(2)) if lam else None
                cmps["i12"] = fields
                if not kind.endswith("stable_sort"):
                    s.norm, s.detail = "UnstableSort", "%s on i12 (stable_sort expected)" % kind
                elif fields != ["p1q2[_][index]", "p1q2[_][1-index]"]:
                    s.norm, s.detail = "NotNormalised", "i12 comparator is not lexicographic on both columns: %r" % (fields,)
                elif not all(re.search(r"Permute\(\s*%s\s*,\s*i12\s*\)" % x, t) for x in ("p1q2", r"result\.x12", r"result\.v12")):
                    s.norm, s.detail = "NotNormalised", "p1q2/x12/v12 are not all permuted by i12"
                else:
                    s.norm, s.detail = "StableSortTotalKey", "stable_sort(i12) lexicographic on (p1q2[index], p1q2[1-index]); Permute x3"
            elif f == "src/boolean3.cpp" and var == "componentsShared":
                ok = re.search(r"w03\[verts\[i\]\]\s*\+=", t) and re.search(r"components\.insert\(data\.begin\(\), data\.end\(\)\)", t)
                s.norm = 'Allowed "union of sets of union-find roots; the roots index unique slots w03[verts[i]]; which vertex represents a component depends on the schedule: equal result needs winding number constant per component (geometric, NOT proved: named gap 2)"' if ok else "NotNormalised"
                s.detail = "Winding03_ components"
            elif f == "src/edge_op.cpp" and var == "store" and "Vec<size_t>" in ty:
                p = t.find("store.combine_each")
                kind, args = find_sort_after(t, p, "result") if p >= 0 else (None, None)
                if kind is None:
                    s.norm, s.detail = "NotNormalised", "FlagStore::run_par: no sort of result after combine_each"
                elif not kind.endswith("stable_sort") and False:
                    pass
                else:
                    # integers under <: a total order, sort or stable_sort both canonical
                    plain = re.sub(r"autoPolicy\((?:[^()]|\([^()]*\))*\)\s*,", "", args)
                    if plain.count(",") != 1:
                        s.norm, s.detail = "NotNormalised", "FlagStore sort has a custom comparator: %s" % norm_ws(args)[:80]
                    else:
                        s.norm, s.detail = "StableSortTotalKey", "%s(result) on size_t with operator<" % kind
            elif f == "src/edge_op.cpp" and "std::vector<bool>" in ty:
                s.norm, s.detail = ("NoCombine", "thread-local visited flags, never combined") if not re.search(r"\bstore\.combine", t[m.start():m.start() + 3000]) else ("NotNormalised", "visited flags are combined")
            elif f == "src/boolean2.cpp" and var == "tls":
                seg = t[m.start():m.start() + 2500]
                cm = re.search(r"tls\.combine_each\(.*?(\w+)\.insert\(", seg, flags=re.S)
                target = cm.group(1) if cm else None
                if target == "pairs":
                    kind, args = find_sort_after(t, m.start(), "pairs")
                    if kind and kind.endswith("stable_sort") and "," not in re.sub(r"pairs\.begin\(\)\s*,\s*pairs\.end\(\)", "", args):
                        s.norm, s.detail = "StableSortTotalKey", "manifold::stable_sort(pairs) on pair<int,int> with operator<"
                    else:
                        s.norm, s.detail = ("UnstableSort" if kind else "NotNormalised"), "MergeVerts pairs: %s" % kind
                elif target == "flatHits":
                    p = t.find("void MaterializeEdgeVertLists")
                    kind, args = find_sort_after(t, p, "flatHits") if p >= 0 else (None, None)
                    lam = re.search(r"\(const EdgeVertHit& (\w+), const EdgeVertHit& (\w+)\)\s*\{(.*?)\}", args or "", flags=re.S)
                    fields = parse_if_chain(lam.group(3), lam.group(1), lam.group(2)) if lam else None
                    cmps["flatHits"] = fields
                    if kind and kind.endswith("stable_sort") and fields == ["e", "t", "v"]:
                        s.norm, s.detail = "StableSortTotalKey", "stable_sort(flatHits) lexicographic on all fields (e, t, v)"
                    else:
                        s.norm, s.detail = ("UnstableSort" if kind and not kind.endswith("stable_sort") else "NotNormalised"), "flatHits: %s %r" % (kind, fields)
                else:
                    s.norm, s.detail = "NotNormalised", "unrecognised combine target %r" % target
            elif f == "src/boolean2.cpp" and ty == "Local" and var == "tls":
                pass
            elif f == "src/properties.cpp" and ty == "double":
                seg = t[m.start():m.start() + 1500]
                ok = re.search(r"combine_each\(\[&\]\(double& val\)\s*\{\s*result = std::min\(result, val\);\s*\}\)", seg)
                s.norm = 'Allowed "order-insensitive reduction: minimum of doubles (commutative, associative, exact; no NaN: distances)"' if ok else "NotNormalised"
                s.detail = "MinGap"
            elif f == "src/polygon_internal.h" and "PolygonTriangulator" in ty:
                s.norm, s.detail = ("NoCombine", "thread-local triangulator scratch; reset per use (C10 reset table)") if "combine_each" not in t else ("NotNormalised", "triangulator store combined")
            elif f == "src/parallel.h" and ty == "H":
                seg = t[m.start():m.start() + 600]
                mg = re.search(r"void merge\(const Hist<N, K>& other\) \{\s*for \(int i = 0; i < k; \+\+i\)\s*for \(int j = 0; j < 256; \+\+j\) hist\[i\]\[j\] \+= other\.hist\[i\]\[j\];", t)
                ok = re.search(r"store\.combine_each\(\[&hist\]\(const H& h\) \{ hist\.merge\(h\); \}\);", seg) and mg
                s.norm = 'Allowed "order-insensitive reduction: sum of integers (radix histogram merge)"' if ok else "NotNormalised"
                s.detail = "histogram"
            else:
                s.norm, s.detail = "NotNormalised", "combinable without a rule"
    # boolean2.cpp PairsRecorder (member `tbb::combinable<Local> tls;`)
    t = src.get("src/boolean2.cpp", "")
    for s in sites:
        if s.file == "src/boolean2.cpp" and s.what.startswith("combinable<Local>"):
            p = t.find("rec.tls.combine_each")
            seg = t[p:p + 400] if p >= 0 else ""
            if re.search(r"pairs\.insert\(.*?\);\s*\}\);\s*RadixSortPairs\(pairs\);", seg, flags=re.S):
                body = t[t.find("void RadixSortPairs"):t.find("void SortSmallInts")]
                enc_ok = re.search(r"static_cast<uint64_t>\(static_cast<uint32_t>\(pr\.first\)\) << 32\) \|\s*static_cast<uint32_t>\(pr\.second\)", body) and re.search(r"manifold::stable_sort\(encoded\.begin\(\), encoded\.end\(\)\)", body)
                s.norm, s.detail = ("StableSortTotalKey", "RadixSortPairs: stable_sort of (first<<32)|second") if enc_ok else ("NotNormalised", "RadixSortPairs body not recognised")
            else:
                s.norm, s.detail = "NotNormalised", "PairsRecorder: no RadixSortPairs after combine_each"

    # ---- mutex-guarded appends inside parallel_for -------------------------
    t = src.get("src/edge_op.cpp", "")
    for var in ("pinched", "duplicates"):
        for m in re.finditer(r"std::lock_guard<std::mutex> lock\(mutex\);\s*%s\.insert\(" % var, t):
            s = add("src/edge_op.cpp", m.start(), "%s.insert under mutex in parallel_for" % var, "MutexAppend")
            seg = t[m.end():m.end() + 900]
            so = re.search(r"manifold::(stable_sort|sort)\(%s\.begin\(\), %s\.end\(\)\);\s*%s\.resize\(\s*std::distance\(\s*%s\.begin\(\),\s*(?:manifold|std)::unique\(%s\.begin\(\), %s\.end\(\)\)\)\);" % ((var,) * 6), seg)
            if so:
                s.norm, s.detail = "StableSortThenUnique", "%s + unique on size_t" % so.group(1)
            else:
                s.norm, s.detail = "NotNormalised", "no sort+unique after the parallel_for"

    # ---- the parallel stable sort itself: mergeRec must split ties the stable way
    t = src.get("src/parallel.h", "")
    m = re.search(r"\bvoid mergeRec\s*\(", t)
    if m:
        s = add("src/parallel.h", m.start(), "mergeRec (parallel merge of manifold::stable_sort)", "SortImplementation")
        body = t[m.start():balanced(t, t.index("{", m.start()), "{", "}")]
        left = re.search(r"if \(length1 > length2\) \{\s*q1 = p1 \+ length1 / 2;\s*auto end = std::(\w+)\(src \+ p2, src \+ r2, src\[q1\], comp\);\s*q2 = std::distance\(src, end\);\s*\} else \{\s*q2 = p2 \+ length2 / 2;\s*auto end = std::(\w+)\(src \+ p1, src \+ r1, src\[q2\], comp\);\s*q1 = std::distance\(src, end\);", body)
        leaf = re.search(r"std::merge\(src \+ p1, src \+ r1, src \+ p2, src \+ r2, dest \+ p3, comp\);", body)
        seqleaf = re.search(r"std::stable_sort\(dest \+ begin, dest \+ end, comp\);", t)
        if not left or not leaf or not seqleaf:
            s.norm, s.detail = "NotNormalised", "mergeRec / mergeSortRec do not have the recognised shape"
        elif (left.group(1), left.group(2)) != ("lower_bound", "upper_bound"):
            s.norm, s.detail = "UnstableSort", "mergeRec splits with (%s, %s); stability needs lower_bound for a left pivot and upper_bound for a right pivot" % (left.group(1), left.group(2))
        else:
            s.norm, s.detail = "StableMergeBounds", "left pivot: lower_bound on the right run; right pivot: upper_bound on the left run; leaves std::merge / std::stable_sort"

    # ---- union-find: the PARTITION is interleaving independent (C13 uf_partition),
    # the ROOT identity is not.  A union-find whose roots (find()) are written to an
    # output must have all its unite calls in a fixed order, or canonicalise.
    for f, t in src.items():
        if f == "src/disjoint_sets.h":
            continue
        for m in re.finditer(r"\bDisjointSets (\w+)\(", t):
            var = m.group(1)
            fend = t.find("\n}\n", m.start())
            body = t[m.start():fend if fend > 0 else len(t)]
            s = add(f, m.start(), "DisjointSets %s" % var, "UnionFindRoots")
            modes = [unite_mode(t, m.start() + u.start()) for u in re.finditer(r"\b%s\.unite\(" % var, body)]
            par = [w for k, w in modes if k == "par"]
            uses_find = re.search(r"\b%s\.find\(" % var, body) is not None
            uses_cc = re.search(r"\b%s\.connectedComponents\(" % var, body) is not None
            if not modes:
                s.norm, s.detail = "NotNormalised", "no unite call recognised"
            elif not par:
                s.norm, s.detail = "SequentialPolicy", "all %d unite call sites run in a fixed order (%s): roots deterministic" % (len(modes), "; ".join(sorted(set(w for _, w in modes)))[:120])
            elif not uses_find and uses_cc:
                s.norm, s.detail = 'Allowed "only connectedComponents labels are read: numbered by first vertex of each class, a function of the partition (C13 uf_partition)"', "parallel unite: " + par[0]
            elif f == "src/boolean3.cpp" and var == "uA":
                s.norm = 'Allowed "roots are only used as one representative per component whose winding is flooded over the component: winding03_schedule_independent_given_constant_winding (hypothesis tied by harness c04_wind)"'
                s.detail = "parallel unite: " + par[0]
            else:
                s.norm, s.detail = "NotNormalised", "%s.find() roots reach an output while unite runs in parallel (%s): the root of a class depends on the schedule" % (var, par[0])

    # ---- AtomicAdd ---------------------------------------------------------
    for f, t in src.items():
        if f in ("src/utils.h", "src/atomic_compat.h"):
            continue
        for m in re.finditer(r"\bAtomicAdd\(", t):
            end = balanced(t, m.end() - 1)
            arg = norm_ws(t[m.end():end - 1])
            target = arg.split(",")[0].strip()
            before = t[max(0, m.start() - 40):m.start()]
            used = bool(re.search(r"(=|\(|return)\s*$", before.rstrip() and before))  # value used?
            kind = "AtomicCursor" if used else "AtomicAccumulate"
            s = add(f, m.start(), "AtomicAdd(%s)" % arg, kind)
            if f == "src/boolean_result.cpp" and target.startswith("count"):
                s.norm = 'Allowed "order-insensitive reduction: sum of integers (fetch_add), returned value unused"' if not used else "NotNormalised"
                s.detail = "CountNewVerts"
            elif f == "src/boolean_result.cpp" and target.startswith("facePtr"):
                res = t[t.find("Boolean3::Result"):] if "Boolean3::Result" in t else ""
                i_f2t, i_ro = res.find("outR.Face2Tri("), res.find("outR.ReorderHalfedges(")
                if i_f2t >= 0 and i_ro > i_f2t:
                    s.norm, s.detail = "CanonicalRotation", "slot within face; Face2Tri then ReorderHalfedges (named gap: triangulation vs slot order)"
                else:
                    s.norm, s.detail = "NotNormalised", "AtomicAdd(facePtr) slots reach Face2Tri but ReorderHalfedges is not called after it"
            elif f == "src/collider.h" and target.startswith("counter_"):
                s.norm = 'Allowed "arrival counter: the second arriver computes the union of both children, which are complete; value independent of order (C13/C14)"'
                s.detail = "BuildInternalBoxes"
            elif f == "src/impl.cpp" and target.startswith("offsets"):
                if not used:
                    s.norm, s.detail = 'Allowed "order-insensitive reduction: sum of integers (bucket counts)"', "CreateHalfedges counts"
                else:
                    seg = t[m.start():m.start() + 1200]
                    so = re.search(r"std::(stable_sort|sort)\(ids\.begin\(\) \+ start, ids\.begin\(\) \+ end,\s*\[&entries\]\(int a, int b\) \{ return entries\[a\] < entries\[b\]; \}\);", seg)
                    op = re.search(r"struct HalfedgePairData \{.*?bool operator<\(const HalfedgePairData& (\w+)\) const \{\s*return (.*?);\s*\}", t, flags=re.S)
                    fields = parse_lex(op.group(2), "", op.group(1)) if op else None
                    cmps["halfedgePair"] = fields
                    if so and fields == ["largeVert", "tri"]:
                        s.norm = 'Allowed "bucket slot; each bucket is then sorted by (largeVert, tri), which separates the entries of one bucket unless a triangle has two identical directed edges; only edgeIndex leaves the bucket"'
                        s.detail = "CreateHalfedges bucket sort (%s)" % so.group(1)
                    else:
                        s.norm, s.detail = "NotNormalised", "CreateHalfedges bucket not sorted by (largeVert, tri)"
            elif f == "src/quickhull.cpp" and ("counts[mesh.halfedgeToFace" in target or target == "j"):
                s.norm, s.detail = 'Flagged "hull-slot-cursor-order"', "first-arriver rotation and AtomicAdd(j,3) slot reach halfedges; nothing canonicalises them"
            elif f == "src/quickhull.cpp" and target.startswith("counts[halfedges"):
                s.norm, s.detail = 'Allowed "order-insensitive reduction: sum of integers (vertex use counts)"', "buildMesh"
            elif f == "src/sdf.cpp":
                s.norm, s.detail = 'Flagged "levelset-cursor-order"', "vertex/triangle cursor order reaches vertPos/triVerts; SortGeometry (stable, Morton codes with ties) does not erase it"
            elif f == "src/properties.cpp":
                st = enclosing_struct(t, m.start())
                seq_ok, why = only_sequential_call_sites(src, st[0], f, (st[1], st[2])) if st else (False, "AtomicAdd on a double outside a functor")
                if seq_ok:
                    s.norm, s.detail = "SequentialPolicy", why
                else:
                    s.norm, s.detail = 'Flagged "curvature-atomic-fp-sum"', "floating-point accumulation in schedule order (addition of doubles is not associative); " + why
            else:
                s.norm, s.detail = "NotNormalised", "AtomicAdd without a rule"

    # ---- concurrent containers ---------------------------------------------
    t = src.get("src/boolean_result.cpp", "")
    for m in re.finditer(r"^\s*concurrent_map<([^;]*?)>\s+([\w, ]+);", t, flags=re.M):
        names = [x.strip() for x in m.group(2).split(",")]
        for nm in names:
            s = add("src/boolean_result.cpp", m.start(), "concurrent_map %s" % nm, "ConcurrentContainer")
            using = re.search(r"using concurrent_map = tbb::concurrent_map<K, V>;", t) and re.search(r"using concurrent_map = std::map<K, V>;", t)
            fn = "AppendNewEdges" if nm == "edgesNew" else "AppendPartialEdges"
            body = t[t.find("void " + fn):]
            body = body[:body.find("\nvoid ", 10) if body.find("\nvoid ", 10) > 0 else len(body)]
            loop = re.search(r"for \(auto& value : (\w+)\)", body)
            var = "edgePosP" if fn == "AppendPartialEdges" else "edgePos"
            first_sort = re.search(r"std::(stable_sort|sort)\(%s\.begin\(\), %s\.end\(\)\);" % (var, var), body)
            fill = re.search(r"\.edgePos = ", body)
            op = re.search(r"struct EdgePos \{.*?bool operator<\(const EdgePos& (\w+)\) const \{\s*return (.*?);\s*\}", t, flags=re.S)
            fields = parse_lex(op.group(2), "", op.group(1)) if op else None
            cmps["edgepos"] = fields
            run_ok = re.search(r"lock\(std::get<1>\(tuple\)\);\s*for \(int j = 0; j < std::abs\(inclusion\); \+\+j\)\s*std::get<2>\(tuple\)->push_back\(\s*\{0\.0, vert \+ j, static_cast<int>\(i \+ offset\), std::get<0>\(tuple\)\}\);\s*unlock", t)
            if not (using and loop and first_sort and fill and first_sort.start() < fill.start()):
                s.norm, s.detail = "NotNormalised", "%s: bucket is not sorted before use" % fn
            elif first_sort.group(1) != "stable_sort":
                s.norm, s.detail = "UnstableSort", "%s: std::sort on a bucket whose entries may share (edgePos, collisionId)" % fn
            elif fields != ["edgePos", "collisionId"]:
                s.norm, s.detail = "NotNormalised", "EdgePos::operator< is not lexicographic on (edgePos, collisionId): %r" % (fields,)
            elif not run_ok:
                s.norm, s.detail = "NotNormalised", "AddNewEdgeVerts no longer pushes one collision's entries as one locked run with its collisionId"
            else:
                s.norm, s.detail = "StableSortRuns", "ordered map iterated by key; bucket stable_sorted by (edgePos=0, collisionId) before use (%s)" % fn
    t = src.get("src/face_op.cpp", "")
    for m in re.finditer(r"tbb::concurrent_unordered_map<int, HalfedgeTriangulation> (\w+);", t):
        s = add("src/face_op.cpp", m.start(), "concurrent_unordered_map %s" % m.group(1), "ConcurrentContainer")
        uses = re.findall(r"\b%s\b\s*(\.\w+|\[)" % m.group(1), t[m.end():])
        ok = all(u in (".find", ".end", "[", ".emplace") for u in uses)
        s.norm, s.detail = ("KeyLookupOnly", "only results[face] / find(face) / end()") if ok else ("NotNormalised", "iterated: %r" % sorted(set(uses)))
    for f, t in src.items():
        for m in re.finditer(r"\btbb::task_group (\w+);", t):
            s = add(f, m.start(), "task_group %s" % m.group(1), "TaskGroup")
            if f == "src/csg_tree.cpp":
                op = re.search(r"struct MeshCompare \{.*?\{(.*?)\}\s*\};", t, flags=re.S)
                body = op.group(1) if op else ""
                body = re.sub(r"a\.first->NumVert\(\)", "a.NumVert", body)
                body = re.sub(r"b\.first->NumVert\(\)", "b.NumVert", body)
                fields = parse_if_chain(body, "a", "b")
                cmps["meshCompare"] = fields
                slot = re.search(r"parallelTmp\[i\]\s*=\s*SimpleBoolean", t) and re.search(r"parallelSerial\[i\] = nextSerial\+\+;", t) and \
                    re.search(r"group\.wait\(\);\s*for \(int i = 0; i < 4 && parallelTmp\[i\]; i\+\+\)\s*tmp\.emplace_back\(std::move\(parallelTmp\[i\]\), parallelSerial\[i\]\);", t)
                if fields == ["NumVert", "second"] and slot:
                    s.norm, s.detail = "HeapTotalOrder", "tasks write parallelTmp[i]; heap ordered by (NumVert, serial)"
                else:
                    s.norm, s.detail = "NotNormalised", "BatchBoolean: comparator %r, slot idiom %s" % (fields, bool(slot))
            elif f == "src/face_op.cpp":
                ok = re.search(r"results\[face\] = std::move\(triangulation\);", t) and re.search(r"triOffset\[face\] = triangulation\.NumTri\(\);", t)
                s.norm, s.detail = ("UniqueSlotOnly", "each task writes results[face], triOffset[face]") if ok else ("NotNormalised", "Face2Tri tasks")
            else:
                s.norm, s.detail = "NotNormalised", "task_group without a rule"
    return sites, cmps


def coq_string(s):
    return '"' + s.replace('"', '""') + '"'


def emit(sites, cmps, path):
    L = ["(* GENERATED by translate/c04_idioms.py from the sources - do not edit. *)",
         "From Coq Require Import ZArith List String.", "From MV Require Import Par.NormaliseDefs.",
         "Import ListNotations.", "Local Open Scope string_scope.", "Local Open Scope Z_scope.", ""]
    L.append("Definition sites : list site := [")
    rows = []
    for s in sites:
        rows.append("  mkSite %s %d %s %s (%s)" % (coq_string(s.file), s.line, coq_string(s.what[:90]), s.kind, s.norm))
    L.append(";\n".join(rows))
    L.append("].\n")
    for k in ("i12", "edgepos", "meshCompare", "flatHits", "halfedgePair"):
        v = cmps.get(k)
        L.append("Definition cmp_%s : option (list string) := %s." % (
            k, "None" if v is None else "Some [" + "; ".join(coq_string(x) for x in v) + "]"))
    L.append("")
    os.makedirs(os.path.dirname(path), exist_ok=True)
    txt = "\n".join(L)
    old = open(path).read() if os.path.exists(path) else None
    if old != txt:
        with open(path, "w") as f:
            f.write(txt)


def run(repo, out):
    src = load(repo)
    sites, cmps = rules(src)
    cmps["collisions_parallel_flags"] = ["%s:%d %s" % (f, lineno(t, p), flag) for f, t in sorted(src.items()) if f != "src/collider.h"
                                         for p, rec, flag in collisions_calls(t)]
    sites.sort(key=lambda s: (s.file, s.line, s.what))
    emit(sites, cmps, out)
    return [s.row() for s in sites], cmps


if __name__ == "__main__":
    repo = sys.argv[1] if len(sys.argv) > 1 else "/repo"
    out = sys.argv[2] if len(sys.argv) > 2 else "/verif/coq/Gen/Idioms.v"
    rows, cmps = run(repo, out)
    for r in rows:
        print("%-26s %5d %-18s %-22s %s | %s" % (r["file"], r["line"], r["kind"], r["norm"][:22], r["what"][:50], r["detail"][:70]))
    print(cmps)
