"""C01 translator: reads, from the CURRENT working tree of the repo, the bodies of the functions
that build or rebuild a Manifold::Impl and emits the ordered list of topology passes each one
calls, as Coq data (coq/Gen/Pipelines.v).  The proved-sound abstract interpretation
(coq/Topo/Pipeline.v: pipeline_ok_sound) is then evaluated on these tables.

Fails loudly (TranslateError) when a function it depends on cannot be found."""
import os, re


class TranslateError(Exception):
    pass


# name, file, regex locating the function head, fresh (fills a new Impl?), public ops that run it
PIPELINES = [
    ("ImportMeshGL", "src/impl.h", r"Manifold::Impl::Impl\(const MeshGLP<Precision, I>& meshGL", True, ["soup", "reimport", "smoothmesh"]),
    ("ShapeCtor", "src/impl.cpp", r"Manifold::Impl::Impl\(Shape shape", True, ["cube", "tet"]),
    ("BooleanResult", "src/boolean_result.cpp", r"Manifold::Impl Boolean3::Result\(OpType op\) const", True,
     ["bool", "batch", "split", "splitplane", "trim", "mink", "minkdiff"]),
    ("Refine", "src/smoothing.cpp", r"void Manifold::Impl::Refine\(", False, ["refine", "refinelen", "refinetol"]),
    ("Sphere", "src/constructors.cpp", r"Manifold Manifold::Sphere\(", False, ["sphere"]),
    ("Extrude", "src/constructors.cpp", r"Manifold Manifold::Extrude\(", True, ["extrude"]),
    ("Revolve", "src/constructors.cpp", r"Manifold Manifold::Revolve\(", True, ["revolve"]),
    ("LevelSet", "src/sdf.cpp", r"void Manifold::Impl::CreateLevelSet\(", True, ["levelset"]),
    ("Hull", "src/quickhull.cpp", r"void Manifold::Impl::Hull\(", True, ["hull", "hullmany", "hullpts"]),
    ("SetTolerance", "src/manifold.cpp", r"Manifold Manifold::SetTolerance\(", False, ["settol"]),
    ("Simplify", "src/manifold.cpp", r"Manifold Manifold::Simplify\(", False, ["simplify"]),
    ("WarpBatch", "src/impl.cpp", r"void Manifold::Impl::WarpBatch\(", False, ["warp", "warpbatch"]),
    ("Compose", "src/csg_tree.cpp", r"std::shared_ptr<CsgLeafNode> CsgLeafNode::Compose\(", False, ["compose"]),
    ("Decompose", "src/constructors.cpp", r"std::vector<Manifold> Manifold::Decompose\(\) const", False, ["decompose"]),
    # helper bodies (checked to contain what the pass names above stand for)
    ("_Subdivide", "src/subdivision.cpp", r"Vec<Barycentric> Manifold::Impl::Subdivide\(", False, []),
    ("_SimplifyTopology", "src/edge_op.cpp", r"void Manifold::Impl::SimplifyTopology\(int", False, []),
    ("_SimplifyTopology2", "src/edge_op.cpp", r"void Manifold::Impl::SimplifyTopology2\(\)", False, []),
]

# Explicit, listed assumptions about generators (not proved; each is covered only by the oracle on outputs).
#   "stranded": the freshly filled vertex array contains no unreferenced vertex and the triangle list no opposed
#               pair (so CreateHalfedges strands nothing).  Revolve is deliberately absent: the oracle refuted it.
#   "dup":      the generated triangles contain no directed edge twice and no pinched vertex (nothing in these
#               pipelines would repair it: they do not call CleanupTopology).  Revolve is deliberately absent: a
#               contour touching the axis in one vertex makes that vertex the apex of two cones (oracle finding),
#               so Revolve has to call CleanupTopology itself.
WAIVERS = {
    "ShapeCtor": ("fixed vertex/triangle tables of tetrahedron, cube, octahedron", ["stranded", "dup"]),
    "Sphere": ("Subdivide of the octahedron without tangents: every created vertex is used, no opposed pairs", ["stranded"]),
    "Extrude": ("every generated vertex is used by a side or cap triangle when Triangulate covers all polygon vertices; "
                "side walls and caps of distinct contours do not share directed edges", ["stranded", "dup"]),
    "Hull": ("QuickHull::buildMesh returns only hull vertices, already reindexed, as a convex 2-manifold", ["stranded", "dup"]),
}

PASS_RE = [
    (r"\bCreateHalfedges\s*\(", "CreateHalfedges"),
    (r"\bSubdivide\s*\(", "Subdivide"),
    (r"\bCleanupTopology\s*\(", "CleanupTopology"),
    (r"\bSimplifyTopology2?\s*\(", "SimplifyTopology"),
    (r"\bRemoveUnreferencedVerts\s*\(", "RemoveUnreferencedVerts"),
    (r"\bSortGeometry\s*\(", "SortGeometry"),
    (r"\b(GatherFaces|ReindexVerts|DedupePropVerts|InitializeOriginal|SetNormalsAndCoplanar)\s*\(", "OtherPass"),
]


def strip_comments(src):
    src = re.sub(r"/\*.*?\*/", lambda m: " " * len(m.group(0)), src, flags=re.S)
    return re.sub(r"//[^\n]*", "", src)


def function_body(src, head_re, what):
    m = re.search(head_re, src)
    if not m:
        raise TranslateError("cannot find the head of %s (%s)" % (what, head_re))
    # skip to the opening brace of the body (after the parameter list's closing parenthesis)
    depth_par, j = 0, src.find("(", m.start())
    while j < len(src):
        c = src[j]
        if c == "(":
            depth_par += 1
        elif c == ")":
            depth_par -= 1
            if depth_par == 0:
                break
        j += 1
    i = src.find("{", j)
    semi = src.find(";", j)
    if i < 0 or (0 <= semi < i):
        raise TranslateError("%s: found a declaration, not a definition" % what)
    depth, k = 0, i
    while k < len(src):
        if src[k] == "{":
            depth += 1
        elif src[k] == "}":
            depth -= 1
            if depth == 0:
                return src[i:k + 1]
        k += 1
    raise TranslateError("%s: unbalanced braces" % what)


def passes_of(body):
    hits = []
    for rx, name in PASS_RE:
        for m in re.finditer(rx, body):
            hits.append((m.start(), name))
    return [n for _, n in sorted(hits)]


def translate(repo):
    """returns list of dicts: name, fresh, passes (with the waiver pseudo-pass), ops, waiver"""
    out = []
    cache = {}
    for name, rel, head, fresh, ops in PIPELINES:
        p = os.path.join(repo, rel)
        if p not in cache:
            if not os.path.exists(p):
                raise TranslateError("missing source file " + rel)
            cache[p] = strip_comments(open(p, errors="replace").read())
        body = function_body(cache[p], head, name)
        ps = passes_of(body)
        out.append({"name": name, "fresh": fresh, "passes": ps, "ops": ops, "waiver": WAIVERS.get(name), "file": rel})
    byname = {d["name"]: d for d in out}
    # what the composite pass names stand for must still be true of the helper bodies
    if "CreateHalfedges" not in byname["_Subdivide"]["passes"]:
        raise TranslateError("Impl::Subdivide no longer calls CreateHalfedges: the effect table entry for `Subdivide` is stale")
    for h in ("_SimplifyTopology", "_SimplifyTopology2"):
        if "CleanupTopology" not in byname[h]["passes"]:
            raise TranslateError("%s no longer calls CleanupTopology: the effect table entry is stale" % h[1:])
    for d in out:
        if not d["name"].startswith("_") and "SortGeometry" not in d["passes"]:
            raise TranslateError("pipeline %s: no SortGeometry call found in %s (function restructured?)" % (d["name"], d["file"]))
    res = []
    for d in out:
        if d["name"].startswith("_"):
            continue
        ps = list(d["passes"])
        if d["waiver"]:
            # the assumption concerns the generator: it holds up to and including the first (re)build
            idx = next((i for i, x in enumerate(ps) if x in ("CreateHalfedges", "Subdivide")), -1)
            for kind in d["waiver"][1][::-1]:
                ps.insert(idx + 1, "AssumeNoStranded" if kind == "stranded" else "AssumeNoDup")
        d = dict(d)
        d["passes_abs"] = ps
        res.append(d)
    return res


def emit_coq(pipes, path):
    lines = ["(* GENERATED by translate/c01_pipeline.py from the repo working tree - do not edit *)",
             "From Coq Require Import List Bool.", "From MV Require Import Topo.PipelineDefs.", "Import ListNotations.", "",
             "Definition pipelines : list (bool * list pass) := ["]
    items = []
    for d in pipes:
        items.append("  (* %s *) (%s, [%s])" % (d["name"], "true" if d["fresh"] else "false", "; ".join(d["passes_abs"])))
    lines.append(";\n".join(items))
    lines += ["].", "", "Definition pipeline_verdicts : list bool := map (fun p => pipeline_ok (fst p) (snd p)) pipelines.", ""]
    os.makedirs(os.path.dirname(path), exist_ok=True)
    txt = "\n".join(lines)
    old = open(path).read() if os.path.exists(path) else None
    if old != txt:
        with open(path, "w") as f:
            f.write(txt)


if __name__ == "__main__":
    import sys
    for d in translate(sys.argv[1] if len(sys.argv) > 1 else "/repo"):
        print(d["name"], "fresh" if d["fresh"] else "derived", d["passes_abs"])
