"""C09 translator: for every public method of Manifold / CrossSection that returns
an object (Manifold, vector<Manifold>, pair<Manifold,Manifold>, CrossSection,
vector<CrossSection>) and consumes at least one object operand, decide from the
tokens of its definition how the operands' error status reaches the result:

  FwdCheck     every object operand is tested and `PropagateStatus(status)` is
               returned before any other return statement
  FwdNode      every return builds a lazy CSG node over the operands
               (`Manifold(LoadPNode()->Transform|Translate|...|Boolean(..))`,
               `Manifold(make_shared<CsgOpNode>(children, op))`) or returns an
               operand itself / an empty Manifold only when there is no operand;
               the status is then forwarded on evaluation by Impl::Transform,
               Boolean3::Result and CsgLeafNode::Compose (their checks are
               verified too: `internal` entries)
  FwdDelegate  single `return Other(args)` to another method of the table
  FwdNoStatus  CrossSection: the class has no status (a CrossSection built from
               bad input is simply empty) - recorded, not an obligation
  FwdNone      none of the above  => the obligation fails

Emits coq/Gen/Status.v (`methods : list (string * fwd)`, `internal : list (string * bool)`)."""
import os, re, sys

sys.path.insert(0, os.path.dirname(os.path.abspath(__file__)))
from c09_ladder import TranslateError, strip_comments, norm


def find_defs(src, cls):
    """(return type, name, params, const?, body) of every `Ret cls::name(params) [const] {body}`."""
    out = []
    for m in re.finditer(r"(?:^|\n)([A-Za-z_:<>,& ]+?)\s+%s::(operator[-+^]=?|[A-Za-z_]\w*)\s*\(" % cls, src):
        ret, name = m.group(1).strip(), m.group(2)
        i = m.end()
        depth, j = 1, i
        while depth:
            depth += (src[j] == "(") - (src[j] == ")")
            j += 1
        params = src[i:j - 1]
        k = j
        while src[k] in " \n\t":
            k += 1
        const = src.startswith("const", k)
        if const:
            k += 5
        while src[k] in " \n\t":
            k += 1
        if src[k] != "{":
            continue
        depth, e = 1, k + 1
        while depth:
            depth += (src[e] == "{") - (src[e] == "}")
            e += 1
        out.append((ret, name, params, const, src[k + 1:e - 1]))
    return out


OBJ_RET = re.compile(r"^(Manifold|std::vector<Manifold>|std::pair<Manifold, Manifold>|Manifold&)$")


def public_names(header, cls):
    h = strip_comments(open(header).read())
    m = re.search(r"class\s+%s\s*\{" % cls, h)
    i = m.end()
    depth, j = 1, i
    while depth:
        depth += (h[j] == "{") - (h[j] == "}")
        j += 1
    body = h[i:j - 1]
    pub, mode, depth = [], "private", 0
    for line in body.split("\n"):
        s = line.strip()
        if depth == 0 and s.startswith("public:"):
            mode = "public"
        elif depth == 0 and (s.startswith("private:") or s.startswith("protected:")):
            mode = "private"
        elif mode == "public":
            pub.append(line)
        depth += line.count("{") - line.count("}")
    return "\n".join(pub)


NODE_RET = [
    re.compile(r"^return Manifold \( LoadPNode \( \) -> (Translate|Scale|Rotate|Transform|Boolean) \( .* \) \) ;$"),
    re.compile(r"^return Manifold \( std :: make_shared < CsgOpNode > \( children , op \) \) ;$"),
    re.compile(r"^return manifolds \[ 0 \] ;$"),
    re.compile(r"^return \* this ;$"),
]
EMPTY_RET = re.compile(r"^return Manifold \( \) ;$")
PROP_RET = re.compile(r"^return \{? ?(?:std :: make_pair \( )?(?:Manifold :: )?PropagateStatus \( [\w>.-]+(?: -> status_)? \)")


def returns(body):
    toks = norm(body)
    return [m.group(0) for m in re.finditer(r"return [^;]*;", toks)], toks


def classify(cls, name, params, const, static, body, known):
    nb = norm(body)
    n_ops = (0 if static else 1)
    n_ops += len(re.findall(r"const\s+Manifold\s*&", params))
    vec_op = bool(re.search(r"std::vector<Manifold>", params))
    if n_ops == 0 and not vec_op:
        return "NoOperand"
    # Leading guards `if (COND) return *this;` of a method whose only object operand is
    # *this: returning the operand itself forwards its status whatever COND is, so the
    # guards are dropped and the remainder must be one of the recognised forms.
    if n_ops == 1 and not static and not vec_op:
        stripped = False
        while True:
            m = re.match(r"^if \( ((?:[^()]|\( [^()]* \)|\( \))*) \) return \* this ; ", nb)
            if not m:
                break
            nb = nb[m.end():]
            stripped = True
        if stripped:
            body = nb
    rets, _ = returns(body)
    # delegate: a single return statement calling another method
    if len(rets) == 1 and re.match(r"^(\{ )?return (Manifold :: )?(\w+) \(", nb.replace("{ ", "", 1) if nb.startswith("{") else nb):
        pass
    m = re.match(r"^return (?:Manifold :: )?(\w+) \( (.*) \) ;$", nb)
    if m and m.group(1) in known:
        return "FwdDelegate"
    if re.match(r"^return \* this ([-+^]) \w+ \( .* \) ;$", nb) and ("operator" + re.match(r"^return \* this ([-+^])", nb).group(1)) in known:
        return "FwdDelegate"
    if nb == norm("Manifold result = *this; AtomicStoreShared(&result.ctx_, ctx.impl_); return result;"):
        return "FwdSelf"
    # both operands handed to Boolean3, every result comes from Boolean3::Result
    if (re.search(r"auto impl1 = GetCsgLeafNode \( \) . GetImpl \( \) ; auto impl2 = \w+ . GetCsgLeafNode \( \) . GetImpl \( \) ; "
                  r"Boolean3 boolean \( \* impl1 , \* impl2 , OpType :: \w+ \) ;", nb)
            and len(rets) == 1 and rets[0] == norm("return std::make_pair(Manifold(result1), Manifold(result2));")
            and len(re.findall(r"std :: make_unique < Impl > \( boolean . Result \( OpType :: \w+ \) \)", nb)) == 2):
        return "FwdBoolean3"
    # status test whose PropagateStatus result is returned for both halves of a pair
    if re.search(r"if \( (\w+) -> status_ != Error :: NoError \) \{ Manifold err = PropagateStatus \( \1 -> status_ \) ; return \{ err , err \} ; \}", nb) \
            and nb.index("return { err , err }") < min([nb.index(r) for r in rets if r != "return { err , err } ;"] + [len(nb)]) and n_ops == 1 and not vec_op:
        return "FwdCheck"
    # compound assignment operators: `*this = *this OP Q; return *this;` style
    m = re.match(r"^\* this = \* this ([-+^]) Q ; return \* this ;$", nb) or re.match(r"^\* this = Boolean \( Q , OpType :: \w+ \) ; return \* this ;$", nb)
    if m:
        return "FwdDelegate"
    # check: PropagateStatus returns come first, one per operand (a loop over a vector counts for the vector)
    first_other = None
    nprop = 0
    for r in rets:
        if PROP_RET.match(r):
            if first_other is None:
                nprop += 1
        elif first_other is None:
            first_other = r
    need = n_ops + (1 if vec_op else 0)
    if vec_op:
        loop = re.search(r"for \( const auto & (\w+) : manifolds \) \{ auto status = \1 . Status \( \) ; if \( status != Error :: NoError \) return PropagateStatus \( status \) ; \}", nb)
        if loop and nprop >= n_ops + 1:
            return "FwdCheck"
    if not vec_op and nprop >= need and need > 0:
        # each check must test status_ != NoError of a leaf impl obtained from the operand
        tests = len(re.findall(r"if \( \w+ -> status_ != Error :: NoError \)", nb))
        if tests >= need:
            return "FwdCheck"
    # node: every return is a node construction / operand / empty-with-no-operand
    ok = True
    for r in rets:
        if PROP_RET.match(r) or any(p.match(r) for p in NODE_RET):
            continue
        if EMPTY_RET.match(r) and re.search(r"if \( manifolds . size \( \) == 0 \) return Manifold \( \) ;", nb):
            continue
        ok = False
    if ok and rets:
        return "FwdNode"
    return "FwdNone"


def internal_sites(repo):
    res = []
    impl = norm(strip_comments(open(os.path.join(repo, "src/impl.cpp")).read()))
    m = re.search(r"Manifold :: Impl Manifold :: Impl :: Transform \( const mat3x4 & transform_ \) const \{(.*?)result . meshRelation_ = meshRelation_", impl)
    res.append(("Impl::Transform", bool(m and re.search(
        r"if \( status_ != Manifold :: Error :: NoError \) \{ result . status_ = status_ ; return result ; \}", m.group(1)))))
    br = norm(strip_comments(open(os.path.join(repo, "src/boolean_result.cpp")).read()))
    ok = all(re.search(r"if \( %s . status_ != Manifold :: Error :: NoError \) \{ auto impl = Manifold :: Impl \( \) ; impl . status_ = %s . status_ ; return impl ; \}" % (x, x), br)
             for x in ("inP_", "inQ_"))
    # and they precede the IsEmpty shortcuts
    if ok:
        ok = br.index("inQ_ . status_ != Manifold :: Error :: NoError") < br.index("if ( inP_ . IsEmpty ( ) )")
    res.append(("Boolean3::Result", ok))
    cs = norm(strip_comments(open(os.path.join(repo, "src/csg_tree.cpp")).read()))
    # either form forwards an errored node's status as an empty leaf before anything is composed:
    #   (pinned)  first errored node wins;  (after c3cb260b) order-independent CombineStatus over all nodes
    compose_first = re.search(
        r"for \( auto & node : nodes \) \{ if \( node -> pImpl_ -> status_ != Manifold :: Error :: NoError \) \{ Manifold :: Impl impl ; "
        r"impl . status_ = node -> pImpl_ -> status_ ; return ImplToLeaf \( std :: move \( impl \) \) ; \}", cs)
    compose_min = re.search(
        r"Manifold :: Error status = Manifold :: Error :: NoError ; for \( auto & node : nodes \) \{ status = Manifold :: Impl :: CombineStatus \( status , node -> pImpl_ -> status_ \) ; \} "
        r"if \( status != Manifold :: Error :: NoError \) \{ Manifold :: Impl impl ; impl . status_ = status ; return ImplToLeaf \( std :: move \( impl \) \) ; \}", cs)
    combine_ok = True
    if compose_min:
        ih = norm(strip_comments(open(os.path.join(repo, "src/impl.h")).read()))
        # CombineStatus must never turn two operands of which one is errored into NoError
        combine_ok = bool(re.search(r"static Error CombineStatus \( Error a , Error b \) \{ if \( a == Error :: NoError \) return b ; if \( b == Error :: NoError \) return a ; return a < b \? a : b ; \}", ih))
    res.append(("CsgLeafNode::Compose", bool(compose_first or (compose_min and combine_ok))))
    mf = norm(strip_comments(open(os.path.join(repo, "src/manifold.cpp")).read()))
    res.append(("Manifold::PropagateStatus", bool(re.search(
        r"Manifold Manifold :: PropagateStatus \( Error status \) \{ auto pImpl = std :: make_shared < Impl > \( \) ; pImpl -> status_ = status ; return Manifold \( pImpl \) ; \}", mf))))
    return res


def translate(repo):
    hdr = public_names(os.path.join(repo, "include/manifold/manifold.h"), "Manifold")
    pub = set(re.findall(r"\b(operator[-+^]=?|[A-Za-z_]\w*)\s*\(", hdr))
    statics = set(re.findall(r"static\s+[\w:<>, ]+?\s+(\w+)\s*\(", hdr))
    defs = []
    for f in ("manifold.cpp", "constructors.cpp", "sdf.cpp", "smoothing.cpp", "subdivision.cpp", "minkowski.cpp", "impl.cpp", "quickhull.cpp"):
        p = os.path.join(repo, "src", f)
        if os.path.exists(p):
            defs += find_defs(strip_comments(open(p).read()), "Manifold")
    methods, seen = [], {}
    known = set()
    objdefs = [d for d in defs if OBJ_RET.match(re.sub(r"\s+", " ", d[0])) and d[1] in pub
               and d[1] not in ("Manifold", "operator=", "Invalid", "PropagateStatus", "FromImpl")]
    # two passes so that delegates can refer to methods classified as forwarding
    for _ in range(2):
        methods = []
        for ret, name, params, const, body in objdefs:
            static = (name in statics) and not const
            # overloaded names: a const member overload is never static
            if name == "Hull" and const:
                static = False
            k = classify("Manifold", name, params, const, static, body, known)
            sig = name + "(" + re.sub(r"\s+", " ", params.strip()) + ")"
            methods.append((sig, k))
            if k in ("FwdCheck", "FwdNode", "FwdDelegate"):
                known.add(name)
    if len(methods) < 30:
        raise TranslateError("only %d object-returning Manifold methods found - the parser lost track of manifold.cpp" % len(methods))
    # CrossSection: no status field at all; record its methods for completeness
    xs = []
    p = os.path.join(repo, "src/cross_section.cpp")
    if os.path.exists(p):
        for ret, name, params, const, body in find_defs(strip_comments(open(p).read()), "CrossSection"):
            if re.match(r"^(CrossSection|std::vector<CrossSection>|CrossSection&)$", re.sub(r"\s+", " ", ret)) and name != "CrossSection":
                xs.append((name + "(" + re.sub(r"\s+", " ", params.strip()) + ")", "FwdNoStatus"))
    has_status = bool(re.search(r"\bStatus\s*\(", strip_comments(open(os.path.join(repo, "include/manifold/cross_section.h")).read())))
    if has_status:
        raise TranslateError("CrossSection now has a Status(): the status table must be extended to it")
    return methods, xs, internal_sites(repo)


def coq_str(s):
    return '"' + s.replace('"', "'") + '"'


def emit(methods, xs, internal, path):
    lines = ["(* GENERATED by translate/c09_status.py - do not edit *)",
             "From Coq Require Import List String.", "From MV Require Import Codec.StatusDefs.",
             "Import ListNotations.", "Local Open Scope string_scope.", "",
             "Definition methods : list (string * fwd) :=", "  [ " + ";\n    ".join("(%s, %s)" % (coq_str(n), k) for n, k in methods) + " ].", "",
             "Definition xsection_methods : list (string * fwd) :=", "  [ " + ";\n    ".join("(%s, %s)" % (coq_str(n), k) for n, k in xs) + " ].", "",
             "Definition internal : list (string * bool) :=", "  [ " + ";\n    ".join("(%s, %s)" % (coq_str(n), "true" if b else "false") for n, b in internal) + " ].", ""]
    txt = "\n".join(lines)
    old = open(path).read() if os.path.exists(path) else None
    if old != txt:
        os.makedirs(os.path.dirname(path), exist_ok=True)
        with open(path, "w") as f:
            f.write(txt)
    return txt


if __name__ == "__main__":
    repo = sys.argv[1] if len(sys.argv) > 1 else "/repo"
    ms, xs, it = translate(repo)
    for n, k in ms:
        print("%-14s %s" % (k, n))
    print(len(xs), "CrossSection methods")
    print(it)
