#!/usr/bin/env python3
"""C17 translator: literal tables of the source -> coq/Gen/Shapes.v (data only).

Reads, from the working tree of the repo (vp.REPO / argv[1]):
  src/impl.cpp  Manifold::Impl::Impl(Shape, mat3x4): vertPos/triVerts of
                Tetrahedron, Cube, Octahedron
  src/sdf.cpp   tetTri0[16], tetTri1[16] (marching tetrahedra), the 14
                neighbour offsets of Neighbor()
Fails loudly (exception) when a construct it depends on is not found."""
import os, re, sys


class TranslateError(Exception):
    pass


def _strip_comments(s):
    s = re.sub(r"//[^\n]*", "", s)
    return re.sub(r"/\*.*?\*/", "", s, flags=re.S)


def _brace_block(s, start):
    """s[start] == '{' -> index after the matching '}'"""
    depth = 0
    for i in range(start, len(s)):
        if s[i] == "{":
            depth += 1
        elif s[i] == "}":
            depth -= 1
            if depth == 0:
                return i + 1
    raise TranslateError("unbalanced braces")


def _tuples(txt, arity, integral=True):
    out = []
    for m in re.finditer(r"\{([^{}]*)\}", txt):
        parts = [p.strip() for p in m.group(1).split(",") if p.strip()]
        if len(parts) != arity:
            raise TranslateError("tuple of arity %d expected: %r" % (arity, m.group(0)))
        vals = []
        for p in parts:
            try:
                v = float(p)
            except ValueError:
                raise TranslateError("not a numeric literal: %r" % p)
            if v != int(v):
                raise TranslateError("non-integral literal %r in a table modelled over Z" % p)
            vals.append(int(v))
        out.append(tuple(vals))
    return out


def _assign(body, name, arity):
    m = re.search(r"\b%s\s*=\s*\{" % name, body)
    if not m:
        raise TranslateError("no assignment to %s" % name)
    end = _brace_block(body, m.end() - 1)
    return _tuples(body[m.end():end - 1], arity)


def shapes(repo):
    src = _strip_comments(open(os.path.join(repo, "src/impl.cpp")).read())
    m = re.search(r"Manifold::Impl::Impl\(Shape shape, const mat3x4 m\)\s*\{", src)
    if not m:
        raise TranslateError("Impl(Shape, mat3x4) not found in src/impl.cpp")
    body = src[m.end() - 1:_brace_block(src, m.end() - 1)]
    out = {}
    for shape in ("Tetrahedron", "Cube", "Octahedron"):
        cm = re.search(r"case\s+Shape::%s\s*:(.*?)break\s*;" % shape, body, flags=re.S)
        if not cm:
            raise TranslateError("case Shape::%s not found" % shape)
        out[shape] = (_assign(cm.group(1), "vertPos", 3), _assign(cm.group(1), "triVerts", 3))
    # what follows the switch: the pipeline we assume (positions transformed by m, CreateHalfedges(triVerts))
    tail = body[body.rfind("break"):]
    if "CreateHalfedges(triVerts)" not in tail or "m * vec4(v, 1.0)" not in tail:
        raise TranslateError("Impl(Shape): expected `v = m * vec4(v, 1.0)` and CreateHalfedges(triVerts) after the switch")
    return out


def sdf_tables(repo):
    src = _strip_comments(open(os.path.join(repo, "src/sdf.cpp")).read())
    out = {}
    for name, arity, n in (("tetTri0", 3, 16), ("tetTri1", 3, 16), ("neighbors", 4, 14)):
        m = re.search(r"\b%s\s*\[\s*%d\s*\]\s*=\s*\{" % (name, n), src)
        if not m:
            raise TranslateError("table %s[%d] not found in src/sdf.cpp" % (name, n))
        end = _brace_block(src, m.end() - 1)
        t = _tuples(src[m.end():end - 1], arity)
        if len(t) != n:
            raise TranslateError("table %s has %d rows, expected %d" % (name, len(t), n))
        out[name] = t
    return out


# ---------------------------------------------------------------- Extrude's per-division 2x2 map
class Poly:
    """polynomial with integer coefficients in the symbols sx sy c s (dict: sorted tuple of symbols -> coefficient)"""
    def __init__(self, d=None):
        self.d = {k: v for k, v in (d or {}).items() if v != 0}

    @staticmethod
    def of(x):
        if isinstance(x, Poly):
            return x
        if isinstance(x, (int, float)) and float(x) == int(x):
            return Poly({(): int(x)})
        raise TranslateError("non-integral constant %r in Extrude's matrix" % (x,))

    def __add__(self, o):
        o = Poly.of(o)
        d = dict(self.d)
        for k, v in o.d.items():
            d[k] = d.get(k, 0) + v
        return Poly(d)
    __radd__ = __add__

    def __neg__(self):
        return Poly({k: -v for k, v in self.d.items()})

    def __sub__(self, o):
        return self + (-Poly.of(o))

    def __rsub__(self, o):
        return Poly.of(o) - self

    def __mul__(self, o):
        if isinstance(o, (Vec2, Mat2)):
            return NotImplemented
        o = Poly.of(o)
        d = {}
        for k1, v1 in self.d.items():
            for k2, v2 in o.d.items():
                k = tuple(sorted(k1 + k2))
                d[k] = d.get(k, 0) + v1 * v2
        return Poly(d)
    __rmul__ = __mul__

    def coq(self):
        if not self.d:
            return "0"
        return " + ".join("(%d)%s" % (v, "".join(" * " + x for x in k)) for k, v in sorted(self.d.items()))


class Vec2:
    def __init__(self, x, y=None):
        self.x, self.y = Poly.of(x), Poly.of(x if y is None else y)


class Mat2:
    """column major like linalg.h: Mat2(col0, col1)"""
    def __init__(self, c0, c1):
        if not (isinstance(c0, Vec2) and isinstance(c1, Vec2)):
            raise TranslateError("mat2 constructor with non-vector arguments")
        self.c0, self.c1 = c0, c1

    def __mul__(self, o):
        if isinstance(o, Vec2):
            return Vec2(self.c0.x * o.x + self.c1.x * o.y, self.c0.y * o.x + self.c1.y * o.y)
        if isinstance(o, Mat2):
            return Mat2(self * o.c0, self * o.c1)
        raise TranslateError("unsupported product with a mat2")


def extrude_matrix(repo):
    """Symbolically evaluates the statements of Manifold::Extrude's division loop that build `transform` (the 2x2 map
    applied as `transform * poly[vert]`) with scale = (sx, sy), cosd(phi) = c, sind(phi) = s.
    Returns the four polynomial entries (xx, xy, yx, yy): pos.x = xx*x + xy*y, pos.y = yx*x + yy*y."""
    src = _strip_comments(open(os.path.join(repo, "src/constructors.cpp")).read())
    m = re.search(r"Manifold Manifold::Extrude\(", src)
    if not m:
        raise TranslateError("Manifold::Extrude not found")
    body = src[m.end():]
    a = re.search(r"vec2\s+scale\s*=\s*la::lerp\(vec2\(1\.0\),\s*scaleTop,\s*alpha\)\s*;", body)
    b = re.search(r"size_t\s+j\s*=\s*0\s*;", body)
    if not a or not b or b.start() < a.end():
        raise TranslateError("Extrude: `vec2 scale = la::lerp(vec2(1.0), scaleTop, alpha);` ... `size_t j = 0;` not found")
    if not re.search(r"vec2\s+pos\s*=\s*transform\s*\*\s*poly\[vert\]\s*;", body):
        raise TranslateError("Extrude: use site `vec2 pos = transform * poly[vert];` not found")
    if not re.search(r"double\s+phi\s*=\s*alpha\s*\*\s*twistDegrees\s*;", body[:a.start()]):
        raise TranslateError("Extrude: `double phi = alpha * twistDegrees;` not found")
    stmts = [t.strip() for t in body[a.end():b.start()].split(";") if t.strip()]

    def trig(name):
        def f(arg):
            if arg is not PHI:
                raise TranslateError("%s applied to something other than phi" % name)
            return Poly({(name,): 1})
        return f
    PHI = object()
    env = {"scale": Vec2(Poly({("sx",): 1}), Poly({("sy",): 1})), "phi": PHI, "cosd": trig("c"), "sind": trig("s"),
           "M": Mat2, "V": Vec2, "__builtins__": {}}

    def conv(e):
        e = re.sub(r"\bmat2\s*\(", "M(", e)
        e = re.sub(r"\bvec2\s*\(", "V(", e)
        e = e.replace("{", "V(").replace("}", ")")
        if re.search(r"[^\w\s.,()*+\-]", e):
            raise TranslateError("unsupported expression in Extrude's matrix construction: %r" % e)
        return e
    for st in stmts:
        st = " ".join(st.split())
        m1 = re.match(r"(?:const\s+)?(?:double|mat2|vec2|auto)\s+(\w+)\s*=\s*(.+)$", st)
        m2 = re.match(r"(?:const\s+)?mat2\s+(\w+)\s*\((.+)\)$", st)
        try:
            if m1:
                env[m1.group(1)] = eval(conv(m1.group(2)), env)
            elif m2:
                env[m2.group(1)] = eval("M(" + conv(m2.group(2)) + ")", env)
            else:
                raise TranslateError("unsupported statement in Extrude's matrix construction: %r" % st)
        except TranslateError:
            raise
        except Exception as ex:
            raise TranslateError("cannot evaluate %r: %s" % (st, ex))
    t = env.get("transform")
    if not isinstance(t, Mat2):
        raise TranslateError("Extrude: `transform` is not a mat2 after the matrix statements")
    return t.c0.x, t.c1.x, t.c0.y, t.c1.y


def coq_list(ts):
    return "[" + "; ".join("(" + ", ".join(str(x) if x >= 0 else "(%d)" % x for x in t) + ")" for t in ts) + "]"


def emit(repo, path):
    sh = shapes(repo)
    sd = sdf_tables(repo)
    L = ["(* GENERATED by translate/c17_shapes.py from src/impl.cpp and src/sdf.cpp - data only, do not edit *)",
         "From Coq Require Import ZArith List.", "Import ListNotations.", "Local Open Scope Z_scope.", ""]
    for shape, nm in (("Tetrahedron", "tetra"), ("Cube", "cube"), ("Octahedron", "octa")):
        v, t = sh[shape]
        L.append("Definition %s_verts : list (Z * Z * Z) := %s." % (nm, coq_list(v)))
        L.append("Definition %s_tris : list (Z * Z * Z) := %s." % (nm, coq_list(t)))
    L.append("Definition tet_tri0 : list (Z * Z * Z) := %s." % coq_list(sd["tetTri0"]))
    L.append("Definition tet_tri1 : list (Z * Z * Z) := %s." % coq_list(sd["tetTri1"]))
    xx, xy, yx, yy = extrude_matrix(repo)
    for nm, pl in (("xx", xx), ("xy", xy), ("yx", yx), ("yy", yy)):
        L.append("Definition extrude_m_%s (sx sy c s : Z) : Z := %s." % (nm, pl.coq()))
    L.append("Definition bcc_neighbors : list (Z * Z * Z * Z) := %s." % coq_list(sd["neighbors"]))
    txt = "\n".join(L) + "\n"
    old = open(path).read() if os.path.exists(path) else None
    if old != txt:
        os.makedirs(os.path.dirname(path), exist_ok=True)
        with open(path, "w") as f:
            f.write(txt)
    return {"shapes": {k: (len(v[0]), len(v[1])) for k, v in sh.items()}, "sdf": {k: len(v) for k, v in sd.items()}}


if __name__ == "__main__":
    repo = sys.argv[1] if len(sys.argv) > 1 else os.environ.get("VERIF_REPO", "/repo")
    here = os.path.dirname(os.path.dirname(os.path.abspath(__file__)))
    print(emit(repo, os.path.join(here, "coq", "Gen", "C17Shapes.v")))
