"""C09: valid base MeshGL records and structure-aware mutations of them.
A record is a dict with the MeshGL fields as Python lists (numbers are ints for
index fields; floats or the strings 'nan'/'inf'/'-inf' for numeric fields) plus
'prec' (32|64).  to_line() gives the harness/driver input line."""
import copy

FIELDS_IDX = ["triVerts", "mergeFromVert", "mergeToVert", "runIndex", "runOriginalID", "runFlags", "faceID"]
FIELDS_NUM = ["vertProperties", "runTransform", "halfedgeTangent"]
TAGS = [("VP", "vertProperties"), ("TV", "triVerts"), ("MF", "mergeFromVert"), ("MT", "mergeToVert"),
        ("RI", "runIndex"), ("RO", "runOriginalID"), ("RT", "runTransform"), ("RF", "runFlags"),
        ("FI", "faceID"), ("HT", "halfedgeTangent")]

CUBE_V = [(0, 0, 0), (0, 0, 1), (0, 1, 0), (0, 1, 1), (1, 0, 0), (1, 0, 1), (1, 1, 0), (1, 1, 1)]
CUBE_T = [(1, 0, 4), (2, 4, 0), (1, 3, 0), (3, 1, 5), (3, 2, 0), (3, 7, 2),
          (5, 4, 6), (5, 1, 4), (6, 4, 2), (7, 6, 2), (7, 3, 5), (7, 5, 6)]
TET_V = [(-1, -1, 1), (-1, 1, -1), (1, -1, -1), (1, 1, 1)]
TET_T = [(2, 0, 1), (0, 3, 1), (2, 3, 0), (3, 2, 1)]
IDENT = [1.0, 0, 0, 0, 1.0, 0, 0, 0, 1.0, 0, 0, 0]


def blank(prec=64):
    return dict(prec=prec, numProp=3, tolerance=0.0, vertProperties=[], triVerts=[], mergeFromVert=[],
                mergeToVert=[], runIndex=[], runOriginalID=[], runTransform=[], runFlags=[], faceID=[],
                halfedgeTangent=[])


def solid(verts, tris, prec=64, shift=(0, 0, 0), scale=1.0):
    r = blank(prec)
    for v in verts:
        r["vertProperties"] += [float(v[k] * scale + shift[k]) for k in range(3)]
    for t in tris:
        r["triVerts"] += list(t)
    return r


def cube(prec=64, **kw):
    return solid(CUBE_V, CUBE_T, prec, **kw)


def tet(prec=64, **kw):
    return solid(TET_V, TET_T, prec, **kw)


def cube_props(prec=64):
    """24 property vertices (one per face corner, property = face number and a
    per-corner value), merge vectors restoring the 8 positions."""
    r = blank(prec)
    r["numProp"] = 5
    first = {}
    for f in range(6):
        for half in range(2):
            t = CUBE_T[2 * f + half]
            for v in t:
                key = (f, v)
                if key not in first:
                    idx = len(r["vertProperties"]) // 5
                    first[key] = idx
                    r["vertProperties"] += [float(x) for x in CUBE_V[v]] + [float(f), float(v) * 0.25]
                r["triVerts"].append(first[key])
    canon = {}
    for (f, v), idx in sorted(first.items(), key=lambda kv: kv[1]):
        if v in canon:
            r["mergeFromVert"].append(idx)
            r["mergeToVert"].append(canon[v])
        else:
            canon[v] = idx
    return r


def two_runs(prec=64, with_transform=True, with_flags=True, with_face=True):
    a = cube(prec)
    b = solid(TET_V, TET_T, prec, shift=(5, 5, 5))
    r = blank(prec)
    r["vertProperties"] = a["vertProperties"] + b["vertProperties"]
    r["triVerts"] = a["triVerts"] + [x + 8 for x in b["triVerts"]]
    r["runIndex"] = [0, 36, 48]
    r["runOriginalID"] = [7, 9]
    if with_transform:
        r["runTransform"] = IDENT + [0.0, 1.0, 0, -1.0, 0, 0, 0, 0, 1.0, 2.0, 0, 0]
    if with_flags:
        r["runFlags"] = [0, 1]
    if with_face:
        r["faceID"] = [i // 2 for i in range(12)] + [20, 21, 22, 23]
    return r


def with_tangents(r):
    r = copy.deepcopy(r)
    n = len(r["triVerts"])
    r["halfedgeTangent"] = [0.125 * ((i * 7) % 5 - 2) if i % 4 != 3 else 1.0 for i in range(4 * n)]
    return r


def three_runs_props(prec=64):
    r = cube_props(prec)
    r["runIndex"] = [0, 12, 24, 36]
    r["runOriginalID"] = [3, 3, 4]
    r["runFlags"] = [2, 0, 3]
    r["runTransform"] = IDENT * 3
    r["faceID"] = list(range(12))
    return r


def torus(prec=64, nu=2, nv=3):
    """nu x nv grid on a torus; with nu == 2 every vertex is joined to its tube neighbour by
    two distinct edges (no pinched vertex), which DedupeEdge resolves by ADDING faces."""
    import math
    r = blank(prec)
    for i in range(nu):
        for j in range(nv):
            a, b = 2 * math.pi * i / nu, 2 * math.pi * j / nv
            r["vertProperties"] += [(2 + 0.7 * math.cos(a)) * math.cos(b), (2 + 0.7 * math.cos(a)) * math.sin(b), 0.7 * math.sin(a) + 0.1 * i]
    idx = lambda i, j: (i % nu) * nv + (j % nv)
    for i in range(nu):
        for j in range(nv):
            a, b, c, d = idx(i, j), idx(i + 1, j), idx(i + 1, j + 1), idx(i, j + 1)
            r["triVerts"] += [a, b, c, a, c, d]
    return r


def bases(prec):
    return [("tet", tet(prec)), ("cube", cube(prec)), ("cubeprops", cube_props(prec)),
            ("tworuns", two_runs(prec)), ("tworuns_plain", two_runs(prec, False, False, False)),
            ("cube_tan", with_tangents(cube(prec))), ("tworuns_tan", with_tangents(two_runs(prec))),
            ("threeruns_props", three_runs_props(prec)), ("props_tan", with_tangents(three_runs_props(prec))),
            ("torus2x3", torus(prec, 2, 3)), ("torus2x4_tan", with_tangents(torus(prec, 2, 4)))]


def fmt_num(x):
    if isinstance(x, str):
        return x
    return repr(float(x))


def to_line(kind, cid, r, prog=()):
    p = ["%s %s %d %d %s" % (kind, cid, r["prec"], r["numProp"], fmt_num(r["tolerance"]))]
    for tag, f in TAGS:
        v = r[f]
        p.append("%s %d" % (tag, len(v)))
        if v:
            p.append(" ".join(fmt_num(x) if f in FIELDS_NUM else str(int(x)) for x in v))
    if kind == "R":
        p.append("PROG %d %s" % (len(prog), " ".join(map(str, prog))))
    return " ".join(p)


def imax(r):
    return (1 << 32) - 1 if r["prec"] == 32 else (1 << 64) - 1


def mutate(rng, r0, depth=1):
    """One structure-aware mutation; returns (record, tag)."""
    r = copy.deepcopy(r0)
    tags = []
    for _ in range(depth):
        kind = rng.randrange(12)
        if kind <= 2:      # length mutation of any field
            f = rng.choice(FIELDS_IDX + FIELDS_NUM)
            how = rng.choice(["-1", "+1", "x2", "0", "-3", "+3", "8", "half", "+12"])
            v = r[f]
            fill = (v[-1] if v else (0 if f in FIELDS_IDX else 0.5))
            if how == "-1": v = v[:-1]
            elif how == "+1": v = v + [fill]
            elif how == "x2": v = v + v
            elif how == "0": v = []
            elif how == "-3": v = v[:-3]
            elif how == "+3": v = v + [fill] * 3
            elif how == "8": v = (v + [fill] * 8)[:8]
            elif how == "half": v = v[:len(v) // 2]
            elif how == "+12": v = v + [fill] * 12
            r[f] = v
            tags.append("len:%s:%s" % (f, how))
        elif kind <= 5:    # index value mutation
            f = rng.choice(["triVerts", "mergeFromVert", "mergeToVert", "runIndex", "faceID", "runOriginalID", "runFlags"])
            if not r[f]:
                r[f] = [0] * rng.choice([1, 2, 3])
            nv = len(r["vertProperties"]) // max(1, r["numProp"])
            size = {"triVerts": nv, "mergeFromVert": nv, "mergeToVert": nv, "runIndex": len(r["triVerts"]),
                    "faceID": len(r["triVerts"]) // 3, "runOriginalID": 5, "runFlags": 3}[f]
            how = rng.choice(["-1", "max", "size", "size+1", "size-1", "size+3000", "2^31", "2^32+1", "0", "size+3"])
            val = {"-1": imax(r), "max": imax(r), "size": size, "size+1": size + 1, "size-1": max(0, size - 1),
                   "size+3000": size + 3000, "2^31": 1 << 31, "2^32+1": (1 << 32) + 1, "0": 0, "size+3": size + 3}[how]
            lim = {"runOriginalID": (1 << 32) - 1, "runFlags": 255}.get(f, imax(r))
            val = min(val, lim) if how != "2^32+1" or r["prec"] == 64 else 1
            if f in ("runOriginalID", "runFlags"):
                val = min(val, lim)
            pos = rng.choice([0, len(r[f]) - 1, rng.randrange(len(r[f]))])
            r[f][pos] = val
            tags.append("idx:%s[%s]=%s" % (f, "first" if pos == 0 else "last" if pos == len(r[f]) - 1 else "mid", how))
        elif kind == 6:    # run table shapes
            how = rng.choice(["shuffle", "reverse", "nonmono", "toolong", "dropfirst", "noindex", "noids", "one", "dup", "swap2", "unaligned"])
            ri = list(r["runIndex"]) or [0, len(r["triVerts"])]
            if how == "shuffle": rng.shuffle(ri)
            elif how == "reverse": ri.reverse()
            elif how == "nonmono": ri = ri[:1] + [ri[-1]] + ri[1:]
            elif how == "toolong": ri = ri + [ri[-1] + 3, ri[-1] + 6]
            elif how == "dropfirst": ri = ri[1:]
            elif how == "noindex": ri = []
            elif how == "noids": r["runOriginalID"] = []
            elif how == "one": ri = ri[:1]
            elif how == "dup": r["runOriginalID"] = r["runOriginalID"] + r["runOriginalID"] + [1]
            elif how == "swap2" and len(ri) >= 3: ri[1], ri[2] = ri[2], ri[1]
            elif how == "unaligned": ri = [x + 1 if 0 < i < len(ri) - 1 else x for i, x in enumerate(ri)]
            r["runIndex"] = ri
            tags.append("runs:" + how)
        elif kind == 7:    # non-finite numbers
            f = rng.choice(FIELDS_NUM + ["tolerance"])
            val = rng.choice(["nan", "inf", "-inf"])
            if f == "tolerance":
                r[f] = val
            else:
                if not r[f]:
                    r[f] = [0.0] * {"vertProperties": 3, "runTransform": 12 * max(1, len(r["runOriginalID"])),
                                    "halfedgeTangent": 4 * len(r["triVerts"])}[f]
                if not r[f]:
                    r[f] = [0.0]
                r[f][rng.randrange(len(r[f]))] = val
            tags.append("nonfinite:%s:%s" % (f, val))
        elif kind == 8:    # numProp
            how = rng.choice([0, 1, 2, 4, 6, 7, 1000, "max"])
            r["numProp"] = imax(r) if how == "max" else how
            tags.append("numProp:%s" % how)
        elif kind == 9:    # consistent tangents / transforms / flags lengths relative to other fields
            how = rng.choice(["tan=4*3*nt", "tan=8", "tan=4*3*nt-4", "tan=4*3*nt+4", "tan=3*nt", "rt=12", "rt=12*(n+1)", "flags+1", "flags-1", "face=nt+1", "face=nt-1", "face=1"])
            nt = len(r["triVerts"]) // 3
            n = len(r["runOriginalID"])
            if how.startswith("tan"):
                ln = {"tan=4*3*nt": 12 * nt, "tan=8": 8, "tan=4*3*nt-4": max(0, 12 * nt - 4), "tan=4*3*nt+4": 12 * nt + 4, "tan=3*nt": 3 * nt}[how]
                r["halfedgeTangent"] = [0.25] * ln
            elif how == "rt=12": r["runTransform"] = list(IDENT)
            elif how == "rt=12*(n+1)": r["runTransform"] = IDENT * (n + 1)
            elif how == "flags+1": r["runFlags"] = r["runFlags"] + [3]
            elif how == "flags-1": r["runFlags"] = r["runFlags"][:-1]
            elif how == "face=nt+1": r["faceID"] = list(range(nt + 1))
            elif how == "face=nt-1": r["faceID"] = list(range(max(0, nt - 1)))
            elif how == "face=1": r["faceID"] = [0]
            tags.append("rel:" + how)
        elif kind == 10:   # topology damage (valid lengths): degenerate / duplicate / flipped triangle
            how = rng.choice(["flip", "dup", "degenerate", "drop", "swapverts"])
            tv = r["triVerts"]
            if len(tv) >= 6:
                t = 3 * rng.randrange(len(tv) // 3)
                if how == "flip": tv[t], tv[t + 1] = tv[t + 1], tv[t]
                elif how == "dup": r["triVerts"] = tv + tv[t:t + 3]
                elif how == "degenerate": tv[t + 1] = tv[t]
                elif how == "drop": r["triVerts"] = tv[:t] + tv[t + 3:]
                elif how == "swapverts": tv[t], tv[(t + 4) % len(tv)] = tv[(t + 4) % len(tv)], tv[t]
            tags.append("topo:" + how)
        else:              # merge vectors
            how = rng.choice(["self", "chain", "toolong", "allsame", "swap"])
            nv = len(r["vertProperties"]) // max(1, r["numProp"])
            if how == "self": r["mergeFromVert"], r["mergeToVert"] = [0, 1], [0, 1]
            elif how == "chain": r["mergeFromVert"], r["mergeToVert"] = [1, 2, 3], [2, 3, 1]
            elif how == "toolong": r["mergeFromVert"] = r["mergeFromVert"] + [0]
            elif how == "allsame": r["mergeFromVert"], r["mergeToVert"] = list(range(nv)), [0] * nv
            elif how == "swap": r["mergeFromVert"], r["mergeToVert"] = r["mergeToVert"], r["mergeFromVert"]
            tags.append("merge:" + how)
    return r, "+".join(tags)
