"""C02 translator: reads the inclusion constants/arithmetic of Boolean3::Result
(src/boolean_result.cpp), AbsSum, and Shadows/withSign (src/shared.h) from the
CURRENT source text and emits coq/Gen/BoolConsts.v (definitions only).  The
hand-written theorems of Geo/Incl.v and Geo/Perturb.v are stated about these
generated definitions, so an edit of the C++ that changes any of them is
re-checked by Coq on every run.

A tiny C-expression translator (ternary, comparisons, + - *, unary -, abs(),
`op == OpType::X`) is all that is needed; anything else fails loudly."""
import os, re, sys


class TranslateError(Exception):
    pass


TOK = re.compile(r"\s*(OpType::\w+|std::abs|[A-Za-z_]\w*|\d+|==|!=|<=|>=|&&|\|\||[-+*<>?:()!])")


def tokenize(s):
    out, i = [], 0
    s = s.strip()
    while i < len(s):
        m = TOK.match(s, i)
        if not m:
            raise TranslateError("cannot tokenize %r at %r" % (s, s[i:i + 20]))
        out.append(m.group(1))
        i = m.end()
    return out


class P:
    """expr := cond ; cond := cmp ('?' expr ':' expr)? ; cmp := sum (relop sum)? ;
    sum := prod (('+'|'-') prod)* ; prod := un ('*' un)* ; un := '-' un | atom"""

    def __init__(self, toks, env, q=False):
        self.t, self.i, self.env, self.q = toks, 0, env, q

    def peek(self):
        return self.t[self.i] if self.i < len(self.t) else None

    def eat(self, x=None):
        tk = self.peek()
        if tk is None or (x is not None and tk != x):
            raise TranslateError("expected %r, got %r in %r" % (x, tk, self.t))
        self.i += 1
        return tk

    # returns (kind, text) with kind in {"Z", "bool"}
    def expr(self):
        c = self.cmp()
        if self.peek() == "?":
            self.eat("?")
            a = self.expr()
            self.eat(":")
            b = self.expr()
            if c[0] != "bool" or a[0] != b[0]:
                raise TranslateError("ill-typed ternary in %r" % self.t)
            return (a[0], "(if %s then %s else %s)" % (c[1], a[1], b[1]))
        return c

    def cmp(self):
        a = self.sum()
        op = self.peek()
        if op in ("==", "!=", "<", "<=", ">", ">="):
            self.eat()
            b = self.sum()
            if a[0] == "op" and b[0] == "opc" and op == "==":
                return ("bool", "(optype_eqb %s %s)" % (a[1], b[1]))
            if a[0] != "Z" or b[0] != "Z":
                raise TranslateError("comparison of non-integers in %r" % self.t)
            if self.q:
                m = {"==": "(Qeqb %s %s)", "!=": "(negb (Qeqb %s %s))", "<": "(Qltb %s %s)", "<=": "(Qleb %s %s)"}.get(op)
                if m is None:
                    m = {">": "(Qltb %s %s)", ">=": "(Qleb %s %s)"}[op]
                    return ("bool", m % (b[1], a[1]))
                return ("bool", m % (a[1], b[1]))
            m = {"==": "(%s =? %s)", "!=": "(negb (%s =? %s))", "<": "(%s <? %s)", "<=": "(%s <=? %s)",
                 ">": "(%s >? %s)", ">=": "(%s >=? %s)"}[op]
            return ("bool", m % (a[1], b[1]))
        return a

    def sum(self):
        a = self.prod()
        while self.peek() in ("+", "-"):
            op = self.eat()
            b = self.prod()
            if a[0] != "Z" or b[0] != "Z":
                raise TranslateError("arithmetic on non-integers in %r" % self.t)
            a = ("Z", "(%s %s %s)" % (a[1], op, b[1]))
        return a

    def prod(self):
        a = self.un()
        while self.peek() == "*":
            self.eat()
            b = self.un()
            if a[0] != "Z" or b[0] != "Z":
                raise TranslateError("arithmetic on non-integers in %r" % self.t)
            a = ("Z", "(%s * %s)" % (a[1], b[1]))
        return a

    def un(self):
        if self.peek() == "-":
            self.eat()
            a = self.un()
            if a[0] != "Z":
                raise TranslateError("negation of non-integer")
            return ("Z", "(- %s)" % a[1])
        return self.atom()

    def atom(self):
        tk = self.eat()
        if tk == "(":
            e = self.expr()
            self.eat(")")
            return e
        if tk in ("abs", "std::abs"):
            self.eat("(")
            e = self.expr()
            self.eat(")")
            return ("Z", ("(Qabs %s)" if self.q else "(Z.abs %s)") % e[1])
        if re.fullmatch(r"\d+", tk):
            return ("Z", tk)
        if tk.startswith("OpType::"):
            name = tk.split("::")[1]
            if name not in ("Add", "Subtract", "Intersect"):
                raise TranslateError("unknown OpType %s" % name)
            return ("opc", name)
        if tk in self.env:
            return self.env[tk]
        raise TranslateError("unknown identifier %r in %r" % (tk, self.t))


def tr(src, env, want, q=False):
    p = P(tokenize(src), env, q)
    k, txt = p.expr()
    if p.peek() is not None:
        raise TranslateError("trailing tokens in %r" % src)
    if k != want:
        raise TranslateError("%r has kind %s, wanted %s" % (src, k, want))
    return txt


def find(pat, text, what):
    m = re.search(pat, text, flags=re.S)
    if not m:
        raise TranslateError("cannot find %s in the source" % what)
    return [" ".join(g.split()) for g in m.groups()]


def generate(repo):
    br = open(os.path.join(repo, "src/boolean_result.cpp")).read()
    sh = open(os.path.join(repo, "src/shared.h")).read()
    body = br[br.index("Manifold::Impl Boolean3::Result(OpType op) const"):]
    out = ["(* GENERATED by translate/c02_consts.py from src/boolean_result.cpp and src/shared.h -- do not edit *)",
           "From Coq Require Import ZArith QArith Qabs Bool List.", "From MV Require Import Geo.WindingDefs Geo.QOps.",
           "Local Open Scope Z_scope.", "",
           "Definition optype_eqb (a b : optype) : bool :=",
           "  match a, b with Add, Add | Subtract, Subtract | Intersect, Intersect => true | _, _ => false end.", ""]
    raw = {}
    openv = {"op": ("op", "o")}
    for c in ("c1", "c2", "c3"):
        (e,) = find(r"const\s+int\s+%s\s*=\s*([^;]+);" % c, body, c)
        raw[c] = e
        out.append("Definition gen_%s (o : optype) : Z := %s.   (* %s *)" % (c, tr(e, openv, "Z"), e))
    (e,) = find(r"const\s+bool\s+invertQ\s*=\s*([^;]+);", body, "invertQ")
    raw["invertQ"] = e
    out.append("Definition gen_invertQ (o : optype) : bool := %s.   (* %s *)" % (tr(e, openv, "bool"), e))
    cenv = {c: ("Z", "(gen_%s o)" % c) for c in ("c1", "c2", "c3")}
    for name, srcv in (("i12", r"xv12_\.x12"), ("i21", r"xv21_\.x12"), ("i03", r"w03_"), ("i30", r"w30_")):
        caps, var, e = find(r"transform\(\s*%s\.begin\(\)\s*,\s*%s\.end\(\)\s*,\s*%s\.begin\(\)\s*,\s*"
                            r"\[([^\]]*)\]\s*\(\s*int\s+(\w+)\s*\)\s*\{\s*return\s+([^;]+);\s*\}\s*\)\s*;"
                            % (srcv, srcv, name), body, "transform -> " + name)
        env = dict(cenv)
        env[var] = ("Z", "v")
        raw[name] = e
        out.append("Definition gen_%s (o : optype) (v : Z) : Z := %s.   (* %s *)" % (name, tr(e, env, "Z"), e))
    a, b, e = find(r"struct\s+AbsSum\s*\{\s*int\s+operator\(\)\s*\(\s*int\s+(\w+)\s*,\s*int\s+(\w+)\s*\)\s*const\s*\{\s*return\s+([^;]+);",
                   br, "AbsSum")
    raw["AbsSum"] = e
    out.append("Definition gen_abssum (a b : Z) : Z := %s.   (* %s *)" % (tr(e, {a: ("Z", "a"), b: ("Z", "b")}, "Z"), e))
    # the scans: each inclusion vector is scanned with AbsSum, starting where the previous one ended
    scans = re.findall(r"exclusive_scan\(\s*(\w+)\.begin\(\)\s*,\s*\w+\.end\(\)\s*,\s*(\w+)\.begin\(\)\s*,\s*(\w+)\s*,\s*AbsSum\(\)\s*\)", body)
    raw["scans"] = scans
    out.append("Definition gen_scan_order : list (Z * bool) := (%s)%%list.   (* (inclusion vector: 0=i03 1=i30 2=i12 3=i21, starts at 0?) *)"
               % " :: ".join(["(%d, %s)" % ({"i03": 0, "i30": 1, "i12": 2, "i21": 3}.get(s[0], 9), "true" if s[2] == "0" else "false")
                              for s in scans] + ["nil"]))
    # DuplicateVerts: n = abs(inclusion[vert]); R[vertR[vert]+i] = P[vert] for i<n
    dv = find(r"struct\s+DuplicateVerts\s*\{.*?const\s+int\s+n\s*=\s*([^;]+);\s*for\s*\(\s*int\s+i\s*=\s*0\s*;\s*i\s*<\s*n\s*;\s*\+\+i\s*\)\s*\{\s*"
              r"vertPosR\[\s*vertR\[vert\]\s*\+\s*i\s*\]\s*=\s*vertPosP\[vert\]\s*;", br, "DuplicateVerts")
    raw["DuplicateVerts.n"] = dv[0]
    out.append("Definition gen_dup_count (incl : Z) : Z := %s.   (* %s *)"
               % (tr(dv[0].replace("inclusion[vert]", "incl"), {"incl": ("Z", "incl")}, "Z"), dv[0]))
    # shared.h
    p, q, d, e = find(r"inline\s+bool\s+Shadows\(\s*double\s+(\w+)\s*,\s*double\s+(\w+)\s*,\s*double\s+(\w+)\s*\)\s*\{\s*return\s+([^;]+);", sh, "Shadows")
    raw["Shadows"] = e
    out.append("Definition gen_shadows (p q dir : Z) : bool := %s.   (* %s *)"
               % (tr(e, {p: ("Z", "p"), q: ("Z", "q"), d: ("Z", "dir")}, "bool"), e))
    b_, v_, e = find(r"inline\s+double\s+withSign\(\s*bool\s+(\w+)\s*,\s*double\s+(\w+)\s*\)\s*\{\s*return\s+([^;]+);", sh, "withSign")
    raw["withSign"] = e
    out.append("Definition gen_withSign (pos : bool) (v : Z) : Z := %s.   (* %s *)"
               % (tr(e.replace(b_, "pos", 1) if b_ != "pos" else e, {"pos": ("bool", "pos"), v_: ("Z", "v")}, "Z"), e))
    # the same two functions over Q (used by the exact port of the boolean3.cpp kernels, Geo/KernelDefs.v)
    p, q, d, e = find(r"inline\s+bool\s+Shadows\(\s*double\s+(\w+)\s*,\s*double\s+(\w+)\s*,\s*double\s+(\w+)\s*\)\s*\{\s*return\s+([^;]+);", sh, "Shadows")
    out.append("Definition gen_shadowsQ (p q dir : Q) : bool := %s%%Q.   (* %s *)"
               % (tr(e, {p: ("Z", "p"), q: ("Z", "q"), d: ("Z", "dir")}, "bool", q=True), e))
    b_, v_, e = find(r"inline\s+double\s+withSign\(\s*bool\s+(\w+)\s*,\s*double\s+(\w+)\s*\)\s*\{\s*return\s+([^;]+);", sh, "withSign")
    out.append("Definition gen_withSignQ (pos : bool) (v : Q) : Q := %s%%Q.   (* %s *)"
               % (tr(e.replace(b_, "pos", 1) if b_ != "pos" else e, {"pos": ("bool", "pos"), v_: ("Z", "v")}, "Z", q=True), e))
    verts, tris = cube_table(repo)
    raw["cube"] = (verts, tris)
    out.append("Definition gen_cube_vert_bits : list (Z * Z * Z) := (%s)%%list.   (* impl.cpp Shape::Cube vertPos *)"
               % " :: ".join(["(%d, %d, %d)" % v for v in verts] + ["nil"]))
    out.append("Definition gen_cube_tri_verts : list (nat * nat * nat) := (%s)%%list.   (* impl.cpp Shape::Cube triVerts *)"
               % " :: ".join(["(%d, %d, %d)%%nat" % t for t in tris] + ["nil"]))
    return "\n".join(out) + "\n", raw


def cube_table(repo):
    """The Shape::Cube tables of src/impl.cpp as Python lists."""
    s = open(os.path.join(repo, "src/impl.cpp")).read()
    m = re.search(r"case\s+Shape::Cube\s*:(.*?)break\s*;", s, flags=re.S)
    if not m:
        raise TranslateError("Shape::Cube not found in impl.cpp")
    blk = re.sub(r"//[^\n]*", "", m.group(1))
    vp = re.search(r"vertPos\s*=\s*\{(.*?)\}\s*;", blk, flags=re.S)
    tv = re.search(r"triVerts\s*=\s*\{(.*?)\}\s*;", blk, flags=re.S)
    if not vp or not tv:
        raise TranslateError("cube tables not found")
    verts = [tuple(int(float(x)) for x in g.split(",")) for g in re.findall(r"\{([^{}]*)\}", vp.group(1))]
    for g in re.findall(r"\{([^{}]*)\}", vp.group(1)):
        if any(float(x) not in (0.0, 1.0) for x in g.split(",")):
            raise TranslateError("cube vertex not 0/1: " + g)
    tris = [tuple(int(x) for x in g.split(",")) for g in re.findall(r"\{([^{}]*)\}", tv.group(1))]
    return verts, tris


def write(repo, coqdir):
    txt, raw = generate(repo)
    os.makedirs(os.path.join(coqdir, "Gen"), exist_ok=True)
    p = os.path.join(coqdir, "Gen", "BoolConsts.v")
    old = open(p).read() if os.path.exists(p) else None
    if old != txt:
        with open(p, "w") as f:
            f.write(txt)
    return raw


if __name__ == "__main__":
    repo = sys.argv[1] if len(sys.argv) > 1 else "/repo"
    print(generate(repo)[0])
    print(cube_table(repo))
