#!/usr/bin/env python3
"""C06 translator: /repo sources -> coq/Gen/LockTable.v  (class-level lock table).

For every function of the anchored classes that touches a guarded field, a
mutex, or an atomic-only field, emit the ordered events
    Acq/AcqMulti/Rel (lock_guard, scoped_lock, ConcurrentSharedPtr::GetGuard scopes),
    Rd/Wr of guarded fields, ARd/AWr/ARMW of atomic-only fields,
with calls to other table functions inlined (so that nested acquisitions are
visible to the lock-order check).  Token-level parsing with brace/scope
tracking.  Conservative: an access is emitted exactly where it occurs; whether
it is under a guard is decided by the Coq checker `lockset_ok` (and mirrored
here only to produce readable diagnostics).  Anything this script cannot
classify raises TranslateError (a broken tie, reported by checks/C06.py).

Accesses that are NOT put into the table (each with a stated reason, listed in
the JSON side file and in the evidence):
  fresh      the object is under construction / a local value or make_shared
             result of this very function that has not been returned yet
  exclusive  destructor: the last owner, no other thread can reach the object
  owned      CsgLeafNode::Compose's `nodes`: every caller passes nodes created by
             Transform() inside the running evaluation (checked: see owned_check)
  immutable  field never written after construction (op_, CsgOpNode::transform_,
             the impl_ handle itself, PathImpl::paths_) - checked: every write
             site is in a constructor or on a fresh object
  published  CrossSection::tolerance_ read after GetPaths() of the same object in
             the same function: the only const-path write is inside GetPaths()
             under pathsMutex_ and happens before GetPaths() returns to anyone
"""
import json, os, re, sys

class TranslateError(Exception):
    pass

# ----------------------------------------------------------------- numbering
MUTEX = {  # name -> (id, recursive)
    "Manifold.pNodeMutex_": (0, False),
    "CsgOpNode.impl_mutex": (1, True),
    "CsgLeafNode.mutex_": (2, False),
    "CrossSection.pathsMutex_": (3, False),
    "Partition.cacheLock": (4, False),
}
FIELD = {  # name -> (id, guard mutex name or None for atomic-only)
    "Manifold.pNode_": (0, "Manifold.pNodeMutex_"),
    "Manifold.ctx_": (1, None),
    "CsgLeafNode.pImpl_": (2, "CsgLeafNode.mutex_"),
    "CsgLeafNode.transform_": (3, "CsgLeafNode.mutex_"),
    "CsgOpNode.impl_contents": (4, "CsgOpNode.impl_mutex"),
    "CsgOpNode.cache_": (5, "CsgOpNode.impl_mutex"),
    "CrossSection.paths_": (6, "CrossSection.pathsMutex_"),
    "CrossSection.transform_": (7, "CrossSection.pathsMutex_"),
    "CrossSection.tolerance_": (8, "CrossSection.pathsMutex_"),
    "Partition.cache": (9, "Partition.cacheLock"),
    "Impl.meshIDCounter_": (10, None),
    "ExecutionContext.totalBooleans": (11, None),
    "ExecutionContext.doneBooleans": (12, None),
    "ExecutionContext.totalPhases": (13, None),
    "ExecutionContext.donePhases": (14, None),
    "ExecutionContext.cancel": (15, None),
}
GLOBAL_REF = 90   # reference variable standing for "the" static object

# ----------------------------------------------------------------- lexing
FALSE_CONDS = ("MANIFOLD_PAR == 1", "MANIFOLD_DEBUG", "MANIFOLD_TIMING", "__EMSCRIPTEN__", "TRACY_ENABLE",
               "MANIFOLD_USE_CUDA")

def preprocess(src):
    """Strip comments/strings, resolve #if for the configuration the C06 harness
    is built in (PAR off, DEBUG off).  Keeps line structure."""
    out = []
    i, n = 0, len(src)
    while i < n:
        c = src[i]
        if src.startswith("//", i):
            j = src.find("\n", i)
            i = n if j < 0 else j
        elif src.startswith("/*", i):
            j = src.find("*/", i + 2)
            seg = src[i:(n if j < 0 else j + 2)]
            out.append("\n" * seg.count("\n"))
            i = n if j < 0 else j + 2
        elif c == '"':
            j = i + 1
            while j < n and src[j] != '"':
                j += 2 if src[j] == "\\" else 1
            out.append('""')
            i = j + 1
        elif c == "'" and i + 2 < n and (src[i + 2] == "'" or (src[i + 1] == "\\" and src[i + 3] == "'")):
            j = src.find("'", i + 2 if src[i + 1] != "\\" else i + 3)
            out.append("0")
            i = j + 1
        else:
            out.append(c)
            i += 1
    lines = "".join(out).split("\n")
    res, stack = [], []   # stack of [active_before, this_branch_active, any_taken]
    k = 0
    while k < len(lines):
        ln = lines[k]
        s = ln.strip()
        if s.startswith("#"):
            full = s
            while full.endswith("\\") and k + 1 < len(lines):
                k += 1
                res.append("")
                full = full[:-1] + " " + lines[k].strip()
            d = full[1:].strip()
            def cond_true(expr):
                return not any(f in expr for f in FALSE_CONDS)
            active = all(x[1] for x in stack)
            if d.startswith("ifdef") or d.startswith("if ") or d.startswith("if("):
                t = cond_true(d)
                stack.append([active, t, t])
            elif d.startswith("ifndef"):
                t = not cond_true(d)
                stack.append([active, t, t])
            elif d.startswith("elif"):
                if not stack:
                    raise TranslateError("unbalanced #elif")
                t = (not stack[-1][2]) and cond_true(d)
                stack[-1][1] = t
                stack[-1][2] = stack[-1][2] or t
            elif d.startswith("else"):
                if not stack:
                    raise TranslateError("unbalanced #else")
                stack[-1][1] = not stack[-1][2]
                stack[-1][2] = True
            elif d.startswith("endif"):
                if not stack:
                    raise TranslateError("unbalanced #endif")
                stack.pop()
            res.append("")
        else:
            res.append(ln if all(x[1] for x in stack) else "")
        k += 1
    return "\n".join(res)

TOK = re.compile(r"[A-Za-z_]\w*|\d[\w.]*|->|::|==|!=|<=|>=|&&|\|\||\+=|-=|\*=|/=|\|=|&=|\^=|<<|>>|\+\+|--|\S")

def tokenize(text):
    toks = []
    for ln, line in enumerate(text.split("\n"), 1):
        for m in TOK.finditer(line):
            toks.append((m.group(0), ln))
    return toks

# ----------------------------------------------------------------- functions
class Func:
    def __init__(self, file, name, cls, head, body, line):
        self.file, self.name, self.cls, self.head, self.body, self.line = file, name, cls, head, body, line
        self.key = None
    def __repr__(self):
        return "<%s %s:%d>" % (self.key or self.name, self.file, self.line)

def match_brace(toks, i):
    """toks[i] == '{' -> index of matching '}'"""
    d = 0
    for j in range(i, len(toks)):
        if toks[j][0] == "{":
            d += 1
        elif toks[j][0] == "}":
            d -= 1
            if d == 0:
                return j
    raise TranslateError("unbalanced braces from line %d" % toks[i][1])

def find_functions(file, toks):
    funcs = []
    def scan(lo, hi, cls):
        i = lo
        start = lo
        while i < hi:
            t = toks[i][0]
            if t in (";",):
                start = i + 1
            elif t == "}":
                start = i + 1
            elif t == "{":
                head = toks[start:i]
                j = match_brace(toks, i)
                words = [h[0] for h in head]
                if not words:
                    start = j + 1
                elif words[0] == "namespace" or (words[0] == "extern" and len(words) > 1 and words[1] == '""'):
                    scan(i + 1, j, cls)
                    start = j + 1
                elif "(" not in words and any(w in ("class", "struct", "union") for w in words[:4]) and "=" not in words:
                    kw = max(k for k, w in enumerate(words[:4]) if w in ("class", "struct", "union"))
                    nm = []
                    for w in words[kw + 1:]:
                        if w in (":", "final"):
                            break
                        nm.append(w)
                    cname = "".join(nm)
                    scan(i + 1, j, cname.split("::")[-1] if cname else cls)
                    start = j + 1
                elif "(" in words and words[0] not in ("enum",) and not ("=" in words and words.index("=") < words.index("(") and "operator" not in words):
                    # function definition: qualified name before the first '(' at depth 0
                    p = words.index("(")
                    if "operator" in words[:p + 1]:
                        o = words.index("operator")
                        q = o
                        name_toks = words[o:p] if p > o + 1 else words[o:p + 2]
                        if words[o + 1] == "(":
                            name_toks = ["operator", "(", ")"]
                        while q >= 2 and words[q - 1] == "::":
                            name_toks = words[q - 2:q] + name_toks
                            q -= 2
                        name = "".join(name_toks)
                    else:
                        q = p - 1
                        name_toks = [words[q]]
                        if q >= 1 and words[q - 1] == "~":
                            name_toks = ["~" + words[q]]
                            q -= 1
                        while q >= 2 and words[q - 1] == "::":
                            name_toks = words[q - 2:q] + name_toks
                            q -= 2
                        name = "".join(name_toks)
                    # template<>-heads or requires etc. do not matter here
                    c = cls
                    if "::" in name:
                        c = name.split("::")[-2]
                    elif cls:
                        name = cls + "::" + name
                    funcs.append(Func(file, name, c, head, toks[i:j + 1], toks[i][1]))
                    start = j + 1
                else:
                    start = j + 1      # initialiser, enum, lambda at namespace scope...
                i = j
            i += 1
    scan(0, len(toks), None)
    # stable keys for overloads
    seen = {}
    for f in funcs:
        seen.setdefault(f.name, []).append(f)
    for name, fs in seen.items():
        if len(fs) == 1:
            fs[0].key = name
        else:
            for f in fs:
                words = [h[0] for h in f.head]
                p = words.index("(")
                d, q = 0, p
                for q in range(p, len(words)):
                    if words[q] == "(":
                        d += 1
                    elif words[q] == ")":
                        d -= 1
                        if d == 0:
                            break
                params = "".join(w for w in words[p + 1:q] if w not in ("const", "std", "::"))
                f.key = "%s(%s)" % (name, params[:40])
            ks = [f.key for f in fs]
            if len(set(ks)) != len(ks):
                for n_, f in enumerate(fs):
                    f.key = "%s#%d" % (f.key, n_)
    return funcs

# ----------------------------------------------------------------- per-function event extraction
CLASS_FIELDS = {
    "Manifold": {"pNode_": "Manifold.pNode_", "ctx_": "Manifold.ctx_"},
    "CsgLeafNode": {"pImpl_": "CsgLeafNode.pImpl_", "transform_": "CsgLeafNode.transform_"},
    "CsgOpNode": {"cache_": "CsgOpNode.cache_"},
    "CrossSection": {"paths_": "CrossSection.paths_", "transform_": "CrossSection.transform_",
                     "tolerance_": "CrossSection.tolerance_"},
    "Partition": {"cache": "Partition.cache"},
}
CLASS_MUTEX = {
    "Manifold": {"pNodeMutex_": "Manifold.pNodeMutex_"},
    "CsgLeafNode": {"mutex_": "CsgLeafNode.mutex_"},
    "CsgOpNode": {"impl_": "CsgOpNode.impl_mutex"},
    "CrossSection": {"pathsMutex_": "CrossSection.pathsMutex_"},
    "Partition": {"cacheLock": "Partition.cacheLock"},
}
IMMUTABLE = {"CsgOpNode": {"op_", "transform_", "impl_"}}   # written only on fresh objects / in constructors
CTX_COUNTERS = ("totalBooleans", "doneBooleans", "totalPhases", "donePhases")
FILE_CLASSES = {
    "manifold.cpp": ["Manifold"], "constructors.cpp": ["Manifold"], "sdf.cpp": ["Manifold"],
    "csg_tree.cpp": ["CsgLeafNode", "CsgOpNode"], "cross_section.cpp": ["CrossSection"],
    "subdivision.cpp": ["Partition"],
}
ASSIGN_OPS = ("=", "+=", "-=", "*=", "/=", "|=", "&=", "^=")

class Ev:
    def __init__(self, kind, ref, what, line, note=""):
        self.kind, self.ref, self.what, self.line, self.note = kind, ref, what, line, note
    def __repr__(self):
        return "%s(%s,%s)@%d" % (self.kind, self.ref, self.what, self.line)

def base_expr(toks, i):
    """Given index i of a member token, return (base_text, start_index): the
    expression to the left of the preceding '.' or '->' ('' = implicit this)."""
    if i == 0 or toks[i - 1][0] not in (".", "->"):
        return "", i
    j = i - 2
    depth = 0
    parts = []
    while j >= 0:
        t = toks[j][0]
        if t in (")", "]"):
            if depth == 0 and toks[j + 1][0] not in (".", "->", "[", "("):
                break       # `if (c) x->f`: the parenthesis is not part of the postfix expression
            depth += 1
            parts.append(t)
        elif t in ("(", "["):
            if depth == 0:
                break
            depth -= 1
            parts.append(t)
        elif depth > 0:
            parts.append(t)
        elif re.match(r"[A-Za-z_]\w*$", t) or t in (".", "->", "::", "*", ">", "<"):
            if t in ("return", "if", "while", "for", "else", "case", "const", "auto", "new", "delete", "throw", "co_return"):
                break
            if t in (">", "<", "*"):
                # template args of a cast or a deref in front: stop unless inside parens
                break
            parts.append(t)
        else:
            break
        j -= 1
    parts.reverse()
    return "".join(parts), j + 1

def norm_ref(base):
    b = base
    b = re.sub(r"std::static_pointer_cast<[^>]*>", "", b)
    b = b.replace("this->", "")
    b = b.strip()
    while b.startswith("(") and b.endswith(")") and b.count("(") == b.count(")"):
        inner = b[1:-1]
        d, ok = 0, True
        for ch in inner:
            if ch == "(":
                d += 1
            elif ch == ")":
                d -= 1
                if d < 0:
                    ok = False
                    break
        if not ok:
            break
        b = inner
    b = b.lstrip("*&")
    if b in ("this", "*this", ""):
        return "this"
    return b

class Extractor:
    def __init__(self, funcs):
        self.funcs = funcs                 # key -> Func
        self.by_name = {}
        for f in funcs.values():
            self.by_name.setdefault(f.name, []).append(f)
        self.cache = {}
        self.exempt = []                   # (func, line, field, reason)
        self.stack = []

    # ---- which locals are fresh objects
    def fresh_locals(self, f):
        toks = f.body
        fresh = set()
        for i in range(len(toks) - 2):
            t = toks[i][0]
            # `CrossSection out;` `CrossSection out(..)` `CrossSection out = ...`  `Manifold result = *this;`
            if t in ("CrossSection", "Manifold") and re.match(r"[A-Za-z_]\w*$", toks[i + 1][0]) and toks[i + 2][0] in (";", "(", "=", "{"):
                if i > 0 and toks[i - 1][0] in ("::", "<", ",", "const"):
                    # `const CrossSection& x` handled below; a plain `const CrossSection x = ..` does not occur
                    continue
                fresh.add(toks[i + 1][0])
            # `auto node = std::make_shared<CsgOpNode>(`
            if t == "auto" and toks[i + 2][0] == "=" and i + 6 < len(toks) and toks[i + 3][0] == "std" and toks[i + 5][0] == "make_shared":
                fresh.add(toks[i + 1][0])
        return fresh

    def events(self, key, full=False):
        if (key, full) in self.cache:
            return self.cache[(key, full)]
        if key in self.stack:
            raise TranslateError("recursive call chain among table functions: %s" % " -> ".join(self.stack + [key]))
        self.stack.append(key)
        try:
            ev = self._extract(self.funcs[key], full)
        finally:
            self.stack.pop()
        self.cache[(key, full)] = ev
        return ev

    def resolve(self, name):
        fs = self.by_name.get(name, [])
        return fs

    def _extract(self, f, full=False):
        toks = f.body
        cls = f.cls
        fname = os.path.basename(f.file)
        is_ctor = cls is not None and f.name.split("::")[-1] == cls
        is_dtor = f.name.split("::")[-1].startswith("~")
        fresh = self.fresh_locals(f)
        evs = []
        scopes = [[]]            # per open brace: list of (lockname, ref) to release
        guards = {}              # guard variable -> (ref)   (GetGuard results)
        getpaths_done = set()    # refs on which GetPaths() was already called in this function
        # constructor initialiser list lives in f.head: accesses there are on the fresh object -> nothing to emit
        i = 0
        n = len(toks)

        def emit(kind, ref, what, line, note=""):
            evs.append(Ev(kind, ref, what, line, note))

        def ref_state(ref):
            """None (shared) or a reason string for not tabling accesses through ref"""
            root = re.split(r"[.\-\[(]", ref)[0]
            if ref == "this":
                if is_ctor:
                    return "fresh: object under construction"
                if is_dtor:
                    return "exclusive: destructor runs for the last owner only"
                return None
            if root in fresh:
                return "fresh: local object of this function, not yet returned"
            if is_dtor and cls == "CsgOpNode" and root in ("child", "movedChild"):
                return "exclusive: ~CsgOpNode touches a child only when child.use_count()==1 && impl_.UseCount()==1"
            return None

        def inline(callee_name, recv_ref, line, virtual_ok=True):
            fs = self.resolve(callee_name)
            if not fs:
                raise TranslateError("%s:%d call to %s: no definition found" % (fname, line, callee_name))
            if not full and not any(scopes):
                # no table lock is held here: the callee is an independent call of a table function (client
                # programs are arbitrary sequences of such calls), nothing to inline
                for g in fs:
                    self.events(g.key)       # still make sure the callee can be translated
                return
            for g in fs:
                sub = self.events(g.key, True)
                # substitute: callee's this -> recv_ref ; other refs -> prefixed
                for e in sub:
                    r = e.ref
                    if r == "this":
                        r2 = recv_ref
                    elif r.startswith("<") or "/<" in r:
                        r2 = r[r.rfind("<"):]
                    elif r.startswith("this."):      # should not happen
                        r2 = recv_ref + r[4:]
                    else:
                        r2 = "%s@%d/%s" % (g.name, line, r)
                    emit(e.kind, r2, e.what, e.line, (e.note + " " if e.note else "") + "via %s@%d" % (g.name, line))

        while i < n:
            t, line = toks[i]
            if t == "{":
                scopes.append([])
            elif t == "}":
                for what, ref in reversed(scopes.pop()):
                    emit("Rel", ref, what, line)
                if not scopes:
                    scopes = [[]]
            # ---------------- lock acquisition forms
            elif t in ("lock_guard", "scoped_lock", "unique_lock") and i > 0 and toks[i - 1][0] == "::":
                # std::lock_guard<std::mutex> NAME(EXPR);  |  auto NAME = std::lock_guard<std::mutex>(EXPR);
                # std::scoped_lock NAME(E1, E2);
                j = i + 1
                if toks[j][0] == "<":
                    d = 0
                    while True:
                        if toks[j][0] == "<":
                            d += 1
                        elif toks[j][0] == ">":
                            d -= 1
                            if d == 0:
                                break
                        j += 1
                    j += 1
                if re.match(r"[A-Za-z_]\w*$", toks[j][0]):
                    j += 1      # variable name
                if toks[j][0] != "(":
                    raise TranslateError("%s:%d cannot parse %s declaration" % (fname, line, t))
                d, k, args, cur = 0, j, [], []
                while True:
                    x = toks[k][0]
                    if x == "(":
                        d += 1
                        if d > 1:
                            cur.append(x)
                    elif x == ")":
                        d -= 1
                        if d == 0:
                            args.append(cur)
                            break
                        cur.append(x)
                    elif x == "," and d == 1:
                        args.append(cur)
                        cur = []
                    else:
                        cur.append(x)
                    k += 1
                locks = []
                for a in args:
                    txt = "".join(a)
                    m = re.match(r"^\*?(?:(.*?)(?:\.|->))?(\w+)$", txt)
                    if not m:
                        raise TranslateError("%s:%d cannot parse mutex expression '%s'" % (fname, line, txt))
                    base, mname = m.group(1) or "", m.group(2)
                    mx = None
                    for c in ([cls] if cls in CLASS_MUTEX else []) + FILE_CLASSES.get(fname, []):
                        if mname in CLASS_MUTEX.get(c, {}):
                            mx = CLASS_MUTEX[c][mname]
                            break
                    if mx is None:
                        locks = None
                        break          # a mutex that is not part of this table (e.g. dump_lock)
                    ref = "<global>" if mx == "Partition.cacheLock" else norm_ref(base)
                    locks.append((mx, ref))
                if locks:
                    if len(locks) == 1:
                        emit("Acq", locks[0][1], locks[0][0], line)
                    else:
                        emit("AcqMulti", [l[1] for l in locks], [l[0] for l in locks], line)
                    # released at the end of the enclosing scope, in reverse order
                    for l in locks:
                        scopes[-1].append(l)
                i = k
            elif t == "GetGuard" and toks[i + 1][0] == "(":
                # [auto NAME =] BASE.impl_.GetGuard();
                if toks[i - 1][0] != "." or toks[i - 2][0] != "impl_":
                    raise TranslateError("%s:%d GetGuard on something that is not impl_" % (fname, line))
                base, s = base_expr(toks, i - 2)
                ref = norm_ref(base)
                if s >= 3 and toks[s - 1][0] == "=" and toks[s - 3][0] == "auto":
                    guards[toks[s - 2][0]] = ref
                st = ref_state(ref)
                # even for exclusive owners the acquisition is a real event (lock order!) unless the object is unreachable
                if st is None:
                    emit("Acq", ref, "CsgOpNode.impl_mutex", line)
                    scopes[-1].append(("CsgOpNode.impl_mutex", ref))
                else:
                    self.exempt.append((f.key, line, "CsgOpNode.impl_mutex", st))
                    guards[toks[s - 2][0]] = None if not (s >= 3 and toks[s - 1][0] == "=") else ("!" + st)
            # ---------------- guard variable uses = accesses to impl_ contents
            elif t in guards and guards[t] is not None and not (toks[i + 1][0] == "=" and toks[i - 1][0] == "auto"):
                g = guards[t]
                if isinstance(g, str) and g.startswith("!"):
                    self.exempt.append((f.key, line, "CsgOpNode.impl_contents", g[1:]))
                else:
                    # `*impl = ...` is a write; everything else reads
                    wr = toks[i - 1][0] == "*" and toks[i + 1][0] == "="
                    emit("Wr" if wr else "Rd", g, "CsgOpNode.impl_contents", line)
            # ---------------- atomic shared_ptr helpers on ctx_
            elif t in ("AtomicLoadShared", "AtomicStoreShared") and toks[i + 1][0] == "(":
                if toks[i + 2][0] != "&":
                    raise TranslateError("%s:%d %s without &field" % (fname, line, t))
                k = i + 3
                expr = []
                while toks[k][0] not in (",", ")"):
                    expr.append(toks[k][0])
                    k += 1
                txt = "".join(expr)
                m = re.match(r"^(?:(.*?)(?:\.|->))?ctx_$", txt)
                if not m:
                    raise TranslateError("%s:%d %s on '%s' (expected ctx_)" % (fname, line, t, txt))
                ref = norm_ref(m.group(1) or "")
                st = ref_state(ref)
                if st is None:
                    emit("ARd" if t == "AtomicLoadShared" else "AWr", ref, "Manifold.ctx_", line)
                else:
                    self.exempt.append((f.key, line, "Manifold.ctx_", st))
                toks = toks[:i + 2] + [("@atomicarg", line)] * (k - i - 2) + toks[k:]   # consume the argument
                n = len(toks)
            # ---------------- calls to other table functions
            elif toks[i + 1][0] == "(" if i + 1 < n else False:
                handled = self._call(f, toks, i, inline, emit, getpaths_done, ref_state)
                if not handled:
                    self._field(f, toks, i, emit, ref_state, getpaths_done, fresh)
            else:
                self._field(f, toks, i, emit, ref_state, getpaths_done, fresh)
            i += 1
        # function-level scope closes were emitted by '}' handling
        return evs

    # ---- calls
    def _call(self, f, toks, i, inline, emit, getpaths_done, ref_state):
        t, line = toks[i]
        cls, fname = f.cls, os.path.basename(f.file)
        prev = toks[i - 1][0] if i > 0 else ""
        base, s = base_expr(toks, i)
        if fname in ("manifold.cpp", "constructors.cpp", "sdf.cpp") or cls == "Manifold":
            if t == "GetCsgLeafNode":
                inline("Manifold::GetCsgLeafNode", norm_ref(base), line)
                return True
            if t == "LoadPNode":
                inline("Manifold::LoadPNode", norm_ref(base), line)
                return True
            if t == "GetImpl" and "GetCsgLeafNode" in base:
                inline("CsgLeafNode::GetImpl", "result-of-GetCsgLeafNode", line)
                return True
            if t in ("Transform", "Translate", "Scale", "Rotate", "Boolean") and "LoadPNode()" in base and prev == "->":
                # virtual call on a node obtained (and already released) from LoadPNode
                inline("CsgLeafNode::Transform", "node-of-LoadPNode", line)
                inline("CsgOpNode::Transform", "node-of-LoadPNode", line)
                return True
            if t in ("NumLeaves", "ToLeafNode") and prev == "->":
                if "pNode_" not in base:
                    raise TranslateError("%s:%d %s on '%s'" % (fname, line, t, base))
                # pNode_ itself is an access to the guarded field (handled when the scanner meets the token); the
                # callee runs on the node object
                inline("CsgOpNode::" + t, "node-of-pNode_", line)
                if t == "ToLeafNode":
                    inline("CsgLeafNode::ToLeafNode", "node-of-pNode_", line)
                return True
        if fname == "csg_tree.cpp":
            if t == "GetGuard":
                return False
            if prev in ("->", ".") and t in ("GetImpl", "GetBoundingBox"):
                inline("CsgLeafNode::" + t, norm_ref(base), line)
                return True
            if prev in ("->", ".") and t == "NumVert" and "pImpl_" not in base:
                inline("CsgLeafNode::NumVert", norm_ref(base), line)
                return True
            if prev == "->" and t == "Transform" and not re.search(r"pImpl_|bBox_", base):
                r = norm_ref(base)
                inline("CsgLeafNode::Transform", r, line)
                if "cache_" not in base and "(*impl)" not in base and not (f.name == "CsgOpNode::ToLeafNode"):
                    inline("CsgOpNode::Transform", r, line)
                return True
            if t == "Compose" and prev == "::":
                inline("CsgLeafNode::Compose", "<static>", line)
                return True
            if t in ("BatchUnion", "BatchBoolean", "SimpleBoolean", "ImplToLeaf", "ErrorLeaf") and prev not in (".", "->", "::"):
                if f.name != t:
                    inline(t, "<free>", line)
                return True
            if t == "MeshCompare" and prev not in ("struct", "::"):
                inline("MeshCompare::operator()", "<cmp>", line)
                return True
            if t == "make_shared" or t == "CsgLeafNode" and toks[i + 2][0] == "*" and toks[i + 3][0] == "this":
                return False
            if t == ">" and i >= 4 and toks[i - 1][0] == "CsgLeafNode" and toks[i - 3][0] == "make_shared" and toks[i + 2][0] == "*" and toks[i + 3][0] == "this":
                # std::make_shared<CsgLeafNode>(*this): copy constructor, other := this
                for g in self.resolve("CsgLeafNode::CsgLeafNode"):
                    if "other" in "".join(h[0] for h in g.head):
                        for e in self.events(g.key, True):
                            r = "this" if e.ref == "other" else "copy@%d/%s" % (line, e.ref)
                            emit(e.kind, r, e.what, e.line, "via copy-ctor@%d" % line)
                return True
            if t in ("ToLeafNode", "NumLeaves") and prev in ("->", "."):
                raise TranslateError("%s:%d unexpected nested %s call" % (fname, line, t))
        if fname == "cross_section.cpp" and t == "GetPaths":
            r = norm_ref(base)
            if f.name != "CrossSection::GetPaths":
                if ref_state(r) is None or True:
                    inline("CrossSection::GetPaths", r, line)
                getpaths_done.add(r)
            return True
        if fname == "subdivision.cpp" and t == "GetCachedPartition" and f.name != "Partition::GetCachedPartition":
            return True      # separate table call; callers hold no table lock (checked: they contain no lock tokens)
        return False

    # ---- field accesses
    def _field(self, f, toks, i, emit, ref_state, getpaths_done, fresh):
        t, line = toks[i]
        cls, fname = f.cls, os.path.basename(f.file)
        if t == "@atomicarg":
            return
        prev = toks[i - 1][0] if i > 0 else ""
        nxt = toks[i + 1][0] if i + 1 < len(toks) else ""
        # global atomics
        if t == "meshIDCounter_":
            kind = "ARMW" if nxt == "." and toks[i + 2][0] in ("fetch_add", "fetch_sub", "exchange", "compare_exchange_weak", "compare_exchange_strong") \
                else "AWr" if (nxt in ASSIGN_OPS or (nxt == "." and toks[i + 2][0] == "store")) else "ARd"
            if nxt in ("+=", "-=", "++", "--"):
                kind = "ARMW"
            if prev in ("uint32_t", ">"):     # the definition `std::atomic<uint32_t> Manifold::Impl::meshIDCounter_(1)`
                return
            emit(kind, "<global>", "Impl.meshIDCounter_", line)
            return
        if t in CTX_COUNTERS and prev == "->" and nxt == ".":
            op = toks[i + 2][0]
            kind = {"load": "ARd", "store": "AWr"}.get(op, "ARMW" if op.startswith("fetch_") or op.startswith("compare_") or op == "exchange" else None)
            if kind is None:
                raise TranslateError("%s:%d unknown atomic op %s on %s" % (fname, line, op, t))
            emit(kind, "<ctx>", "ExecutionContext." + t, line)
            return
        classes = ([cls] if cls in CLASS_FIELDS else []) + [c for c in FILE_CLASSES.get(fname, []) if c != cls]
        # mutex names reached outside a lock declaration: ignore (e.g. member declarations) but impl_ handle copies are checked
        if t == "impl_" and fname == "csg_tree.cpp":
            base, s = base_expr(toks, i)
            ref = norm_ref(base)
            if nxt == "=":
                st = ref_state(ref)
                if st is None:
                    raise TranslateError("%s:%d the impl_ handle of a shared CsgOpNode is assigned (%s)" % (fname, line, ref))
            return
        if t in ("op_",) and fname == "csg_tree.cpp":
            base, s = base_expr(toks, i)
            if nxt == "=" and ref_state(norm_ref(base)) is None:
                raise TranslateError("%s:%d immutable field op_ assigned on a shared object" % (fname, line))
            return
        fieldname = None
        for c in classes:
            if t in CLASS_FIELDS.get(c, {}):
                fieldname, fcls = CLASS_FIELDS[c][t], c
                break
        if fieldname is None:
            return
        base, s = base_expr(toks, i)
        ref = norm_ref(base)
        if fname == "csg_tree.cpp" and t == "transform_":
            # CsgLeafNode::transform_ (guarded) vs CsgOpNode::transform_ (immutable after construction)
            owner = "CsgOpNode" if (ref.endswith("op_node") or (ref in ("this",) and cls == "CsgOpNode") or (cls == "CsgOpNode" and ref.split("->")[0] in fresh | {"node"} and f.name == "CsgOpNode::Transform")) else "CsgLeafNode"
            if owner == "CsgOpNode":
                if nxt == "=" and ref_state(ref) is None:
                    raise TranslateError("%s:%d CsgOpNode::transform_ assigned on a shared object" % (fname, line))
                return
            fieldname = "CsgLeafNode.transform_"
        if fname == "cross_section.cpp" and t == "paths_" and prev == "->":
            return      # PathImpl::paths_ : const member of an immutable snapshot
        if fname == "subdivision.cpp":
            if cls != "Partition" or f.name != "Partition::GetCachedPartition":
                if t == "cache" and prev not in (".", "->", "::") and nxt in (".", "[", "="):
                    raise TranslateError("%s:%d Partition::cache used outside GetCachedPartition" % (fname, line))
                return
            if prev in (".", "->", "::", "auto") or nxt not in (".", "[", "="):
                return
            ref = "<global>"
        if fieldname == "Manifold.ctx_":
            # every legal access goes through AtomicLoadShared/AtomicStoreShared (consumed above); anything else is a plain access
            pass
        st = ref_state(ref)
        # write or read?
        wr = nxt in ASSIGN_OPS or nxt in ("++", "--") or (nxt == "." and toks[i + 2][0] in ("reset", "swap", "insert", "emplace", "erase", "clear"))
        if i >= 2 and prev == "(" and toks[i - 2][0] == "move":
            wr = True
        if base and i >= 2:
            # std::move(other.paths_)
            if s >= 2 and toks[s - 1][0] == "(" and toks[s - 2][0] == "move":
                wr = True
        if st is not None:
            self.exempt.append((f.key, line, fieldname, st))
            return
        if f.name == "CsgLeafNode::Compose" and ref == "node":
            self.exempt.append((f.key, line, fieldname,
                                "owned: Compose's nodes are CsgLeafNodes created by Transform() inside the running evaluation "
                                "(BatchUnion's children), see owned_check"))
            return
        if fieldname == "CrossSection.tolerance_" and not wr and ref in getpaths_done and f.name != "CrossSection::GetPaths":
            self.exempt.append((f.key, line, fieldname,
                                "published: read after GetPaths() on the same object in this function; the only const-path "
                                "write is inside GetPaths() under pathsMutex_"))
            return
        emit("Wr" if wr else "Rd", ref, fieldname, line)


# ----------------------------------------------------------------- structural side checks
def header_checks(repo):
    """Declarations the table relies on.  Returns list of (name, ok, detail)."""
    res = []
    def rd(p):
        return preprocess(open(os.path.join(repo, p)).read())
    mh = rd("include/manifold/manifold.h")
    res.append(("decl:Manifold::pNodeMutex_", bool(re.search(r"mutable\s+std::shared_ptr<std::mutex>\s+pNodeMutex_", mh)), "mutable shared_ptr<std::mutex>"))
    res.append(("decl:Manifold::pNode_", bool(re.search(r"mutable\s+std::shared_ptr<CsgNode>\s+pNode_", mh)), ""))
    res.append(("decl:Manifold::ctx_", bool(re.search(r"std::shared_ptr<ExecutionContext::Impl>\s+ctx_", mh)), ""))
    priv = mh[mh.rfind("private:"):]
    muts = set(re.findall(r"mutable\s+[^;]*?\b(\w+)\s*(?:=[^;]*)?;", priv))
    res.append(("decl:Manifold mutable members are exactly {pNodeMutex_,pNode_}", muts == {"pNodeMutex_", "pNode_"}, str(sorted(muts))))
    ch = rd("src/csg_tree.h")
    leaf = ch[ch.index("class CsgLeafNode final"):ch.index("class CsgOpNode final")]
    opn = ch[ch.index("class CsgOpNode final"):]
    lm = set(re.findall(r"mutable\s+[^;]*?\b(\w+)\s*(?:=[^;]*)?;", leaf))
    om = set(re.findall(r"mutable\s+[^;]*?\b(\w+)\s*(?:=[^;]*)?;", opn))
    res.append(("decl:CsgLeafNode mutable members are exactly {pImpl_,transform_,mutex_}", lm == {"pImpl_", "transform_", "mutex_"}, str(sorted(lm))))
    res.append(("decl:CsgOpNode mutable members are exactly {impl_,cache_}", om == {"impl_", "cache_"}, str(sorted(om))))
    res.append(("decl:CsgLeafNode::mutex_ is std::mutex", bool(re.search(r"mutable\s+std::mutex\s+mutex_", leaf)), ""))
    uh = rd("src/utils.h")
    res.append(("decl:ConcurrentSharedPtr uses std::recursive_mutex, guard locks in ctor and unlocks in dtor",
                bool(re.search(r"std::shared_ptr<std::recursive_mutex>\s+mutex", uh)) and "mutex->lock();" in uh and bool(re.search(r"~SharedPtrGuard\(\)\s*{\s*mutex->unlock\(\);\s*}", uh)), ""))
    xh = rd("include/manifold/cross_section.h")
    xm = set(re.findall(r"mutable\s+[^;]*?\b(\w+)\s*(?:=[^;]*)?;", xh))
    res.append(("decl:CrossSection mutable members are exactly {pathsMutex_,paths_,transform_,tolerance_}",
                xm == {"pathsMutex_", "paths_", "transform_", "tolerance_"}, str(sorted(xm))))
    xc = rd("src/cross_section.cpp")
    res.append(("decl:PathImpl::paths_ is const", bool(re.search(r"const\s+Polygons\s+paths_\s*;", xc)), ""))
    ih = rd("src/impl.h")
    res.append(("decl:Impl::meshIDCounter_ is static std::atomic", bool(re.search(r"static\s+std::atomic<uint32_t>\s+meshIDCounter_", ih)), ""))
    eh = rd("src/execution_impl.h")
    body = eh[eh.index("struct ExecutionContext::Impl"):]
    body = body[:body.index("\n};")]
    members = re.findall(r"^\s*([\w:<>]+(?:\s*<[^;]*>)?)\s+(\w+)\s*\{[^}]*\}\s*;", body, flags=re.M)
    nonatomic = [m for ty, m in members if not ty.startswith("std::atomic")]
    res.append(("decl:every data member of ExecutionContext::Impl is std::atomic (release configuration)",
                len(members) >= 5 and not nonatomic, "members=%s non-atomic=%s" % ([m for _, m in members], nonatomic)))
    sh = rd("src/subdivision.cpp")
    res.append(("decl:Partition::cacheLock is a static std::mutex", bool(re.search(r"static\s+inline\s+auto\s+cacheLock\s*=\s*std::mutex\(\)", sh)), ""))
    return res


def owned_check(funcs):
    """Every CsgLeafNode pushed into a frame's children / destination vector in
    CsgOpNode::ToLeafNode is the result of a ->Transform(...) call (a fresh
    node), and CsgLeafNode::Compose is only called from BatchUnion."""
    f = funcs.get("CsgOpNode::ToLeafNode")
    if f is None:
        return False, "CsgOpNode::ToLeafNode not found"
    toks = [t[0] for t in f.body]
    bad = []
    for i, t in enumerate(toks):
        if t == "push_back" and toks[i - 1] == "->" and toks[i - 2] in ("positive_dest", "dest1", "negative_dest", "dest2"):
            d, j = 0, i + 1
            while True:
                if toks[j] == "(":
                    d += 1
                elif toks[j] == ")":
                    d -= 1
                    if d == 0:
                        break
                j += 1
            arg = "".join(toks[i + 2:j])
            if "->Transform(" not in arg:
                bad.append(arg[:60])
    callers = [k for k, g in funcs.items() if g is not f and any(x[0] == "Compose" and g.body[ix - 1][0] == "::" and g.body[ix - 2][0] == "CsgLeafNode"
                                                                  for ix, x in enumerate(g.body))]
    ok = not bad and set(callers) <= {"BatchUnion"}
    return ok, "non-Transform pushes: %s; Compose callers: %s" % (bad, callers)



# ----------------------------------------------------------------- static / global state scan
SKIP_STMT = {"using", "typedef", "template", "friend", "extern", "static_assert", "class", "struct", "enum", "union",
             "namespace", "return", "public", "private", "protected", "case", "default", "goto", "break", "continue",
             "if", "else", "for", "while", "do", "switch", "throw", "delete", "co_return", "operator"}
SPECIFIERS = {"static", "thread_local", "inline", "const", "constexpr", "mutable", "volatile", "constinit"}
# mutable process-wide state that is neither thread_local, atomic, const nor a mutex: allowed only with a reason that
# this scan re-checks
STATIC_GUARDED = {("subdivision.cpp", "cache"): "Partition.cacheLock"}          # must also be a guarded field of the lock table
STATIC_CONFIG = {   # name -> functions that may write it (explicit configuration calls, not part of C06's client programs)
    ("manifold.cpp", "circularSegments_"): ("Quality::SetCircularSegments", "Quality::ResetToDefaults"),
    ("manifold.cpp", "circularAngle_"): ("Quality::SetMinCircularAngle", "Quality::ResetToDefaults"),
    ("manifold.cpp", "circularEdgeLength_"): ("Quality::SetMinCircularEdgeLength", "Quality::ResetToDefaults"),
    ("manifold.cpp", "manifoldParams"): ("ManifoldParams",),
}
STATIC_HOOK = {("execution_impl.h", "controller"): "MANIFOLD_VERIF test hook (VerifCancelController): armed by a single-threaded test driver before client threads start"}


def _struct_members_all_atomic(repo, tname):
    for d in ("src", "include/manifold"):
        for fn in sorted(os.listdir(os.path.join(repo, d))):
            if not fn.endswith((".h", ".cpp")):
                continue
            txt = preprocess(open(os.path.join(repo, d, fn)).read())
            m = re.search(r"\bstruct\s+%s\s*\{" % re.escape(tname), txt)
            if not m:
                continue
            toks = tokenize(txt[m.end() - 1:])
            j = match_brace(toks, 0)
            depth, stmt, members = 0, [], []
            for t, _ in toks[1:j]:
                if t == "{":
                    depth += 1
                elif t == "}":
                    depth -= 1
                    if depth == 0:
                        stmt = stmt if stmt and "(" not in stmt else []     # end of a member function body / brace init
                        if stmt:
                            continue
                elif depth == 0 and t == ";":
                    if stmt and "(" not in stmt:
                        members.append("".join(stmt))
                    stmt = []
                elif depth == 0:
                    stmt.append(t)
            bad = [x for x in members if not x.startswith("std::atomic<")]
            return bool(members) and not bad, bad
    return False, ["struct %s not found" % tname]


def static_state_scan(repo, funcs=None):
    """Every function-local `static`, static data member and namespace-scope variable of src/ and include/manifold/
    (configuration the TSan harness is built in).  Returns a list of dicts with category and ok."""
    files = []
    for d in ("src", "include/manifold"):
        for fn in sorted(os.listdir(os.path.join(repo, d))):
            if fn.endswith((".cpp", ".h")):
                files.append(os.path.join(d, fn))
    found = []
    for rel in files:
        toks = tokenize(preprocess(open(os.path.join(repo, rel)).read()))
        base = os.path.basename(rel)
        scope = ["ns"]           # ns / class / func / block / skip / init
        start = 0
        i, n = 0, len(toks)

        def classify(stmt, kind):
            words = [w for w, _ in stmt]
            if not words:
                return
            # drop access labels / attributes in front
            while words and (words[0] in ("public", "private", "protected") and len(words) > 1 and words[1] == ":"):
                words = words[2:]
                stmt = stmt[2:]
            if not words or words[0] in SKIP_STMT or words[0].startswith("#") or "operator" in words:
                return
            lead = []
            k = 0
            while k < len(words) and words[k] in SPECIFIERS:
                lead.append(words[k])
                k += 1
            if kind in ("func", "block", "class") and "static" not in lead and "thread_local" not in lead:
                return                         # locals / non-static members are per call / per object
            # where does the declarator end?
            depth, cut, first_paren = 0, len(words), None
            for q in range(k, len(words)):
                w = words[q]
                if w in ("(", "[", "<") and depth == 0 and w == "(" and first_paren is None:
                    first_paren = q
                if w in ("(", "["):
                    depth += 1
                elif w in (")", "]"):
                    depth -= 1
                elif w in ("=", "{") and depth == 0:
                    cut = q
                    break
            if first_paren is not None and first_paren < cut:
                inner = words[first_paren + 1] if first_paren + 1 < len(words) else ""
                is_ctor_init = re.match(r"^\d", inner) is not None or inner in ("{", '""')
                if not is_ctor_init:
                    return                     # a function declaration
                cut = first_paren
            decl = words[k:cut]
            if len(decl) < 2 or not re.match(r"^[A-Za-z_]\w*$", decl[-1]):
                return
            name = decl[-1]
            ty = "".join(decl[:-1])
            if decl[-2] == "::" or (len(decl) > 2 and "::" in decl[-3:-1] and False):
                pass
            # out-of-class definition `T Class::member(init)`: name is the last identifier, strip qualification from type
            ty = re.sub(r"(\w+::)+$", "", ty)
            if not ty or ty in ("return",) or ty.endswith(("->", ".")):
                return
            init = "".join(words[cut:])
            e = {"file": rel, "line": stmt[0][1], "name": name, "type": ty, "scope": kind, "specifiers": lead}
            if "constexpr" in lead or ("const" in lead and "*" not in ty) or (ty.startswith("const") and "*" not in ty):
                e.update(category="const", ok=True)
            elif "thread_local" in lead:
                e.update(category="thread_local", ok=True)
            elif ty.startswith("std::atomic") or ty.startswith("atomic<"):
                e.update(category="atomic", ok=True)
            elif ty in ("std::mutex", "std::recursive_mutex", "std::shared_mutex") or (ty == "auto" and init.startswith("=std::mutex(")):
                e.update(category="mutex", ok=True)
            elif (base, name) in STATIC_GUARDED:
                e.update(category="guarded", ok=True, guard=STATIC_GUARDED[(base, name)])
            elif (base, name) in STATIC_CONFIG:
                e.update(category="configuration", ok=None, writers=list(STATIC_CONFIG[(base, name)]))
            elif (base, name) in STATIC_HOOK:
                e.update(category="verif-hook", ok=True, reason=STATIC_HOOK[(base, name)])
            else:
                ok, bad = _struct_members_all_atomic(repo, ty) if re.match(r"^[A-Z]\w*$", ty) else (False, [])
                if ok:
                    e.update(category="struct-of-atomics", ok=True)
                else:
                    e.update(category="UNSYNCHRONISED", ok=False,
                             reason="mutable static/global state that is not thread_local, atomic, const, a mutex, or guarded by a lock of the table")
            found.append(e)

        while i < n:
            t = toks[i][0]
            if t == "{":
                head = [w for w, _ in toks[start:i]]
                cur = scope[-1]
                if cur in ("func", "block", "skip", "init"):
                    # brace inside a function: a nested block, a lambda body or a brace initialiser - statements
                    # inside are still scanned for `static`
                    if cur in ("skip", "init"):
                        scope.append(cur)
                    elif head and (head[-1] in (")", "else", "do", "try", "mutable", "noexcept", "const") or head[-1] == "]"
                                   or (len(head) > 1 and head[-2] == "->")) or not head:
                        scope.append("block")
                        start = i + 1
                    else:
                        scope.append("init")
                elif head and head[0] == "namespace" or (len(head) >= 2 and head[0] == "extern" and head[1] == '""') or (len(head) >= 2 and head[0] == "inline" and head[1] == "namespace"):
                    scope.append("ns")
                    start = i + 1
                elif "(" not in head and head and head[0] == "enum" or (head[:2] == ["typedef", "enum"]):
                    scope.append("skip")
                elif "(" not in head and any(w in ("class", "struct", "union") for w in head[:4]) and "=" not in head:
                    scope.append("class")
                    start = i + 1
                elif "(" in head and not ("=" in head and head.index("=") < head.index("(") and "operator" not in head):
                    scope.append("func")
                    start = i + 1
                else:
                    scope.append("init")          # `T x{..};` / `T x = {..};` - the statement continues after the brace
            elif t == "}":
                k = scope.pop() if len(scope) > 1 else "ns"
                if k in ("init", "skip"):
                    pass
                else:
                    start = i + 1
                    if k == "class":
                        # `struct X {...} var;` is not used for mutable state here; skip to ';'
                        while i + 1 < n and toks[i + 1][0] != ";" and toks[i + 1][0] not in ("{", "}"):
                            i += 1
                        if i + 1 < n and toks[i + 1][0] == ";":
                            i += 1
                        start = i + 1
            elif t == ";" and scope[-1] not in ("init", "skip"):
                # for(;;) headers: ignore ';' inside parentheses
                seg = toks[start:i]
                if sum(1 for w, _ in seg if w == "(") == sum(1 for w, _ in seg if w == ")"):
                    classify(seg, scope[-1])
                    start = i + 1
            elif t == ":" and scope[-1] == "class" and i > 0 and toks[i - 1][0] in ("public", "private", "protected"):
                start = i + 1
            i += 1
    # configuration globals: every write must be inside one of the named functions
    if funcs is not None:
        for e in found:
            if e["category"] != "configuration":
                continue
            bad = []
            for k, f in funcs.items():
                if os.path.basename(f.file) != os.path.basename(e["file"]):
                    continue
                body = f.body
                for q, (w, ln) in enumerate(body):
                    if w == e["name"] and q + 1 < len(body):
                        nx = body[q + 1][0]
                        wr = nx in ASSIGN_OPS or nx in ("++", "--") or (nx == "." and q + 3 < len(body) and body[q + 3][0] in ASSIGN_OPS)
                        if wr and f.name not in e["writers"]:
                            bad.append("%s:%d in %s" % (e["file"], ln, f.name))
            e["ok"] = not bad
            e["reason"] = ("process-wide configuration written only by %s (explicit calls by the user, outside C06's client programs)" % ", ".join(e["writers"])
                           if not bad else "configuration global written outside its setters: %s" % bad)
    for e in found:
        if e["ok"] is None:
            e["ok"] = False
    return found


# ----------------------------------------------------------------- assembling the table
def build(repo):
    files = ["src/manifold.cpp", "src/csg_tree.cpp", "src/cross_section.cpp", "src/subdivision.cpp",
             "src/constructors.cpp", "src/sdf.cpp", "src/impl.cpp", "src/boolean_result.cpp"]
    funcs = {}
    alltoks = {}
    for p in files:
        path = os.path.join(repo, p)
        toks = tokenize(preprocess(open(path).read()))
        alltoks[p] = toks
        for f in find_functions(p, toks):
            if f.key in funcs:
                f.key = f.key + "@" + os.path.basename(p)
            funcs[f.key] = f
    ex = Extractor(funcs)
    TRACKED = {"pNode_", "pNodeMutex_", "ctx_", "pImpl_", "mutex_", "impl_", "cache_", "paths_", "pathsMutex_", "tolerance_",
               "cacheLock", "meshIDCounter_", "lock_guard", "scoped_lock", "GetGuard", "AtomicLoadShared", "AtomicStoreShared"}
    # every tracked token must be inside a function we found (or be a declaration at class/namespace level)
    covered = {}
    for k, f in funcs.items():
        covered.setdefault(f.file, []).append((f.body[0][1], f.body[-1][1], f))
    methods = []
    for k in sorted(funcs, key=lambda k: (funcs[k].file, funcs[k].line)):
        f = funcs[k]
        fname = os.path.basename(f.file)
        words = set(t[0] for t in f.body)
        relevant = False
        if fname in ("manifold.cpp", "constructors.cpp", "sdf.cpp") and f.cls == "Manifold" and words & {"pNode_", "pNodeMutex_", "ctx_", "AtomicLoadShared", "AtomicStoreShared"}:
            relevant = True
        if fname == "csg_tree.cpp" and (words & {"pImpl_", "mutex_", "impl_", "cache_", "GetGuard", "meshIDCounter_"} or (f.cls in ("CsgLeafNode",) and "transform_" in words)):
            relevant = True
        if fname == "cross_section.cpp" and f.cls == "CrossSection" and words & {"paths_", "pathsMutex_", "tolerance_", "transform_"}:
            relevant = True
        if fname == "subdivision.cpp" and words & {"cacheLock"}:
            relevant = True
        if "meshIDCounter_" in words:
            relevant = True
        if fname == "csg_tree.cpp" and f.name in ("BatchUnion", "BatchBoolean", "SimpleBoolean", "MeshCompare::operator()"):
            relevant = True
        if not relevant:
            continue
        evs = ex.events(k)
        if evs:
            methods.append((k, f, evs))
    # uses of Manifold's private state outside the files scanned above would be invisible: make sure there are none
    for p in sorted(os.listdir(os.path.join(repo, "src"))):
        if not p.endswith(".cpp") or ("src/" + p) in files:
            continue
        txt = preprocess(open(os.path.join(repo, "src", p)).read())
        if re.search(r"\b(pNode_|pNodeMutex_|pathsMutex_|cacheLock|meshIDCounter_)\b", txt):
            raise TranslateError("src/%s uses guarded state but is not in the translator's file list" % p)
    return funcs, methods, ex


def to_table(methods):
    """Number reference variables per method; compute ranks from observed nesting."""
    out = []
    nest = set()
    for key, f, evs in methods:
        refs = {"this": 0}
        def rid(r):
            if r in ("<global>",):
                return GLOBAL_REF
            if r == "<ctx>":
                return GLOBAL_REF + 1
            if r not in refs:
                refs[r] = len(refs)
            return refs[r]
        held = []
        coq = []
        for e in evs:
            if e.kind == "Acq":
                for h in held:
                    if h[0] != e.what or h[1] != rid(e.ref):
                        nest.add((h[0], e.what))
                held.append((e.what, rid(e.ref)))
                coq.append(("Acq", (rid(e.ref), MUTEX[e.what][0]), e.line))
            elif e.kind == "AcqMulti":
                for h in held:
                    for w in e.what:
                        nest.add((h[0], w))
                ls = [(rid(r), MUTEX[w][0]) for r, w in zip(e.ref, e.what)]
                for r, w in zip(e.ref, e.what):
                    held.append((w, rid(r)))
                coq.append(("AcqMulti", ls, e.line))
            elif e.kind == "Rel":
                x = (e.what, rid(e.ref))
                if x in held:
                    held.reverse(); held.remove(x); held.reverse()
                coq.append(("Rel", (rid(e.ref), MUTEX[e.what][0]), e.line))
            else:
                coq.append((e.kind, (rid(e.ref), FIELD[e.what][0]), e.line))
        out.append((key, coq, dict(refs)))
    # ranks: longest-path layering of the nesting graph between different mutex kinds
    kinds = sorted(MUTEX, key=lambda m: MUTEX[m][0])
    edges = set((a, b) for a, b in nest if a != b)
    rank = {m: 0 for m in kinds}
    for _ in range(len(kinds) + 1):
        changed = False
        for a, b in edges:
            if rank[b] < rank[a] + 1:
                rank[b] = rank[a] + 1
                changed = True
        if not changed:
            break
    cyclic = changed
    if cyclic:
        rank = {m: 0 for m in kinds}     # the Coq checker will then reject the nested acquisitions
    same_kind_nest = sorted(a for a, b in nest if a == b)
    return out, rank, sorted(edges), cyclic, same_kind_nest


def mirror_check(table, rank):
    """Python mirror of Coq's check_prog (diagnostics only)."""
    probs = []
    guards = {FIELD[f][0]: (MUTEX[FIELD[f][1]][0] if FIELD[f][1] else None) for f in FIELD}
    rk = {MUTEX[m][0]: rank[m] for m in MUTEX}
    rec = {MUTEX[m][0] for m in MUTEX if MUTEX[m][1]}
    fname = {FIELD[f][0]: f for f in FIELD}
    mname = {MUTEX[m][0]: m for m in MUTEX}
    for key, evs, refs in table:
        hl = []
        for kind, arg, line in evs:
            if kind == "Acq":
                for h in hl:
                    if not (rk[h[1]] < rk[arg[1]] or (h == arg and arg[1] in rec)):
                        probs.append((key, line, "lock-order", "%s acquired while holding %s" % (mname[arg[1]], mname[h[1]])))
                hl.append(arg)
            elif kind == "AcqMulti":
                if len(set(arg)) != len(arg):
                    probs.append((key, line, "lock-order", "scoped_lock with duplicate mutex"))
                for h in hl:
                    for a in arg:
                        if not rk[h[1]] < rk[a[1]]:
                            probs.append((key, line, "lock-order", "scoped_lock(%s) while holding %s" % (mname[a[1]], mname[h[1]])))
                hl += list(arg)
            elif kind == "Rel":
                if arg in hl:
                    hl.reverse(); hl.remove(arg); hl.reverse()
                else:
                    probs.append((key, line, "unbalanced", "release of %s not held" % mname[arg[1]]))
            elif kind in ("Rd", "Wr"):
                g = guards[arg[1]]
                if g is None:
                    probs.append((key, line, "plain-access-to-atomic", "%s of atomic-only %s" % (kind, fname[arg[1]])))
                elif (arg[0], g) not in hl:
                    probs.append((key, line, "unguarded", "%s of %s without %s" % ("write" if kind == "Wr" else "read", fname[arg[1]], mname[g])))
            else:
                if guards[arg[1]] is not None:
                    probs.append((key, line, "atomic-op-on-guarded", fname[arg[1]]))
        if hl:
            probs.append((key, evs[-1][2] if evs else 0, "unbalanced", "locks still held at the end"))
    return probs


def coq_pair(p):
    return "(%d,%d)" % p

def emit_coq(table, rank, path):
    L = []
    L.append("(* GENERATED by translate/c06_locks.py from the repo sources - do not edit. *)")
    L.append("From Coq Require Import List String.")
    L.append("From MV Require Import Proto.LocksetDefs.")
    L.append("Import ListNotations.")
    L.append("Local Open Scope string_scope.")
    L.append("")
    L.append("(* mutex fields: " + "; ".join("%d=%s" % (MUTEX[m][0], m) for m in sorted(MUTEX, key=lambda m: MUTEX[m][0])) + " *)")
    L.append("(* data fields:  " + "; ".join("%d=%s" % (FIELD[f][0], f) for f in sorted(FIELD, key=lambda f: FIELD[f][0])) + " *)")
    L.append("Definition table : table := {|")
    L.append("  t_guards := [" + "; ".join("(%d, [%d])" % (FIELD[f][0], MUTEX[FIELD[f][1]][0]) for f in sorted(FIELD, key=lambda f: FIELD[f][0]) if FIELD[f][1]) + "];")
    L.append("  t_rank := [" + "; ".join("(%d, %d)" % (MUTEX[m][0], rank[m]) for m in sorted(MUTEX, key=lambda m: MUTEX[m][0])) + "];")
    L.append("  t_recursive := [" + "; ".join(str(MUTEX[m][0]) for m in MUTEX if MUTEX[m][1]) + "];")
    L.append("  t_methods := [")
    ms = []
    for key, evs, refs in table:
        es = []
        for kind, arg, line in evs:
            if kind == "AcqMulti":
                es.append("AcqMulti [%s]" % "; ".join(coq_pair(a) for a in arg))
            else:
                es.append("%s %s" % (kind, coq_pair(arg)))
        ms.append('    ("%s", [%s])' % (key.replace('"', "'"), "; ".join(es)))
    L.append(";\n".join(ms))
    L.append("  ]")
    L.append("|}.")
    txt = "\n".join(L) + "\n"
    os.makedirs(os.path.dirname(path), exist_ok=True)
    old = open(path).read() if os.path.exists(path) else None
    if old != txt:
        with open(path, "w") as f:
            f.write(txt)
    return txt


def run(repo, out_v, out_json=None):
    funcs, methods, ex = build(repo)
    table, rank, edges, cyclic, same_kind = to_table(methods)
    probs = mirror_check(table, rank)
    hdr = header_checks(repo)
    own_ok, own_detail = owned_check(funcs)
    compose = [m for m in table if m[0] == "CsgLeafNode::Compose"]
    snap = sum(1 for kind, arg, line in (compose[0][1] if compose else []) if arg == (GLOBAL_REF, FIELD["Impl.meshIDCounter_"][0])) if compose else -1
    emit_coq(table, rank, out_v)
    statics = static_state_scan(repo, funcs)
    info = {
        "static_state": statics,
        "methods": [{"name": k, "file": funcs[k].file, "line": funcs[k].line,
                     "events": [[kind, list(arg) if not isinstance(arg, list) else [list(a) for a in arg], line] for kind, arg, line in evs],
                     "refs": refs} for k, evs, refs in table],
        "rank": rank, "nesting_edges": edges, "rank_cyclic": cyclic, "same_kind_nesting": same_kind,
        "problems": [{"method": a, "line": b, "kind": c, "what": d} for a, b, c, d in probs],
        "exempt": [{"method": a, "line": b, "field": c, "reason": d} for a, b, c, d in ex.exempt],
        "header_checks": [{"name": a, "ok": b, "detail": c} for a, b, c in hdr],
        "owned_check": {"ok": own_ok, "detail": own_detail},
        "compose_counter_reads": snap,
    }
    if out_json:
        os.makedirs(os.path.dirname(out_json), exist_ok=True)
        with open(out_json, "w") as f:
            json.dump(info, f, indent=1)
    return info


if __name__ == "__main__":
    repo = sys.argv[1] if len(sys.argv) > 1 else os.environ.get("VERIF_REPO", "/repo")
    root = os.path.dirname(os.path.dirname(os.path.abspath(__file__)))
    info = run(repo, os.path.join(root, "coq/Gen/LockTable.v"), os.path.join(root, "build/c06_locktable.json"))
    for m in info["methods"]:
        print("%-60s %3d events" % (m["name"], len(m["events"])))
    print("rank", info["rank"], "edges", info["nesting_edges"], "cyclic", info["rank_cyclic"], "same-kind", info["same_kind_nesting"])
    for p in info["problems"]:
        print("PROBLEM", p)
    print("exempt:", len(info["exempt"]))
    for h in info["header_checks"]:
        if not h["ok"]:
            print("HEADER CHECK FAILED", h)
    for e in info["static_state"]:
        if e["category"] != "const":
            print("STATIC %-28s %-4s %-22s %-18s %s:%d %s" % (e["name"], "ok" if e["ok"] else "BAD", e["type"][:22], e["category"], e["file"], e["line"], e.get("reason", "")[:80]))
    print("const statics:", sum(1 for e in info["static_state"] if e["category"] == "const"))
    print("owned_check", info["owned_check"], "compose reads", info["compose_counter_reads"])
