"""C05 (value semantics) - history generator, oracle, shrinker for harness/c05_hist.cpp.

No top-level side effects.  Typical use from a check:

    import os, re
import c05_hist as H
    rng = random.Random(seed)
    lines = [H.line(i, H.pick_mode(rng, i), H.gen_history(rng, i, H.pick_mode(rng, i), 60)) for i in range(300)]
    out = run harness with "\\n".join(lines)            (vp.run_cases survives crashes)
    per = H.split_output(out)                            {history id: text}
    for l in lines: fails = H.judge(l, per.get(H.hid_of(l), ""))
    small = H.shrink(exe, l, fails[0]["key"])
    H.impl_lines() / H.judge_impl(out)                   Impl-level copy-on-write probes (I mode)

Vocabulary (token = name:field:field..., integers; d = empty destination slot, s/a/b = live source slots):
  Manifold constructors  cube:d:x:y:z:center  tet:d  sph:d:r:n  cyl:d:h:rl:rh:n:center  mesh:d:v(0..2)
                         smooth:d:v(0..2)  ext:d:cs:h:ndiv:twist:scale  rev:d:cs:n:deg15[:shift]
  CrossSection ctors     sq:d:x:y:center  circ:d:r:n  poly:d:v(0..3; hole, island, second outline, even-odd)
  lazy Manifold ops      bool:d:a:b:op:viaBoolean  batch:d:op:a:b..  compose:d:a:b..  tr:d:s:x:y:z  rot:d:s:x:y:z
                         sc:d:s:x:y:z  xf:d:s:k(0 identity,1 mirror,2 shear,3 rot90+move,4 neg scale,5 swap)
  evaluating ops         mir:d:s:x:y:z warp:d:s:k warpb:d:s:k setp:d:s:n:k norm:d:s:idx:ang curv:d:s:g:m ref:d:s:n
                         rlen:d:s:l rtol:d:s:t smo:d:s:ang:sm smn:d:s:idx simp:d:s:t stol:d:s:t(-1 halve,0 min,>0 up)
                         orig:d:s hull:d:s hulln:d:a:b.. trim:d:s:x:y:z:off dec:s:d1:d2.. split:d1:d2:a:b
                         splitp:d1:d2:s:x:y:z:off mks:d:a:b mkd:d:a:b slice:d:s:h proj:d:s
  CrossSection ops       cbool cbatch ccompose chulln ctr crot csc cmir cxf cwarp cwarpb coff csimp chull cstol cdec
  value ops              cp:d:s cpa:d:s mv:d:s mva:d:s self:s cadd:a:b:op drop:s force:s peek:s look:s
                         (rez:d:s = copy-assign onto a moved-from object; never generated: it crashes Manifold)
Numeric fields are scaled inside the harness (/4, /8, *15 degrees ...), so the text is the exact replay.
"""
import os, re, subprocess

NSLOT = 16
MAXLIVE = 12
MODES = ("eager", "lazy", "lazy0")

# public op kinds that (per /repo/src/manifold.cpp, csg_tree.cpp, constructors.cpp) reach the Impl method.
# NOTE (read from src/vec.h): SharedVec's copy *constructor* deep-copies; only copy *assignment* shares.  Every
# `std::make_shared<Impl>(*leafImpl)` in manifold.cpp therefore starts with private halfedge buffers, and the only
# place a live Impl shares buffers with another one is Impl::Transform (`result.halfedge_ = halfedge_`), i.e. a
# forced non-mirroring transform of a forced object.  The focus generator builds exactly that situation
# (a; t = transform(a); force t) before applying the listed ops to t / a.
FOCUS_OPS = {
    "DedupePropVerts": ["mesh", "smooth"],                      # only the MeshGL constructor (fresh Impl)
    "SortGeometry": ["warp", "warpb", "simp", "stol", "ref", "rlen", "rtol", "dec", "hull", "bool", "mesh", "split"],
    "Subdivide": ["ref", "rlen", "rtol", "sph"],
    "Refine": ["ref", "rlen", "rtol"],
    "SimplifyTopology2": ["simp", "stol"],
    "SimplifyTopology": ["bool", "split", "trim", "splitp"],
    "CleanupTopology": ["simp", "stol", "mesh", "bool"],
    "SetNormals": ["norm"],
    "SetProperties": ["setp", "norm"],
    "SetNormalsAndCoplanar": ["orig", "warp", "warpb", "simp", "stol", "mesh"],
    "InitializeOriginal": ["orig"],
    "CreateTangents": ["smo", "smn", "smooth"],
    "CalculateCurvature": ["curv"],
    "Warp": ["warp"], "WarpBatch": ["warpb"],
    "Transform": ["tr", "rot", "sc", "xf", "mir"],
    "TransformMirror": ["mir", "xf", "sc"],
    "MakeEmpty": ["warp", "ref"],                               # warp k=4 (non-finite), refine with invalid tangents
    "GatherFaces": ["dec", "warp", "simp"], "ReindexVerts": ["dec", "warp", "simp"],
    "Hull": ["hull", "hulln", "mks", "mkd"],
}
IMPL_COPY_OPS = {"mir", "warp", "warpb", "setp", "norm", "curv", "ref", "rlen", "rtol", "smo", "smn", "simp", "stol",
                 "orig"}
LAZY_XF = {"tr", "rot", "sc", "xf"}
MAN_UNARY_NEW = IMPL_COPY_OPS | LAZY_XF | {"hull", "trim"}
CS_UNARY = ["ctr", "crot", "csc", "cmir", "cxf", "cwarp", "cwarpb", "coff", "csimp", "chull", "cstol"]


def line(hid, mode, ops):
    return "H %s %s %s" % (hid, mode, " ".join(ops))


def hid_of(history_line):
    return history_line.split()[1]


def ops_of(history_line):
    return history_line.split()[3:]


def pick_mode(rng, i):
    return MODES[i % 3]


def kind_of(tok):
    return tok.split(":", 1)[0]


# ------------------------------------------------------------------ generator
class _Pool:
    def __init__(self, rng):
        self.rng = rng
        self.kind = {}     # slot -> 'M' | 'C' | 'D'
        self.size = {}     # rough triangle estimate
        self.taint = set() # slots whose value may carry the CalculateNormals(0) recording (hasNormals)
        self.norefine = set()  # slots derived from Revolve (known crash: Refine*/Subdivide on revolved circles)
        self.tang = set()      # slots whose value may carry halfedge tangents (SmoothOut/SmoothByNormals/Smooth)
        self.tsafe = set()     # slots holding a Manifold::Smooth() constructor result itself
        self.avoid_known = True
        self.ops = []

    def live(self):
        return [s for s, k in self.kind.items() if k in "MC"]

    def mans(self, maxsize=None):
        return [s for s, k in self.kind.items() if k == "M" and (maxsize is None or self.size.get(s, 0) <= maxsize)]

    def css(self):
        return [s for s, k in self.kind.items() if k == "C"]

    def free(self, n=1):
        """n distinct empty slots, or None (respecting the live bound)."""
        if len(self.live()) + n > MAXLIVE:
            return None
        f = [s for s in range(NSLOT) if s not in self.kind]
        if len(f) < n:
            return None
        self.rng.shuffle(f)
        return f[:n]

    def emit(self, tok):
        self.ops.append(tok)

    def put(self, d, k, size=12, src=()):
        self.kind[d] = k
        self.size[d] = size
        self.tsafe.discard(d)
        for fl in (self.taint, self.norefine, self.tang):
            fl.discard(d)
            if any(x in fl for x in src):
                fl.add(d)

    def inherit(self, d, s, replace):
        self.tsafe.discard(d)
        for fl in (self.taint, self.norefine, self.tang):
            if replace:
                fl.discard(d)
            if s in fl:
                fl.add(d)

    def drop_one(self, keep=()):
        dead = [s for s, k in self.kind.items() if k == "D"]
        cand = dead or [s for s in self.live() if s not in keep]
        if not cand:
            return False
        s = self.rng.choice(cand)
        self.emit("drop:%d" % s)
        del self.kind[s]
        self.size.pop(s, None)
        return True

    def room(self, n=1, keep=()):
        """make sure n destinations are available (dropping something if needed)"""
        for _ in range(6):
            f = self.free(n)
            if f is not None:
                return f
            if not self.drop_one(keep):
                return None
        return self.free(n)


def _r(rng, lo, hi):
    return rng.randint(lo, hi)


def _nz(rng, lo, hi):
    while True:
        v = rng.randint(lo, hi)
        if v:
            return v


def _ctor_man(p, d):
    rng = p.rng
    k = rng.choice(["cube", "cube", "tet", "sph", "cyl", "mesh", "mesh", "smooth", "ext", "rev"])
    if k in ("ext", "rev") and not p.css():
        k = "cube"
    if k == "cube":
        p.emit("cube:%d:%d:%d:%d:%d" % (d, _r(rng, 1, 8), _r(rng, 1, 8), _r(rng, 1, 8), _r(rng, 0, 1)))
        p.put(d, "M", 12)
    elif k == "tet":
        p.emit("tet:%d" % d)
        p.put(d, "M", 4)
    elif k == "sph":
        n = rng.choice([4, 4, 6, 8, 12])
        p.emit("sph:%d:%d:%d" % (d, _r(rng, 1, 6), n))
        p.put(d, "M", 2 * n * n)
    elif k == "cyl":
        n = rng.choice([3, 4, 6, 8])
        p.emit("cyl:%d:%d:%d:%d:%d:%d" % (d, _r(rng, 1, 8), _r(rng, 1, 4), rng.choice([-4, 0, 1, 2, 4]), n, _r(rng, 0, 1)))
        p.put(d, "M", 4 * n)
    elif k == "mesh":
        p.emit("mesh:%d:%d" % (d, _r(rng, 0, 2)))
        p.put(d, "M", 24)
    elif k == "smooth":
        p.emit("smooth:%d:%d" % (d, _r(rng, 0, 2)))
        p.put(d, "M", 32)
        p.tang.add(d)
        p.tsafe.add(d)
    elif k == "ext":
        s = rng.choice(p.css())
        p.emit("ext:%d:%d:%d:%d:%d:%d" % (d, s, _r(rng, 1, 8), _r(rng, 0, 3), _r(rng, -3, 3), _r(rng, 0, 6)))
        p.put(d, "M", 120)
    else:
        s = rng.choice(p.css())
        # 5th field 1 = harness shifts the profile into x > 0.  KNOWN DEFECT avoided by default (key
        # revolve-axis-crossing-profile): Revolve of a profile crossing x = 0 (e.g. Circle(1.25, 8), 3 segments)
        # yields a mesh on which Refine (subdivision.cpp:676) and SmoothOut (smoothing.cpp:1022) read wild memory.
        shift = rng.randint(0, 1)      # axis-crossing profiles re-enabled: fixed in /repo (27e6885e, 8ff2a9bf)
        p.emit("rev:%d:%d:%d:%d:%d" % (d, s, _r(rng, 3, 8), rng.choice([24, 24, 12, 6, 18]), shift))
        p.put(d, "M", 200)
        # (p.norefine is no longer filled: Refine/SmoothOut on revolved circles were fixed in /repo)


def _ctor_cs(p, d):
    rng = p.rng
    k = rng.choice(["sq", "circ", "poly", "poly"])
    if k == "sq":
        p.emit("sq:%d:%d:%d:%d" % (d, _r(rng, 1, 8), _r(rng, 1, 8), _r(rng, 0, 1)))
    elif k == "circ":
        p.emit("circ:%d:%d:%d" % (d, _r(rng, 1, 6), rng.choice([3, 4, 6, 8, 12])))
    else:
        p.emit("poly:%d:%d" % (d, _r(rng, 0, 3)))
    p.put(d, "C", 0)


def _man_unary(p, k, d, s):
    """emit evaluating/lazy unary op k with destination d and source s; returns False if not applicable"""
    rng = p.rng
    sz = p.size.get(s, 12)
    nsz = sz
    if k == "tr":
        t = "tr:%d:%d:%d:%d:%d" % (d, s, _r(rng, -6, 6), _r(rng, -6, 6), _r(rng, -6, 6))
        if rng.random() < 0.1:
            t = "tr:%d:%d:0:0:0" % (d, s)
    elif k == "rot":
        t = "rot:%d:%d:%d:%d:%d" % (d, s, rng.choice([0, 1, 2, 6, 12, -6, 5]), rng.choice([0, 0, 3, 6]), rng.choice([0, 0, 6, 7]))
    elif k == "sc":
        t = "sc:%d:%d:%d:%d:%d" % (d, s, _nz(rng, -6, 8), _nz(rng, -2, 8), _nz(rng, 1, 8))
        if rng.random() < 0.1:
            t = "sc:%d:%d:4:4:4" % (d, s)
    elif k == "xf":
        t = "xf:%d:%d:%d" % (d, s, _r(rng, 0, 5))
    elif k == "mir":
        t = "mir:%d:%d:%d:%d:%d" % (d, s, _r(rng, -2, 2), _r(rng, -2, 2), _r(rng, 0, 2))
    elif k in ("warp", "warpb"):
        t = "%s:%d:%d:%d" % (k, d, s, rng.choice([0, 1, 1, 2, 2, 3, 5, 5, 4]))
    elif k == "setp":
        # KNOWN DEFECT avoided by default (key getmeshgl-overflow-after-setproperties): SetProperties(numProp<3)
        # on a value carrying the CalculateNormals(0) recording makes GetMeshGL read/write past the vertex block.
        # second KNOWN DEFECT avoided by default (key calculatenormals-overflow-after-setproperties0):
        # SetProperties(0) keeps stale propVert indices; a later CalculateNormals writes past properties_
        # (smoothing.cpp:572/666), e.g. "mesh:0:2 setp:3:0:0:0 norm:14:3:3:9".
        # SetProperties(0) is generated again (d2226baa fixed the stale indices).  Still open at HEAD and avoided:
        # 0 < numProp < 3 on a value carrying the CalculateNormals(0) recording (GetMeshGL overflow under ASan).
        # The recording stays set after SetProperties(numProp < 3) (also numProp = 0 followed by CalculateCurvature):
        # proposed fix hooks/fix_C05_2.patch; open_defects(repo) tells whether the tree still has it.
        ns = [0, 0, 0, 1, 3, 4, 4, 5, 6]
        if p.avoid_known and s in p.taint:
            ns = [3, 4, 4, 5, 6]
        t = "setp:%d:%d:%d:%d" % (d, s, rng.choice(ns), _r(rng, 0, 4))
    elif k == "norm":
        t = "norm:%d:%d:%d:%d" % (d, s, rng.choice([0, 0, 0, 1, 3]), _r(rng, 0, 12))
    elif k == "curv":
        t = "curv:%d:%d:%d:%d" % (d, s, _r(rng, -1, 3), _r(rng, -1, 3))
    elif k in ("ref", "rlen", "rtol") and p.avoid_known and s in p.norefine:
        # KNOWN DEFECT avoided by default (key refine-crash-on-revolve): e.g. Revolve(Circle(1.25,8),3).Refine(2)
        # reads a wild Barycentric in Impl::Subdivide (subdivision.cpp:676, ASan SEGV)
        return False
    elif k == "ref":
        n = rng.choice([1, 2, 2, 3])
        if sz * n * n > 1500:
            n = 1
        t = "ref:%d:%d:%d" % (d, s, n)
        nsz = sz * n * n
    elif k == "rlen":
        if sz > 200:
            return False
        t = "rlen:%d:%d:%d" % (d, s, _r(rng, 3, 12))
        nsz = sz * 6
    elif k == "rtol":
        # KNOWN DEFECT avoided by default (key refinetotolerance-nan-divisions): tangents produced by SmoothOut on
        # transformed/derived meshes can be non-finite; RefineToTolerance then casts NaN to int (UB, INT_MIN edge
        # divisions, subdivision.cpp:543) and crashes.  With avoid_known rtol only sees Smooth() results or
        # tangent-free values.
        if sz > 200:      # NaN tangent lengths were fixed in /repo (b884eeea, fba555c2): no restriction any more
            return False
        t = "rtol:%d:%d:%d" % (d, s, _r(rng, 2, 16))
        nsz = sz * 4
    elif k == "smo":
        t = "smo:%d:%d:%d:%d" % (d, s, _r(rng, 0, 12), _r(rng, 0, 4))
    elif k == "smn":
        t = "smn:%d:%d:0" % (d, s)
    elif k == "simp":
        t = "simp:%d:%d:%d" % (d, s, rng.choice([0, 0, 1, 2, 4, 8]))
    elif k == "stol":
        t = "stol:%d:%d:%d" % (d, s, rng.choice([-1, 0, 1, 2, 4, 8, 16]))
    elif k == "orig":
        t = "orig:%d:%d" % (d, s)
    elif k == "hull":
        t = "hull:%d:%d" % (d, s)
        nsz = min(sz, 100)
    elif k == "trim":
        t = "trim:%d:%d:%d:%d:%d:%d" % (d, s, _nz(rng, -2, 2), _r(rng, -2, 2), _r(rng, -2, 2), _r(rng, -2, 4))
    else:
        return False
    p.emit(t)
    p.put(d, "M", min(nsz, 3000), src=() if k == "hull" else (s,))
    if k == "norm" and t.split(":")[3] == "0":
        p.taint.add(d)
    if k in ("smo", "smn"):
        p.tang.add(d)
    return True


def _cs_unary(p, k, d, s):
    rng = p.rng
    if k == "ctr":
        t = "ctr:%d:%d:%d:%d" % (d, s, rng.choice([0, 1, -3, 5, 400, -4000]), _r(rng, -6, 6))
    elif k == "crot":
        t = "crot:%d:%d:%d" % (d, s, rng.choice([0, 1, 3, 6, 12, -5]))
    elif k == "csc":
        t = "csc:%d:%d:%d:%d" % (d, s, _nz(rng, -4, 8), _nz(rng, 1, 8))
    elif k == "cmir":
        t = "cmir:%d:%d:%d:%d" % (d, s, _r(rng, -2, 2), _r(rng, 0, 2))
    elif k == "cxf":
        t = "cxf:%d:%d:%d" % (d, s, _r(rng, 0, 4))
    elif k in ("cwarp", "cwarpb"):
        t = "%s:%d:%d:%d" % (k, d, s, _r(rng, 0, 3))
    elif k == "coff":
        t = "coff:%d:%d:%d:%d:%d" % (d, s, rng.choice([-2, -1, 1, 2, 4]), _r(rng, 0, 3), rng.choice([0, 4, 8]))
    elif k == "csimp":
        t = "csimp:%d:%d:%d" % (d, s, rng.choice([0, 1, 4]))
    elif k == "chull":
        t = "chull:%d:%d" % (d, s)
    else:
        t = "cstol:%d:%d:%d" % (d, s, rng.choice([0, 1, 8]))
    p.emit(t)
    p.put(d, "C", 0)


GENERAL_WEIGHTS = [
    ("ctor", 8), ("cctor", 4), ("pattern", 16), ("bool", 7), ("batch", 2), ("compose", 1), ("hulln", 1),
    ("unary", 12), ("dec", 2), ("split", 1), ("splitp", 1), ("mink", 1), ("slice", 2), ("proj", 1),
    ("cbool", 3), ("cbatch", 1), ("ccompose", 1), ("chulln", 1), ("cunary", 5), ("cdec", 1),
    ("cp", 5), ("cpa", 3), ("mv", 2), ("mva", 2), ("self", 2), ("cadd", 3), ("drop", 4),
    ("force", 4), ("peek", 3), ("look", 8),
]


def _choose(rng, weights):
    tot = sum(w for _, w in weights)
    x = rng.random() * tot
    for k, w in weights:
        x -= w
        if x < 0:
            return k
    return weights[-1][0]


def _pattern(p, focus_ops, budget):
    """a; b derived from a; (force b so that a transformed Impl shares a's buffers); c.. derived from b; look back."""
    rng = p.rng
    ms = p.mans(800)
    if not ms:
        return
    a = rng.choice(ms)
    f = p.room(1, keep=(a,))
    if not f:
        return
    b = f[0]
    how = rng.choice(["cp", "lazy", "lazy", "lazy", "copyop"])
    if how == "cp":
        p.emit("cp:%d:%d" % (b, a))
        p.put(b, "M", p.size.get(a, 12), src=(a,))
    elif how == "lazy":
        _man_unary(p, rng.choice(["tr", "tr", "rot", "sc", "xf"]), b, a)
    else:
        _man_unary(p, rng.choice(["setp", "orig", "stol", "curv", "smo", "norm", "ref", "simp", "warp"]), b, a)
    if rng.random() < 0.7:
        p.emit("force:%d" % b)          # evaluates Impl::Transform: result.halfedge_ = halfedge_ (shared)
    n = rng.randint(1, max(1, min(3, budget - 3)))
    cur = b
    for _ in range(n):
        f = p.room(1, keep=(a, b, cur))
        if not f:
            break
        c = f[0]
        pool_ops = focus_ops or ["setp", "norm", "ref", "simp", "stol", "orig", "warp", "warpb", "smo", "mir", "curv",
                                 "rlen", "xf", "sc", "tr"]
        k = rng.choice(pool_ops)
        if k not in MAN_UNARY_NEW or not _man_unary(p, k, c, cur):
            _man_unary(p, "warp", c, cur)
        if rng.random() < 0.5:
            p.emit("force:%d" % c)
        if rng.random() < 0.5:
            cur = c
    r = rng.random()
    if r < 0.3:
        p.emit("cadd:%d:%d:%d" % (b, a, rng.randint(0, 2)))     # b op= a : b gets a new incarnation, a must not move
        p.inherit(b, a, False)
    p.emit("look:%d" % a)
    if b in p.kind and rng.random() < 0.7:
        p.emit("look:%d" % b)


def _pattern_setp0(p, budget):
    """source with SPLIT property vertices (sharp-edged CalculateNormals of a cube / imported mesh with merge fans /
    Boolean of propertied meshes); siblings (copy, lazy transform); SetProperties(numProp = 0) resets every halfedge's
    property index (a write into propVert_ of the copied Impl); then look back at the source and the siblings."""
    rng = p.rng
    how = rng.choice(["cube", "cube", "mesh", "bool", "any"])
    f = p.room(1)
    if not f:
        return
    a = f[0]
    if how == "cube":
        p.emit("cube:%d:%d:%d:%d:%d" % (a, _r(rng, 1, 8), _r(rng, 1, 8), _r(rng, 1, 8), rng.randint(0, 1)))
        p.put(a, "M", 12)
    elif how == "mesh":
        p.emit("mesh:%d:%d" % (a, rng.randint(0, 2)))
        p.put(a, "M", 24)
    else:
        ms = p.mans(300)
        if not ms:
            return
        a = rng.choice(ms)
    src = a
    if how in ("cube", "any", "bool") or rng.random() < 0.5:
        f = p.room(1, keep=(a,))
        if not f:
            return
        y = f[0]
        if not _man_unary(p, "norm", y, a):
            return
        # make sure the sharp-angle parameter is small: every 90 degree edge of a cube is sharp => 24 property verts
        t = p.ops[-1].split(":")
        if t[0] == "norm":
            t[3] = str(rng.choice([1, 1, 3]) if p.avoid_known else rng.choice([0, 0, 1, 3])); t[4] = str(rng.choice([0, 1, 2, 3]))
            p.taint.discard(y)
            if a in p.taint:
                p.taint.add(y)
            p.ops[-1] = ":".join(t)
            if t[3] == "0":
                p.taint.add(y)
        src = y
    if how == "bool":
        f = p.room(2, keep=(a, src))
        if f and len(f) == 2:
            p.emit("sph:%d:%d:%d" % (f[0], _r(rng, 2, 6), 4)); p.put(f[0], "M", 32)
            p.emit("bool:%d:%d:%d:%d:%d" % (f[1], src, f[0], rng.randint(0, 2), rng.randint(0, 1)))
            p.put(f[1], "M", p.size.get(src, 12) + 32, src=(src, f[0]))
            src = f[1]
    sib = []
    for kind in rng.sample(["cp", "tr", "force"], rng.randint(0, 3)):
        if kind == "force":
            p.emit("force:%d" % src)
            continue
        f = p.room(1, keep=(a, src) + tuple(sib))
        if not f:
            break
        if kind == "cp":
            p.emit("cp:%d:%d" % (f[0], src)); p.put(f[0], "M", p.size.get(src, 12), src=(src,))
        else:
            _man_unary(p, rng.choice(["tr", "rot", "sc"]), f[0], src)
            if rng.random() < 0.6:
                p.emit("force:%d" % f[0])
        sib.append(f[0])
    f = p.room(1, keep=(a, src) + tuple(sib))
    if not f:
        return
    z = f[0]
    p.emit("setp:%d:%d:0:%d" % (z, src, _r(rng, 0, 4)))
    p.put(z, "M", p.size.get(src, 12), src=(src,))
    if rng.random() < 0.5:
        p.emit("force:%d" % z)
    p.emit("look:%d" % src)
    for x in sib:
        if x in p.kind:
            p.emit("look:%d" % x)
    if a in p.kind and a != src:
        p.emit("look:%d" % a)


def open_defects(repo):
    """Which of the defects the generator knows how to avoid are still present in the given tree (source probe)."""
    out = set()
    try:
        src = open(os.path.join(repo, "src/manifold.cpp")).read()
        i = src.index("Manifold Manifold::SetProperties(")
        body = src[i:src.index("\n}\n", i)]
        if not re.search(r"hasNormals\s*=\s*false", body):
            out.add("getmeshgl-overflow-after-setproperties")
    except (OSError, ValueError):
        out.add("getmeshgl-overflow-after-setproperties")
    return out


def gen_history(rng, hid, mode, nsteps, focus=None, avoid_known=True):
    """Random history (list of op tokens) with <= nsteps steps and <= 12 live objects.  avoid_known=False also
    generates the trigger of the known GetMeshGL overflow (SetProperties(numProp<3) after CalculateNormals(0))."""
    p = _Pool(rng)
    p.avoid_known = avoid_known
    nsteps = min(nsteps, 60)
    focus_ops = None
    if focus is not None and focus in FOCUS_OPS:
        focus_ops = [k for k in FOCUS_OPS[focus] if k in MAN_UNARY_NEW] or None
    weights = list(GENERAL_WEIGHTS)
    if focus_ops:
        weights = [(k, w * (4 if k == "pattern" else 1)) for k, w in weights]
    # seed objects
    for _ in range(2):
        f = p.free(1)
        _ctor_man(p, f[0])
    while len(p.ops) < nsteps:
        budget = nsteps - len(p.ops)
        k = _choose(rng, weights)
        ms, cs = p.mans(), p.css()
        if k == "ctor" or (not ms and k not in ("cctor", "cunary", "cbool", "drop")):
            f = p.room(1)
            if f:
                if focus_ops and focus in ("DedupePropVerts",):
                    p.emit("mesh:%d:%d" % (f[0], rng.randint(0, 2)))
                    p.put(f[0], "M", 24)
                else:
                    _ctor_man(p, f[0])
        elif k == "cctor" or (not cs and k in ("cunary", "cbool", "cbatch", "ccompose", "chulln", "cdec")):
            f = p.room(1)
            if f:
                _ctor_cs(p, f[0])
        elif k == "pattern":
            if budget >= 6 and (focus == "SetProperties" or rng.random() < 0.2):
                _pattern_setp0(p, budget)
            elif budget >= 5:
                _pattern(p, focus_ops, budget)
        elif k == "bool":
            small = p.mans(1200)
            f = p.room(1)
            if f and small:
                a, b = rng.choice(small), rng.choice(small)
                if a in p.kind and b in p.kind:
                    p.emit("bool:%d:%d:%d:%d:%d" % (f[0], a, b, rng.randint(0, 2), rng.randint(0, 1)))
                    p.put(f[0], "M", p.size.get(a, 12) + p.size.get(b, 12), src=(a, b))
        elif k in ("batch", "compose", "hulln"):
            small = p.mans(600)
            f = p.room(1)
            small = [s for s in small if s in p.kind]
            if f and small:
                xs = [rng.choice(small) for _ in range(rng.choice([1, 2, 3, 3, 4]))]
                if k == "batch":
                    p.emit("batch:%d:%d:%s" % (f[0], rng.randint(0, 2), ":".join(map(str, xs))))
                else:
                    p.emit("%s:%d:%s" % (k, f[0], ":".join(map(str, xs))))
                p.put(f[0], "M", sum(p.size.get(x, 12) for x in xs), src=() if k == "hulln" else xs)
        elif k == "unary":
            f = p.room(1)
            ms = p.mans()
            if f and ms:
                s = rng.choice(ms)
                kk = rng.choice(sorted(MAN_UNARY_NEW)) if not focus_ops or rng.random() < 0.5 else rng.choice(focus_ops)
                if not _man_unary(p, kk, f[0], s):
                    _man_unary(p, "tr", f[0], s)
        elif k == "dec":
            n = rng.choice([1, 2, 3])
            f = p.room(n)
            ms = p.mans()
            if f and ms:
                s = rng.choice(ms)
                p.emit("dec:%d:%s" % (s, ":".join(map(str, f))))
                for d in f:
                    p.put(d, "M", p.size.get(s, 12), src=(s,))
        elif k in ("split", "splitp"):
            f = p.room(2)
            ms = p.mans(1200)
            if f and ms:
                a, b = rng.choice(ms), rng.choice(ms)
                if k == "split":
                    p.emit("split:%d:%d:%d:%d" % (f[0], f[1], a, b))
                else:
                    p.emit("splitp:%d:%d:%d:%d:%d:%d:%d" % (f[0], f[1], a, _nz(rng, -2, 2), _r(rng, -2, 2), _r(rng, -2, 2), _r(rng, -2, 4)))
                for d in f:
                    p.put(d, "M", p.size.get(a, 12) + 24, src=(a, b) if k == "split" else (a,))
        elif k == "mink":
            f = p.room(1)
            ms = p.mans(40)
            if f and ms:
                a, b = rng.choice(ms), rng.choice(ms)
                p.emit("%s:%d:%d:%d" % (rng.choice(["mks", "mkd"]), f[0], a, b))
                p.put(f[0], "M", 400, src=(a, b))
        elif k in ("slice", "proj"):
            f = p.room(1)
            ms = p.mans()
            if f and ms:
                s = rng.choice(ms)
                p.emit("slice:%d:%d:%d" % (f[0], s, _r(rng, -2, 6)) if k == "slice" else "proj:%d:%d" % (f[0], s))
                p.put(f[0], "C", 0)
        elif k == "cbool":
            f = p.room(1)
            cs = p.css()
            if f and cs:
                p.emit("cbool:%d:%d:%d:%d:%d" % (f[0], rng.choice(cs), rng.choice(cs), rng.randint(0, 2), rng.randint(0, 1)))
                p.put(f[0], "C", 0)
        elif k in ("cbatch", "ccompose", "chulln"):
            f = p.room(1)
            cs = p.css()
            if f and cs:
                xs = [rng.choice(cs) for _ in range(rng.choice([1, 2, 3]))]
                if k == "cbatch":
                    p.emit("cbatch:%d:%d:%s" % (f[0], rng.randint(0, 2), ":".join(map(str, xs))))
                else:
                    p.emit("%s:%d:%s" % (k, f[0], ":".join(map(str, xs))))
                p.put(f[0], "C", 0)
        elif k == "cunary":
            f = p.room(1)
            cs = p.css()
            if f and cs:
                _cs_unary(p, rng.choice(CS_UNARY + ["ctr", "crot", "csc"]), f[0], rng.choice(cs))
        elif k == "cdec":
            n = rng.choice([1, 2, 3])
            f = p.room(n)
            cs = p.css()
            if f and cs:
                p.emit("cdec:%d:%s" % (rng.choice(cs), ":".join(map(str, f))))
                for d in f:
                    p.put(d, "C", 0)
        elif k == "cp":
            lv = p.live()
            f = p.room(1)
            lv = [s for s in lv if s in p.kind]
            if f and lv:
                s = rng.choice(lv)
                p.emit("cp:%d:%d" % (f[0], s))
                p.put(f[0], p.kind[s], p.size.get(s, 12), src=(s,))
        elif k in ("cpa", "mva"):
            lv = p.live()
            if len(lv) >= 2:
                d = rng.choice(lv)
                same = [s for s in lv if s != d and p.kind[s] == p.kind[d]]
                if same:
                    s = rng.choice(same)
                    p.emit("%s:%d:%d" % (k, d, s))
                    p.size[d] = p.size.get(s, 12)
                    p.inherit(d, s, True)
                    if k == "mva":
                        p.kind[s] = "D"
        elif k == "mv":
            lv = p.live()
            if lv:
                s = rng.choice(lv)
                kd = p.kind[s]
                p.kind[s] = "D"            # frees one live object
                f = p.free(1)
                if f:
                    p.emit("mv:%d:%d" % (f[0], s))
                    p.put(f[0], kd, p.size.get(s, 12), src=(s,))
                else:
                    p.kind[s] = kd
        elif k == "self":
            lv = p.live()
            if lv:
                p.emit("self:%d" % rng.choice(lv))
        elif k == "cadd":
            lv = p.live()
            if lv:
                a = rng.choice(lv)
                same = [s for s in lv if p.kind[s] == p.kind[a] and p.size.get(s, 0) <= 1200]
                if same and p.size.get(a, 0) <= 1200:
                    b = rng.choice(same)
                    p.emit("cadd:%d:%d:%d" % (a, b, rng.randint(0, 2)))
                    p.size[a] = p.size.get(a, 12) + p.size.get(b, 12)
                    p.inherit(a, b, False)
        elif k == "drop":
            if len(p.kind) > 3:
                p.drop_one()
        elif k in ("force", "peek", "look"):
            lv = p.live()
            if lv:
                p.emit("%s:%d" % (k, rng.choice(lv)))
    return p.ops[:nsteps]


# ------------------------------------------------------------------ oracle
class GeneratorBug(Exception):
    pass


def split_output(output_text):
    """{history id: its output lines joined} for H-mode lines (I/L lines are ignored)."""
    per = {}
    for l in output_text.splitlines():
        t = l.split(" ", 2)
        if len(t) >= 2 and t[0] in "NSXEPTOUGQ" and len(t[0]) == 1:
            per.setdefault(t[1], []).append(l)
    return {k: "\n".join(v) for k, v in per.items()}


def judge(history_line, output_text, strict=True):
    """Oracle.  Returns a list of {key, step, slot, what}.  Keys:
    old-object-changed, copy-differs, refcount-below-live-sharers, cs-tolerance-changes-on-force."""
    hid = hid_of(history_line)
    cur = {}            # slot -> incarnation id
    incs = {}           # id -> dict
    fails = []
    nid = [0]

    def new_inc(slot, step, parent=None):
        nid[0] += 1
        incs[nid[0]] = {"slot": slot, "born": step, "parent": parent, "O": [], "P": [], "T": [], "Q": {}}
        cur[slot] = nid[0]

    for l in output_text.splitlines():
        t = l.split()
        if len(t) < 3 or t[1] != hid:
            continue
        tag, step = t[0], t[2]
        if tag == "N":
            slot, how = int(t[3]), t[4]
            if how == "new":
                new_inc(slot, step)
            elif how.startswith("copy:"):
                src = int(how[5:])
                new_inc(slot, step, parent=cur.get(src))
            elif how.startswith("moved:"):
                src = int(how[6:])
                if src in cur:
                    cur[slot] = cur[src]
                    incs[cur[slot]]["slot"] = slot
            elif how == "dead":
                cur.pop(slot, None)
        elif tag in "OPT":
            for kv in t[3:]:
                s, hv = kv.split("=")
                i = cur.get(int(s))
                if i is None:
                    if strict:
                        raise GeneratorBug("hash for slot %s without incarnation: %s" % (s, l))
                    continue
                incs[i][tag].append((step, int(s), hv))
        elif tag == "Q":
            # per-getter hashes, in the order the getters were called
            for kv in t[3:]:
                sl, rest = kv.split("=", 1)
                i = cur.get(int(sl))
                if i is None:
                    continue
                got = dict(x.split(":") for x in rest.split(","))
                order = [x.split(":")[0] for x in rest.split(",")]
                for name, hv in got.items():
                    if name != "tbox":
                        incs[i]["Q"].setdefault(name, []).append((step, int(sl), hv, order[0]))
                if got.get("tbox") not in (None, "-", "ok"):
                    fails.append({"key": "bbox-differs-from-exported-vertices", "step": step, "slot": int(sl),
                                  "what": "BoundingBox() bits %s differ from the tight box of the vertices of GetMeshGL64() %s "
                                          "(getter order: %s)" % (got.get("bbox"), got.get("tbox"), " ".join(order))})
        elif tag == "U":
            if len(t) > 6 and t[6].startswith("BAD"):
                fails.append({"key": "refcount-below-live-sharers", "step": step, "slot": -1, "what": l})
        elif tag == "E":
            if strict:
                raise GeneratorBug(l)
    keyname = {"O": "old-object-changed", "P": "old-object-changed", "T": "cs-tolerance-changes-on-force"}
    for i, inc in sorted(incs.items()):
        for st in "OPT":
            obs = inc[st]
            for (step, slot, hv) in obs[1:]:
                if hv != obs[0][2]:
                    fails.append({"key": keyname[st], "step": step, "slot": slot,
                                  "what": "%s-hash of the object born at step %s was %s at step %s and is %s at step %s (slot %d)"
                                          % (st, inc["born"], obs[0][2], obs[0][0], hv, step, slot)})
                    break
    # every getter separately: first observation vs all later ones, and vs the same getter on the source of a copy
    for i, inc in sorted(incs.items()):
        for name, obs in sorted(inc["Q"].items()):
            bad = next((o for o in obs[1:] if o[2] != obs[0][2]), None)
            if bad:
                fails.append({"key": "getter-changes:" + name, "step": bad[0], "slot": bad[1],
                              "what": "%s of the object born at step %s hashed %s at step %s (first getter called: %s) and %s at step %s"
                                      % (name, inc["born"], obs[0][2], obs[0][0], obs[0][3], bad[2], bad[0])})
            par = inc["parent"]
            if par in incs and name in incs[par]["Q"] and obs and incs[par]["Q"][name][0][2] != obs[0][2]:
                fails.append({"key": "copy-getter-differs:" + name, "step": obs[0][0], "slot": obs[0][1],
                              "what": "%s of a copy (born step %s) hashed %s, of its source %s"
                                      % (name, inc["born"], obs[0][2], incs[par]["Q"][name][0][2])})
    # copies: first consistent hash of the copy equals that of its source
    for i, inc in sorted(incs.items()):
        par = inc["parent"]
        if par is None or par not in incs:
            continue
        for st in "OP":
            a, b = incs[par][st], inc[st]
            if a and b and a[0][2] != b[0][2]:
                fails.append({"key": "copy-differs", "step": b[0][0], "slot": b[0][1],
                              "what": "%s-hash of copy (born step %s, slot %d) is %s but its source (born step %s) hashed %s at step %s"
                                      % (st, inc["born"], b[0][1], b[0][2], incs[par]["born"], a[0][2], a[0][0])})
                break
    return fails


def run(exe, lines, timeout=20):
    """(rc, stdout) of the harness on the given input lines; rc 124 on timeout."""
    try:
        p = subprocess.run([exe], input="\n".join(lines) + "\n", stdout=subprocess.PIPE, stderr=subprocess.DEVNULL,
                           timeout=timeout, universal_newlines=True, errors="replace")
        return p.returncode, p.stdout
    except subprocess.TimeoutExpired as ex:
        o = ex.stdout or ""
        if isinstance(o, bytes):
            o = o.decode(errors="replace")
        return 124, o


def fails_with(exe, history_line, key, timeout=20):
    rc, out = run(exe, [history_line], timeout)
    if key == "crash":
        return rc != 0
    if rc != 0:
        return False
    return any(f["key"] == key for f in judge(history_line, out, strict=False))


def shrink(exe, history_line, key, max_runs=400):
    """Greedy delta debugging: drop tail chunks, then single ops.  Invalid ops (harness E) are just skipped by the
    harness, so dropping an op that creates a slot silently disables the ops using it."""
    head = history_line.split()[:3]
    ops = ops_of(history_line)
    runs = [0]

    def bad(o):
        if runs[0] >= max_runs:
            return False
        runs[0] += 1
        return fails_with(exe, " ".join(head + o), key)

    if not bad(ops):
        return history_line
    chunk = max(1, len(ops) // 2)
    while chunk >= 1:
        while len(ops) > chunk and bad(ops[:-chunk]):
            ops = ops[:-chunk]
        chunk //= 2
    changed = True
    while changed and runs[0] < max_runs:
        changed = False
        for size in (4, 2, 1):
            i = 0
            while i + size <= len(ops):
                cand = ops[:i] + ops[i + size:]
                if cand and bad(cand):
                    ops = cand
                    changed = True
                else:
                    i += 1
    # try the simplest mode last
    for m in ("lazy0", "eager"):
        if head[2] != m and runs[0] < max_runs and fails_with(exe, " ".join(head[:2] + [m] + ops), key):
            pass
    return " ".join(head + ops)


def stats(history_lines):
    d = {}
    for l in history_lines:
        for tok in ops_of(l):
            k = kind_of(tok)
            d[k] = d.get(k, 0) + 1
    return d


_SRC_FIELD = {k: 1 for k in MAN_UNARY_NEW}


def nontrivial(history_line, output_text):
    """True iff some step applied an Impl-copying / transforming op to (or compound-assigned from) a Manifold whose
    Impl shared a halfedge buffer with another live Impl at the previous step (U lines, sh= field)."""
    hid = hid_of(history_line)
    sh = {}
    anyshared = {}
    for l in output_text.splitlines():
        t = l.split()
        if len(t) >= 7 and t[0] == "U" and t[1] == hid:
            step = int(t[2])
            anyshared[step] = int(t[4]) > 0
            s = set()
            if len(t) > 7 and t[7].startswith("sh="):
                s = set(int(x) for x in t[7][3:].split(",") if x)
            sh[step] = s
    for i, tok in enumerate(ops_of(history_line)):
        if i == 0:
            continue
        f = tok.split(":")
        k = f[0]
        srcs = []
        if k in _SRC_FIELD and len(f) > 2:
            srcs = [int(f[2])]
        elif k in ("cadd",) and len(f) > 2:
            srcs = [int(f[1]), int(f[2])]
        elif k in ("bool", "split") and len(f) > 3:
            srcs = [int(f[-3]), int(f[-2])] if k == "bool" else [int(f[3]), int(f[4])]
        elif k in ("dec",):
            srcs = [int(f[1])]
        if not srcs:
            continue
        prev = sh.get(i - 1)
        if prev is None:
            if anyshared.get(i - 1):
                return True
            continue
        if any(s in prev for s in srcs):
            return True
    return False


# ------------------------------------------------------------------ Impl-level probes (I mode)
IMPL_SAFE = ["DedupePropVerts", "SortGeometry", "Subdivide", "Refine", "CleanupTopology", "SimplifyTopology",
             "SimplifyTopology2", "RemoveUnreferencedVerts", "SetNormalsAndCoplanar", "InitializeOriginal",
             "CreateTangentsIdx", "CreateTangentsSharp", "SetNormals", "CalculateVertNormals", "CalculateCurvature",
             "Warp", "WarpBatch", "TransformMirror", "TransformTranslate", "TransformIdentity", "GatherFaces",
             "SortFaces", "MakeEmpty", "IncrementMeshIDs", "CalculateBBox", "SetEpsilon", "Hull", "CopyAssign"]
IMPL_RAW = ["ReindexVerts", "SortVerts", "CompactProps", "ReorderHalfedges", "SplitPinchedVerts", "DedupeEdges",
            "SwapDegenerates", "CollapseShortEdges", "CollapseColinearEdges"]


def impl_lines(menus=(0, 1, 2, 3, 4, 5, 12, 14), raw=False):
    """I-mode input lines: every self-protecting method (and optionally the raw ones) on every input menu
    (arg = menu + 10*loose-tolerance flag)."""
    out, n = ["I 0 list x"], 0
    for m in IMPL_SAFE + (IMPL_RAW if raw else []):
        for a in menus:
            n += 1
            out.append("I %d %s %d" % (n, m, a))
    return out


def judge_impl(output_text, methods=None):
    """Failures for I lines: a method that protects itself with MakeUnique must leave the sharing partner A
    bit-identical.  key = impl-cow-<method>."""
    fails, seen = [], {}
    for l in output_text.splitlines():
        t = l.split()
        if len(t) < 4 or t[0] != "I" or t[3] == "NA":
            continue
        m = t[2]
        if m in IMPL_RAW or (methods is not None and m not in methods):
            continue
        kv = dict(x.split("=", 1) for x in t[3:] if "=" in x)
        seen[m] = seen.get(m, 0) + 1
        if kv.get("shared_before") != "1":
            fails.append({"key": "impl-probe-not-shared", "step": t[1], "slot": -1, "what": l})
        elif kv.get("a_unchanged") != "1":
            fails.append({"key": "impl-cow-" + m, "step": t[1], "slot": -1, "what": l})
    return fails


# ------------------------------------------------------------------ deferred observation ("lazy evaluation is unobservable")
# Histories of PURE CSG expressions (constructors, Booleans, lazy transforms, copies, compound assignment) run in
# mode lazy0: objects are created and NOT observed until an explicit look, several steps later; in between, derived
# objects that were never evaluated are reassigned (x op= y, copy/move assignment over x) or dropped.  Reference
# evaluation: the SAME history in mode eager (every object is evaluated right after it is built, before any drop can
# interfere).  Oracle: a late observation equals the reference value of the same object in status and volume (tolerances: the association of a flattened Boolean tree may differ between the two runs, so the
# mesh itself is not compared).  key = lazy-evaluation-observable.
import struct as _struct

DEFER_KEY = "lazy-evaluation-observable"


def gen_deferred(rng, hid, nsteps):
    ops, live, unseen = [], [], set()
    def free():
        f = [s for s in range(NSLOT) if s not in live]
        return rng.choice(f) if f and len(live) < MAXLIVE else None
    def ctor():
        d = free()
        if d is None: return None
        k = rng.choice(["cube", "cube", "sph", "cyl", "tet"])
        if k == "cube": ops.append("cube:%d:%d:%d:%d:%d" % (d, _r(rng, 2, 8), _r(rng, 2, 8), _r(rng, 2, 8), rng.randint(0, 1)))
        elif k == "sph": ops.append("sph:%d:%d:%d" % (d, _r(rng, 2, 6), rng.choice([4, 6, 8])))
        elif k == "cyl": ops.append("cyl:%d:%d:%d:%d:%d:%d" % (d, _r(rng, 2, 8), _r(rng, 1, 4), rng.choice([0, 1, 2, 4]), rng.choice([4, 6, 8]), rng.randint(0, 1)))
        else: ops.append("tet:%d" % d)
        live.append(d); unseen.add(d)
        return d
    def lazyxf(s):
        d = free()
        if d is None: return None
        # rotations by non-multiples of 90 degrees (15 degree units) of spheres/cylinders/tetrahedra are common:
        # a pending non-axis-aligned transform on a solid that does not fill its box
        k = rng.choice(["tr", "tr", "rot", "rot", "rot", "sc", "xf"])
        if k == "tr": ops.append("tr:%d:%d:%d:%d:%d" % (d, s, _r(rng, -9, 9), _r(rng, -4, 4), _r(rng, -4, 4)))
        elif k == "rot": ops.append("rot:%d:%d:%d:%d:%d" % (d, s, rng.choice([1, 2, 3, 4, 5, 7]), _r(rng, 0, 6), rng.choice([0, 1, 2, 5])))
        elif k == "sc": ops.append("sc:%d:%d:%d:%d:%d" % (d, s, _nz(rng, -6, 6), _nz(rng, 1, 6), _nz(rng, 1, 6)))
        else: ops.append("xf:%d:%d:%d" % (d, s, rng.choice([0, 1, 4, 5])))
        live.append(d); unseen.add(d)
        return d
    def boolean(a, b):
        d = free()
        if d is None: return None
        ops.append("bool:%d:%d:%d:%d:%d" % (d, a, b, rng.choice([0, 0, 1, 1, 2]), rng.randint(0, 1)))
        live.append(d); unseen.add(d)
        return d
    def drop(s):
        if s in live:
            ops.append("drop:%d" % s); live.remove(s); unseen.discard(s)
    for _ in range(2):
        ctor()
    guard = 0
    while len(ops) < nsteps and guard < 400:
        guard += 1
        r = rng.random()
        if r < 0.45 and len(live) >= 2:
            # the scenario: x lazy Boolean; transformed variants of x (kept unobserved, or one observed early);
            # x rebound (x op= y / assigned over) and dropped without ever being evaluated; look at the variants late
            a, b = rng.sample(live, 2)
            x = boolean(a, b)
            if x is None:
                drop(rng.choice(live)); continue
            vs = [v for v in (lazyxf(x) for _ in range(rng.randint(1, 3))) if v is not None]
            if vs and rng.random() < 0.4:
                ops.append("look:%d" % vs[0]); unseen.discard(vs[0])
            for _ in range(rng.randint(1, 2)):
                y = rng.choice([s for s in live if s != x]) if rng.random() < 0.7 else ctor()
                if y is None or y == x: continue
                ops.append("cadd:%d:%d:%d" % (x, y, rng.randint(0, 2)))
            how = rng.random()
            if how < 0.6:
                drop(x)
            elif how < 0.8:
                o = [s for s in live if s != x]
                if o: ops.append("%s:%d:%d" % (rng.choice(["cpa", "cpa", "mva"]), x, rng.choice(o)))
                if ops[-1].startswith("mva"):
                    src = int(ops[-1].split(":")[2])      # the moved-from slot is dead: free it
                    if src in live:
                        ops.append("drop:%d" % src); live.remove(src); unseen.discard(src)
            for _ in range(rng.randint(0, 2)):
                if rng.random() < 0.5: ctor()
                elif len(live) >= 2: boolean(*rng.sample(live, 2))
            for v in vs:
                if v in live and rng.random() < 0.8:
                    ops.append("look:%d" % v); unseen.discard(v)
        elif r < 0.55:
            ctor()
        elif r < 0.68 and len(live) >= 2:
            boolean(*rng.sample(live, 2))
        elif r < 0.76 and live:
            v = lazyxf(rng.choice(live))
            if v is not None and rng.random() < 0.3:
                ops.append("look:%d" % v); unseen.discard(v)      # first observation while the transform is pending
        elif r < 0.82 and live:
            d = free()
            if d is not None:
                ops.append("cp:%d:%d" % (d, rng.choice(live))); live.append(d); unseen.add(d)
        elif r < 0.88 and len(live) >= 2:
            xs = [rng.choice(live) for _ in range(rng.randint(2, 3))]
            d = free()
            if d is not None:
                ops.append("batch:%d:%d:%s" % (d, rng.randint(0, 2), ":".join(map(str, xs)))); live.append(d); unseen.add(d)
        elif r < 0.94 and live:
            drop(rng.choice(live))
        elif live:
            s = rng.choice(live)
            ops.append("look:%d" % s); unseen.discard(s)
        if len(live) > MAXLIVE - 3:
            drop(rng.choice(live))
    return ops[:60]


def _g_parse(output_text, hid):
    """-> (events, obs): events = canonical list of N/S/X lines (to check that both runs did the same things),
    obs = {(slot, born_step): [(step, fields)]} from G lines."""
    cur, born, events, obs = {}, {}, [], {}
    for l in output_text.splitlines():
        t = l.split()
        if len(t) < 3 or t[1] != hid:
            continue
        tag, step = t[0], t[2]
        if tag == "N":
            slot, how = int(t[3]), t[4]
            events.append((step, slot, how))
            if how == "new" or how.startswith("copy:"):
                born[slot] = step
            elif how.startswith("moved:"):
                src = int(how[6:])
                if src in born: born[slot] = born[src]
            elif how == "dead":
                born.pop(slot, None)
        elif tag in ("S", "E"):
            events.append((step, tag))
        elif tag == "X":
            events.append((step, "X", "observe" if "observe:" in l else "op"))
        elif tag == "G":
            for kv in t[3:]:
                s, v = kv.split("=", 1)
                s = int(s)
                if s in born:
                    obs.setdefault((s, born[s]), []).append((step, v.split(",")))
    return events, obs


def _dbl(h):
    return _struct.unpack(">d", bytes.fromhex(h))[0]


def judge_deferred(history_line, out_lazy, out_eager):
    """Late observations of the lazy0 run against the reference (eager) run of the same history."""
    hid = hid_of(history_line)
    ev_l, obs_l = _g_parse(out_lazy, hid)
    ev_e, obs_e = _g_parse(out_eager, hid)
    norm = lambda ev: [e for e in ev if not (len(e) == 3 and e[1] == "X" and e[2] == "observe")]
    if norm(ev_l) != norm(ev_e) or any(len(e) == 3 and e[1] == "X" for e in ev_l + ev_e):
        return None          # the two runs are not comparable (an exception or a skipped op)
    fails = []
    import math
    for key, lst in sorted(obs_l.items()):
        ref = obs_e.get(key)
        if not ref:
            continue
        r = ref[0][1]
        for step, g in lst:
            if g[0] != r[0]:
                continue
            what = None
            if g[1] != r[1]:
                what = "Status %s, reference %s" % (g[1], r[1])
            else:
                v1, v2 = _dbl(g[3]), _dbl(r[3])
                bb1 = [_dbl(x) for x in g[5:11]]; bb2 = [_dbl(x) for x in r[5:11]]
                fin = [abs(x) for x in bb1 + bb2 if math.isfinite(x)]
                scale = max([1.0] + fin)
                tolv = 1e-6 * scale ** 3 + 1e-9
                if not (math.isfinite(v1) and math.isfinite(v2)):
                    if (math.isnan(v1) != math.isnan(v2)) or (not math.isnan(v1) and v1 != v2):
                        what = "volume %r, reference %r" % (v1, v2)
                elif abs(v1 - v2) > tolv:
                    what = "volume %.9g (IsEmpty=%s), reference %.9g (IsEmpty=%s)" % (v1, g[2], v2, r[2])
                # (bounding boxes are NOT compared: zero-volume remnants of degenerate Booleans such as (A - B) ^ B
                #  survive or vanish depending on the association of the evaluated tree; that is C02/C03 territory)
            if what:
                fails.append({"key": DEFER_KEY, "step": step, "slot": key[0],
                              "what": "object born at step %s in slot %d, first observed at step %s after other objects were "
                                      "reassigned/dropped unevaluated: %s (reference = the same history with every object "
                                      "evaluated when built)" % (key[1], key[0], step, what)})
                break
    return fails


def run_deferred(exe, ops, hid="1", timeout=30):
    """Runs one op list in lazy0 and eager mode; -> list of failures (hash oracle on both runs + differential)."""
    ll, le = line(hid, "lazy0", ops), line(hid, "eager", ops)
    rc1, o1 = run(exe, [ll], timeout)
    rc2, o2 = run(exe, [le], timeout)
    if rc1 != 0 or rc2 != 0:
        return [{"key": "crash", "step": "?", "slot": -1, "what": "harness exit %s/%s" % (rc1, rc2)}]
    fs = judge(ll, o1, strict=False) + judge(le, o2, strict=False)
    d = judge_deferred(ll, o1, o2)
    return fs + (d or [])


def shrink_deferred(exe, ops, key, max_runs=300):
    """greedy delta debugging on the op list (invalid ops are skipped by the harness)"""
    runs = [0]
    def bad(o):
        runs[0] += 1
        return any(f["key"] == key for f in run_deferred(exe, o))
    cur = list(ops)
    n = len(cur)
    while n > 0 and runs[0] < max_runs:          # cut the tail
        if bad(cur[:n - 1]): cur = cur[:n - 1]; n -= 1
        else: break
    i = 0
    while i < len(cur) and runs[0] < max_runs:
        t = cur[:i] + cur[i + 1:]
        if bad(t): cur = t
        else: i += 1
    return cur


# ------------------------------------------------------------------ assignment between relatives
def gen_assign(rng, hid, nsteps):
    """Manifolds AND CrossSections: explicit copy-assignment x = y, self-assignment, move-assignment between
    RELATIVES (parent/child by a lazy transform, siblings from one parent, copies), with and without an observation in
    between, in mode lazy0 (nothing is inspected unless looked at).  Afterwards x must hash like y (the N line says
    copy:y) and y must not change: the ordinary lifetime/copy oracle of judge()."""
    ops, kind = [], {}
    def free():
        f = [s for s in range(NSLOT) if s not in kind]
        return rng.choice(f) if f and len(kind) < MAXLIVE else None
    def ctor(k):
        d = free()
        if d is None: return None
        if k == "M":
            c = rng.choice(["cube", "sph", "cyl", "tet"])
            if c == "cube": ops.append("cube:%d:%d:%d:%d:%d" % (d, _r(rng, 2, 8), _r(rng, 2, 8), _r(rng, 2, 8), rng.randint(0, 1)))
            elif c == "sph": ops.append("sph:%d:%d:%d" % (d, _r(rng, 2, 6), rng.choice([4, 6, 8])))
            elif c == "cyl": ops.append("cyl:%d:%d:%d:%d:%d:%d" % (d, _r(rng, 2, 8), _r(rng, 1, 4), rng.choice([0, 1, 2, 4]), rng.choice([4, 6, 8]), rng.randint(0, 1)))
            else: ops.append("tet:%d" % d)
        else:
            c = rng.choice(["sq", "circ", "poly"])
            if c == "sq": ops.append("sq:%d:%d:%d:%d" % (d, _r(rng, 1, 8), _r(rng, 1, 8), rng.randint(0, 1)))
            elif c == "circ": ops.append("circ:%d:%d:%d" % (d, _r(rng, 1, 6), rng.choice([3, 4, 6, 8])))
            else: ops.append("poly:%d:%d" % (d, _r(rng, 0, 3)))
        kind[d] = k
        return d
    def child(s):
        d = free()
        if d is None: return None
        if kind[s] == "M":
            k = rng.choice(["tr", "rot", "sc", "xf"])
            if k == "tr": ops.append("tr:%d:%d:%d:%d:%d" % (d, s, _nz(rng, -9, 9), _r(rng, -4, 4), _r(rng, -4, 4)))
            elif k == "rot": ops.append("rot:%d:%d:%d:%d:%d" % (d, s, rng.choice([1, 2, 3, 5, 6]), _r(rng, 0, 6), _r(rng, 0, 3)))
            elif k == "sc": ops.append("sc:%d:%d:%d:%d:%d" % (d, s, _nz(rng, -6, 6), _nz(rng, 2, 6), _nz(rng, 1, 6)))
            else: ops.append("xf:%d:%d:%d" % (d, s, rng.choice([1, 4, 5])))
        else:
            k = rng.choice(["ctr", "ctr", "crot", "csc", "cmir", "cxf"])
            if k == "ctr": ops.append("ctr:%d:%d:%d:%d" % (d, s, rng.choice([1, -3, 5, 32, 400]), _r(rng, -6, 6)))
            elif k == "crot": ops.append("crot:%d:%d:%d" % (d, s, rng.choice([1, 3, 6, -5])))
            elif k == "csc": ops.append("csc:%d:%d:%d:%d" % (d, s, _nz(rng, -4, 8), _nz(rng, 2, 8)))
            elif k == "cmir": ops.append("cmir:%d:%d:%d:%d" % (d, s, _nz(rng, -2, 2), _r(rng, 0, 2)))
            else: ops.append("cxf:%d:%d:%d" % (d, s, _r(rng, 1, 4)))
        kind[d] = kind[s]
        return d
    while len(ops) < nsteps:
        k = rng.choice("MC")
        a = ctor(k)
        if a is None:
            s = rng.choice(list(kind)); ops.append("drop:%d" % s); del kind[s]; continue
        fam = [a]
        for _ in range(rng.randint(1, 3)):
            how = rng.random()
            src = rng.choice(fam)
            if how < 0.7: c = child(src)
            else:
                c = free()
                if c is not None:
                    ops.append("cp:%d:%d" % (c, src)); kind[c] = k
            if c is not None: fam.append(c)
        if rng.random() < 0.3:
            ops.append("look:%d" % rng.choice(fam))          # an observation in between (forces one relative)
        for _ in range(rng.randint(1, 3)):
            if len(fam) < 2: break
            x, y = rng.sample(fam, 2)
            r = rng.random()
            if r < 0.6:
                ops.append("cpa:%d:%d" % (x, y))
            elif r < 0.75:
                ops.append("self:%d" % x)
            else:
                ops.append("mva:%d:%d" % (x, y)); ops.append("drop:%d" % y); fam.remove(y); kind.pop(y, None)
            if rng.random() < 0.3:
                ops.append("look:%d" % rng.choice(fam))
        for s in fam:
            if rng.random() < 0.8: ops.append("look:%d" % s)
        for s in fam:
            if s in kind and rng.random() < 0.6:
                ops.append("drop:%d" % s); del kind[s]
    return ops[:60]
