#!/usr/bin/env python3
"""C05 translator: /repo sources -> coq/Gen/CowTable.v

Token-level (no compiler needed, < 1 s).  For every function definition in
src/*.cpp, src/*.h it extracts, in source order and with the block structure
({...}, lambda bodies, brace-less if/for/while bodies) kept as EBlock:

  * sites that WRITE Halfedges storage of a Manifold::Impl object
    (non-const Halfedges methods, direct start_/paired_/propVert_ access,
    passing halfedge_ to a kernel struct / function that holds it as a mutable
    `Halfedges&`)                                          -> EWrite obj k
  * `X.halfedge_.MakeUnique()`                             -> EMakeUnique obj
  * `X.halfedge_ = Halfedges(..)` / `= std::move(local)`   -> EAssignFresh obj
  * `X.halfedge_ = Y.halfedge_`                            -> EAssignShare X Y
  * `std::move(X.halfedge_)`                               -> EMoveOut obj
  * creation of Impl objects: `Impl x;`, `make_shared<Impl>(...)` -> ENewFresh,
    `make_shared<Impl>(*y)`, `Impl x = *this`              -> ENewCopy y
    (the SharedVec copy constructor deep-copies; only assignment shares)
  * calls of Manifold::Impl methods / free functions taking Impl objects
    (call graph)                                           -> ECall f [objs]

It FAILS LOUDLY (TranslateError) on any use of halfedge_/start_/paired_/
propVert_/a mutable Halfedges alias that it cannot classify.

Objects of a function: index 0.. = parameters (`this` first for Impl methods,
then Impl-typed parameters, then "external" borrowed Impls reached through
other expressions such as GetImpl()), then locals in order of creation.
A function is an ENTRY (checked with all parameters borrowed = Impls that live
Manifolds point to) iff it is not a non-const Impl method/constructor helper
and has no non-const Impl& parameter.
"""
import os, re, sys, glob, json

class TranslateError(Exception):
    pass

SKIP_UNQUALIFIED = {"polygon.cpp", "polygon_internal.h", "execution_impl.cpp", "execution_impl.h"}
BUF = {"start_": 0, "paired_": 1, "propVert_": 2}
# Halfedges API (src/shared.h): const methods = reads; mutators -> buffers written
H_READS = {"size", "empty", "Valid", "Tri", "Start", "End", "Pair", "Prop", "PropEnd", "IsForward", "Get", "ToData"}
H_WRITES = {"MakeInvalid": [0, 1, 2], "SetStart": [0], "SetEnd": [0], "SetPair": [1], "SetProp": [2], "Set": [0, 1, 2],
            "push_back": [0, 1, 2], "resize": [0, 1, 2], "resize_nofill": [0, 1, 2], "clear": [0, 1, 2], "FromData": [0, 1, 2]}
V_READS = {"size", "empty", "capacity"}
ASSIGN_OPS = {"=", "+=", "-=", "*=", "/=", "|=", "&=", "^=", "++", "--", "<<=", ">>=", "%="}

TOK = re.compile(r"[A-Za-z_]\w*|\d[\w.']*|->\*|->|::|<<=|>>=|\+\+|--|&&|\|\||[-+*/%&|^!=<>]=|[{}()\[\];,.<>:?~!%^&*+=|/#-]")


def lex(path):
    s = open(path, errors="replace").read()
    # strip comments, strings, chars (keep newlines for line numbers)
    out, i, n = [], 0, len(s)
    while i < n:
        c = s[i]
        if s.startswith("//", i):
            j = s.find("\n", i); j = n if j < 0 else j
            i = j
        elif s.startswith("/*", i):
            j = s.find("*/", i + 2); j = n - 2 if j < 0 else j
            out.append("\n" * s.count("\n", i, j + 2)); i = j + 2
        elif c == '"':
            if s.startswith('R"', i - 1) and i > 0 and s[i - 1] == "R":
                m = re.match(r'"([^(]*)\(', s[i:])
                end = s.find(")" + m.group(1) + '"', i)
                out.append('""' + "\n" * s.count("\n", i, end)); i = end + len(m.group(1)) + 2
                continue
            j = i + 1
            while j < n and s[j] != '"':
                j += 2 if s[j] == "\\" else 1
            out.append('""'); i = j + 1
        elif c == "'" and not (i > 0 and s[i - 1].isdigit() and i + 1 < n and s[i + 1].isdigit()):
            j = i + 1
            while j < n and s[j] != "'":
                j += 2 if s[j] == "\\" else 1
            out.append("0"); i = j + 1
        else:
            out.append(c); i += 1
    s = "".join(out)
    # drop preprocessor lines (with continuations)
    lines = s.split("\n")
    k = 0
    while k < len(lines):
        if lines[k].lstrip().startswith("#"):
            while lines[k].rstrip().endswith("\\") and k + 1 < len(lines):
                lines[k] = ""; k += 1
            lines[k] = ""
        k += 1
    toks = []
    for ln, line in enumerate(lines, 1):
        for m in TOK.finditer(line.replace('""', " 0 ")):
            toks.append((m.group(0), ln))
    return toks


def match_fwd(toks, i, op, cl):
    d = 0
    for j in range(i, len(toks)):
        t = toks[j][0]
        if t == op: d += 1
        elif t == cl:
            d -= 1
            if d == 0: return j
    raise TranslateError("unbalanced %s at line %d" % (op, toks[i][1]))


def match_back(toks, i, op, cl):
    d = 0
    for j in range(i, -1, -1):
        t = toks[j][0]
        if t == cl: d += 1
        elif t == op:
            d -= 1
            if d == 0: return j
    raise TranslateError("unbalanced %s (backwards) at line %d" % (cl, toks[i][1]))


def is_ident(t):
    return bool(re.match(r"[A-Za-z_]\w*$", t))


KEYW = {"if", "for", "while", "switch", "catch", "return", "sizeof", "else", "do", "try", "new", "delete", "case",
        "static_assert", "decltype", "alignas", "noexcept", "throw", "const", "constexpr"}


class Func:
    def __init__(self, file, name, cls, params, body, line, is_const, is_ctor):
        self.file, self.name, self.cls, self.params, self.body, self.line = file, name, cls, params, body, line
        self.is_const, self.is_ctor = is_const, is_ctor
        self.qual = (cls + "::" if cls else "") + name


def find_functions(file, toks):
    """Function definitions at namespace / class scope. Returns (funcs, structs)
    structs: name -> list of (field_type_tokens, field_name) in order + body range."""
    funcs, structs = [], {}
    scope = []          # stack of ("ns"|"class", name, end_index)
    i, n = 0, len(toks)
    decl_start = 0
    while i < n:
        t = toks[i][0]
        while scope and i > scope[-1][2]:
            scope.pop()
        if t == ";":
            decl_start = i + 1
        elif t == "}":
            decl_start = i + 1
        elif t == ":" and i > 0 and toks[i - 1][0] in ("public", "private", "protected"):
            decl_start = i + 1
        elif t == "{":
            decl = [x[0] for x in toks[decl_start:i]]
            # strip template<...> prefix
            d = decl[:]
            while d and d[0] == "template":
                depth, k = 0, 1
                while k < len(d):
                    if d[k] == "<": depth += 1
                    elif d[k] == ">":
                        depth -= 1
                        if depth == 0: break
                    elif d[k] == ">>":
                        depth -= 2
                        if depth <= 0: break
                    k += 1
                d = d[k + 1:]
            end = match_fwd(toks, i, "{", "}")
            if d and d[0] == "namespace" or (d[:1] == ["inline"] and d[1:2] == ["namespace"]):
                scope.append(("ns", "", end)); decl_start = i + 1; i += 1; continue
            if d[:1] == ["extern"] and "(" not in d:
                scope.append(("ns", "", end)); decl_start = i + 1; i += 1; continue
            if d and d[0] in ("struct", "class", "union") and "(" not in d[:d.index(":")] if (d and d[0] in ("struct", "class", "union") and ":" in d) else (d and d[0] in ("struct", "class", "union") and "(" not in d):
                nm = []
                for x in d[1:]:
                    if x in (":", "final"): break
                    nm.append(x)
                name = "".join(nm)
                scope.append(("class", name, end))
                structs.setdefault(name.split("::")[-1], []).append((i, end, file))
                decl_start = i + 1; i += 1; continue
            if d and d[0] == "enum":
                i = end + 1; decl_start = i; continue
            # function definition?  find first top-level '(' in d
            depth = 0; p = None
            for k, x in enumerate(d):
                if x == "<" and k > 0 and (is_ident(d[k - 1]) and d[k - 1] not in ("operator",)): depth += 1
                elif x == ">" and depth > 0: depth -= 1
                elif x == ">>" and depth > 0: depth = max(0, depth - 2)
                elif x == "(" and depth == 0:
                    p = k; break
            if p is None or p == 0 or ("=" in d[:p] and "operator" not in d[:p]):
                # initializer / unknown brace at declaration scope: skip it
                i = end + 1
                if i < n and toks[i][0] == ";":
                    i += 1
                decl_start = i; continue
            # name = identifier chain before '('
            k = p - 1
            if d[k] == ")" and k >= 1 and d[k - 1] == "(" and k >= 2 and d[k - 2] == "operator":
                name_toks = ["operator()"]; k -= 3
                # real parameter list is the next (...)
                p2 = p + 0
                # d[p] is '(' of "operator(" ; params start after the ')' at p+1
                p = p + 2 if d[p + 1] == ")" else p
            else:
                name_toks = []
                if k >= 1 and d[k - 1] == "operator":
                    name_toks = ["operator" + d[k]]; k -= 2
                else:
                    if not is_ident(d[k]):
                        # e.g. operator== etc.
                        kk = k
                        while kk >= 0 and d[kk] != "operator": kk -= 1
                        if kk < 0:
                            i = end + 1; decl_start = i; continue
                        name_toks = ["operator" + "".join(d[kk + 1:k + 1])]; k = kk - 1
                    else:
                        name_toks = [d[k]]; k -= 1
            quals = []
            while k >= 1 and d[k] == "::" and (is_ident(d[k - 1]) or d[k - 1] == ">"):
                if d[k - 1] == ">":
                    break
                quals.insert(0, d[k - 1]); k -= 2
            if name_toks[0] in KEYW:
                i = end + 1; decl_start = i; continue
            # parameter tokens
            pe = None; depth = 0
            for k2 in range(p, len(d)):
                if d[k2] == "(": depth += 1
                elif d[k2] == ")":
                    depth -= 1
                    if depth == 0: pe = k2; break
            if pe is None:
                i = end + 1; decl_start = i; continue
            params = d[p + 1:pe]
            tail = d[pe + 1:]
            # constructor init list:  ") : a(b), c{d} {"  -> the '{' we are at may be an init brace
            if ":" in tail and toks[i - 1][0] not in (")", "}"):
                # brace initializer inside the ctor init list: skip to its end and keep scanning for the body
                i = end + 1; continue
            cls = "::".join([s[1] for s in scope if s[0] == "class" and s[1]] + quals)
            is_const = "const" in [x for x in tail[:tail.index(":")] ] if ":" in tail else "const" in tail
            nm = name_toks[0]
            is_ctor = bool(cls) and nm == cls.split("::")[-1]
            funcs.append(Func(file, nm, cls, params, (i, end), toks[i][1], is_const, is_ctor))
            i = end + 1; decl_start = i; continue
        i += 1
    return funcs, structs


def split_top(tokens, sep=","):
    out, cur, depth = [], [], 0
    for t in tokens:
        if t in ("(", "[", "{"): depth += 1
        elif t in (")", "]", "}"): depth -= 1
        elif t == "<" and cur and (is_ident(cur[-1]) or cur[-1] == "::"): depth += 1
        elif t == ">" and depth > 0: depth -= 1
        elif t == ">>" and depth > 1: depth -= 2
        if t == sep and depth == 0:
            out.append(cur); cur = []
        else:
            cur.append(t)
    if cur: out.append(cur)
    return out


def impl_type(tokens, file):
    """Does this type token list denote Manifold::Impl (possibly behind shared_ptr/&)?"""
    for k, t in enumerate(tokens):
        if t == "Impl":
            q = tokens[k - 2] if k >= 2 and tokens[k - 1] == "::" else None
            if q == "Manifold": return True
            if q is None and os.path.basename(file) not in SKIP_UNQUALIFIED: return True
    return False


def vec_semantics(repo):
    """Read from src/vec.h / shared.h / impl.h how SharedVec copies behave (share vs deep copy) and check that
    MakeUnique / move still are what the Coq model (CowDefs.v) says.  Fails loudly on anything else."""
    path = os.path.join(repo, "src/vec.h")
    toks = lex(path)
    funcs, _ = find_functions(path, toks)
    def body(fn):
        return "".join(t[0] for t in toks[fn.body[0]:fn.body[1] + 1])
    def par(fn):
        return "".join(fn.params)
    sem = {}
    cc = [f for f in funcs if f.name == "Vec" and par(f).startswith("constVec<T,true>&")]
    if len(cc) != 1:
        raise TranslateError("vec.h: cannot find the SharedVec copy constructor Vec(const Vec<T, true>&) (found %d)" % len(cc))
    b = body(cc[0]); v = cc[0].params[-1]
    deep = "*this=Vec(%s.view());" % v in b
    share = "*this=%s;" % v in b
    if share and ("ifconstexpr(shared){" in b) and re.search(r"ifconstexpr\(shared\)\{[^}]*\*this=%s;" % v, b):
        sem["copy_ctor_shares"] = True
        if deep and not re.search(r"\}else\{\*this=Vec\(%s\.view\(\)\);\}" % v, b):
            raise TranslateError("vec.h:%d copy constructor both shares and deep-copies in a way that is not understood: %s" % (cc[0].line, b))
    elif deep and not share:
        sem["copy_ctor_shares"] = False
    else:
        raise TranslateError("vec.h:%d SharedVec copy constructor not understood: %s" % (cc[0].line, b))
    ca = [f for f in funcs if f.name == "operator=" and par(f) in ("constVec&other", "constVec<T,shared>&other")]
    if len(ca) != 1:
        raise TranslateError("vec.h: cannot find Vec::operator=(const Vec&) (found %d)" % len(ca))
    b = body(ca[0])
    m = re.search(r"ifconstexpr\(shared\)\{([^}]*)\}", b)
    if m and "other.count_->fetch_add(1);" in m.group(1) and "this->ptr_=other.ptr_;" in m.group(1) and "this->count_=other.count_;" in m.group(1) and "dealloc();" in b:
        sem["copy_assign_shares"] = True
    elif "fetch_add" not in b and "malloc" in b and "this->ptr_=other.ptr_" not in b:
        sem["copy_assign_shares"] = False
    else:
        raise TranslateError("vec.h:%d SharedVec copy assignment not understood: %s" % (ca[0].line, b))
    mu = [f for f in funcs if f.name == "MakeUnique"]
    if len(mu) != 1 or body(mu[0]) != "{ifconstexpr(shared){if(count_->load()>1){*this=Vec<T,true>(this->view());}}}":
        raise TranslateError("vec.h: SharedVec::MakeUnique is no longer `if (count_->load() > 1) *this = Vec<T, true>(this->view())`: %s"
                             % (body(mu[0]) if mu else "missing"))
    mv = [f for f in funcs if f.name == "Vec" and par(f).startswith("Vec<T,true>&&")]
    if len(mv) != 1 or "this->count_=other.count_;other.count_=nullptr;" not in body(mv[0]) or "moveContent(other);" not in body(mv[0]):
        raise TranslateError("vec.h: SharedVec move constructor not understood")
    ma = [f for f in funcs if f.name == "operator=" and par(f) == "Vec&&other"]
    if len(ma) != 1 or "this->count_=other.count_;other.count_=nullptr;" not in body(ma[0]) or "dealloc();" not in body(ma[0]):
        raise TranslateError("vec.h: SharedVec move assignment not understood")
    de = [f for f in funcs if f.name == "dealloc"]
    if len(de) != 1 or "if(count_==nullptr||count_->fetch_sub(1)>1)return;" not in body(de[0]):
        raise TranslateError("vec.h: SharedVec::dealloc no longer frees only when the last handle goes away")
    au = [f for f in funcs if f.name == "AssertUnique"]
    sem["writes_checked_only_by_ASSERT"] = bool(au) and "ASSERT(" in body(au[0])
    # element writes go through VecView::operator[] (no check at all); Halfedges / Impl use the implicit copy operations
    sh = "".join(t[0] for t in lex(os.path.join(repo, "src/shared.h")))
    if re.search(r"Halfedges\((const)?Halfedges&", sh) or re.search(r"Halfedges&operator=", sh):
        raise TranslateError("shared.h: class Halfedges now declares its own copy/move operations: not modelled")
    if "voidMakeUnique(){start_.MakeUnique();paired_.MakeUnique();propVert_.MakeUnique();}" not in sh:
        raise TranslateError("shared.h: Halfedges::MakeUnique no longer makes start_, paired_ and propVert_ unique")
    ih = "".join(t[0] for t in lex(os.path.join(repo, "src/impl.h")))
    if re.search(r"[^:\w]Impl\((const)?Impl&", ih) or re.search(r"Impl&operator=", ih):
        raise TranslateError("impl.h: Manifold::Impl now declares its own copy/move operations: not modelled")
    return sem


class Tr:
    def __init__(self, repo):
        self.repo = repo
        self.files = sorted(glob.glob(os.path.join(repo, "src/*.cpp")) + glob.glob(os.path.join(repo, "src/*.h")))
        self.toks = {f: lex(f) for f in self.files}
        self.funcs, self.structs = [], {}
        for f in self.files:
            fs, st = find_functions(f, self.toks[f])
            self.funcs += fs
            for k_, v_ in st.items(): self.structs.setdefault(k_, []).extend(v_)
        self.impl_methods = {}
        for fn in self.funcs:
            if fn.cls == "Manifold::Impl":
                self.impl_methods.setdefault(fn.name, []).append(fn)
        self.kernels = {}        # name -> {argindex: ("const"|[bufs])}
        self.scan_kernels()
        self.warn = []

    # ---- kernels: structs with Halfedges fields, functions with Halfedges params
    def mutators_on(self, toks, lo, hi, name):
        """buffers written through alias `name` inside toks[lo:hi]; raises on unclassifiable use."""
        bufs = set()
        for j in range(lo, hi):
            if toks[j][0] != name: continue
            if j > lo and toks[j - 1][0] in (".", "->", "::"): continue
            nx = toks[j + 1][0] if j + 1 < hi else ""
            if nx in (".", "->"):
                m = toks[j + 2][0]
                if m in H_READS: continue
                if m in H_WRITES: bufs.update(H_WRITES[m]); continue
                if m == "MakeUnique":
                    raise TranslateError("MakeUnique through alias %s at %s:%d" % (name, "?", toks[j][1]))
                if m in BUF:
                    bufs.add(BUF[m]); continue      # direct buffer access through a mutable alias: conservative
                raise TranslateError("unknown Halfedges member %s via alias %s line %d" % (m, name, toks[j][1]))
            elif nx in (";", ",", ")", "}", "{", "(", ":"):
                # declaration itself, ctor-init, or passed on: passed on => conservative all
                prev = toks[j - 1][0]
                if prev in ("&", "Halfedges", "*"): continue   # the declaration
                if nx == "(" or nx == "{": continue            # ctor init list  name(name)
                bufs.update([0, 1, 2])
            else:
                bufs.update([0, 1, 2])
        return sorted(bufs)

    def scan_kernels(self):
        # struct fields
        for sname, (lo, hi, file) in [(k_, d_) for k_, ds_ in self.structs.items() for d_ in ds_]:
            toks = self.toks[file]
            fields = []
            depth = 0; stmt = []
            j = lo + 1
            while j < hi:
                t = toks[j][0]
                if t == "{":
                    e = match_fwd(toks, j, "{", "}")
                    # method body or initializer: drop the pending statement if it was a method
                    if stmt and ")" in stmt: stmt = []
                    j = e + 1; continue
                if t == ";":
                    if stmt and "(" not in stmt and stmt[0] not in ("using", "typedef", "friend", "static", "public", "private"):
                        s = stmt[:]
                        if "=" in s: s = s[:s.index("=")]
                        if s and is_ident(s[-1]): fields.append((s[:-1], s[-1]))
                    stmt = []
                elif t == ":" and stmt and stmt[-1] in ("public", "private", "protected"):
                    stmt = []
                else:
                    stmt.append(t)
                j += 1
            ent = {}
            for idx, (ty, nm) in enumerate(fields):
                if "Halfedges" in ty:
                    if "const" in ty: ent[idx] = "const"
                    elif "&" in ty: ent[idx] = self.mutators_on(toks, lo, hi, nm)
                    else: ent[idx] = "const"   # by value copy: shares, reads
            if ent:
                old = self.kernels.setdefault(sname, {})
                for k_, v_ in ent.items():
                    if k_ in old and old[k_] != v_:
                        v_ = sorted(set(old[k_] if old[k_] != "const" else []) | set(v_ if v_ != "const" else [])) or "const"
                    old[k_] = v_
        # functions with Halfedges params
        for fn in self.funcs:
            ps = split_top(fn.params)
            ent = {}
            for idx, p in enumerate(ps):
                if "Halfedges" in p:
                    nm = p[-1] if is_ident(p[-1]) else None
                    if "=" in p: nm = p[p.index("=") - 1]
                    if "const" in p or "&" not in p: ent[idx] = "const"
                    else:
                        toks = self.toks[fn.file]
                        ent[idx] = self.mutators_on(toks, fn.body[0], fn.body[1], nm)
            if ent:
                self.kernels.setdefault(fn.name, {}).update(ent)

    # ---- per function analysis
    def analyse(self, fn):
        toks = self.toks[fn.file]
        lo, hi = fn.body
        objs = []        # list of dict(name, kind)   kind: this|param|cparam|ext|fresh|copy
        names = {}
        is_method = fn.cls == "Manifold::Impl"
        def add(name, kind):
            names[name] = len(objs); objs.append({"name": name, "kind": kind}); return names[name]
        if is_method and not fn.is_ctor:
            add("this", "cthis" if fn.is_const else "this")
        for p in split_top(fn.params):
            if impl_type(p, fn.file) and p and is_ident(p[-1]) and p[-1] != "Impl":
                if "=" in p: continue
                const = "const" in p
                add(p[-1], "cparam" if const else "param")
        nparams_decl = len(objs)
        ext = []         # external borrowed objects (appended to params afterwards)
        events = []      # (pos, kind, ...)

        def resolve(expr, pos, create_ext=True):
            """expr: list of tokens of the receiver expression (without trailing ./->)"""
            s = "".join(expr)
            s = re.sub(r"^\(\*(\w+)\)$", r"\1", s)
            s = re.sub(r"^\*", "", s)
            if s in ("", "this", "(*this)"):
                if "this" in names: return ("o", names["this"])
                if is_method and fn.is_ctor: return ("o", names["this"]) if "this" in names else ("ctor",)
                raise TranslateError("%s:%d implicit this outside an Impl method" % (fn.file, toks[pos][1]))
            if s in names: return ("o", names[s])
            root = re.match(r"[A-Za-z_]\w*", s)
            if root and root.group(0) in names and re.match(r"^\w+(\.get\(\))?$", s):
                return ("o", names[root.group(0)])
            if not create_ext: return None
            key = "ext:" + s
            if key not in names:
                names[key] = ("ext", len(ext)); ext.append(s)
            return ("e", names[key][1])

        def receiver_before(j):
            """tokens of the postfix expression ending just before index j (toks[j-1] is '.' or '->')"""
            k = j - 2
            start = k
            while True:
                t = toks[k][0]
                if t == ")" or t == "]":
                    k = match_back(toks, k, "(" if t == ")" else "[", t)
                    start = k
                    if toks[k - 1][0] and is_ident(toks[k - 1][0]) and toks[k - 1][0] not in KEYW:
                        k -= 1; start = k
                    elif t == ")":
                        # parenthesised expression e.g. (*this)
                        pass
                elif is_ident(t) or t == "this":
                    start = k
                else:
                    break
                if toks[k - 1][0] in (".", "->", "::"):
                    k -= 2
                else:
                    break
            return [x[0] for x in toks[start:j - 1]]

        # constructor: `this` is a fresh object
        ctor_this = None
        if is_method and fn.is_ctor:
            ctor_this = "ctor"

        # block structure: list of (open_index, close_index) for real blocks
        blocks = []
        def is_block_brace(j):
            p = toks[j - 1][0]
            if p in (")", "else", "do", "try", "mutable", "noexcept", "const", "{", "}", ";", ":"): return True
            if p == "]": return True      # lambda without params  [&] {
            if p == ">" : return False
            if is_ident(p) and p not in ("return",):
                # Type{...} initializer, or "-> T {" lambda return type
                k = j - 2
                while k > lo and (is_ident(toks[k][0]) or toks[k][0] == "::"): k -= 1
                return toks[k][0] == "->"
            return False
        j = lo + 1
        while j < hi:
            if toks[j][0] == "{" and is_block_brace(j):
                blocks.append((j, match_fwd(toks, j, "{", "}")))
            elif toks[j][0] in ("if", "for", "while") and toks[j + 1][0] in ("(", "constexpr"):
                k = j + 1
                if toks[k][0] == "constexpr": k += 1
                e = match_fwd(toks, k, "(", ")")
                if toks[e + 1][0] != "{":
                    # brace-less body: up to the terminating ';' at depth 0
                    d = 0; m = e + 1
                    while m < hi:
                        x = toks[m][0]
                        if x in ("(", "[", "{"): d += 1
                        elif x in (")", "]", "}"): d -= 1
                        elif x == ";" and d == 0: break
                        m += 1
                    blocks.append((e, m))
            elif toks[j][0] == "else" and toks[j + 1][0] not in ("{", "if"):
                d = 0; m = j + 1
                while m < hi:
                    x = toks[m][0]
                    if x in ("(", "[", "{"): d += 1
                    elif x in (")", "]", "}"): d -= 1
                    elif x == ";" and d == 0: break
                    m += 1
                blocks.append((j, m))
            elif toks[j][0] in ("switch", "goto"):
                events.append((j, "switch"))
            j += 1

        # ---- object creation / aliases
        j = lo + 1
        while j < hi:
            t = toks[j][0]
            # make_shared<Impl>(...) / make_unique<Impl>(...)
            if t in ("make_shared", "make_unique") and toks[j + 1][0] == "<":
                k = j + 2; ty = []
                while toks[k][0] != ">": ty.append(toks[k][0]); k += 1
                if impl_type(ty, fn.file) and toks[k + 1][0] == "(":
                    e = match_fwd(toks, k + 1, "(", ")")
                    args = [x[0] for x in toks[k + 2:e]]
                    # variable it initialises:  [auto|type] NAME = [std::] make_shared   /  NAME = ...  / other
                    b = j - 1
                    if toks[b][0] == "::" and toks[b - 1][0] == "std": b -= 2
                    var = None
                    if toks[b][0] == "=" and is_ident(toks[b - 1][0]):
                        var = toks[b - 1][0]
                        if toks[b - 2][0] in (".", "->"): var = None
                    events.append((j, "new", var, args, e))
                    j = e;
            elif t == "Impl" and (os.path.basename(fn.file) not in SKIP_UNQUALIFIED or (toks[j - 1][0] == "::" and toks[j - 2][0] == "Manifold")):
                # local declaration  [Manifold::]Impl NAME [;|=|(|{]
                if toks[j - 1][0] == "::" and toks[j - 2][0] != "Manifold":
                    j += 1; continue
                nx = toks[j + 1][0]
                if is_ident(nx) and nx not in KEYW and toks[j + 2][0] in (";", "=", "(", "{"):
                    b = j - 1
                    if toks[b][0] == "::": b -= 2
                    if toks[b][0] in (";", "{", "}", ")", "else") or b <= lo:
                        if toks[j + 2][0] == ";":
                            events.append((j, "new", nx, [], j + 2))
                        else:
                            d = 0; m = j + 2
                            while m < hi:
                                x = toks[m][0]
                                if x in ("(", "[", "{"): d += 1
                                elif x in (")", "]", "}"): d -= 1
                                elif x == ";" and d == 0: break
                                m += 1
                            args = [x[0] for x in toks[j + 3:m]]
                            if toks[j + 2][0] in ("(", "{") and args and args[-1] in (")", "}"): args = args[:-1]
                            events.append((j, "new", nx, args, j + 2))
            j += 1

        # ---- Impl copy ASSIGNMENT (implicit operator=: shares every SharedVec) is not used by the library today;
        #      fail loudly if it appears:  *x = *y;   /  *this = other;
        for j in range(lo + 1, hi - 3):
            if toks[j][0] == "*" and toks[j + 2][0] == "=" and toks[j - 1][0] in (";", "{", "}", ")"):
                lhs = toks[j + 1][0]
                if (lhs in names and not str(lhs).startswith("ext:")) or (lhs == "this" and is_method):
                    raise TranslateError("%s:%d Impl copy assignment '*%s = ...' shares halfedge buffers: not modelled" % (fn.file, toks[j][1], lhs))
        # ---- halfedge_ uses
        for j in range(lo + 1, hi):
            if toks[j][0] != "halfedge_": continue
            prev = toks[j - 1][0]
            recv = receiver_before(j) if prev in (".", "->") else []
            nx = toks[j + 1][0]
            if nx in (".", "->"):
                m = toks[j + 2][0]
                if m in H_READS: continue
                if m == "MakeUnique":
                    events.append((j, "mu", recv)); continue
                if m in H_WRITES:
                    events.append((j, "write", recv, H_WRITES[m])); continue
                if m in BUF:
                    a = toks[j + 3][0]
                    if a in (".", "->") and toks[j + 4][0] in V_READS: continue
                    if a == "[":
                        e = match_fwd(toks, j + 3, "[", "]")
                        if toks[e + 1][0] not in ASSIGN_OPS and toks[j - 1][0] not in ("++", "--"): continue
                    if a in (".", "->") and toks[j + 4][0] == "MakeUnique":
                        raise TranslateError("%s:%d per-buffer MakeUnique is not modelled" % (fn.file, toks[j][1]))
                    events.append((j, "write", recv, [BUF[m]])); continue
                raise TranslateError("%s:%d unknown Halfedges member '%s'" % (fn.file, toks[j][1], m))
            if nx == "=":
                # assignment to halfedge_
                e = j + 2; d = 0
                while not (toks[e][0] == ";" and d == 0):
                    if toks[e][0] in ("(", "{", "["): d += 1
                    elif toks[e][0] in (")", "}", "]"): d -= 1
                    e += 1
                rhs = [x[0] for x in toks[j + 2:e]]
                if "halfedge_" in rhs:
                    k = j + 2 + rhs.index("halfedge_")
                    src = receiver_before(k) if toks[k - 1][0] in (".", "->") else []
                    if rhs[-1] != "halfedge_" :
                        raise TranslateError("%s:%d unclassified assignment to halfedge_" % (fn.file, toks[j][1]))
                    events.append((j, "share", recv, src)); continue
                if rhs[:1] == ["Halfedges"] or rhs[:3] == ["std", "::", "move"] or rhs[:1] == ["{"]:
                    events.append((j, "fresh", recv)); continue
                raise TranslateError("%s:%d unclassified assignment to halfedge_: %s" % (fn.file, toks[j][1], " ".join(rhs)))
            # bare use
            if prev == "(" and toks[j - 2][0] == "move":
                events.append((j, "moveout", recv)); continue
            # inside a share-assignment rhs?  (handled above from the lhs)
            k = j - 1 - (len(recv) + 1 if recv else 0)
            # k is the token before the whole expression
            start_tok = toks[k][0]
            if start_tok == "=":
                # initialiser of a declaration, or rhs of halfedge_ = X.halfedge_
                b = k - 1
                if toks[b][0] == "halfedge_": continue          # rhs of a share (classified at the lhs)
                # declaration:  [const] (auto|Halfedges) & name = ...
                s = b
                while toks[s][0] not in (";", "{", "}", "(", ","): s -= 1
                decl = [x[0] for x in toks[s + 1:b + 1]]
                if "const" in decl: continue                     # const alias: reads only (compiler enforced)
                if "&" not in decl and ("Halfedges" in decl or "auto" in decl):
                    events.append((j, "copyout", recv)); continue   # by-value copy: shares with a temporary, reads
                raise TranslateError("%s:%d mutable alias of halfedge_: %s" % (fn.file, toks[j][1], " ".join(decl)))
            if start_tok in ("?", ":") :
                # PQ ? inP.halfedge_ : inQ.halfedge_   -- look at the declaration it initialises
                s = k
                while toks[s][0] not in (";", "{", "}"): s -= 1
                decl = [x[0] for x in toks[s + 1:k]]
                if "const" in decl and "=" in decl: continue
                raise TranslateError("%s:%d halfedge_ in conditional expression" % (fn.file, toks[j][1]))
            # argument of a call / aggregate: find the enclosing '(' or '{'
            d = 0; b = j - 1; idx = 0
            while b > lo:
                x = toks[b][0]
                if x in (")", "]", "}"): d += 1
                elif x in ("(", "[", "{"):
                    if d == 0: break
                    d -= 1
                elif x == "," and d == 0: idx += 1
                elif x == ";" and d == 0:
                    raise TranslateError("%s:%d bare halfedge_ outside a call" % (fn.file, toks[j][1]))
                b -= 1
            callee = toks[b - 1][0]
            if callee == "(" or (toks[b][0] == "{" and callee == "("):
                # Name({a, b, c})
                b2 = b - 1
                callee = toks[b2 - 1][0]
            if callee == ">":
                # template args  Name<...>{...}
                b2 = match_back(toks, b - 1, "<", ">")
                callee = toks[b2 - 1][0]
            if callee == "return":
                raise TranslateError("%s:%d halfedge_ returned" % (fn.file, toks[j][1]))
            ent = self.kernels.get(callee)
            if ent is None or idx not in ent:
                raise TranslateError("%s:%d halfedge_ passed to '%s' argument %d: not a known Halfedges parameter/field (known: %s)"
                                     % (fn.file, toks[j][1], callee, idx, ent))
            if ent[idx] == "const": continue
            if ent[idx]:
                events.append((j, "write", recv, ent[idx]))
        # direct use of start_/paired_/propVert_ outside shared.h Halfedges: only through halfedge_ (checked above)
        for j in range(lo + 1, hi):
            if toks[j][0] in ("paired_", "propVert_") and toks[j - 2][0] != "halfedge_" and fn.cls != "Halfedges":
                raise TranslateError("%s:%d direct use of %s outside class Halfedges" % (fn.file, toks[j][1], toks[j][0]))

        # ---- calls
        for j in range(lo + 1, hi):
            t = toks[j][0]
            if not is_ident(t) or toks[j + 1][0] != "(" or t in KEYW: continue
            prev = toks[j - 1][0]
            if prev in (".", "->"):
                if t in self.impl_methods:
                    events.append((j, "mcall", t, receiver_before(j)))
            elif prev == "::":
                if toks[j - 2][0] == "Impl" and t in self.impl_methods:
                    events.append((j, "mcall", t, ["<static>"]))
            else:
                if is_method and t in self.impl_methods and t != fn.cls.split("::")[-1]:
                    events.append((j, "mcall", t, []))
                else:
                    events.append((j, "fcall", t))
        events.sort(key=lambda e: e[0])
        return dict(fn=fn, objs=objs, names=names, ext=ext, events=events, blocks=sorted(blocks),
                    nparams_decl=nparams_decl, resolve=resolve, toks=toks)


def build(repo):
    sem = vec_semantics(repo)
    tr = Tr(repo)
    A = [tr.analyse(fn) for fn in tr.funcs]
    # free functions with Impl params (by name)
    free_by_name = {}
    for a in A:
        fn = a["fn"]
        if fn.cls != "Manifold::Impl" and a["nparams_decl"] > 0:
            free_by_name.setdefault(fn.name, []).append(a)
    meth_by_name = {}
    for a in A:
        if a["fn"].cls == "Manifold::Impl":
            meth_by_name.setdefault(a["fn"].name, []).append(a)

    # ---- relevance: functions with storage events, closed under callers
    def own_relevant(a):
        return any(e[1] in ("mu", "write", "share", "fresh", "moveout", "switch_") for e in a["events"])
    rel = set(id(a) for a in A if own_relevant(a))
    def callees(a, e):
        if e[1] == "mcall": return meth_by_name.get(e[2], [])
        if e[1] == "fcall": return free_by_name.get(e[2], [])
        return []
    changed = True
    while changed:
        changed = False
        for a in A:
            if id(a) in rel: continue
            for e in a["events"]:
                if any(id(c) in rel for c in callees(a, e)):
                    rel.add(id(a)); changed = True; break
    R = [a for a in A if id(a) in rel]
    for a in R:
        if any(e[1] == "switch" for e in a["events"]):
            # switch/goto inside a function that touches storage: blocks are not a sound over-approximation of jumps into the middle of a block
            toks = a["toks"]
            lines = [toks[e[0]][1] for e in a["events"] if e[1] == "switch"]
            # tolerated only if no storage event of this function lies inside the switch statement itself
            for e in a["events"]:
                if e[1] != "switch": continue
                k = e[0]
                if toks[k][0] == "goto":
                    raise TranslateError("%s:%d goto in a function that touches halfedge storage" % (a["fn"].file, toks[k][1]))
                pe = match_fwd(toks, k + 1, "(", ")")
                be = match_fwd(toks, pe + 1, "{", "}")
                for e2 in a["events"]:
                    if pe < e2[0] < be and e2[1] in ("mu", "write", "share", "fresh", "moveout", "new", "mcall"):
                        if e2[1] == "mcall" and not any(id(c) in rel for c in callees(a, e2)): continue
                        if e2[1] == "new": continue
                        raise TranslateError("%s:%d storage event inside a switch statement" % (a["fn"].file, toks[e2[0]][1]))
    index = {id(a): i for i, a in enumerate(R)}

    # ---- emit
    out_fns = []
    for a in R:
        fn, toks, resolve = a["fn"], a["toks"], a["resolve"]
        is_method = fn.cls == "Manifold::Impl"
        # pass 1: resolve objects of storage events so that externals are known
        seq = []     # (pos, text-producing tuple)
        locals_ = []  # created objects in order
        def obj_index(r):   # after externals are final
            raise NotImplementedError
        items = []
        for e in a["events"]:
            pos, kind = e[0], e[1]
            line = toks[pos][1]
            if kind == "new":
                var, args = e[2], e[3]
                s = "".join(args)
                src = None
                if args[:1] == ["*"]:
                    src = resolve(args[1:] if args[1] != "(" else args, pos)
                    items.append((pos, "newcopy", var, src, line))
                elif len(args) >= 4 and args[:3] == ["std", "::", "move"] and "".join(args[4:-1]) in a["names"]:
                    items.append((pos, "alias", var, "".join(args[4:-1]), line))
                elif s in a["names"] and not s.startswith("ext:"):
                    items.append((pos, "newcopy", var, ("o", a["names"][s]), line))
                elif re.search(r"\.Transform\(|->Transform\(|\.Result\(", s):
                    items.append((pos, "newunknown", var, None, line))
                else:
                    if re.search(r"\bthis\b|Impl", s) and "Shape" not in s:
                        raise TranslateError("%s:%d unclassified Impl construction from '%s'" % (fn.file, line, s))
                    items.append((pos, "newfresh", var, None, line))
            elif kind in ("mu", "write", "fresh", "moveout", "copyout"):
                items.append((pos, kind, e[2], e[3] if kind == "write" else None, line))
            elif kind == "share":
                items.append((pos, "share", e[2], e[3], line))
            elif kind == "mcall":
                cs = [c for c in meth_by_name.get(e[2], []) if id(c) in rel]
                if not cs: continue
                items.append((pos, "mcall", e[2], e[3], line, cs))
            elif kind == "fcall":
                cs = [c for c in free_by_name.get(e[2], []) if id(c) in rel]
                if not cs: continue
                items.append((pos, "fcall", e[2], None, line, cs))
        a["items"] = items
    # objects: params = declared + externals (externals discovered while resolving); locals appended on creation.
    # Resolve in a second pass producing Coq text.
    def arity_ok(c, nargs):
        ps = split_top(c["fn"].params)
        ps = [p for p in ps if p != ["void"]]
        return nargs <= len(ps)      # defaults live in the declaration: only the upper bound is known

    for a in R:
        fn, toks, resolve, names = a["fn"], a["toks"], a["resolve"], a["names"]
        is_method = fn.cls == "Manifold::Impl"
        pre = []
        live = []          # stack of (var, scope_end) : frame-local objects alive at the current position
        alias = {}
        blocks = a["blocks"]
        fend = fn.body[1]
        def scope_end(pos):
            inner = [b for b in blocks if b[0] < pos < b[1]]
            return min((b[1] for b in inner), default=fend)
        def newlocal(var, pos):
            live.append((var, scope_end(pos)))
            return len(live) - 1
        if is_method and fn.is_ctor:
            live.append(("this", fend)); pre.append("ENewFresh")
        def lookup(name):
            name = alias.get(name, name)
            for k in range(len(live) - 1, -1, -1):
                if live[k][0] == name: return k
            return None
        def R_(expr, pos, create_ext=True):
            s2 = re.sub(r"^\*", "", "".join(expr))
            s2 = re.sub(r"^\(\*(\w+)\)$", r"\1", s2)
            if s2 in ("", "this"):
                k = lookup("this")
                if k is not None: return ("l", k)
            k = lookup(s2)
            if k is not None: return ("l", k)
            m = re.match(r"^(\w+)(\.get\(\))?$", s2)
            if m and lookup(m.group(1)) is not None: return ("l", lookup(m.group(1)))
            return resolve(expr, pos, create_ext)
        def argrefs(pos, kind, recv_ref, c):
            refs = []
            decl = c["objs"][:c["nparams_decl"]]
            k0 = 0
            if decl and decl[0]["name"] == "this":
                if kind != "CALL": raise TranslateError("%s:%d free call resolved to a method" % (fn.file, toks[pos][1]))
                refs.append(recv_ref); k0 = 1
            if len(decl) > k0:
                e = match_fwd(toks, pos + 1, "(", ")")
                al = split_top([x[0] for x in toks[pos + 2:e]])
                ps = split_top(c["fn"].params)
                ip = [i for i, p in enumerate(ps) if impl_type(p, c["fn"].file) and p and is_ident(p[-1]) and p[-1] != "Impl" and "=" not in p]
                for i in ip:
                    if i >= len(al):
                        raise TranslateError("%s:%d call of %s: missing Impl argument %d" % (fn.file, toks[pos][1], c["fn"].qual, i))
                    ex = al[i]
                    if ex[:3] == ["std", "::", "move"]: ex = ex[4:-1]
                    refs.append(R_(ex, pos))
            return refs
        resolved = []
        for it in a["items"]:
            pos, kind = it[0], it[1]
            while live and live[-1][1] < pos and live[-1][0] != "this":
                live.pop()
            if kind == "newfresh":
                resolved.append((pos, "ENewFresh", None)); newlocal(it[2], pos)
            elif kind == "newunknown":
                k = newlocal(it[2], pos); resolved.append((pos, "ENewFresh", None)); resolved.append((pos, "EMoveOut", ("l", k)))
            elif kind == "newcopy":
                src = it[3] if isinstance(it[3], tuple) else R_(it[3], pos)
                if isinstance(it[3], tuple) and it[3][0] == "o":
                    nm = a["objs"][it[3][1]]["name"]
                    src = R_([nm], pos)
                k_new = newlocal(it[2], pos)
                resolved.append((pos, "ENewCopy", src, ("l", k_new)))
            elif kind == "alias":
                if it[2]: alias[it[2]] = alias.get(it[3], it[3])
            elif kind == "mu":
                resolved.append((pos, "EMakeUnique", R_(it[2], pos)))
            elif kind == "write":
                o = R_(it[2], pos)
                for k in it[3]:
                    resolved.append((pos, "EWrite", o, k))
            elif kind == "fresh":
                resolved.append((pos, "EAssignFresh", R_(it[2], pos)))
            elif kind == "moveout":
                resolved.append((pos, "EMoveOut", R_(it[2], pos)))
            elif kind == "copyout":
                pass
            elif kind == "share":
                resolved.append((pos, "EAssignShare", R_(it[2], pos), R_(it[3], pos)))
            elif kind in ("mcall", "fcall"):
                name, recv, cs = it[2], it[3], it[5]
                if recv == ["<static>"]: continue
                e = match_fwd(toks, pos + 1, "(", ")")
                nargs = len(split_top([x[0] for x in toks[pos + 2:e]]))
                cs2 = [c for c in cs if arity_ok(c, nargs)]
                if not cs2:
                    raise TranslateError("%s:%d call of %s: no overload with %d arguments" % (fn.file, toks[pos][1], name, nargs))
                if len(cs2) > 1:
                    def clean(c):
                        ps = split_top(c["fn"].params)
                        al = split_top([x[0] for x in toks[pos + 2:e]])
                        for i_, p_ in enumerate(ps):
                            if impl_type(p_, c["fn"].file) and p_ and is_ident(p_[-1]) and p_[-1] != "Impl" and "=" not in p_:
                                if i_ >= len(al): return False
                                ex = al[i_]
                                if ex[:3] == ["std", "::", "move"]: ex = ex[4:-1]
                                if R_(ex, pos, create_ext=False) is None and not re.search(r"[iI]mpl", "".join(ex)): return False
                        for i_, ex in enumerate(al):
                            t_ = "".join(ex)
                            looks = R_(ex, pos, create_ext=False) is not None or t_ in ("*this",) or re.match(r"^\*?\(?\*?\w*[iI]mpl\w*\)?$", t_)
                            if looks and (i_ >= len(ps) or not impl_type(ps[i_], c["fn"].file)): return False
                        return True
                    cs3 = [c for c in cs2 if clean(c)]
                    if cs3: cs2 = cs3
                    exact = [c for c in cs2 if len([p for p in split_top(c["fn"].params) if p != ["void"]]) == nargs]
                    if exact: cs2 = exact
                rr = None
                if kind == "mcall":
                    rr = R_(recv, pos, create_ext=False)
                    if rr is None:
                        # receiver is not an Impl object of this function (a member, GetImpl(), or a same-named method
                        # of another class): const callees are checked on their own as entries and cannot touch our objects
                        cs2 = [c for c in cs2 if c["objs"] and c["objs"][0]["kind"] == "this"]
                        if not cs2: continue
                        rr = R_(recv, pos)
                resolved.append((pos, "CALL" if kind == "mcall" else "FCALL", name, rr, cs2,
                                 [argrefs(pos, "CALL" if kind == "mcall" else "FCALL", rr, c) for c in cs2]))
        a["resolved"], a["pre"] = resolved, pre
    for a in R:
        a["nparams"] = a["nparams_decl"] + len(a["ext"])
    def obj_num(a, r):
        if r[0] == "o": return r[1]
        if r[0] == "e": return a["nparams_decl"] + r[1]
        if r[0] == "l": return a["nparams"] + r[1]
        raise TranslateError("bad object ref %r" % (r,))
    # callee externals get fresh externals of the caller (one per call site); iterate to a fixpoint
    for rnd in range(8):
        grew = False
        for a in R:
            for r in a["resolved"]:
                if r[1] not in ("CALL", "FCALL"): continue
                for c in r[4]:
                    need = len(c["ext"])
                    key = ("callext", r[0], id(c))
                    have = a.setdefault("callext", {}).get(key)
                    if have is None or len(have) < need:
                        have = have or []
                        while len(have) < need:
                            a["ext"].append("<external of %s at line %d>" % (c["fn"].qual, a["toks"][r[0]][1]))
                            have.append(len(a["ext"]) - 1); grew = True
                        a["callext"][key] = have
        for a in R:
            a["nparams"] = a["nparams_decl"] + len(a["ext"])
        if not grew: break
    else:
        raise TranslateError("external-object propagation did not stabilise (recursion through functions with external Impl objects)")

    def call_args(a, r, ci):
        c = r[4][ci]
        args = [obj_num(a, x) for x in r[5][ci]]
        for xi in a.get("callext", {}).get(("callext", r[0], id(c)), []):
            args.append(a["nparams_decl"] + xi)
        return args

    def render(a):
        toks = a["toks"]
        evs = []
        for r in a["resolved"]:
            pos = r[0]
            if r[1] == "ENewFresh": evs.append((pos, "ENewFresh"))
            elif r[1] == "ENewCopy":
                # Impl copy construction = SharedVec copy constructor on each buffer (semantics read from vec.h)
                evs.append((pos, "ENewCopy %d" % obj_num(a, r[2])))
                if sem["copy_ctor_shares"]:
                    evs.append((pos, "EAssignShare %d %d" % (obj_num(a, r[3]), obj_num(a, r[2]))))
            elif r[1] in ("EMakeUnique", "EAssignFresh", "EMoveOut"):
                evs.append((pos, "%s %d" % (r[1], obj_num(a, r[2]))))
            elif r[1] == "EWrite": evs.append((pos, "EWrite %d %d" % (obj_num(a, r[2]), r[3])))
            elif r[1] == "EAssignShare":
                if sem["copy_assign_shares"]:
                    evs.append((pos, "EAssignShare %d %d" % (obj_num(a, r[2]), obj_num(a, r[3]))))
                else:
                    evs.append((pos, "EAssignFresh %d" % obj_num(a, r[2])))     # deep-copying assignment: own buffers
            elif r[1] in ("CALL", "FCALL"):
                cs = r[4]
                calls = ["ECall %d [%s]" % (index[id(c)], "; ".join(map(str, call_args(a, r, ci)))) for ci, c in enumerate(cs)]
                if len(calls) == 1: evs.append((pos, calls[0]))
                else:
                    for c in calls: evs.append((pos, "EBlock [%s]" % c))     # overload set: any of them
        # nest into blocks
        def nest(lo, hi, evs, blocks):
            out = []; i = 0
            bl = [b for b in blocks if lo < b[0] and b[1] <= hi]
            # top-level blocks only
            top = []
            for b in bl:
                if not any(o[0] < b[0] and b[1] <= o[1] and o != b for o in bl): top.append(b)
            cur = [e for e in evs if lo < e[0] <= hi]
            for e in cur:
                inb = next((b for b in top if b[0] < e[0] < b[1]), None)
                if inb is None:
                    out.append((e[0], e[1]))
            for b in top:
                inner = nest(b[0], b[1], [e for e in cur if b[0] < e[0] < b[1]], [x for x in bl if x != b])
                if inner:
                    out.append((b[0], "EBlock [%s]" % "; ".join(inner)))
            out.sort(key=lambda x: x[0])
            return [x[1] for x in out]
        lo, hi = a["fn"].body
        body = a["pre"] + nest(lo, hi, evs, a["blocks"])
        return body

    lines = []
    meta = []
    for i, a in enumerate(R):
        fn = a["fn"]
        kinds = [o["kind"] for o in a["objs"][:a["nparams_decl"]]]
        entry = not any(k in ("this", "param") for k in kinds)
        body = render(a)
        a["nparams"] = a["nparams_decl"] + len(a["ext"])
        objs_desc = [o["name"] + ":" + o["kind"] for o in a["objs"][:a["nparams_decl"]]] + ["ext:" + x for x in a["ext"]]
        lines.append("  (* %d %s  %s:%d  objects: %s *)\n  mkFn %d %s [%s]" % (
            i, fn.qual, os.path.basename(fn.file), fn.line, ", ".join(objs_desc).replace("(*", "( *").replace("*)", "* )"),
            a["nparams"], "true" if entry else "false", "; ".join(body)))
        meta.append({"index": i, "name": fn.qual, "file": os.path.basename(fn.file), "line": fn.line, "entry": entry,
                     "nparams": a["nparams"], "objects": objs_desc, "body": body,
                     "n_mu": sum(1 for r in a["resolved"] if r[1] == "EMakeUnique"),
                     "n_write": sum(1 for r in a["resolved"] if r[1] == "EWrite"),
                     "n_calls": sum(1 for r in a["resolved"] if r[1] in ("CALL", "FCALL"))})
    spec = os.path.join(os.path.dirname(os.path.dirname(os.path.abspath(__file__))), "corpus", "C05", "self_protecting.txt")
    wanted = [l.strip() for l in open(spec) if l.strip() and not l.startswith("#")] if os.path.exists(spec) else []
    own_mu = []
    for i, a in enumerate(R):
        if a["fn"].cls == "Manifold::Impl" and not a["fn"].is_ctor and a["objs"] and a["objs"][0]["kind"] == "this":
            if any(b.startswith("EMakeUnique 0") for b in meta[i]["body"]):
                own_mu.append(a["fn"].name)
    missing = []
    for name in sorted(set(wanted) | set(own_mu)):
        idxs = [i for i, a in enumerate(R) if a["fn"].cls == "Manifold::Impl" and a["fn"].name == name and a["objs"] and a["objs"][0]["kind"] == "this"]
        if not idxs:
            missing.append(name); continue
        for i in idxs:
            if meta[i]["nparams"] != 1: continue
            if sem["copy_assign_shares"]:
                body = ["ENewFresh", "EAssignShare 1 0", "ECall %d [1]" % i]
            elif sem["copy_ctor_shares"]:
                body = ["ENewCopy 0", "EAssignShare 1 0", "ECall %d [1]" % i]
            else:
                body = ["ENewCopy 0", "ECall %d [1]" % i]
            lines.append("  (* %d <Impl b; b = a (assignment shares the buffers); b.%s()> *)\n  mkFn 1 true [%s]" % (len(meta), R[i]["fn"].qual, "; ".join(body)))
            meta.append({"index": len(meta), "name": "<copy-then-call %s>" % R[i]["fn"].qual, "file": meta[i]["file"], "line": meta[i]["line"],
                         "entry": True, "nparams": 1, "objects": ["ext:any published Impl"], "body": body, "n_mu": 0, "n_write": 0, "n_calls": 1,
                         "synthetic": name})
    if missing:
        raise TranslateError("self-protecting Impl methods named in corpus/C05/self_protecting.txt are gone or no longer touch halfedge storage: %s" % ", ".join(missing))
    v = ("(* GENERATED by translate/c05_cow.py from %s -- do not edit *)\n"
         "From Coq Require Import List.\nFrom MV Require Import Proto.CowDefs.\nImport ListNotations.\n\n"
         "(* SharedVec semantics read from src/vec.h: %s *)\n"
         "Definition vec_copy_ctor_shares : bool := %s.\nDefinition vec_copy_assign_shares : bool := %s.\n\n"
         "Definition table : list fn := [\n%s\n].\n" % (repo, json.dumps(sem, sort_keys=True),
                                                      "true" if sem["copy_ctor_shares"] else "false",
                                                      "true" if sem["copy_assign_shares"] else "false", ";\n".join(lines)))
    for m_ in meta:
        m_["vec_semantics"] = sem
    return v, meta, tr.kernels


def main():
    repo = sys.argv[1] if len(sys.argv) > 1 else "/repo"
    out = sys.argv[2] if len(sys.argv) > 2 else None
    v, meta, kernels = build(repo)
    if out:
        with open(out, "w") as f: f.write(v)
    else:
        print(v)
    print(json.dumps({"functions": len(meta), "entries": sum(m["entry"] for m in meta),
                      "mu_sites": sum(m["n_mu"] for m in meta), "write_events": sum(m["n_write"] for m in meta),
                      "call_edges": sum(m["n_calls"] for m in meta)}), file=sys.stderr)


if __name__ == "__main__":
    main()


# ---------------------------------------------------------------- diagnostics
# A Python mirror of the Gallina checker (CowDefs.check), used ONLY to explain
# a failure of the Coq obligation (which function / which event / call stack).
def parse_body(evs):
    """evs: list of event strings as rendered (EBlock [...] nested) -> tree"""
    def parse(s):
        s = s.strip()
        if s.startswith("EBlock ["):
            inner = s[len("EBlock ["):-1]
            return ("EBlock", [parse(x) for x in split_events(inner)])
        if s.startswith("ECall"):
            m = re.match(r"ECall (\d+) \[(.*)\]", s)
            return ("ECall", int(m.group(1)), [int(x) for x in m.group(2).split(";") if x.strip()])
        p = s.split()
        return tuple([p[0]] + [int(x) for x in p[1:]])
    def split_events(s):
        out, cur, d = [], "", 0
        for ch in s:
            if ch == "[": d += 1
            elif ch == "]": d -= 1
            if ch == ";" and d == 0:
                out.append(cur); cur = ""
            else:
                cur += ch
        if cur.strip(): out.append(cur)
        return out
    return [parse(e) for e in evs]


def diagnose(meta):
    trees = [parse_body(m["body"]) for m in meta]
    fails = []
    B = "B"
    def meet(a, b):
        return [x if (x == B or y == B) else tuple(p and q for p, q in zip(x, y)) for x, y in zip(a, b)] + a[len(b):]
    def le(a, b):
        if len(a) > len(b): return False
        return all((x == B and y == B) or (x != B and y != B and all((not p) or q for p, q in zip(x, y))) for x, y in zip(a, b))
    def check(fi, es, af, stack):
        af = list(af)
        for e in es:
            k = e[0]
            def bad(msg):
                return None, "%s in %s [%s]" % (msg, meta[fi]["name"], " <- ".join(stack))
            if k == "ENewFresh": af.append((True, True, True))
            elif k == "ENewCopy":
                if e[1] >= len(af): return bad("bad object")
                af.append((True, True, True))      # SharedVec copy constructor deep-copies
            elif k in ("EMakeUnique", "EAssignFresh"):
                if e[1] >= len(af) or af[e[1]] == B: return bad("%s on a borrowed (published) Impl, object %d" % (k, e[1]))
                af[e[1]] = (True, True, True)
            elif k == "EWrite":
                if e[1] >= len(af) or af[e[1]] == B: return bad("write to a borrowed (published) Impl, object %d buffer %d" % (e[1], e[2]))
                if not af[e[1]][e[2]]: return bad("write to buffer %d of object %d not dominated by MakeUnique since it was last shared" % (e[2], e[1]))
            elif k == "EMoveOut":
                if e[1] >= len(af) or af[e[1]] == B: return bad("move-out of a borrowed Impl")
                af[e[1]] = (False, False, False)
            elif k == "EAssignShare":
                if af[e[1]] == B or e[1] == e[2]: return bad("share-assign onto borrowed/self")
                if af[e[2]] != B: af[e[2]] = (False, False, False)
                af[e[1]] = (False, False, False)
            elif k == "ECall":
                g, args = e[1], e[2]
                if len(args) != meta[g]["nparams"] or len(set(args)) != len(args):
                    return bad("call of %s with %d args (expects %d) or aliased args" % (meta[g]["name"], len(args), meta[g]["nparams"]))
                vals = [af[x] for x in args]
                r, msg = check(g, trees[g], vals, stack + [meta[fi]["name"]])
                if r is None: return None, msg
                for p, o in enumerate(args): af[o] = r[p]
            elif k == "EBlock":
                r, msg = check(fi, e[1], af, stack)
                if r is None: return None, msg
                if not le(af, r):
                    m = meet(af, r)
                    r2, msg = check(fi, e[1], m, stack)
                    if r2 is None: return None, msg
                    if not (le(m, r2) and le(m, af)): return bad("no loop invariant for a block")
                    af = m
        return af, None
    for i, m in enumerate(meta):
        if not m["entry"]: continue
        r, msg = check(i, trees[i], [B] * m["nparams"], [])
        if r is None:
            fails.append({"entry": m["name"], "file": m["file"], "line": m["line"], "why": msg})
    return fails


# ---------------------------------------------------------------- CSG node teardown guard
def teardown_guard(repo):
    """CsgOpNode::Transform makes a node that SHARES the children vector (node->impl_ = impl_), so the iterative
    destructor may empty a child's vector only if it is the last holder of the child node AND of that vector.
    Returns (ok, description)."""
    s = "".join(t[0] for t in lex(os.path.join(repo, "src/csg_tree.cpp")))
    def body_of(sig):
        i = s.find(sig)
        if i < 0: return None
        j = s.index("{", i); d = 0
        for k in range(j, len(s)):
            if s[k] == "{": d += 1
            elif s[k] == "}":
                d -= 1
                if d == 0: return s[j:k + 1]
        return None
    tr = body_of("CsgOpNode::Transform(constmat3x4&m)const")
    de = body_of("CsgOpNode::~CsgOpNode()")
    if tr is None or de is None:
        return False, "cannot find CsgOpNode::Transform / ~CsgOpNode in csg_tree.cpp"
    shares = "node->impl_=impl_;" in tr
    if not de.startswith("{if(impl_.UseCount()==1){"):
        return False, "~CsgOpNode no longer starts with `if (impl_.UseCount() == 1)`: it would empty a children vector that a transformed node still shares"
    n = 0
    for m in re.finditer(r"handleChildren\(\*childImpl\)", de):
        n += 1
        i = de.rfind("if(", 0, m.start())
        cond = de[i:de.index("{", i)] if i >= 0 else ""
        if "child.use_count()==1" not in cond:
            return False, "~CsgOpNode empties a child's children vector without checking child.use_count() == 1"
        if shares and "child->impl_.UseCount()==1" not in cond:
            return False, ("~CsgOpNode empties a child's children vector when child.use_count() == 1 without checking "
                           "child->impl_.UseCount() == 1, but CsgOpNode::Transform shares that vector between nodes (node->impl_ = impl_): "
                           "a transformed variant held by a live Manifold loses its children")
    if n == 0 and "childImpl" in de:
        return False, "~CsgOpNode: teardown of children not understood"
    return True, "guard present (children vector shared by Transform: %s)" % shares
