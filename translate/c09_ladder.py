"""C09 translator: src/impl.h `Manifold::Impl::Impl(const MeshGLP<Precision, I>&, ctx)`
-> coq/Gen/Ladder.v : the ordered list of validation rungs and access-bearing
statements of the constructor (type `list item` of MV.Codec.IngestDefs).

Token-level: the constructor body is split into its top-level statements; each
statement's normalised token string must be one of
  * a rung  `if (COND) { MakeEmpty(Error::X); return; }` with COND in RUNGS,
  * an access-bearing statement whose exact text is in STAGES (two in-loop
    comparison operators are parameters),
  * a statement in NEUTRAL (declarations, resizes with the sizes the model
    assumes, the later pipeline calls).
Anything else raises TranslateError: the model no longer describes the code."""
import os, re, sys


class TranslateError(Exception):
    pass


TOK = re.compile(r"[A-Za-z_][A-Za-z_0-9]*|\d+(?:\.\d+)?(?:_uz)?|::|->|\+\+|--|<<|>>|<=|>=|==|!=|&&|\|\||[-+*/%<>=!&|^~?:;,.(){}\[\]]")


def strip_comments(s):
    s = re.sub(r"/\*.*?\*/", " ", s, flags=re.S)
    return re.sub(r"//[^\n]*", " ", s)


def norm(s):
    return " ".join(TOK.findall(s))


def ctor_body(src):
    m = re.search(r"Manifold::Impl::Impl\(const MeshGLP<Precision, I>& meshGL,\s*ExecutionContext::Impl\* ctx\)\s*\{", src)
    if not m:
        raise TranslateError("constructor Impl(const MeshGLP<Precision, I>&, ctx) not found in impl.h")
    i = m.end()
    depth, j = 1, i
    while depth:
        c = src[j]
        depth += (c == "{") - (c == "}")
        j += 1
    return src[i:j - 1]


def statements(body):
    """Top-level statements of a brace-balanced body (if/else chains kept whole)."""
    toks = TOK.findall(body)
    out, cur, par, brace = [], [], 0, 0
    k = 0
    while k < len(toks):
        t = toks[k]
        cur.append(t)
        if t == "(":
            par += 1
        elif t == ")":
            par -= 1
        elif t == "{":
            brace += 1
        elif t == "}":
            brace -= 1
            if brace == 0 and par == 0:
                # a block statement ends here unless an `else` follows, or it is an initialiser `= {..};`
                nxt = toks[k + 1] if k + 1 < len(toks) else ""
                if nxt == "else":
                    pass
                elif nxt == ";" or nxt == "," or nxt == ")":
                    pass
                elif cur[0] in ("if", "for", "while", "else"):
                    out.append(" ".join(cur)); cur = []
        elif t == ";" and par == 0 and brace == 0:
            # `if (c) stmt;` without braces, possibly followed by else
            nxt = toks[k + 1] if k + 1 < len(toks) else ""
            if nxt != "else":
                out.append(" ".join(cur)); cur = []
        k += 1
    if cur:
        raise TranslateError("unterminated statement at end of constructor: " + " ".join(cur)[:120])
    return out


def N(s):
    return norm(s)


RUNGS = {
    N("numVert == 0 && numTri == 0"): "REmptyBoth",
    N("numVert < 4 || numTri < 4"): "RTooSmall",
    N("meshGL.numProp < 3"): "RNumPropLt3",
    N("meshGL.mergeFromVert.size() != meshGL.mergeToVert.size()"): "RMergeLenNe",
    N("!meshGL.runTransform.empty() && 12 * meshGL.runOriginalID.size() != meshGL.runTransform.size()"): "RTransformLen",
    N("!meshGL.runOriginalID.empty() && !meshGL.runIndex.empty() && meshGL.runOriginalID.size() + 1 != meshGL.runIndex.size() && "
      "meshGL.runOriginalID.size() != meshGL.runIndex.size()"): "RRunIndexLen",
    N("!meshGL.faceID.empty() && meshGL.faceID.size() != meshGL.NumTri()"): "RFaceIDLen",
    N("!manifold::all_of(meshGL.vertProperties.begin(), meshGL.vertProperties.end(), [](Precision x) { return std::isfinite(x); })"): "RVertFinite",
    N("!manifold::all_of(meshGL.runTransform.begin(), meshGL.runTransform.end(), [](Precision x) { return std::isfinite(x); })"): "RTransformFinite",
    N("!manifold::all_of(meshGL.halfedgeTangent.begin(), meshGL.halfedgeTangent.end(), [](Precision x) { return std::isfinite(x); })"): "RTangentFinite",
    N("!meshGL.halfedgeTangent.empty() && meshGL.halfedgeTangent.size() != 4 * meshGL.triVerts.size()"): "RTangentLen",
    N("runIndex.size() != std::max(1_uz, meshGL.runOriginalID.size()) + 1 || runIndex.front() != 0 || runIndex.back() != runEnd || "
      "!std::is_sorted(runIndex.begin(), runIndex.end())"): "RRunIndexShape",
    N("runIndex.size() != std::max(1_uz, meshGL.runOriginalID.size()) + 1 || runIndex.front() != 0 || runIndex.back() != runEnd || "
      "std::adjacent_find(runIndex.begin(), runIndex.end(), std::greater_equal<I>()) != runIndex.end()"): "RRunIndexShapeStrict",
}

ERRORS = ["NoError", "NonFiniteVertex", "NotManifold", "VertexOutOfBounds", "PropertiesWrongLength",
          "MissingPositionProperties", "MergeVectorsDifferentLengths", "MergeIndexOutOfBounds",
          "TransformWrongLength", "RunIndexWrongLength", "FaceIDWrongLength", "InvalidConstruction",
          "ResultTooLarge", "InvalidTangents", "Cancelled"]

CMP = {">=": "CGe", ">": "CGt"}


def rx(s):
    """normalised statement text -> regex; @CMP@ marks a comparison parameter, @ERR@ an error name."""
    r = re.escape(N(s.replace("@CMP@", " CMPPLACEHOLDER ").replace("@ERR@", " ERRPLACEHOLDER ").replace("@BS@", " BSPLACEHOLDER ")))
    r = r.replace("CMPPLACEHOLDER", r"(>=|>)").replace("ERRPLACEHOLDER", r"([A-Za-z]+)").replace("BSPLACEHOLDER", r"(false|backside)")
    return re.compile("^" + r + "$")


STAGES = [
    ("ICancelGate", rx("if (IsCancelled(ctx)) { MakeEmpty(Error::@ERR@); return; }")),
    ("IComputeCounts", rx("const uint32_t numVert = meshGL.NumVert();")),
    ("IMergeLoop", rx("""if (!meshGL.mergeFromVert.empty()) { prop2vert.resize(numVert);
        std::iota(prop2vert.begin(), prop2vert.end(), 0);
        for (size_t i = 0; i < meshGL.mergeFromVert.size(); ++i) {
          const uint32_t from = meshGL.mergeFromVert[i]; const uint32_t to = meshGL.mergeToVert[i];
          if (from @CMP@ numVert || to @CMP@ numVert) { MakeEmpty(Error::@ERR@); return; }
          prop2vert[from] = to; } }""")),
    ("ICopyVerts", rx("""for (size_t i = 0; i < meshGL.NumVert(); ++i) {
        for (const int j : {0, 1, 2}) vertPos_[i][j] = meshGL.vertProperties[meshGL.numProp * i + j];
        for (size_t j = 0; j < numProp; ++j)
          properties_[i * numProp + j] = meshGL.vertProperties[meshGL.numProp * i + 3 + j]; }""")),
    ("ICopyTangents", rx("""for (size_t i = 0; i < halfedgeTangent_.size(); ++i) {
        for (const int j : {0, 1, 2, 3}) halfedgeTangent_[i][j] = meshGL.halfedgeTangent[4 * i + j]; }""")),
    ("INormaliseRuns", rx("""if (runIndex.empty()) { runIndex = {0, static_cast<I>(runEnd)}; }
        else if (runIndex.size() == meshGL.runOriginalID.size()) { runIndex.push_back(runEnd); }
        else if (runIndex.size() == 1) { runIndex.push_back(runEnd); }""")),
    ("IRunLoop", rx("""for (size_t i = 0; i < runOriginalID.size(); ++i) {
        const int meshID = startID + i; const int originalID = runOriginalID[i];
        const bool backside = meshGL.Backside(i);
        const bool runHasN = meshGL.HasNormals(i) && numProp >= 3;
        for (size_t tri = runIndex[i] / 3; tri < runIndex[i + 1] / 3; ++tri) {
          TriRef& ref = triRef[tri]; ref.meshID = meshID; ref.originalID = originalID;
          ref.faceID = meshGL.faceID.empty() ? -1 : meshGL.faceID[tri]; ref.coplanarID = tri; }
        if (meshGL.runTransform.empty()) {
          meshRelation_.meshIDtransform[meshID] = {originalID, la::identity, @BS@, runHasN};
        } else {
          const Precision* m = meshGL.runTransform.data() + 12 * i;
          meshRelation_.meshIDtransform[meshID] = {originalID,
            {{m[0], m[1], m[2]}, {m[3], m[4], m[5]}, {m[6], m[7], m[8]}, {m[9], m[10], m[11]}},
            backside, runHasN}; } }""")),
    ("ITriLoop", rx("""for (size_t i = 0; i < numTri; ++i) { ivec3 triP, triV;
        for (const size_t j : {0, 1, 2}) {
          uint32_t vert = (uint32_t)meshGL.triVerts[3 * i + j];
          if (vert @CMP@ numVert) { MakeEmpty(Error::@ERR@); return; }
          triP[j] = vert; triV[j] = prop2vert.empty() ? vert : prop2vert[vert]; }
        if (triV[0] != triV[1] && triV[1] != triV[2] && triV[2] != triV[0]) {
          if (needsPropMap) { triProp.push_back(triP); triVert.push_back(triV); }
          else { triProp.push_back(triV); }
          if (triRef.size() > 0) { meshRelation_.triRef.push_back(triRef[i]); } } }""")),
    ("ICreateHalfedges", rx("CreateHalfedges(triProp, triVert);")),
    ("IPost", rx("SortGeometry(ctx);")),
]

NEUTRAL = [N(x) for x in [
    "const uint32_t numTri = meshGL.NumTri();",
    "std::vector<int> prop2vert;",
    "const auto numProp = meshGL.numProp - 3;",
    "numProp_ = numProp;",
    "properties_.resize_nofill(meshGL.NumVert() * numProp);",
    "tolerance_ = meshGL.tolerance;",
    "vertPos_.resize_nofill(meshGL.NumVert());",
    "halfedgeTangent_.resize_nofill(meshGL.halfedgeTangent.size() / 4);",
    "Vec<TriRef> triRef;",
    "triRef.resize_nofill(meshGL.NumTri());",
    "auto runIndex = meshGL.runIndex;",
    "const auto runEnd = meshGL.triVerts.size();",
    "const auto startID = Impl::ReserveIDs(std::max(1_uz, meshGL.runOriginalID.size()));",
    "auto runOriginalID = meshGL.runOriginalID;",
    "if (runOriginalID.empty()) { runOriginalID.push_back(startID); }",
    "Vec<ivec3> triProp;",
    "triProp.reserve(numTri);",
    "Vec<ivec3> triVert;",
    "const bool needsPropMap = numProp > 0 && !prop2vert.empty();",
    "if (needsPropMap) triVert.reserve(numTri);",
    "if (triRef.size() > 0) meshRelation_.triRef.reserve(numTri);",
    "ADVANCE_PHASE_OR_RETURN(ctx);",
    "CalculateBBox();",
    "SetEpsilon(-1, std::is_same<Precision, float>::value);",
    "CleanupTopology();",
    "DedupePropVerts();",
    "SetNormalsAndCoplanar();",
    "RemoveUnreferencedVerts();",
    "if (!IsFinite()) { MakeEmpty(Error::NonFiniteVertex); return; }",
    "meshRelation_.originalID = -1;",
]]

RUNG_RE = re.compile(r"^if \( (.*) \) \{ MakeEmpty \( Error :: ([A-Za-z]+) \) ; return ; \}$")


def dedupe_keeps_tangents(repo):
    """Does DedupeEdge (src/edge_op.cpp), which appends two faces to halfedge_, keep
    halfedgeTangent_ as long as halfedge_?  Recognised form: after the last face is
    pushed, `if (halfedgeTangent_.size() > 0) halfedgeTangent_.resize(halfedge_.size(), vec4(0.0));`"""
    src = norm(strip_comments(open(os.path.join(repo, "src/edge_op.cpp")).read()))
    m = re.search(r"void Manifold :: Impl :: DedupeEdge \( const int edge \) \{(.*?)\n?void Manifold :: Impl ::", src + " void Manifold :: Impl ::", flags=re.S)
    if not m:
        raise TranslateError("DedupeEdge not found in edge_op.cpp")
    body = m.group(1)
    pushes = [x.start() for x in re.finditer(r"halfedge_ \. push_back \(", body)]
    if not pushes:
        return True        # no faces are added any more
    keep = re.search(r"if \( halfedgeTangent_ \. size \( \) > 0 \) halfedgeTangent_ \. resize \( halfedge_ \. size \( \) , vec4 \( 0\.0 \) \) ;", body)
    return bool(keep and keep.start() > pushes[-1])


FLAGS = {}


def translate(repo):
    src = strip_comments(open(os.path.join(repo, "src/impl.h")).read())
    stmts = statements(ctor_body(src))
    items, notes = [], []
    k = 0
    while k < len(stmts):
        s = stmts[k]
        k += 1
        if s in NEUTRAL:
            continue
        hit = None
        for name, r in STAGES:
            m = r.match(s)
            if m:
                hit = (name, m.groups())
                break
        if hit:
            name, g = hit
            if name in ("IMergeLoop",):
                if g[0] != g[1]:
                    raise TranslateError("merge loop compares `from` and `to` with different operators: %s / %s" % (g[0], g[1]))
                if g[2] not in ERRORS:
                    raise TranslateError("unknown error code " + g[2])
                items.append("IMergeLoop %s %s" % (CMP[g[0]], g[2]))
            elif name == "ITriLoop":
                if g[1] not in ERRORS:
                    raise TranslateError("unknown error code " + g[1])
                items.append("ITriLoop %s %s" % (CMP[g[0]], g[1]))
            elif name == "ICancelGate":
                if g[0] not in ERRORS:
                    raise TranslateError("unknown error code " + g[0])
                items.append("ICancelGate %s" % g[0])
            elif name == "IPost":
                items.append("IPost %s" % ("true" if dedupe_keeps_tangents(repo) else "false"))
            elif name == "IRunLoop":
                FLAGS["import_honours_backside_without_transform"] = (g[0] == "backside")
                items.append(name)
            elif name == "ICreateHalfedges":
                # must be followed by the IsManifold rung
                nxt = stmts[k] if k < len(stmts) else ""
                m2 = RUNG_RE.match(nxt)
                if not m2 or m2.group(1) != N("!IsManifold()"):
                    raise TranslateError("CreateHalfedges is not followed by the `if (!IsManifold())` rung: " + nxt[:120])
                k += 1
                items.append("ICreateHalfedges %s" % m2.group(2))
            else:
                items.append(name)
            continue
        m = RUNG_RE.match(s)
        if m:
            cond, err = m.group(1), m.group(2)
            if cond not in RUNGS:
                raise TranslateError("unrecognised validation rung condition: `%s` -> %s" % (cond, err))
            if err not in ERRORS:
                raise TranslateError("unknown error code " + err)
            items.append("IRung %s %s" % (RUNGS[cond], err))
            continue
        raise TranslateError("unrecognised statement in Impl(MeshGLP) constructor: `%s`" % s[:300])
    for need in ("ICancelGate", "IComputeCounts", "IMergeLoop", "ICopyVerts", "ICopyTangents", "INormaliseRuns", "IRunLoop", "ITriLoop", "ICreateHalfedges", "IPost"):
        if sum(1 for it in items if it.split()[0] == need) != 1:
            raise TranslateError("statement kind %s occurs %d times (expected once)" % (need, sum(1 for it in items if it.split()[0] == need)))
    return items


def emit(items, path):
    txt = ("(* GENERATED by translate/c09_ladder.py from src/impl.h - do not edit *)\n"
           "From Coq Require Import List.\nFrom MV Require Import Codec.IngestDefs.\nImport ListNotations.\n\n"
           "Definition table : list item :=\n  [ " + ";\n    ".join(items) + " ].\n\n"
           "(* the run loop records the back-side bit of runFlags also when runTransform is absent *)\n"
           "Definition import_honours_backside_without_transform : bool := %s.\n"
           % ("true" if FLAGS.get("import_honours_backside_without_transform") else "false"))
    old = open(path).read() if os.path.exists(path) else None
    if old != txt:
        os.makedirs(os.path.dirname(path), exist_ok=True)
        with open(path, "w") as f:
            f.write(txt)
    return txt


if __name__ == "__main__":
    repo = sys.argv[1] if len(sys.argv) > 1 else "/repo"
    for it in translate(repo):
        print(it)
