"""C15 translator: token-level scan of <repo>/src for the cancellation protocol.

Emits coq/Gen/CancelSites.v (data only) and returns a dict for checks/C15.py:
  * every IsCancelled / ADVANCE_PHASE_OR_RETURN / phase() site with its kind
    (LoopEntry, LoopChunk, AbortP = plain `return`, AbortF = produces a Cancelled
    object, Observe), for the configurations seq (MANIFOLD_PAR=-1) and par (=1);
  * every ctx-aware call (for_each/for_each_n with a ctx argument, hand rolled
    cancellable loops, and calls of functions that take the context) together
    with the classes of the statements that can follow it, on any path, before
    the next aborting check, and how those paths end;
  * the constants kPhasesPer* and the number of phase-credit sites per pipeline.
The path analysis (structured control flow, callee bodies scanned in line while
an output is still unchecked) lives here and is part of the trusted base; the
predicate sites_ok evaluated on the table and everything derived from it is Coq.
Fails loudly (TranslateError) on constructs it depends on and cannot parse.
"""
import os, re, sys, json

class TranslateError(Exception):
    pass

FILES = ["parallel.h", "execution_impl.h", "execution_impl.cpp", "impl.h", "collider.h", "sort.cpp", "face_op.cpp",
         "boolean3.cpp", "boolean3.h", "boolean_result.cpp", "csg_tree.cpp", "manifold.cpp", "minkowski.cpp",
         "quickhull.cpp", "smoothing.cpp", "sdf.cpp", "subdivision.cpp", "impl.cpp", "constructors.cpp",
         "edge_op.cpp", "properties.cpp"]

# Statements that may follow a ctx-aware call before the next check although they are not
# declarations: (function regex, statement regex, effect, justification).
#   effect "neutral": does not read the unchecked output.
#   effect "indep":   an `if` whose condition and whole subtree only look at data that
#                     the unchecked call cannot have written; a `return` inside it leaves with a complete object.
ALLOW = [
    (r"Boolean3::Result$", r"^if \( inP_ \. status_ != Manifold :: Error :: NoError && inQ_ \. status_ != Manifold :: Error :: NoError \)", "indep",
     "reads both operands' statuses only; returns an empty Impl carrying their order-independent combination"),
    (r"Boolean3::Result$", r"^if \( inP_ \. status_ != Manifold :: Error :: NoError \)", "indep",
     "reads the operand's status only; returns an empty Impl carrying that status"),
    (r"Boolean3::Result$", r"^if \( inQ_ \. status_ != Manifold :: Error :: NoError \)", "indep",
     "reads the operand's status only; returns an empty Impl carrying that status"),
    (r"Boolean3::Result$", r"^if \( inP_ \. IsEmpty \( \) \)", "indep",
     "operand emptiness only; returns a copy of an operand or an empty Impl, never the constructor's tables"),
    (r"^SizeOutput$", r"^if \( i12 \. size \( \) >= 1e5 \)$", "neutral",
     "reads the size of an input vector to pick a policy; both branches are ctx-aware loops again"),
    (r"^AddNewEdgeVerts$", r"^if \( p1q2 \. size \( \) > kParallelThreshold \)$", "neutral",
     "reads the size of an input vector to pick the parallel path"),
    (r"^Winding03_$", r"^componentsShared \. combine_each \(", "neutral",
     "merges thread-local sets into a local set; a skipped chunk only makes it smaller; discarded by the check that follows"),
    (r"Boolean3::Boolean3$", r"^if \( xv12_ \. x12 \. size \( \) > INT_MAX_SZ \|\| xv21_ \. x12 \. size \( \) > INT_MAX_SZ \)", "indep",
     "reads two sizes; on cancel Intersect12 returned an empty record, so the branch is not taken; the branch only sets the bool `valid` and returns"),
    (r"Boolean3::Result$", r"^outR \. IncrementMeshIDs \( \) ;$", "neutral",
     "rewrites meshRelation_ IDs through a map lookup per triRef entry; no index derived from the (possibly unsorted) geometry; result discarded by the next phase()"),
    (r"CreateLevelSet$", r"^if \( gridVerts \. Full \( \) \)", "neutral",
     "reads the hash table's atomic fill flag only; both branches start with an aborting check before any table entry is read"),
    (r"CreateLevelSet$", r"^else$", "neutral", "branch keyword"),
    (r"CreateLevelSet$", r"^while \( 1 \)$", "neutral", "loop keyword"),
    (r"Impl::Face2Tri$|Face2Tri::", r"^group \. wait \( \) ;$", "neutral", "joins the tasks; reads no output"),
    (r"AddNewEdgeVerts$", r"^return ;$", "neutral", "plain return of a callee; the caller checks"),
    (r"SimpleBoolean$", r"^if \( ctx \) ctx -> doneBooleans \. fetch_add", "neutral",
     "bumps an introspection counter; does not read the Boolean's output"),
    (r"ToLeafNode$", r"^break ;$", "neutral", "switch break"),
    (r"ToLeafNode$", r"^frame -> op_node -> cache_ = std :: static_pointer_cast < CsgLeafNode > \( \( \* impl \) \[ 0 \] -> Transform", "neutral",
     "wraps the (closed) result leaf; status is carried, no geometry is read (lazy transform)"),
    (r"Impl::Minkowski$", r"^return tree ;$", "neutral", "returns the closed tree handle"),
    (r"^MakeSmoothImpl$", r"^for \( size_t i = 0 ; i < numTri ; \+\+ i \)$", "indep",
     "numTri = impl->NumTri() is 0 for an Impl that CreateTangents emptied with MakeEmpty(Cancelled): the body does not run"),
]

# Object-level functions: they hand around status-carrying handles (Manifold, CsgLeafNode); a cancellation
# observed below them surfaces as an object with status Cancelled, which every consumer forwards (status
# propagation is property C09; checked here dynamically for every injected k).  Their own check sites are
# still tabulated; only the "unchecked raw output" analysis stops at this boundary.
STATUS_LEVEL = r"^(SimpleBoolean|BatchBoolean|BatchUnion|CsgOpNode::ToLeafNode|Manifold::GetCsgLeafNode|Manifold::Impl::Minkowski(::evalBatch)?|MakeSmoothImpl)$"

NOOP = re.compile(r"^(ZoneScoped ;|ZoneScopedN \(|PRINT \(|DEBUG_ASSERT \(|\( void \) \w+ ;|;$)")
DECL = re.compile(r"^(?:static |const |constexpr |thread_local |mutable |typename )*"
                  r"(?:struct |class |using |typedef |auto |[A-Za-z_][\w]*(?: :: [A-Za-z_]\w*)*(?: < [^;(){}]*>)?(?: :: [A-Za-z_]\w*)* )"
                  r"(?:[&*] |const )*(?:\[ [^\]]* \] |[A-Za-z_]\w* )(?:=|\(|\{|;|\[|:)")
NOT_DECL_FIRST = {"return", "delete", "throw", "goto", "else", "case", "break", "continue", "if", "for", "while", "do", "switch", "new"}
TOK = re.compile(r"[A-Za-z_]\w*|\d[\w.]*|::|->|==|!=|<=|>=|&&|\|\||\+\+|--|<<|>>|\+=|-=|\*=|/=|\S")


def strip_comments(src):
    out, i, n = [], 0, len(src)
    while i < n:
        c = src[i]
        if src.startswith("//", i):
            j = src.find("\n", i); j = n if j < 0 else j
            i = j
        elif src.startswith("/*", i):
            j = src.find("*/", i + 2); j = n - 2 if j < 0 else j
            out.append(re.sub(r"[^\n]", " ", src[i:j + 2])); i = j + 2
        elif c == '"' or c == "'":
            j = i + 1
            while j < n and src[j] != c:
                j += 2 if src[j] == "\\" else 1
            out.append(c + " " * (j - i - 1) + c); i = j + 1
        else:
            out.append(c); i += 1
    return "".join(out)


def preprocess(src, defs):
    """Blank inactive conditional blocks and all directives; keeps line numbers."""
    lines = src.split("\n")
    out, stack, i = [], [], 0   # stack of [active_parent, taken, active]
    def ev(expr):
        e = re.sub(r"defined\s*\(?\s*(\w+)\s*\)?", lambda m: "1" if m.group(1) in defs else "0", expr)
        e = re.sub(r"__has_include\s*\(\s*<([^>]*)>\s*\)", lambda m: "1" if ("tbb" in m.group(1) and defs.get("MANIFOLD_PAR") == 1) else "0", e)
        e = re.sub(r"__has_\w+\s*\([^)]*\)", "0", e)
        e = re.sub(r"[A-Za-z_]\w*", lambda m: str(defs.get(m.group(0), 0)) if m.group(0) not in ("and", "or", "not") else m.group(0), e)
        e = e.replace("&&", " and ").replace("||", " or ").replace("!", " not ").replace(" not =", "!=")
        try:
            return bool(eval(e, {"__builtins__": {}}))
        except Exception:
            raise TranslateError("cannot evaluate preprocessor condition: " + expr)
    while i < len(lines):
        l = lines[i]; s = l.strip()
        if s.startswith("#"):
            full = s
            while full.endswith("\\") and i + 1 < len(lines):
                out.append(""); i += 1; full = full[:-1] + " " + lines[i].strip()
            m = re.match(r"#\s*(\w+)\s*(.*)", full)
            d, rest = (m.group(1), m.group(2)) if m else ("", "")
            act = all(f[2] for f in stack)
            if d in ("if", "ifdef", "ifndef"):
                c = ev(rest) if d == "if" else ((rest.split()[0] in defs) == (d == "ifdef"))
                stack.append([act, c, act and c])
            elif d == "elif":
                f = stack[-1]; c = (not f[1]) and ev(rest); f[2] = f[0] and c; f[1] = f[1] or c
            elif d == "else":
                f = stack[-1]; f[2] = f[0] and not f[1]; f[1] = True
            elif d == "endif":
                stack.pop()
            out.append("")
        else:
            out.append(l if all(f[2] for f in stack) else "")
        i += 1
    return "\n".join(out)


def tokenize(src):
    toks = []
    for ln, line in enumerate(src.split("\n"), 1):
        for m in TOK.finditer(line):
            toks.append((m.group(0), ln))
    return toks


class Stmt:
    def __init__(self, kind, toks, line, **kw):
        self.kind, self.toks, self.line = kind, toks, line      # kind: simple | if | loop | block
        self.text = " ".join(t for t, _ in toks)
        self.__dict__.update(kw)


def match(toks, i, op, cl):
    d = 0
    while i < len(toks):
        if toks[i][0] == op: d += 1
        elif toks[i][0] == cl:
            d -= 1
            if d == 0: return i
        i += 1
    raise TranslateError("unbalanced %s%s" % (op, cl))


def parse_block(toks, i):
    """toks[i] == '{' ; returns (list of Stmt, index after the matching '}')."""
    end = match(toks, i, "{", "}")
    out, j = [], i + 1
    while j < end:
        s, j = parse_stmt(toks, j, end)
        if s is not None:
            out.append(s)
    return out, end + 1


def parse_stmt(toks, i, end):
    t = toks[i][0]
    if t == "{":
        body, j = parse_block(toks, i)
        return Stmt("block", [], toks[i][1], body=body), j
    if t in ("case", "default") :
        j = i
        while toks[j][0] != ":": j += 1
        return Stmt("label", toks[i:j + 1], toks[i][1]), j + 1
    if t == "if":
        j = i + 1
        if toks[j][0] == "constexpr": j += 1
        c = match(toks, j, "(", ")")
        hdr = toks[i:c + 1]
        then, j = parse_stmt(toks, c + 1, end)
        els = None
        if j < end and toks[j][0] == "else":
            els, j = parse_stmt(toks, j + 1, end)
        return Stmt("if", hdr, toks[i][1], then=then, els=els), j
    if t in ("for", "while", "switch"):
        c = match(toks, i + 1, "(", ")")
        body, j = parse_stmt(toks, c + 1, end)
        return Stmt("loop" if t != "switch" else "switch", toks[i:c + 1], toks[i][1], body=body), j
    if t == "do":
        body, j = parse_stmt(toks, i + 1, end)
        c = match(toks, j + 1, "(", ")")
        return Stmt("loop", toks[j:c + 1], toks[i][1], body=body), c + 2
    if t == "try":
        body, j = parse_stmt(toks, i + 1, end)
        while j < end and toks[j][0] == "catch":
            c = match(toks, j + 1, "(", ")")
            _, j = parse_stmt(toks, c + 1, end)
        return body, j
    # simple statement: up to ';' outside any bracket
    j, d = i, 0
    while j < end:
        x = toks[j][0]
        if x in "([{": d += 1
        elif x in ")]}": d -= 1
        elif x == ";" and d == 0: break
        j += 1
    return Stmt("simple", toks[i:j + 1], toks[i][1]), j + 1


def find_functions(toks, fname):
    """Top-level function definitions: yields (qualified name, params tokens, body '{' index)."""
    res, i, n = [], 0, len(toks)
    ctxstack = []   # kinds of open braces: 'ns' | 'class:<name>' | 'other'
    while i < n:
        t = toks[i][0]
        if t == "{":
            # classify
            j = i - 1
            kind = "other"
            # skip trailing qualifiers / ctor initialisers
            k = j
            while k >= 0 and toks[k][0] in ("const", "noexcept", "override", "final"): k -= 1
            if k >= 0 and toks[k][0] == ")":
                # find '(' ; possibly ctor-init list: walk back over ", name(...)" groups
                p = k
                while True:
                    o = p; d = 0
                    while o >= 0:
                        if toks[o][0] == ")": d += 1
                        elif toks[o][0] == "(":
                            d -= 1
                            if d == 0: break
                        o -= 1
                    q = o - 1            # token before '(' : the name (maybe template args)
                    if toks[q][0] == ">":
                        dd = 0
                        while q >= 0:
                            if toks[q][0] == ">": dd += 1
                            elif toks[q][0] == "<":
                                dd -= 1
                                if dd == 0: break
                            q -= 1
                        q -= 1
                    nm_end = q
                    while q - 2 >= 0 and toks[q - 1][0] == "::" and re.match(r"[A-Za-z_~]", toks[q - 2][0]): q -= 2
                    before = toks[q - 1][0] if q >= 1 else ""
                    if before in (",", ":") and toks[q - 1][0] != "::":
                        # ctor initialiser; step to the group before
                        r = q - 1
                        while r >= 0 and toks[r][0] != ")" : r -= 1
                        if before == ":" :
                            p = r
                            # the ')' before ':' closes the real parameter list
                            o2 = p; d = 0
                            while o2 >= 0:
                                if toks[o2][0] == ")": d += 1
                                elif toks[o2][0] == "(":
                                    d -= 1
                                    if d == 0: break
                                o2 -= 1
                            q2 = o2 - 1
                            while q2 - 2 >= 0 and toks[q2 - 1][0] == "::": q2 -= 2
                            name = "".join(x for x, _ in toks[q2:o2])
                            res.append((name, toks[o2:p + 1], i)); kind = "fn"
                            break
                        p = r
                        continue
                    name = "".join(x for x, _ in toks[q:nm_end + 1])
                    if re.match(r"[A-Za-z_~]", name or "") and name not in ("if", "for", "while", "switch", "catch") and \
                            not any(c.startswith("fn") for c in ctxstack):
                        res.append((name, toks[o:p + 1], i)); kind = "fn"
                    break
            else:
                # namespace / class / struct?
                k2 = j
                while k2 >= 0 and toks[k2][0] not in (";", "}", "{") and i - k2 < 40: k2 -= 1
                head = [x for x, _ in toks[k2 + 1:i]]
                if "namespace" in head: kind = "ns"
                elif ("struct" in head or "class" in head) and "=" not in head and "(" not in head:
                    idx = max(ix for ix, x in enumerate(head) if x in ("struct", "class"))
                    kind = "class:" + (head[idx + 1] if idx + 1 < len(head) else "?")
            if kind == "fn":
                e = match(toks, i, "{", "}")
                cls = [c[6:] for c in ctxstack if c.startswith("class:")]
                if cls and "::" not in res[-1][0]:
                    res[-1] = ("::".join(cls) + "::" + res[-1][0], res[-1][1], res[-1][2])
                i = e + 1
                continue
            ctxstack.append(kind)
        elif t == "}":
            if ctxstack: ctxstack.pop()
        i += 1
    return res


class Analysis:
    def __init__(self, repo, cfg):
        self.repo, self.cfg = repo, cfg
        defs = {"MANIFOLD_PAR": 1 if cfg == "par" else -1}
        self.fns = {}          # qualified name -> dict(file, params, body stmts, lambdas)
        self.checks = {}       # "file:line" -> kind
        self.consts = {}
        self.phase_sites = {}
        for f in FILES:
            p = os.path.join(repo, "src", f)
            if not os.path.exists(p):
                continue
            raw = open(p, errors="replace").read()
            for m in re.finditer(r"constexpr\s+int\s+(kPhasesPer\w+)\s*=\s*([^;]+);", raw):
                self.consts[m.group(1)] = m.group(2).strip()
            src = preprocess(strip_comments(raw), defs)
            toks = tokenize(src)
            for name, params, bi in find_functions(toks, f):
                ptxt = " ".join(x for x, _ in params)
                body, _ = parse_block(toks, bi)
                btxt = " ".join(x for x, _ in toks[bi:match(toks, bi, "{", "}")])
                if not re.search(r"\bctx_?\b|IsCancelled|ADVANCE_PHASE_OR_RETURN|impl_ \. get", btxt + " " + ptxt):
                    continue
                key = name
                n = 2
                while key in self.fns:
                    key = "%s#%d" % (name, n); n += 1
                self.fns[key] = dict(file=f, params=ptxt, body=body, name=name, line=toks[bi][1],
                                     aware=bool(re.search(r"ExecutionContext :: Impl \* ctx", ptxt)) or
                                     (name.startswith("Boolean3::") and " ctx_" in " " + btxt))
        for k in list(self.consts):
            v = self.consts[k]
            for _ in range(4):
                v = re.sub(r"kPhasesPer\w+", lambda m: "(" + str(self.consts.get(m.group(0), "0")) + ")", str(v))
            try:
                self.consts[k] = int(eval(v, {"__builtins__": {}}))
            except Exception:
                raise TranslateError("cannot evaluate constant %s = %s" % (k, v))
        # named lambdas that touch the context become local functions
        for key in list(self.fns):
            self._lift_lambdas(key)
        self.closed_memo = {}
        self.sites = {}        # site id -> dict(kind, fn, callee, followers:set, terms:set, texts:list)
        self.uses = []         # (site, fn, file:line, text) for statements classified as uses

    # ---- helpers
    def _lift_lambdas(self, key):
        fn = self.fns[key]
        def walk(stmts):
            for s in stmts:
                if s.kind == "simple":
                    m = re.match(r"^(?:const )?auto (\w+) = \[", s.text)
                    if m and re.search(r"\bctx_?\b|IsCancelled", s.text):
                        # body = last {...} group of the statement
                        ts = s.toks
                        # find the lambda body: first '{' after the parameter list / capture
                        b = next(i for i, (x, _) in enumerate(ts) if x == "{" and i > 3)
                        body, _ = parse_block(ts, b)
                        lname = fn["name"] + "::" + m.group(1)
                        self.fns[lname] = dict(file=fn["file"], params="", body=body, name=lname, line=s.line, aware=True, local=True)
                        s.lambda_def = m.group(1)
                elif s.kind == "if":
                    walk([x for x in (s.then, s.els) if x is not None])
                elif s.kind in ("loop", "switch"):
                    walk([s.body] if s.body is not None else [])
                elif s.kind == "block":
                    walk(s.body)
        walk(fn["body"])

    def resolve(self, callee, caller):
        """ctx-aware functions a call may reach (by last identifier)."""
        short = re.sub(r"<.*", "", callee).split("::")[-1].split(".")[-1].split("->")[-1]
        cname = self.fns[caller]["name"]
        outs = []
        for k, f in self.fns.items():
            if not f["aware"]:
                continue
            nm = f["name"]
            if f.get("local"):
                if nm == cname.split("::")[0] + "::" + short or nm == cname + "::" + short or nm.rsplit("::", 1)[0] == cname.rsplit("::", 1)[0] and nm.endswith("::" + short) and cname.count("::") >= 1 and nm.rsplit("::", 1)[0] in (cname, cname.rsplit("::", 1)[0]):
                    outs.append(k)
                continue
            if nm.split("::")[-1] == short:
                outs.append(k)
        return outs

    def ctx_calls(self, s, caller):
        """[(callee text, kind)] for the ctx-aware calls made by a simple statement (or header)."""
        ts = [x for x, _ in s.toks]
        res, stack = [], []
        fnname = self.fns[caller]["name"]
        for i, t in enumerate(ts):
            if t in "([{":
                nm = ""
                if t == "(" and i > 0:
                    j = i - 1
                    if ts[j] == ">":      # template args
                        d = 0
                        while j >= 0:
                            if ts[j] == ">": d += 1
                            elif ts[j] == "<":
                                d -= 1
                                if d == 0: break
                            j -= 1
                        j -= 1
                    if j >= 0 and re.match(r"[A-Za-z_]\w*$", ts[j]) and ts[j] not in ("if", "for", "while", "switch", "return", "sizeof", "catch"):
                        e = j
                        while j - 2 >= 0 and ts[j - 1] in ("::", ".", "->") and re.match(r"[A-Za-z_]\w*$|\)|\]", ts[j - 2]):
                            j -= 2
                        nm = "".join(ts[j:e + 1])
                        if j >= 1 and re.match(r"[A-Z]\w*$", ts[j - 1]) and ts[j - 1] in ("Boolean3",):
                            nm = ts[j - 1]          # `Boolean3 boolean(a, b, op, ctx)`
                stack.append((t, nm, i))
            elif t in ")]}":
                if stack: stack.pop()
            elif t in ("ctx", "ctx_") or (t == "impl_" and ts[i + 1:i + 5] == [".", "get", "(", ")"] and self.fns[caller]["file"] == "execution_impl.cpp"):
                if not stack or stack[-1][0] != "(" or not stack[-1][1]:
                    continue
                prev = ts[i - 1]
                k = i + 1
                if ts[k:k + 4] == [".", "get", "(", ")"]: k += 4
                nxt = ts[k] if k < len(ts) else ""
                if prev in ("(", ",") and nxt in (",", ")"):
                    res.append(stack[-1][1])
        # calls of lifted lambdas (context captured, not passed)
        for k, f in self.fns.items():
            if f.get("local") and f["name"].rsplit("::", 1)[0] in (fnname, fnname.rsplit("::", 1)[0]):
                ln = f["name"].rsplit("::", 1)[1]
                for i, t in enumerate(ts):
                    if t == ln and i + 1 < len(ts) and ts[i + 1] == "(" and not (i >= 2 and ts[i - 1] == "auto"):
                        if not getattr(s, "lambda_def", None) == ln:
                            res.append(ln)
        if "Boolean3" in ts and ". Result (" in s.text and any(r == "Boolean3" for r in res):
            res.append("Boolean3::Result")
        elif re.search(r"\bboolean \. Result \(", s.text):
            res.append("Boolean3::Result")
        out = []
        for nm in res:
            short = re.sub(r"<.*", "", nm).split("::")[-1].split(".")[-1].split("->")[-1]
            if short in ("for_each", "for_each_n"):
                out.append((nm, "loop"))
            elif short == "IsCancelled" or short == "ADVANCE_PHASE_OR_RETURN":
                continue
            elif short in ("make_shared",) or nm in ("Boolean3",):
                out.append(("Impl::Impl" if short == "make_shared" else "Boolean3::Boolean3", "call"))
            else:
                out.append((nm, "call"))
        # hand rolled cancellable loop: a lambda inside the statement checks the flag itself
        if not getattr(s, "lambda_def", None) and re.search(r"\[ [^\]]* \] (?:\( [^)]* \) )?\{ [^}]*IsCancelled", s.text) and not out:
            out.append(("<lambda-loop>", "loop"))
        return out

    def check_kind(self, s):
        """None, or kind of an aborting check statement."""
        if s.kind == "simple":
            if s.text.startswith("ADVANCE_PHASE_OR_RETURN ("):
                return "AbortF"
            if re.match(r"^if \( auto c = phase \( __LINE__ \) \) return \* c ;$", s.text):
                return "AbortF"
            return None
        if s.kind == "if" and re.match(r"^if \( auto c = phase \( __LINE__ \) \)$", s.text) and s.els is None and \
                s.then.kind == "simple" and s.then.text == "return * c ;":
            return "AbortF"
        if s.kind == "if" and re.match(r"^if \( (?:manifold :: )?IsCancelled \( [\w_.>-]+(?: \( \))? \) \)$", s.text) and s.els is None:
            body = s.then
            txt = body.text if body.kind == "simple" else " ".join(x.text for x in body.body) if body.kind == "block" else ""
            if not re.search(r"\breturn\b", txt):
                raise TranslateError("IsCancelled check without return at line %d" % s.line)
            return "AbortF" if re.search(r"Cancelled|cancelled \( \)", txt) else "AbortP"
        return None

    def classify(self, s, fn):
        """follower class of a non-check, non-ctx-call statement or header."""
        txt = s.text
        first = s.toks[0][0] if s.toks else ""
        if NOOP.match(txt):
            return "noop", None
        for fre, sre, eff, why in ALLOW:
            if re.search(fre, self.fns[fn]["name"]) and re.search(sre, txt):
                return ("allowed", eff)
        if s.kind == "simple":
            if re.match(r"^\w+(?: \. \w+| -> \w+)* \. clear \( \) ;$", txt):
                return "release", None
            if first == "return":
                return "ret", None
            if first in ("break", "continue"):
                return "noop", None
            if first not in NOT_DECL_FIRST and DECL.match(txt):
                return "decl", None
        return "use", None

    # ---- closedness
    def closed(self, key):
        if re.search(STATUS_LEVEL, self.fns[key]["name"]):
            return True
        if key in self.closed_memo:
            return self.closed_memo[key]
        self.closed_memo[key] = False       # cycles: assume open
        st = {"abortp": False}
        out = self.scan(self.fns[key]["body"], set(), key, record=False, st=st, depth=0)
        res = (not st["abortp"]) and not out and not st.get("exit_pending")
        self.closed_memo[key] = res
        return res

    # ---- the path scan
    def scan(self, stmts, origins, fn, record, st, depth, inlined=False):
        """Walk statements in order; `origins` = sites whose output is unchecked.
        Returns the set of origins still pending at the fall-through exit."""
        O = set(origins)
        for s in stmts:
            if s is None or s.kind == "label":
                continue
            O = self.scan_stmt(s, O, fn, record, st, depth, inlined)
        return O

    def note(self, O, cls, s, fn, record):
        if not record:
            return
        for o in O:
            self.sites[o]["followers"].add(cls)
            if cls == "use":
                self.sites[o]["texts"].append("%s:%d %s" % (self.fns[fn]["file"], s.line, s.text[:140]))
                self.uses.append((o, self.fns[fn]["name"], "%s:%d" % (self.fns[fn]["file"], s.line), s.text[:200]))

    def term(self, O, kind, record):
        if record:
            for o in O:
                self.sites[o]["terms"].add(kind)

    def scan_stmt(self, s, O, fn, record, st, depth, inlined):
        if depth > 12:
            raise TranslateError("call depth exceeded (recursion?) in " + fn)
        ck = self.check_kind(s)
        if ck:
            self.term(O, ck, record)
            if ck == "AbortP":
                st["abortp_any"] = True
                if not inlined:
                    st["abortp"] = True
            return set()
        if s.kind == "block":
            return self.scan(s.body, O, fn, record, st, depth, inlined)
        if s.kind == "if":
            cls, eff = self.classify(s, fn)
            calls = self.ctx_calls(s, fn)
            if cls == "allowed" and eff == "indep":
                self.note(O, "allowed", s, fn, record)
                return O            # subtree independent of the unchecked outputs; returns inside leave with complete objects
            if O and not calls:
                self.note(O, "allowed" if cls == "allowed" else "use", s, fn, record)
            a = self.scan_stmt(s.then, O, fn, record, st, depth, inlined)
            b = self.scan_stmt(s.els, O, fn, record, st, depth, inlined) if s.els is not None else set(O)
            return a | b
        if s.kind in ("loop", "switch"):
            cls, eff = self.classify(s, fn)
            if O:
                self.note(O, "allowed" if cls == "allowed" else ("hdr" if s.kind == "loop" and self._plain_header(s) else "use"), s, fn, record)
            a = self.scan_stmt(s.body, O, fn, record, st, depth, inlined)
            b = self.scan_stmt(s.body, O | a, fn, record, st, depth, inlined)      # second iteration: back edge
            return O | a | b if s.kind == "loop" else a
        # simple statement
        calls = self.ctx_calls(s, fn)
        if getattr(s, "lambda_def", None):
            self.note(O, "decl", s, fn, record)
            return O
        if not calls:
            cls, eff = self.classify(s, fn)
            if O:
                self.note(O, cls, s, fn, record)
            if cls == "ret" or s.text.startswith("return"):
                self.exit(O, fn, record, st, inlined)
                return set()
            return O
        # ctx-aware call(s) in this statement, in textual order
        for callee, kind in calls:
            sid = "%s:%d:%s" % (self.fns[fn]["file"], s.line, re.sub(r"[^\w:<>.-]", "", callee)[:40])
            if O:
                self.note(O, "ctxcall", s, fn, record)
            if kind == "loop":
                targets, is_open = [], True
            else:
                targets = self.resolve(callee, fn)
                if not targets:
                    raise TranslateError("%s:%d cannot resolve ctx-aware callee %r" % (self.fns[fn]["file"], s.line, callee))
                is_open = not all(self.closed(t) for t in targets)
                if O:       # look inside the callee while something is unchecked
                    rem = set()
                    for t in targets:
                        st2 = {"abortp": False}
                        r = self.scan(self.fns[t]["body"], O, t, record, st2, depth + 1, inlined=True)
                        rem |= r | st2.get("returned", set())
                    O = rem
            if record and not inlined:
                self.sites.setdefault(sid, dict(kind=kind, fn=self.fns[fn]["name"], callee=callee, open=is_open,
                                                followers=set(), terms=set(), texts=[], line=s.line, file=self.fns[fn]["file"]))
            if is_open and not inlined:
                O = O | {sid}
        if s.text.startswith("return"):
            self.exit(O, fn, record, st, inlined)
            return set()
        return O

    def _plain_header(self, s):
        return bool(re.match(r"^(while \( 1 \)|for \( (?:const )?(?:auto|int|size_t) [&]?\s?\w+ : \w+ \))$", s.text))

    def exit(self, O, fn, record, st, inlined):
        """a `return` (or the end) of fn reached with origins O."""
        if inlined:
            st.setdefault("returned", set()).update(O)
            return
        if O:
            st["exit_pending"] = True
            self.term(O, "EndCallee" if self.fns[fn]["aware"] else "EndTop", record)

    def run(self):
        for key, f in self.fns.items():
            st = {"abortp": False}
            out = self.scan(f["body"], set(), key, record=True, st=st, depth=0)
            self.exit(out, key, True, st, False)
        # check-site kinds
        for key, f in self.fns.items():
            self._collect_checks(f["body"], key, in_lambda=False)
        return self

    def _collect_checks(self, stmts, fn, in_lambda):
        f = self.fns[fn]
        for s in stmts:
            if s is None or s.kind == "label":
                continue
            ck = self.check_kind(s)
            if ck:
                kind = ck
                if f["file"] == "parallel.h":
                    kind = "LoopEntry" if not self._in_loop_ctx(s, fn) else "LoopChunk"
                elif f["name"].endswith("::phase"):
                    kind = "AbortF"
                if s.kind == "if":
                    self.checks["%s:%d" % (f["file"], s.line)] = kind
                else:
                    self.checks["%s:%d" % (f["file"], s.line)] = kind
                continue
            if s.kind == "block":
                self._collect_checks(s.body, fn, in_lambda)
            elif s.kind == "if":
                self._collect_checks([s.then, s.els], fn, in_lambda)
            elif s.kind in ("loop", "switch"):
                self._collect_checks([s.body], fn, in_lambda)
            elif s.kind == "simple" and "IsCancelled" in s.text and not getattr(s, "lambda_def", None):
                # a check inside an (anonymous) lambda or expression
                for i, (t, ln) in enumerate(s.toks):
                    if t == "IsCancelled":
                        if s.text.startswith("struct ") and "~" in s.text:
                            self.checks["%s:%d" % (f["file"], ln)] = "Observe"      # a local struct's destructor (PhaseBalance): steers no exit of the function
                        elif s.text.startswith("return IsCancelled") or " return IsCancelled (" in s.text and f["file"] == "execution_impl.cpp":
                            self.checks["%s:%d" % (f["file"], ln)] = "Observe"
                        else:
                            self.checks["%s:%d" % (f["file"], ln)] = "LoopChunk"
        return

    def _in_loop_ctx(self, s, fn):
        # parallel.h: the entry check is the one directly in the function body; chunk checks are nested
        return s not in self.fns[fn]["body"]


def special_checks(repo, cfg, checks):
    """Sites the structured scan does not reach: PhaseBalance's destructor, the par chunk lambda of for_each."""
    defs = {"MANIFOLD_PAR": 1 if cfg == "par" else -1}
    for f in FILES:
        p = os.path.join(repo, "src", f)
        if not os.path.exists(p):
            continue
        src = preprocess(strip_comments(open(p, errors="replace").read()), defs)
        for ln, line in enumerate(src.split("\n"), 1):
            if "IsCancelled(" in line.replace(" ", "") and "%s:%d" % (f, ln) not in checks:
                if re.search(r"inline\s+bool\s+IsCancelled|friend\s+bool|define\s+IsCancelled|VerifIsCancelledAt", line):
                    continue
                L = line.strip()
                if f == "parallel.h":
                    checks["%s:%d" % (f, ln)] = "LoopChunk"
                elif re.search(r"!\s*IsCancelled\(", L) and not re.search(r"\breturn\b", L):
                    checks["%s:%d" % (f, ln)] = "Observe"      # guards a block; no early exit
                elif f == "boolean_result.cpp" and re.match(r"if \(IsCancelled\(ctx\)\) return;\s*$", L) and "partial publication" in open(p).read().split("\n")[ln - 1]:
                    checks["%s:%d" % (f, ln)] = "Observe"
                elif f == "execution_impl.cpp":
                    checks["%s:%d" % (f, ln)] = "Observe"
                elif f == "execution_impl.h":
                    continue
                else:
                    checks["%s:%d" % (f, ln)] = "Unknown"
    return checks


def phase_table(repo, an):
    """(constant, value, number of credit sites on the uncancelled path) per pipeline."""
    def count(fnname_re, pat):
        n = 0
        for k, f in an.fns.items():
            if re.search(fnname_re, f["name"]) and not f.get("local"):
                def walk(stmts):
                    c = 0
                    for s in stmts:
                        if s is None or s.kind == "label": continue
                        if s.kind == "simple":
                            c += 1 if re.match(pat, s.text) else 0
                        elif s.kind == "block": c += walk(s.body)
                        elif s.kind == "if":
                            c += 1 if re.match(pat, s.text + " " + (s.then.text if s.then is not None and s.then.kind == "simple" else "")) else 0
                            c += walk([s.then, s.els])
                        else: c += walk([s.body])
                    return c
                n += walk(f["body"])
        return n
    adv = r"^ADVANCE_PHASE_OR_RETURN \("
    rows = [("kPhasesPerBoolean", count(r"^Boolean3::Result$", r"^if \( auto c = phase \( __LINE__ \) \) return \* c ;$")),
            ("kPhasesPerFromMesh", count(r"^Manifold::Impl::Impl$|^Impl::Impl$", adv)),
            ("kPhasesPerSmooth", count(r"^Manifold::Impl::Impl$|^Impl::Impl$", adv) + count(r"Impl::CreateTangents$", adv)),
            ("kPhasesPerLevelSet", count(r"Impl::CreateLevelSet$", adv))]
    return [(c, an.consts.get(c), n) for c, n in rows]


def reset_order(repo):
    """Order of the counter stores in GetCsgLeafNode and ResetForStaticFactory: list of 'done'/'total' tags."""
    out = {}
    for f, fn in (("manifold.cpp", "GetCsgLeafNode"), ("execution_impl.cpp", "ResetForStaticFactory")):
        src = strip_comments(open(os.path.join(repo, "src", f)).read())
        m = re.search(fn + r"\s*\([^)]*\)\s*(?:const\s*)?\{", src)
        if not m:
            raise TranslateError("cannot find " + fn)
        body = src[m.end():m.end() + 2500]
        seq = re.findall(r"ctx->(donePhases|totalPhases|doneBooleans|totalBooleans)\s*\.\s*store", body)
        out[fn] = seq[:4]
        if fn == "GetCsgLeafNode":
            # completion top-up: after ToLeafNode, donePhases := totalPhases under !IsCancelled
            after = body.split("ToLeafNode", 1)[1] if "ToLeafNode" in body else ""
            after = after.split("return", 1)[0]
            out["topup"] = bool(re.search(r"!\s*IsCancelled\s*\(\s*ctx\s*\)", after) and
                                re.search(r"donePhases\s*\.\s*store\s*\(\s*ctx->totalPhases\s*\.\s*load", re.sub(r"\s+", " ", after)))
    return out


def poison_guard(repo):
    """ToLeafNode's cancel branch: (a loop over the stack assigns the Cancelled leaf to frame->op_node->cache_,
    every such assignment is guarded by `if (!frame->op_node->cache_)`, this->cache_ is assigned)."""
    src = strip_comments(open(os.path.join(repo, "src", "csg_tree.cpp")).read())
    m = re.search(r"CsgOpNode::ToLeafNode\s*\(", src)
    if not m:
        raise TranslateError("cannot find CsgOpNode::ToLeafNode")
    body = src[m.end():]
    m2 = re.search(r"if\s*\(\s*IsCancelled\s*\(\s*ctx\s*\)\s*\)\s*\{", body)
    if not m2:
        raise TranslateError("cannot find the cancel branch of ToLeafNode")
    i = m2.end(); d = 1; j = i
    while j < len(body) and d:
        d += body[j] == "{"; d -= body[j] == "}"; j += 1
    br = re.sub(r"\s+", " ", body[i:j])
    loop = re.search(r"for \( ?auto ?& ?frame : stack ?\) ?\{(.*?)\} (?:auto|cache_|return)", br)
    assigns = re.findall(r"(if ?\( ?! ?frame->op_node->cache_ ?\) ?)?frame->op_node->cache_ ?= ?", loop.group(1)) if loop else []
    return dict(frames=bool(loop and assigns), guarded=bool(assigns) and all(a for a in assigns),
                this=bool(re.search(r"[; }] ?cache_ ?= ?cancelled ?;", br)))


FK = {"decl": "FDecl", "release": "FRelease", "ctxcall": "FCtxCall", "ret": "FRet", "noop": "FNoop", "hdr": "FNoop",
      "allowed": "FAllowed", "use": "FUse"}
TK = {"AbortP": "TCheckP", "AbortF": "TCheckF", "EndCallee": "TEndCallee", "EndTop": "TEndTop"}
CK = {"LoopEntry": "KLoopEntry", "LoopChunk": "KLoopChunk", "AbortP": "KAbortP", "AbortF": "KAbortF", "Observe": "KObserve"}


def translate(repo, out_v=None):
    res = {"configs": {}}
    coq = ["(* GENERATED by translate/c15_sites.py from %s/src -- data only, do not edit. *)" % repo,
           "From Coq Require Import List String ZArith.", "From MV Require Import Proto.CancelDefs.",
           "Import ListNotations.", "Local Open Scope string_scope.", ""]
    for cfg in ("seq", "par"):
        an = Analysis(repo, cfg).run()
        checks = special_checks(repo, cfg, dict(an.checks))
        unknown = sorted(k for k, v in checks.items() if v == "Unknown")
        sites = []
        for sid in sorted(an.sites):
            s = an.sites[sid]
            if not s["open"]:
                continue
            sites.append(dict(id=sid, kind=s["kind"], fn=s["fn"], callee=s["callee"],
                              followers=sorted(s["followers"]), terms=sorted(s["terms"]), uses=s["texts"][:6]))
        closed_calls = sorted(sid for sid, s in an.sites.items() if not s["open"])
        res["configs"][cfg] = dict(sites=sites, checks=checks, unknown_checks=unknown, closed_calls=closed_calls,
                                   closed_fns=sorted(an.fns[k]["name"] for k in an.fns if an.fns[k]["aware"] and an.closed(k)),
                                   open_fns=sorted(an.fns[k]["name"] for k in an.fns if an.fns[k]["aware"] and not an.closed(k)))
        coq.append("Definition sites_%s : list site := [" % cfg)
        rows = []
        for s in sites:
            rows.append("  mkSite \"%s\" %s [%s] [%s]" % (s["id"], "SLoop" if s["kind"] == "loop" else "SCall",
                                                         "; ".join(FK[f] for f in s["followers"]), "; ".join(TK[t] for t in s["terms"])))
        coq.append(";\n".join(rows))
        coq.append("].\n")
        coq.append("Definition checks_%s : list (string * ckind) := [" % cfg)
        coq.append(";\n".join("  (\"%s\", %s)" % (k, CK[v]) for k, v in sorted(checks.items()) if v in CK))
        coq.append("].\n")
        if cfg == "seq":
            pt = phase_table(repo, an)
            res["phase_table"] = pt
            res["consts"] = an.consts
    coq.append("Definition phase_table : list (string * Z * Z) := [")
    coq.append(";\n".join("  (\"%s\", %d, %d)" % (c, v if v is not None else -1, n) for c, v, n in res["phase_table"]))
    coq.append("]%Z.\n")
    ro = reset_order(repo)
    res["topup"] = ro.pop("topup", False)
    res["reset_order"] = ro
    def enc(seq):
        return "[" + "; ".join("RDone" if x.startswith("done") else "RTotal" for x in seq) + "]"
    coq.append("Definition reset_order_tree : list rstep := %s." % enc(ro["GetCsgLeafNode"]))
    coq.append("Definition reset_order_factory : list rstep := %s." % enc(ro["ResetForStaticFactory"]))
    pg = poison_guard(repo)
    res["poison"] = pg
    coq.append("Definition poison_all_frames : bool := %s." % ("true" if pg["frames"] else "false"))
    coq.append("Definition poison_guarded : bool := %s." % ("true" if pg["guarded"] else "false"))
    coq.append("Definition completion_topup : bool := %s." % ("true" if res["topup"] else "false"))
    coq.append("Definition k_phases_per_boolean : nat := %d." % (res["consts"].get("kPhasesPerBoolean") or 0))
    coq.append("Definition boolean_phase_sites : nat := %d.\n" % [n for c, v, n in res["phase_table"] if c == "kPhasesPerBoolean"][0])
    txt = "\n".join(coq) + "\n"
    if out_v:
        os.makedirs(os.path.dirname(out_v), exist_ok=True)
        old = open(out_v).read() if os.path.exists(out_v) else None
        if old != txt:
            open(out_v, "w").write(txt)
    res["coq"] = txt
    return res


if __name__ == "__main__":
    repo = sys.argv[1] if len(sys.argv) > 1 else "/repo"
    r = translate(repo, sys.argv[2] if len(sys.argv) > 2 else None)
    for cfg, c in r["configs"].items():
        print("==", cfg, len(c["sites"]), "open sites;", len(c["checks"]), "check sites; unknown:", c["unknown_checks"])
        print("   closed fns:", c["closed_fns"])
        print("   open fns:", c["open_fns"])
        for s in c["sites"]:
            bad = "use" in s["followers"] or "EndTop" in s["terms"] or not s["terms"]
            print("  %s %-52s %-5s f=%s t=%s" % ("!!" if bad else "  ", s["id"], s["kind"], ",".join(s["followers"]), ",".join(s["terms"])))
            if bad:
                for u in s["uses"]:
                    print("        use:", u)
    print("phase table:", r["phase_table"], "reset order:", r["reset_order"])
