(* Driver for the extracted C11 checkers and kernel models.  All numbers are
   hexadecimal integers with an optional leading '-' (arbitrary size).
   JOB id E  <contours result>  <expr | NONE>  <npts> x y ...
       contours := nc n1 x y ... n2 x y ...
       expr     := POS contours | ODD contours | NZ contours | OR e e | AND e e | DIFF e e | XOR e e
     -> J id regular simple noconf w01 formula nfar wsum area2 badw badf
        (badw/badf: index of the first sample failing winding-0/1 resp. the formula, -1 if none)
   ISIN                 -> ISIN rule w 0/1 ...          (model of IsInside)
   MV id n lo hi m ...  -> MV id lo hi m ...            (decimal small ints)
   OE id nv x y ... ne v0 v1 ... -> OE id np n x y ...  (decimal small ints) *)
open C11_model

let z_of_hex (s : string) : z =
  let neg = String.length s > 0 && s.[0] = '-' in
  let start = if neg then 1 else 0 in
  let acc = ref None in
  for i = start to String.length s - 1 do
    let c = s.[i] in
    let v = if c >= '0' && c <= '9' then Char.code c - 48
      else if c >= 'a' && c <= 'f' then Char.code c - 87
      else if c >= 'A' && c <= 'F' then Char.code c - 55 else failwith ("bad hex " ^ s) in
    for b = 3 downto 0 do
      let bit = (v lsr b) land 1 = 1 in
      acc := (match !acc with
          | None -> if bit then Some XH else None
          | Some p -> Some (if bit then XI p else XO p))
    done
  done;
  match !acc with None -> Z0 | Some p -> if neg then Zneg p else Zpos p

let hex_of_pos (p : positive) : string =
  (* bits LSB first *)
  let rec bitsl p acc = match p with XH -> 1 :: acc | XO q -> bitsl q (0 :: acc) | XI q -> bitsl q (1 :: acc) in
  let msb_first = bitsl p [] in                     (* MSB first *)
  let n = List.length msb_first in
  let pad = (4 - n mod 4) mod 4 in
  let bits = Array.of_list ((List.init pad (fun _ -> 0)) @ msb_first) in
  let b = Buffer.create 32 in
  let i = ref 0 in
  while !i < Array.length bits do
    let v = bits.(!i) * 8 + bits.(!i + 1) * 4 + bits.(!i + 2) * 2 + bits.(!i + 3) in
    Buffer.add_char b "0123456789abcdef".[v];
    i := !i + 4
  done;
  Buffer.contents b
let hex_of_z = function Z0 -> "0" | Zpos p -> hex_of_pos p | Zneg p -> "-" ^ hex_of_pos p

let rec nat_of_int n = if n <= 0 then O else S (nat_of_int (n - 1))
let rec int_of_nat = function O -> 0 | S n -> 1 + int_of_nat n
let rec pos_of_int n = if n = 1 then XH else if n land 1 = 0 then XO (pos_of_int (n lsr 1)) else XI (pos_of_int (n lsr 1))
let z_of_int n = if n = 0 then Z0 else if n > 0 then Zpos (pos_of_int n) else Zneg (pos_of_int (-n))
let rec int_of_pos = function XH -> 1 | XO p -> 2 * int_of_pos p | XI p -> 2 * int_of_pos p + 1
let int_of_z = function Z0 -> 0 | Zpos p -> int_of_pos p | Zneg p -> - (int_of_pos p)

(* token stream *)
let toks = ref [||]
let pos = ref 0
let next () = let t = !toks.(!pos) in incr pos; t
let next_int () = int_of_string ("0x" ^ next ())
let next_z () = z_of_hex (next ())

let read_contours () =
  let nc = next_int () in
  List.init nc (fun _ ->
      let n = next_int () in
      List.init n (fun _ -> let x = next_z () in let y = next_z () in (x, y)))

let rec read_expr () =
  match next () with
  | "POS" -> FPos (read_contours ())
  | "ODD" -> FOdd (read_contours ())
  | "NZ" -> FNonZero (read_contours ())
  | "OR" -> let a = read_expr () in let b = read_expr () in FOr (a, b)
  | "AND" -> let a = read_expr () in let b = read_expr () in FAnd (a, b)
  | "DIFF" -> let a = read_expr () in let b = read_expr () in FDiff (a, b)
  | "XOR" -> let a = read_expr () in let b = read_expr () in FXor (a, b)
  | t -> failwith ("bad expr token " ^ t)

let first_bad f pts =
  let rec go i = function [] -> -1 | p :: r -> if f p then go (i + 1) r else i in
  go 0 pts

let b2i b = if b then 1 else 0

let () =
  try
    while true do
      let line = input_line stdin in
      toks := Array.of_list (List.filter (fun s -> s <> "") (String.split_on_char ' ' line));
      pos := 0;
      if Array.length !toks = 0 then ()
      else match next () with
        | "JOB" ->
          let id = next () in
          let e = next_z () in
          let res = read_contours () in
          let expr = if !toks.(!pos) = "NONE" then (incr pos; None) else Some (read_expr ()) in
          let np = next_int () in
          let pts = List.init np (fun _ -> let x = next_z () in let y = next_z () in (x, y)) in
          (* the verdict is the extracted regular_check; its three conjuncts are
             re-evaluated separately only to explain a rejection *)
          let regular = regular_check res pts in
          let simple = regular || forallb contour_ok res in
          let noconf = regular || no_conflicts (all_edges res) in
          let w01 = regular || wind01 res pts in
          let formula, nfar = match expr with
            | None -> true, Z0
            | Some ex -> formula_check e ex res pts, count_far e ex pts in
          let badw = if w01 then -1 else first_bad (fun p -> wind01 res [p]) pts in
          let badf = match expr with
            | Some ex when not formula -> first_bad (fun p -> formula_check e ex res [p]) pts
            | _ -> -1 in
          Printf.printf "J %s %d %d %d %d %d %s %s %s %d %d\n" id (b2i regular) (b2i simple) (b2i noconf) (b2i w01)
            (b2i formula) (hex_of_z nfar) (hex_of_z (wind_sum res pts)) (hex_of_z (area2 res)) badw badf
        | "ISIN" ->
          let b = Buffer.create 256 in
          Buffer.add_string b "ISIN";
          List.iteri (fun r rule ->
              for w = -6 to 6 do
                Buffer.add_string b (Printf.sprintf " %d %d %d" r w (b2i (is_inside rule (z_of_int w))))
              done) [WAdd; WIntersect; WEvenOdd];
          print_endline (Buffer.contents b)
        | "MV" ->
          let id = next () in
          let n = int_of_string (next ()) in
          let segs = List.init n (fun _ ->
              let lo = int_of_string (next ()) in let hi = int_of_string (next ()) in let m = int_of_string (next ()) in
              ((z_of_int lo, z_of_int hi), z_of_int m)) in
          let out = merge_verticals_1d segs in
          let b = Buffer.create 256 in
          Buffer.add_string b ("MV " ^ id);
          List.iter (fun ((lo, hi), m) -> Buffer.add_string b (Printf.sprintf " %d %d %d" (int_of_z lo) (int_of_z hi) (int_of_z m))) out;
          Buffer.add_string b " | 1";
          print_endline (Buffer.contents b)
        | "OE" ->
          let id = next () in
          let nv = int_of_string (next ()) in
          let verts = List.init nv (fun _ -> let x = int_of_string (next ()) in let y = int_of_string (next ()) in (z_of_int x, z_of_int y)) in
          let ne = int_of_string (next ()) in
          let edges = List.init ne (fun _ -> let a = int_of_string (next ()) in let b = int_of_string (next ()) in (nat_of_int a, nat_of_int b)) in
          (match out_edges_to_polygons_z verts edges with
           | None -> Printf.printf "OE %s UNDEFINED\n" id
           | Some ps ->
             let b = Buffer.create 256 in
             Buffer.add_string b (Printf.sprintf "OE %s %d" id (List.length ps));
             List.iter (fun c ->
                 Buffer.add_string b (Printf.sprintf " %d" (List.length c));
                 List.iter (fun (x, y) -> Buffer.add_string b (Printf.sprintf " %d %d" (int_of_z x) (int_of_z y))) c) ps;
             print_endline (Buffer.contents b))
        | _ -> ()
    done
  with End_of_file -> ()
