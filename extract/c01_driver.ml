(* Driver for the extracted C01 oracle.  Reads on stdin
     MESH id nV repV repE repT repG nT  a b c  a b c ...
   (merged, compacted triangle indices; rep* are the library's NumVert/NumEdge/NumTri/Genus)
   and prints   V id <check_mesh 0|1> <check_counts 0|1> <check_mesh && check_vertex_manifold 0|1>
   PIPE   prints the verdict of pipeline_ok on every generated pass table (Gen/Pipelines.v) *)
open C01_model

let rec pos_of_int n = if n = 1 then XH else if n land 1 = 0 then XO (pos_of_int (n lsr 1)) else XI (pos_of_int (n lsr 1))
let z_of_int n = if n = 0 then Z0 else if n > 0 then Zpos (pos_of_int n) else Zneg (pos_of_int (-n))

let rec int_of_pos = function XH -> 1 | XO p -> 2 * int_of_pos p | XI p -> 2 * int_of_pos p + 1
let int_of_z = function Z0 -> 0 | Zpos p -> int_of_pos p | Zneg p -> - (int_of_pos p)

(* ---- OPS: replay an operation sequence on the extracted ports of the simple edge operations ---- *)
let zl_of_strings a lo hi = let r = ref [] in for k = hi - 1 downto lo do r := z_of_int (int_of_string a.(k)) :: !r done; !r

let dump_mesh id step m =
  let b = Buffer.create 256 in
  Buffer.add_string b (Printf.sprintf "A %s %d H" id step);
  List.iter (fun (s, p) -> Buffer.add_string b (Printf.sprintf " %d %d" (int_of_z s) (int_of_z p))) m.hs;
  Buffer.add_string b " N";
  List.iter (fun x -> Buffer.add_string b (if x then " 1" else " 0")) m.nan;
  print_endline (Buffer.contents b);
  Printf.printf "O %s %d %d %d %d\n" id step (if halfedge_inv m.hs then 1 else 0)
    (if nan_iff_unreferenced m then 1 else 0) (if starts_in_range m then 1 else 0)

let parse_mesh toks pos nV nH =
  let h = ref [] in
  for e = nH - 1 downto 0 do
    h := (z_of_int (int_of_string toks.(pos + 2 * e)), z_of_int (int_of_string toks.(pos + 2 * e + 1))) :: !h
  done;
  { hs = !h; nan = List.init nV (fun _ -> false) }

let run_ops line =
  let toks = Array.of_list (List.filter (fun s -> s <> "") (String.split_on_char ' ' line)) in
  let id = toks.(1) in
  let nV = int_of_string toks.(2) and nH = int_of_string toks.(3) in
  let m = ref (parse_mesh toks 4 nV nH) in
  dump_mesh id 0 !m;
  (* split the rest at "|" *)
  let ops = ref [] and cur = ref [] in
  for k = Array.length toks - 1 downto 4 + 2 * nH do
    if toks.(k) = "|" then (ops := (Array.of_list !cur) :: !ops; cur := []) else cur := toks.(k) :: !cur
  done;
  let step = ref 0 in
  List.iter (fun t ->
    incr step;
    let zi k = z_of_int (int_of_string t.(k)) in
    let hs_op f = (match f !m.hs with Some h -> Some { hs = h; nan = !m.nan } | None -> None) in
    let r =
      match t.(0) with
      | "pairup" -> hs_op (fun h -> pair_up h (zi 1) (zi 2))
      | "collapsetri" -> hs_op (fun h -> collapse_tri h (tri_of (zi 1)))
      | "removeiffolded" -> remove_if_folded !m (zi 1)
      | "fliptris" -> hs_op flip_tris
      | "removeunref" -> if starts_in_range !m then Some (remove_unreferenced_verts !m) else None
      | "reindexfull" ->
        let n2o = zl_of_strings t 1 (Array.length t) in
        (match sort_verts { hs = !m.hs; nan = List.map (fun _ -> false) !m.nan } n2o with
         | Some m' ->
           (* positions are permuted too: NaN flags follow *)
           let flags = Array.of_list !m.nan in
           (try Some { hs = m'.hs; nan = List.map (fun o -> flags.(int_of_z o)) n2o } with _ -> None)
         | None -> None)
      | "sortverts" -> if starts_in_range !m then sort_verts !m (zl_of_strings t 1 (Array.length t)) else None
      | "sortfaces" -> sort_faces !m (zl_of_strings t 1 (Array.length t))
      | _ -> None in
    (match r with
     | Some m' -> m := m'; dump_mesh id !step !m
     | None -> Printf.printf "A %s %d SKIP\n" id !step)) !ops;
  Printf.printf "E %s\n" id

let () =
  try
    while true do
      let line = input_line stdin in
      if String.length line > 3 && String.sub line 0 3 = "CH " then begin
        (* CH id nV nT a b c ... : the ported CreateHalfedges + IsManifold *)
        let toks = Array.of_list (List.filter (fun s -> s <> "") (String.split_on_char ' ' line)) in
        let id = toks.(1) in
        let nT = int_of_string toks.(3) in
        let tris = ref [] in
        for t = nT - 1 downto 0 do
          let iv k = z_of_int (int_of_string toks.(k)) in
          tris := ((iv (4 + 3 * t), iv (5 + 3 * t)), iv (6 + 3 * t)) :: !tris
        done;
        (match create_halfedges !tris with
         | None -> Printf.printf "H %s UNDEFINED\nM %s UNDEFINED\n" id id
         | Some h ->
           let b = Buffer.create 256 in
           Buffer.add_string b ("H " ^ id);
           List.iter (fun (s, p) -> Buffer.add_string b (Printf.sprintf " %d %d" (int_of_z s) (int_of_z p))) h;
           print_endline (Buffer.contents b);
           (match is_manifold h with
            | None -> Printf.printf "M %s UNDEFINED\n" id
            | Some m -> Printf.printf "M %s %d\n" id (if m then 1 else 0)));
        Printf.printf "G %s %d\n" id (if gate_case !tris then 1 else 0)
      end else
      if String.length line > 4 && String.sub line 0 4 = "OPS " then run_ops line else
      if String.length line > 4 && String.sub line 0 4 = "ORC " then begin
        (* ORC id step nV nH s p ... b b ... : the extracted invariants on the IMPLEMENTATION's arrays *)
        let toks = Array.of_list (List.filter (fun s -> s <> "") (String.split_on_char ' ' line)) in
        let nV = int_of_string toks.(3) and nH = int_of_string toks.(4) in
        let m0 = parse_mesh toks 5 nV nH in
        let m = { hs = m0.hs; nan = List.init nV (fun v -> toks.(5 + 2 * nH + v) = "1") } in
        Printf.printf "O %s %s %d %d %d\n" toks.(1) toks.(2) (if halfedge_inv m.hs then 1 else 0)
          (if nan_iff_unreferenced m then 1 else 0) (if starts_in_range m then 1 else 0)
      end else
      if String.length line > 3 && String.sub line 0 3 = "HI " then begin
        (* HI id s0 p0 s1 p1 ... : extracted is_manifold / halfedge_inv on the IMPLEMENTATION's arrays *)
        let toks = Array.of_list (List.filter (fun s -> s <> "") (String.split_on_char ' ' line)) in
        let id = toks.(1) in
        let n = (Array.length toks - 2) / 2 in
        let h = ref [] in
        for e = n - 1 downto 0 do
          h := (z_of_int (int_of_string toks.(2 + 2 * e)), z_of_int (int_of_string toks.(3 + 2 * e))) :: !h
        done;
        Printf.printf "I %s %s %d\n" id
          (match is_manifold !h with None -> "U" | Some true -> "1" | Some false -> "0")
          (if halfedge_inv !h then 1 else 0)
      end else
      if line = "PIPE" then begin
        print_string "PIPE";
        List.iter (fun b -> print_string (if b then " 1" else " 0")) pipeline_verdicts;
        print_newline ()
      end else
      if String.length line > 5 && String.sub line 0 5 = "MESH " then begin
        let toks = Array.of_list (List.filter (fun s -> s <> "") (String.split_on_char ' ' line)) in
        let id = toks.(1) in
        let iv k = int_of_string toks.(k) in
        let nV = iv 2 and repV = iv 3 and repE = iv 4 and repT = iv 5 and repG = iv 6 and nT = iv 7 in
        if Array.length toks <> 8 + 3 * nT then Printf.printf "V %s BADLINE\n" id
        else begin
          let tris = ref [] in
          for t = nT - 1 downto 0 do
            tris := ((z_of_int (iv (8 + 3 * t)), z_of_int (iv (9 + 3 * t))), z_of_int (iv (10 + 3 * t))) :: !tris
          done;
          let m = check_mesh (z_of_int nV) !tris in
          let c = check_counts (z_of_int nV) !tris (z_of_int repV) (z_of_int repE) (z_of_int repT) (z_of_int repG) in
          (* vertex-manifoldness is only meaningful (and only evaluated) on edge-manifold meshes *)
          let u = m && check_vertex_manifold (z_of_int nV) !tris in
          Printf.printf "V %s %d %d %d\n%!" id (if m then 1 else 0) (if c then 1 else 0) (if u then 1 else 0)
        end
      end
    done
  with End_of_file -> ()
