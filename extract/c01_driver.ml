(* Driver for the extracted C01 oracle.  Reads on stdin
     MESH id nV repV repE repT repG nT  a b c  a b c ...
   (merged, compacted triangle indices; rep* are the library's NumVert/NumEdge/NumTri/Genus)
   and prints   V id <check_mesh 0|1> <check_counts 0|1>                                  *)
open C01_model

let rec pos_of_int n = if n = 1 then XH else if n land 1 = 0 then XO (pos_of_int (n lsr 1)) else XI (pos_of_int (n lsr 1))
let z_of_int n = if n = 0 then Z0 else if n > 0 then Zpos (pos_of_int n) else Zneg (pos_of_int (-n))

let () =
  try
    while true do
      let line = input_line stdin in
      if String.length line > 5 && String.sub line 0 5 = "MESH " then begin
        let toks = Array.of_list (List.filter (fun s -> s <> "") (String.split_on_char ' ' line)) in
        let id = toks.(1) in
        let iv k = int_of_string toks.(k) in
        let nV = iv 2 and repV = iv 3 and repE = iv 4 and repT = iv 5 and repG = iv 6 and nT = iv 7 in
        if Array.length toks <> 8 + 3 * nT then Printf.printf "V %s BADLINE\n" id
        else begin
          let tris = ref [] in
          for t = nT - 1 downto 0 do
            tris := ((z_of_int (iv (8 + 3 * t)), z_of_int (iv (9 + 3 * t))), z_of_int (iv (10 + 3 * t))) :: !tris
          done;
          let m = check_mesh (z_of_int nV) !tris in
          let c = check_counts (z_of_int nV) !tris (z_of_int repV) (z_of_int repE) (z_of_int repT) (z_of_int repG) in
          Printf.printf "V %s %d %d\n%!" id (if m then 1 else 0) (if c then 1 else 0)
        end
      end
    done
  with End_of_file -> ()
