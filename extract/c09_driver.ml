(* Driver for the extracted ingest model (C09).  Reads the same lines as
   harness/c09_fuzz.cpp (kind R):
     R id prec numProp tol VP n .. TV n .. MF n .. MT n .. RI n .. RO n .. RT n .. RF n .. FI n .. HT n .. PROG k ..
   and prints, for the table generated from the tree under check (argument
   "current", default) or the hand-written patched table ("patched"):
     M id <verdict: code | A> <first out-of-bounds access | none>   for manifoldOK = true
   A first line "T safe=<0|1> status=<0|1> unsafe=<items>" reports the obligations. *)
open C09_model

let rec pos_of_int n = if n = 1 then XH else if n land 1 = 0 then XO (pos_of_int (n lsr 1)) else XI (pos_of_int (n lsr 1))
let z_of_int n = if n = 0 then Z0 else if n > 0 then Zpos (pos_of_int n) else Zneg (pos_of_int (-n))
let z_of_string s =
  (* decimal, possibly above max_int (uint64 values) *)
  let z = ref Z0 in
  String.iter (fun c -> if c >= '0' && c <= '9' then z := Z.add (Z.mul !z (z_of_int 10)) (z_of_int (Char.code c - 48))) s;
  !z
let rec str_of_pos p =
  (* to decimal string via repeated doubling on a digit list *)
  let double_add ds carry =
    let rec go ds c = match ds with
      | [] -> if c = 0 then [] else [c]
      | d :: r -> let v = 2 * d + c in (v mod 10) :: go r (v / 10) in
    go ds carry in
  let rec bits p acc = match p with XH -> 1 :: acc | XO q -> bits q (0 :: acc) | XI q -> bits q (1 :: acc) in
  let bs = bits p [] in
  let ds = List.fold_left (fun ds b -> double_add ds b) [] bs in
  String.concat "" (List.rev_map string_of_int ds)
let str_of_z = function Z0 -> "0" | Zpos p -> str_of_pos p | Zneg p -> "-" ^ str_of_pos p

let finite prec tok =
  if tok = "nan" || tok = "inf" || tok = "-inf" then false
  else
    let x = float_of_string tok in
    if prec = 32 then Float.is_finite (Int32.float_of_bits (Int32.bits_of_float x)) else Float.is_finite x

let array_name = function
  | ADivisorNumProp -> "numProp-divisor" | AVertProperties -> "vertProperties" | ATriVerts -> "triVerts"
  | AMergeFrom -> "mergeFromVert" | AMergeTo -> "mergeToVert" | AProp2Vert -> "prop2vert" | ARunIndex -> "runIndex"
  | ATriRef -> "triRef" | AFaceID -> "faceID" | ARunTransform -> "runTransform" | ATangentIn -> "halfedgeTangent"
  | ATangentInternal -> "halfedgeTangent_" | AVertPos -> "vertPos_" | AProperties -> "properties_"

let rec str_of_coq = function
  | EmptyString -> ""
  | String (Ascii (b0, b1, b2, b3, b4, b5, b6, b7), r) ->
    let v = List.fold_left (fun acc b -> 2 * acc + (if b then 1 else 0)) 0 [b7; b6; b5; b4; b3; b2; b1; b0] in
    let c = Char.chr v in
    (if c = ' ' then "_" else String.make 1 c) ^ str_of_coq r

let item_name = function
  | IRung (_, _) -> "rung" | IComputeCounts -> "IComputeCounts" | IMergeLoop (_, _) -> "IMergeLoop" | ICopyVerts -> "ICopyVerts"
  | ICopyTangents -> "ICopyTangents" | INormaliseRuns -> "INormaliseRuns" | IRunLoop -> "IRunLoop" | ITriLoop (_, _) -> "ITriLoop"
  | ICreateHalfedges _ -> "ICreateHalfedges" | IPost _ -> "IPost" | ICancelGate _ -> "ICancelGate"

let () =
  let table = if Array.length Sys.argv > 1 && Sys.argv.(1) = "patched" then patched_table
              else if Array.length Sys.argv > 1 && Sys.argv.(1) = "pinned" then pinned_table else current_table in
  Printf.printf "T safe=%d strong=%d status=%d unsafe=%s badstatus=%s\n" (if table_safe_current then 1 else 0)
    (if table_safe_strong_current then 1 else 0) (if status_ok_current then 1 else 0)
    (String.concat "," (List.map item_name unsafe_current))
    (String.concat "," (List.map (fun (n, _) -> str_of_coq n) status_bad_current));
  try
    while true do
      let line = input_line stdin in
      let toks = Array.of_list (List.filter (fun s -> s <> "") (String.split_on_char ' ' line)) in
      if Array.length toks > 2 && toks.(0) = "R" then begin
        let id = toks.(1) in
        let prec = int_of_string toks.(2) in
        let p = ref 5 in
        let field tag =
          if toks.(!p) <> tag then failwith ("expected " ^ tag);
          let n = int_of_string toks.(!p + 1) in
          let v = Array.sub toks (!p + 2) n in
          p := !p + 2 + n; v in
        let vp = field "VP" in let tv = field "TV" in let mf = field "MF" in let mt = field "MT" in
        let ri = field "RI" in let ro = field "RO" in let rt = field "RT" in let rf = field "RF" in
        let fi = field "FI" in let ht = field "HT" in
        let zl a = List.map z_of_string (Array.to_list a) in
        let allfin a = Array.for_all (finite prec) a in
        let m = { wide = (prec = 64); numProp = z_of_string toks.(3);
                  vpLen = z_of_int (Array.length vp); vpFinite = allfin vp;
                  triVerts = zl tv; mergeFrom = zl mf; mergeTo = zl mt; runIndex = zl ri;
                  runOrigLen = z_of_int (Array.length ro);
                  rtLen = z_of_int (Array.length rt); rtFinite = allfin rt;
                  runFlagsLen = z_of_int (Array.length rf);
                  faceIDLen = z_of_int (Array.length fi);
                  tanLen = z_of_int (Array.length ht); tanFinite = allfin ht } in
        let nt = Array.length tv / 3 in
        (* faces at sort time as replayed by the harness (token NF n at the end of the line), else NumTri *)
        let nf = let n = Array.length toks in
          if n >= 2 && toks.(n - 2) = "NF" && int_of_string toks.(n - 1) >= 0 then int_of_string toks.(n - 1) else nt in
        let o = { manifoldOK = true; nFaceSort = z_of_int nf; cancelled = false } in
        let (v, oob) = predict table m o in
        let vs = match v with Done e -> str_of_z (error_code e) | Accepted -> "A" in
        let os = match oob with
          | None -> "none"
          | Some (Acc (a, i, n)) -> Printf.sprintf "%s[%s]/%s" (array_name a) (str_of_z i) (str_of_z n)
          | Some (AccRange (a, lo, hi, n)) -> Printf.sprintf "%s[%s..%s)/%s" (array_name a) (str_of_z lo) (str_of_z hi) (str_of_z n) in
        Printf.printf "M %s %s %s\n" id vs os
      end
    done
  with End_of_file -> ()
