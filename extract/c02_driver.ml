(* Driver for the extracted exact classifier (C02; also usable by C03/C16/C17/C18).
   Doubles arrive either as decimal integers (integer-valued doubles) or as
   x<16 hex digits> (raw IEEE-754 bits); both are decoded EXACTLY into
   m * 2^e and all coordinates of one query are scaled by a common 2^k to
   integers (constructed as extracted Z by shifting, never through floats).

   Commands (one per line):
     MESH <name> <nv> <nt> <3nv coords> <3nt vertex indices>     store a mesh
     PTS <name> <n> <3n coords>                                   store points
     DROP <name>...                                               forget
     WIND <id> <pts> <mesh>...    -> W <id> <mesh> <k> w0 w1 ...  winding numbers at the points
     VOL <id> <mesh>              -> V <id> <mesh> <k> <hex>      6*volume * 2^(3k), signed hex
     LAT <id> <n> <mesh> <prefix program>
                                  -> L <id> <k> <bad> <cnt> <vol6 hex> <wf>
       lattice_check on the grid {0..n-1}^3: bad = number of voxel centres whose
       winding differs from the formula, cnt = voxels kept by the formula,
       vol6 = 6*volume*2^(3k)
     LATW <id> <n> <mesh>         -> LW <id> w...                 windings at all centres (diagnostics)
   program (prefix):  B x0 y0 z0 x1 y1 z1 | + e e | - e e | ^ e e | S0 e e | S1 e e
                      | P0 ax off e | P1 ax off e | T ax sgn off e | BA n e.. | BI n e.. | BS n e..
                      | H ax greater off   (half-space leaf, produced by the spec-side push-down of transforms)  *)
open C02_model

let rec pos_of_int n = if n = 1 then XH else if n land 1 = 0 then XO (pos_of_int (n lsr 1)) else XI (pos_of_int (n lsr 1))
let z_of_int n = if n = 0 then Z0 else if n > 0 then Zpos (pos_of_int n) else Zneg (pos_of_int (-n))
let rec int_of_pos = function XH -> 1 | XO p -> 2 * int_of_pos p | XI p -> 2 * int_of_pos p + 1
let int_of_z = function Z0 -> 0 | Zpos p -> int_of_pos p | Zneg p -> - (int_of_pos p)
let rec nat_of_int n = if n <= 0 then O else S (nat_of_int (n - 1))
let rec shl_pos p s = if s <= 0 then p else shl_pos (XO p) (s - 1)
let z_shl z s = match z with Z0 -> Z0 | Zpos p -> Zpos (shl_pos p s) | Zneg p -> Zneg (shl_pos p s)

let hex_of_pos p =
  (* little-endian bit list -> hex string *)
  let rec bits p acc = match p with XH -> 1 :: acc | XO q -> bits q (0 :: acc) | XI q -> bits q (1 :: acc) in
  let bl = List.rev (bits p []) in   (* least significant first *)
  let rec nib l acc = match l with
    | [] -> acc
    | a :: b :: c :: d :: r -> nib r ((a + 2*b + 4*c + 8*d) :: acc)
    | a :: b :: c :: [] -> (a + 2*b + 4*c) :: acc
    | a :: b :: [] -> (a + 2*b) :: acc
    | a :: [] -> a :: acc in
  String.concat "" (List.map (fun d -> Printf.sprintf "%x" d) (nib bl []))
let hex_of_z = function Z0 -> "0" | Zpos p -> hex_of_pos p | Zneg p -> "-" ^ hex_of_pos p

exception Nonfinite

(* exact decoding: returns (m, e) with value m * 2^e, m odd or (0,0) *)
let rec norm m e = if m = 0 then (0, 0) else if m land 1 = 0 then norm (m asr 1) (e + 1) else (m, e)
let dyadic_of_token (s : string) : int * int =
  if String.length s > 0 && s.[0] = 'x' then begin
    let b = Int64.of_string ("0x" ^ String.sub s 1 (String.length s - 1)) in
    let sign = Int64.to_int (Int64.shift_right_logical b 63) in
    let e = (Int64.to_int (Int64.shift_right_logical b 52)) land 0x7ff in
    let m = Int64.to_int (Int64.logand b 0xFFFFFFFFFFFFFL) in
    if e = 0x7ff then raise Nonfinite;
    let (m, e) = if e = 0 then (m, -1074) else (m lor (1 lsl 52), e - 1075) in
    norm (if sign = 1 then -m else m) e
  end else norm (int_of_string s) 0

type mesh = { co : (int * int) array; idx : int array }
let meshes : (string, mesh) Hashtbl.t = Hashtbl.create 16
let points : (string, (int * int) array) Hashtbl.t = Hashtbl.create 16

let min_exp (a : (int * int) array) = Array.fold_left (fun acc (m, e) -> if m = 0 then acc else min acc e) 0 a
let zcoord k (m, e) = z_shl (z_of_int m) (e + k)
let pt_of a k i = ((zcoord k a.(3*i), zcoord k a.(3*i+1)), zcoord k a.(3*i+2))
let tris_of (ms : mesh) k =
  let v = Array.init (Array.length ms.co / 3) (fun i -> pt_of ms.co k i) in
  let nt = Array.length ms.idx / 3 in
  let rec go t acc = if t < 0 then acc else go (t - 1) (((v.(ms.idx.(3*t)), v.(ms.idx.(3*t+1))), v.(ms.idx.(3*t+2))) :: acc) in
  go (nt - 1) []

let dbl n = z_of_int (2 * n)
let parse_prog (toks : string array) (start : int) : csg =
  let pos = ref start in
  let next () = let t = toks.(!pos) in incr pos; t in
  let nexti () = int_of_string (next ()) in
  let rec e () =
    match next () with
    | "B" -> let a = Array.init 6 (fun _ -> nexti ()) in
      LBox (((dbl a.(0), dbl a.(1)), dbl a.(2)), ((dbl a.(3), dbl a.(4)), dbl a.(5)))
    | "H" -> let ax = nexti () in let g = nexti () in let off = nexti () in LHalf (nat_of_int ax, g <> 0, dbl off)
    | "+" -> let a = e () in let b = e () in Node (Add, a, b)
    | "-" -> let a = e () in let b = e () in Node (Subtract, a, b)
    | "^" -> let a = e () in let b = e () in Node (Intersect, a, b)
    | "S0" -> let a = e () in let b = e () in Node (Intersect, a, b)
    | "S1" -> let a = e () in let b = e () in Node (Subtract, a, b)
    | "P0" -> let ax = nexti () in let off = nexti () in let a = e () in Node (Intersect, a, LHalf (nat_of_int ax, true, dbl off))
    | "P1" -> let ax = nexti () in let off = nexti () in let a = e () in Node (Intersect, a, LHalf (nat_of_int ax, false, dbl off))
    | "T" -> let ax = nexti () in let sgn = nexti () in let off = nexti () in let a = e () in
      if sgn > 0 then Node (Intersect, a, LHalf (nat_of_int ax, true, dbl off))
      else Node (Intersect, a, LHalf (nat_of_int ax, false, dbl (- off)))
    | ("BA" | "BI" | "BS") as op ->
      let n = nexti () in
      let o = if op = "BA" then Add else if op = "BI" then Intersect else Subtract in
      let first = e () in
      let acc = ref first in
      for _ = 2 to n do let x = e () in acc := Node (o, !acc, x) done;
      !acc
    | t -> failwith ("bad program token " ^ t) in
  e ()

let () =
  let buf = Buffer.create 65536 in
  try
    while true do
      let line = input_line stdin in
      let toks = Array.of_list (List.filter (fun s -> s <> "") (String.split_on_char ' ' line)) in
      if Array.length toks > 0 then begin
        try
          match toks.(0) with
          | "MESH" ->
            let nv = int_of_string toks.(2) and nt = int_of_string toks.(3) in
            let co = Array.init (3 * nv) (fun i -> dyadic_of_token toks.(4 + i)) in
            let idx = Array.init (3 * nt) (fun i -> int_of_string toks.(4 + 3 * nv + i)) in
            Array.iter (fun i -> if i < 0 || i >= nv then failwith "index") idx;
            Hashtbl.replace meshes toks.(1) { co; idx }
          | "PTS" ->
            let n = int_of_string toks.(2) in
            Hashtbl.replace points toks.(1) (Array.init (3 * n) (fun i -> dyadic_of_token toks.(3 + i)))
          | "DROP" -> Array.iteri (fun i t -> if i > 0 then (Hashtbl.remove meshes t; Hashtbl.remove points t)) toks
          | "WIND" ->
            let id = toks.(1) in
            let pts = Hashtbl.find points toks.(2) in
            let names = Array.to_list (Array.sub toks 3 (Array.length toks - 3)) in
            let ms = List.map (fun n -> (n, Hashtbl.find meshes n)) names in
            let k = List.fold_left (fun acc (_, m) -> max acc (- (min_exp m.co))) (max 0 (- (min_exp pts))) ms in
            let np = Array.length pts / 3 in
            let zp = Array.init np (fun i -> pt_of pts k i) in
            List.iter (fun (n, m) ->
                let tl = tris_of m k in
                Buffer.clear buf;
                Buffer.add_string buf (Printf.sprintf "W %s %s %d" id n k);
                Array.iter (fun p -> Buffer.add_string buf (Printf.sprintf " %d" (int_of_z (winding_fast tl p)))) zp;
                print_endline (Buffer.contents buf)) ms
          | "VOL" ->
            let m = Hashtbl.find meshes toks.(2) in
            let k = max 0 (- (min_exp m.co)) in
            Printf.printf "V %s %s %d %s\n" toks.(1) toks.(2) k (hex_of_z (volume6 (tris_of m k)))
          | "LAT" ->
            let id = toks.(1) and n = int_of_string toks.(2) in
            let m = Hashtbl.find meshes toks.(3) in
            let e = parse_prog toks 4 in
            let k = max 1 (- (min_exp m.co)) in
            let h = z_shl (z_of_int 1) (k - 1) in
            let ((bad, cnt), vol) = lattice_check e (tris_of m k) (nat_of_int n) h in
            Printf.printf "L %s %d %d %d %s %d\n" id k (int_of_z bad) (int_of_z cnt) (hex_of_z vol) (if csg_wf e then 1 else 0)
          | "LATS" ->   (* LATS <id> <n> <shift> <mesh> <program>: the mesh is translated by (shift,shift,shift) first *)
            let id = toks.(1) and n = int_of_string toks.(2) and sh = int_of_string toks.(3) in
            let m = Hashtbl.find meshes toks.(4) in
            let e = parse_prog toks 5 in
            let k = max 1 (- (min_exp m.co)) in
            let h = z_shl (z_of_int 1) (k - 1) in
            let off = z_shl (z_of_int sh) k in
            let sp ((x, y), z) = ((Z.add x off, Z.add y off), Z.add z off) in
            let tl = List.map (fun ((a, b), c) -> ((sp a, sp b), sp c)) (tris_of m k) in
            let ((bad, cnt), vol) = lattice_check e tl (nat_of_int n) h in
            Printf.printf "L %s %d %d %d %s %d\n" id k (int_of_z bad) (int_of_z cnt) (hex_of_z vol) (if csg_wf e then 1 else 0)
          | "LATW" ->
            let id = toks.(1) and n = int_of_string toks.(2) in
            let m = Hashtbl.find meshes toks.(3) in
            let k = max 1 (- (min_exp m.co)) in
            let tl = tris_of m k in
            Buffer.clear buf;
            Buffer.add_string buf (Printf.sprintf "LW %s" id);
            for i = 0 to n - 1 do for j = 0 to n - 1 do for l = 0 to n - 1 do
              let c a = z_shl (z_of_int (2 * a + 1)) (k - 1) in
              Buffer.add_string buf (Printf.sprintf " %d" (int_of_z (winding_fast tl ((c i, c j), c l))))
            done done done;
            print_endline (Buffer.contents buf)
          | _ -> ()
        with
        | Nonfinite -> Printf.printf "E %s nonfinite\n" (if Array.length toks > 1 then toks.(1) else "?")
        | Not_found -> Printf.printf "E %s unknown-name\n" (if Array.length toks > 1 then toks.(1) else "?")
        | Failure s -> Printf.printf "E %s failure:%s\n" (if Array.length toks > 1 then toks.(1) else "?") s
        | Invalid_argument s -> Printf.printf "E %s invalid:%s\n" (if Array.length toks > 1 then toks.(1) else "?") s
      end
    done
  with End_of_file -> ()
