(* prelude for the pure extraction: Z is the extracted inductive type *)
module M = C07_rc_model
let flavour = "pure"
let z_of_hex (s : string) : M.z =
  let neg = String.length s > 0 && s.[0] = '-' in
  let s = if neg then String.sub s 1 (String.length s - 1) else s in
  let p = ref None in
  String.iter (fun ch ->
    let d = if ch >= '0' && ch <= '9' then Char.code ch - 48 else if ch >= 'a' && ch <= 'f' then Char.code ch - 87 else failwith "hex" in
    for b = 3 downto 0 do
      let bit = (d lsr b) land 1 = 1 in
      p := (match !p with
            | None -> if bit then Some M.XH else None
            | Some q -> Some (if bit then M.XI q else M.XO q))
    done) s;
  match !p with None -> M.Z0 | Some q -> if neg then M.Zneg q else M.Zpos q
let rec int_of_pos = function M.XH -> 1 | M.XO p -> 2 * int_of_pos p | M.XI p -> 2 * int_of_pos p + 1
let int_of_z = function M.Z0 -> 0 | M.Zpos p -> int_of_pos p | M.Zneg p -> - (int_of_pos p)
