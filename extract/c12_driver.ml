(* Driver for the extracted C12 models and checkers.  One command per line on
   stdin; coordinates and thresholds are integers written in hexadecimal with
   an optional leading '-' (arbitrary size); counts are decimal.
   RING = n x y ...   RINGS = k RING ...   PTS = n x y ...
   SIMP id tn td RING             model SimplifyRing, tol^2 = tn/td
   SCHK id tn td RING RING        subsequence + deviation test on a library output ring
   HULL id PTS                    model HullImpl
   HCHK id PTS PTS                hull2_check on a library output
   DECO id RINGS                  model DecomposeByContainment
   DCHK id RINGS nc RINGS ... PTS decomp_check (whole, components, samples)
   RINS id RINGS                  matrix of the ported RingInside (bbox_inside && all vertices in the closed ring)
   OCHK id grow round Tin Tout R RINGS RINGS PTS   offset_check, first failing sample
   MONO id Rs Ts RINGS RINGS PTS
   REG  id Ts RINGS *)
open C12_model

let rec pos_of_bits (s : string) (i : int) (acc : positive option) : positive option =
  (* s: binary digits, most significant first *)
  if i >= String.length s then acc
  else
    let b = s.[i] = '1' in
    let acc' = match acc with
      | None -> if b then Some XH else None
      | Some p -> Some (if b then XI p else XO p) in
    pos_of_bits s (i + 1) acc'

let bits_of_hex (h : string) : string =
  let b = Buffer.create (4 * String.length h) in
  String.iter (fun c ->
    let v = match c with
      | '0'..'9' -> Char.code c - 48
      | 'a'..'f' -> Char.code c - 87
      | 'A'..'F' -> Char.code c - 55
      | _ -> failwith "hex" in
    for k = 3 downto 0 do Buffer.add_char b (if (v lsr k) land 1 = 1 then '1' else '0') done) h;
  Buffer.contents b

let z_of_hex (s : string) : z =
  let neg = String.length s > 0 && s.[0] = '-' in
  let h = if neg then String.sub s 1 (String.length s - 1) else s in
  match pos_of_bits (bits_of_hex h) 0 None with
  | None -> Z0
  | Some p -> if neg then Zneg p else Zpos p

let rec bits_of_pos p acc = match p with
  | XH -> "1" ^ acc
  | XO q -> bits_of_pos q ("0" ^ acc)
  | XI q -> bits_of_pos q ("1" ^ acc)

let hex_of_bits (b : string) : string =
  let n = String.length b in
  let pad = (4 - n mod 4) mod 4 in
  let b = String.make pad '0' ^ b in
  let out = Buffer.create 16 in
  let i = ref 0 in
  while !i < String.length b do
    let v = ref 0 in
    for k = 0 to 3 do v := !v * 2 + (if b.[!i + k] = '1' then 1 else 0) done;
    Buffer.add_char out "0123456789abcdef".[!v];
    i := !i + 4
  done;
  Buffer.contents out

let hex_of_z = function
  | Z0 -> "0"
  | Zpos p -> hex_of_bits (bits_of_pos p "")
  | Zneg p -> "-" ^ hex_of_bits (bits_of_pos p "")

let rec pos_of_int n = if n = 1 then XH else if n land 1 = 0 then XO (pos_of_int (n lsr 1)) else XI (pos_of_int (n lsr 1))
let z_of_int n = if n = 0 then Z0 else if n > 0 then Zpos (pos_of_int n) else Zneg (pos_of_int (-n))
let rec int_of_pos = function XH -> 1 | XO p -> 2 * int_of_pos p | XI p -> 2 * int_of_pos p + 1
let int_of_z = function Z0 -> 0 | Zpos p -> int_of_pos p | Zneg p -> - (int_of_pos p)

(* token stream *)
let toks = ref [||]
let pos = ref 0
let next () = let t = !toks.(!pos) in incr pos; t
let next_int () = int_of_string (next ())
let next_z () = z_of_hex (next ())
let next_pt () = let x = next_z () in let y = next_z () in (x, y)
let next_ring () = let n = next_int () in List.init n (fun _ -> next_pt ())
let next_rings () = let k = next_int () in List.init k (fun _ -> next_ring ())
let next_pts () = next_ring ()

let pring b r =
  Buffer.add_string b (Printf.sprintf " %d" (List.length r));
  List.iter (fun (x, y) -> Buffer.add_string b (" " ^ hex_of_z x ^ " " ^ hex_of_z y)) r

let qpos z = match z with Zpos p -> p | _ -> XH

let () =
  try
    while true do
      let line = input_line stdin in
      toks := Array.of_list (List.filter (fun s -> s <> "") (String.split_on_char ' ' line));
      pos := 0;
      if Array.length !toks = 0 then ()
      else begin
        let cmd = next () in
        let id = next () in
        let b = Buffer.create 256 in
        (match cmd with
         | "SIMP" ->
           let tn = next_z () in let td = next_z () in
           let ring = next_ring () in
           (match simplify_ring ring { qnum = tn; qden = qpos td } with
            | None -> Buffer.add_string b (Printf.sprintf "SIMP %s NONE" id)
            | Some out -> Buffer.add_string b (Printf.sprintf "SIMP %s" id); pring b out)
         | "SCHK" ->
           let tn = next_z () in let td = next_z () in
           let rin = next_ring () in let rout = next_ring () in
           Buffer.add_string b (Printf.sprintf "SCHK %s %d %d" id
             (if subseq_b rout rin then 1 else 0) (if ring_dev_ok tn (qpos td) rout then 1 else 0))
         | "HULL" ->
           let pts = next_pts () in
           Buffer.add_string b (Printf.sprintf "HULL %s" id); pring b (hull2 pts)
         | "HCHK" ->
           let pts = next_pts () in let h = next_pts () in
           Buffer.add_string b (Printf.sprintf "HCHK %s %d" id (if hull2_check pts h then 1 else 0))
         | "DECO" ->
           let rings = Array.of_list (next_rings ()) in
           let n = Array.length rings in
           let ins = Array.init n (fun i -> Array.init n (fun j -> if i = j then false else ring_inside rings.(i) rings.(j))) in
           let ar = Array.map area2_contour rings in
           let inside i j = let i = int_of_z i and j = int_of_z j in i >= 0 && i < n && j >= 0 && j < n && ins.(i).(j) in
           let area i = let i = int_of_z i in if i >= 0 && i < n then ar.(i) else Z0 in
           let comps = decompose (z_of_int n) inside area in
           Buffer.add_string b (Printf.sprintf "DECO %s %d" id (List.length comps));
           List.iter (fun c -> Buffer.add_string b (Printf.sprintf " %d" (List.length c));
                       List.iter (fun i -> Buffer.add_string b (Printf.sprintf " %d" (int_of_z i))) c) comps
         | "RINS" ->
           let rings = Array.of_list (next_rings ()) in
           let n = Array.length rings in
           Buffer.add_string b (Printf.sprintf "RINS %s %d" id n);
           for i = 0 to n - 1 do for j = 0 to n - 1 do
             Buffer.add_string b (if i <> j && ring_inside rings.(i) rings.(j) then " 1" else " 0") done done
         | "DCHK" ->
           let whole = next_rings () in
           let nc = next_int () in
           let comps = List.init nc (fun _ -> next_rings ()) in
           let samples = next_pts () in
           Buffer.add_string b (Printf.sprintf "DCHK %s %d" id (if decomp_check whole comps samples then 1 else 0))
         | "OCHK" ->
           let grow = next_int () = 1 in let round = next_int () = 1 in
           let tin = next_z () in let tout = next_z () in let r = next_z () in
           let inp = next_rings () in let out = next_rings () in
           let samples = next_pts () in
           let p = { o_grow = grow; o_round = round; o_Tin = tin; o_Tout = tout; o_R = r } in
           if not (params_ok p) then Buffer.add_string b (Printf.sprintf "OCHK %s BADPARAMS" id)
           else begin
             let ein = all_edges inp and eout = all_edges out in
             let bad = ref (-1) and k = ref 0 and judged = ref 0 and why = ref 0 in
             List.iter (fun s ->
               if !bad < 0 && not (sample_verdict p ein eout s) then begin
                 bad := !k;
                 let wo = int_of_z (wind_fast eout s) in
                 why := if wo <> 0 && wo <> 1 then 1 else if must_in p ein s && wo <> 1 then 2 else 3
               end;
               if must_in p ein s || must_out p ein s then incr judged;
               incr k) samples;
             Buffer.add_string b (Printf.sprintf "OCHK %s %d %d %d %d" id (if !bad < 0 then 1 else 0) !bad !judged !why)
           end
         | "MONO" ->
           let rs = next_z () in let ts = next_z () in
           let o1 = next_rings () in let o2 = next_rings () in
           let samples = next_pts () in
           Buffer.add_string b (Printf.sprintf "MONO %s %d" id (if mono_check rs ts o1 o2 samples then 1 else 0))
         | "REG" ->
           let ts = next_z () in
           let out = next_rings () in
           Buffer.add_string b (Printf.sprintf "REG %s %d" id (if regular_out_check ts out then 1 else 0))
         | _ -> Buffer.add_string b (Printf.sprintf "ERR %s unknown-command" id));
        print_endline (Buffer.contents b)
      end
    done
  with End_of_file -> ()
