(* Driver for the extracted C18 checkers.  Reads the output of
   harness/c18_measure (bit patterns + integers) on stdin, converts every double
   exactly to an integer after scaling all numbers of one check by a common
   power of two, runs the extracted Gallina checkers and prints verdict lines
     V <id> <check> <integers / booleans ...> [| approximate values for the log]
   Only the integers/booleans are used for decisions by checks/C18.py. *)
open C18_model

(* ---- integers ---------------------------------------------------------- *)
let rec pos_of_int n = if n = 1 then XH else if n land 1 = 0 then XO (pos_of_int (n lsr 1)) else XI (pos_of_int (n lsr 1))
let z_of_int n = if n = 0 then Z0 else if n > 0 then Zpos (pos_of_int n) else Zneg (pos_of_int (-n))
let rec int_of_pos = function XH -> 1 | XO p -> 2 * int_of_pos p | XI p -> 2 * int_of_pos p + 1
let int_of_z = function Z0 -> 0 | Zpos p -> int_of_pos p | Zneg p -> - (int_of_pos p)
let rec nat_of_int n = if n <= 0 then O else S (nat_of_int (n - 1))
let rec shl_pos p k = if k <= 0 then p else shl_pos (XO p) (k - 1)
let shl z k = match z with Z0 -> Z0 | Zpos p -> Zpos (shl_pos p k) | Zneg p -> Zneg (shl_pos p k)
let pow2 k = shl_pos XH k
let rec float_of_pos = function XH -> 1.0 | XO p -> 2.0 *. float_of_pos p | XI p -> 2.0 *. float_of_pos p +. 1.0
let float_of_z = function Z0 -> 0.0 | Zpos p -> float_of_pos p | Zneg p -> -. float_of_pos p
let float_of_q (x : q) = float_of_z x.qnum /. float_of_pos x.qden
let zmul = Z.mul and zadd = Z.add and zsub = Z.sub and zabs = Z.abs
let zcmp a b = match Z.compare a b with Eq -> 0 | Lt -> -1 | Gt -> 1
let zmax a b = if zcmp a b >= 0 then a else b

(* ---- doubles as dyadic rationals m * 2^e ------------------------------- *)
type dy = { m : int; e : int; fin : bool }
let dy_of_hex (s : string) : dy =
  let b = Int64.of_string ("0x" ^ s) in
  let sign = Int64.compare (Int64.shift_right_logical b 63) 0L <> 0 in
  let ex = Int64.to_int (Int64.logand (Int64.shift_right_logical b 52) 0x7ffL) in
  let fr = Int64.to_int (Int64.logand b 0xfffffffffffffL) in
  if ex = 0x7ff then { m = 0; e = 0; fin = false }
  else begin
    let m, e = if ex = 0 then fr, -1074 else fr lor (1 lsl 52), ex - 1075 in
    if m = 0 then { m = 0; e = 0; fin = true }
    else begin
      let m = ref m and e = ref e in
      while !m land 1 = 0 do m := !m lsr 1; incr e done;
      { m = (if sign then - !m else !m); e = !e; fin = true }
    end
  end
let float_of_hex s = Int64.float_of_bits (Int64.of_string ("0x" ^ s))
let emin_of (l : dy list) = List.fold_left (fun a d -> if d.m = 0 then a else min a d.e) max_int l
let zof emin d = if d.m = 0 then Z0 else shl (z_of_int d.m) (d.e - emin)
(* value * 2^(-unit_e) as a rational *)
let qof unit_e d : q =
  if d.m = 0 then { qnum = Z0; qden = XH }
  else if d.e >= unit_e then { qnum = shl (z_of_int d.m) (d.e - unit_e); qden = XH }
  else { qnum = z_of_int d.m; qden = pow2 (unit_e - d.e) }
let qz z : q = { qnum = z; qden = XH }
let qlt a b = not (qle_bool b a)
let qabs (a : q) : q = { qnum = zabs a.qnum; qden = a.qden }

(* ---- meshes ------------------------------------------------------------ *)
type mesh = { nv : int; nt : int; nprop : int; vd : dy array (* 3 nv *); ti : int array (* 3 nt, merged *) }
let parse_mesh (t : string array) (o : int) : mesh =
  let nv = int_of_string t.(o) and nt = int_of_string t.(o + 1) in
  let nprop = int_of_string t.(o + 2) and nm = int_of_string t.(o + 3) in
  let vd = Array.init (3 * nv) (fun i -> dy_of_hex t.(o + 4 + i)) in
  let ti = Array.init (3 * nt) (fun i -> int_of_string t.(o + 4 + 3 * nv + i)) in
  let mo = o + 4 + 3 * nv + 3 * nt in
  let mp = Array.init nv (fun i -> i) in
  for i = 0 to nm - 1 do mp.(int_of_string t.(mo + 2 * i)) <- int_of_string t.(mo + 2 * i + 1) done;
  { nv; nt; nprop; vd; ti = Array.map (fun i -> mp.(i)) ti }
let mesh_dys (m : mesh) = Array.to_list m.vd
let mesh_pts emin (m : mesh) = Array.init m.nv (fun i -> ((zof emin m.vd.(3 * i), zof emin m.vd.(3 * i + 1)), zof emin m.vd.(3 * i + 2)))
let mesh_tris emin (m : mesh) =
  let p = mesh_pts emin m in
  List.init m.nt (fun i -> ((p.(m.ti.(3 * i)), p.(m.ti.(3 * i + 1))), p.(m.ti.(3 * i + 2))))
let mesh_itris (m : mesh) =
  (* vertices that are referenced, renumbered densely *)
  let used = Array.make m.nv (-1) in
  let n = ref 0 in
  Array.iter (fun i -> if used.(i) < 0 then begin used.(i) <- !n; incr n end) m.ti;
  !n, List.init m.nt (fun i -> ((z_of_int used.(m.ti.(3 * i)), z_of_int used.(m.ti.(3 * i + 1))), z_of_int used.(m.ti.(3 * i + 2))))
let max_abs (pts : ((z * z) * z) list) =
  List.fold_left (fun a ((x, y), z) -> zmax a (zmax (zabs x) (zmax (zabs y) (zabs z)))) (z_of_int 1) pts
let tri_pts l = List.concat_map (fun ((a, b), c) -> [a; b; c]) l
let b2i b = if b then 1 else 0
let ptri p = ((p, p), p)

let rec shr_pos p k = if k <= 0 then p else (match p with XO q -> shr_pos q (k - 1) | XI q -> shr_pos q (k - 1) | XH -> XH)
let shr z k = match z with Z0 -> Z0 | Zpos p -> Zpos (shr_pos p k) | Zneg p -> Zneg (shr_pos p k)
let zle a b = zcmp a b <= 0
(* p is farther than r from the box of t along some axis (comparisons only) *)
let far_axis ((x, y), z) ((a, b) : ((z * z) * z) * ((z * z) * z)) r =
  let ((ax, ay), az) = a and ((bx, by), bz) = b in
  zle r (zsub ax x) || zle r (zsub x bx) || zle r (zsub ay y) || zle r (zsub y by) || zle r (zsub az z) || zle r (zsub z bz)
let box_of_tri ((((ax, ay), az), ((bx, by), bz)), ((cx, cy), cz)) =
  let mn a b c = if zle a b then (if zle a c then a else c) else (if zle b c then b else c)
  and mx a b c = if zle b a then (if zle c a then a else c) else (if zle c b then b else c) in
  (((mn ax bx cx, mn ay by cy), mn az bz cz), ((mx ax bx cx, mx ay by cy), mx az bz cz))
(* generic-position filter (not a verdict): is p within r of the plane of a
   triangle whose box inflated by r contains p?  Conservative: may say "near"
   for far points, never "far" for points within r of the surface. *)
let near3 p (tb : (_ * _) list) r =
  let r2 = zmul r r in
  List.exists (fun (((a, b), c), bx) ->
      (not (far_axis p bx r)) &&
      (let o = o3 a b c p in
       let n = cross (psub b a) (psub c a) in
       zle (zmul o o) (zmul r2 (norm2 n)))) tb
(* same in the xy-plane against segments (a,b) *)
let near2 p (eb : (_ * _) list) r =
  let r2 = zmul r r in
  List.exists (fun ((a, b), bx) ->
      (not (far_axis p bx r)) &&
      (let o = orient2 a b p in
       let d = psub b a in
       zle (zmul o o) (zmul r2 (norm2 d)))) eb
(* verdict: exact squared distance from p to the surface is < tol2 (Some true),
   not (Some false); None = certificate failure *)
let on_surface p (tb : (_ * _) list) t tol2 =
  let res = ref (Some false) in
  List.iter (fun (tr, bx) ->
      if !res = Some false && not (far_axis p bx t) then
        (match pt_tri_dist2 p tr with None -> res := None | Some d -> if qlt d tol2 then res := Some true)) tb;
  !res

let () =
  let mM = ref None and mN = ref None in
  let parts = ref [] and nparts_rep = ref (-1) in
  let slice_z = ref None in
  let tol_m = ref { m = 0; e = 0; fin = true } in
  (* generic-position radius: max(scale/2^20, 10 * GetTolerance()) in units of 2^emin (rounded up) *)
  let radius emin s =
    let d = !tol_m in
    let t10 = if d.m = 0 || not d.fin then Z0 else (let k = d.e - emin in
      if k >= 0 then shl (z_of_int (10 * d.m)) k else zadd (shr (z_of_int (10 * d.m)) (-k)) (z_of_int 1)) in
    zmax (zmax (shr s 20) (z_of_int 1)) t10 in
  let get r = match !r with Some x -> x | None -> failwith "no mesh" in
  try
    while true do
      let line = input_line stdin in
      let t = Array.of_list (List.filter (fun s -> s <> "") (String.split_on_char ' ' line)) in
      if Array.length t >= 2 then begin
        let id = t.(1) in
        (try match t.(0) with
        | "M" -> mM := Some (parse_mesh t 2); parts := []; nparts_rep := -1
        | "N" -> mN := Some (parse_mesh t 2)
        | "Q" ->
          let m = get mM in
          let vol = dy_of_hex t.(2) and area = dy_of_hex t.(3) in
          tol_m := dy_of_hex t.(Array.length t - 1);
          let bb = List.init 6 (fun i -> dy_of_hex t.(4 + i)) in
          let emin = emin_of (mesh_dys m @ bb) in
          let emin = if emin = max_int then 0 else emin in
          let tris = mesh_tris emin m in
          let rep_up d pw mult =
            let k = d.e - pw * emin in
            if d.m = 0 then Z0, Zpos XH
            else if k >= 0 then shl (z_of_int (mult * d.m)) k, Zpos XH else z_of_int (mult * d.m), Zpos (pow2 (-k)) in
          let vr, vu = rep_up vol 3 6 and ar, au = rep_up area 2 2 in
          let volok = vol.fin && vol_check tris vr vu and areaok = area.fin && area_check tris ar au in
          let bz = List.map (zof emin) bb in
          let bbok = List.for_all (fun d -> d.fin) bb &&
                     (match bz with [a; b; c; d; e; f] -> bbox_check (Array.to_list (mesh_pts emin m)) ((a, b), c) ((d, e), f) | _ -> false) in
          let nvu, _ = mesh_itris m in
          Printf.printf "V %s meas %d %d %d %d %d %d %d | vol6=%g\n" id (b2i volok) (b2i areaok) (b2i (bbok || m.nv = 0)) m.nv m.nt m.nprop nvu
            (float_of_z (volume6 tris) *. (2.0 ** float_of_int (3 * emin)))
        | "G" ->
          let a = get mM and b = get mN in
          let n = int_of_string t.(2) in
          let ls = List.init n (fun i -> dy_of_hex t.(3 + 3 * i), dy_of_hex t.(4 + 3 * i), dy_of_hex t.(5 + 3 * i)) in
          let emin = emin_of (mesh_dys a @ mesh_dys b) in
          let ta = mesh_tris emin a and tb = mesh_tris emin b in
          let s = zmax (max_abs (tri_pts ta)) (max_abs (tri_pts tb)) in
          let lq = List.map (fun (l, _, _) -> qof emin l) ls in
          let lmax = List.fold_left (fun acc l -> if qle_bool acc l then l else acc) (qz Z0) lq in
          let ub = qmult lmax lmax in
          (* solids intersect when a vertex of one has non-zero winding w.r.t. the other (strictly inside, or on its
             surface = touching): the expected answer is then 0 and the brute-force distance is not needed *)
          let pa_ = Array.to_list (mesh_pts emin a) and pb_ = Array.to_list (mesh_pts emin b) in
          let inside0 = List.exists (fun p -> zcmp (winding_fast tb p) Z0 <> 0) pa_ || List.exists (fun p -> zcmp (winding_fast ta p) Z0 <> 0) pb_ in
          (* the smallest vertex-vertex distance is an attained upper bound: start the pruned search from it *)
          let vv = List.fold_left (fun acc p -> List.fold_left (fun acc q ->
              let ((x, y), z) = p and ((u, v), w) = q in
              let dx = zsub x u and dy = zsub y v and dz = zsub z w in
              let d = zadd (zmul dx dx) (zadd (zmul dy dy) (zmul dz dz)) in
              match acc with None -> Some d | Some m -> if zcmp d m < 0 then Some d else acc) acc pb_) None pa_ in
          let ub = match vv with Some d when qle_bool (qz d) ub -> qz d | _ -> ub in
          (match (if inside0 then Some (qz (z_of_int 1)) else mingap2 ta tb ub) with
           | None -> Printf.printf "V %s gap CERTFAIL\n" id
           | Some r ->
             let r = qred r in
             let zero = (not inside0) && qle_bool r (qz Z0) in
             let inside = inside0 in
             List.iteri (fun i (l, g1, g2) ->
                 let lz = qof emin l in
                 let l2 = qmult lz lz in
                 let expd = if zero || inside then qz Z0 else if qle_bool l2 r then l2 else r in
                 let sl = qplus (qz s) lz in
                 let tol = qmult (qmult sl sl) { qnum = Zpos XH; qden = pow2 40 } in
                 let ok g = g.fin && (let gq = qof emin g in qle_bool (qabs (qminus (qmult gq gq) expd)) tol) in
                 Printf.printf "V %s gap %d %d %d %d %d | L=%g got=%g,%g exact=%g\n" id i (b2i (ok g1)) (b2i (ok g2)) (b2i inside) (b2i zero)
                   (float_of_hex t.(3 + 3 * i)) (float_of_hex t.(4 + 3 * i)) (float_of_hex t.(5 + 3 * i))
                   (sqrt (float_of_q expd) *. (2.0 ** float_of_int emin))) ls)
        | "R" ->
          let m = get mM in
          let od = List.init 6 (fun i -> dy_of_hex t.(2 + i)) in
          let nh = int_of_string t.(8) in
          let hits = List.init nh (fun i -> (float_of_hex t.(9 + 5 * i), List.init 3 (fun k -> dy_of_hex t.(10 + 5 * i + k)))) in
          let tds = List.init nh (fun i -> dy_of_hex t.(9 + 5 * i)) in
          let tpar = ref true in
          let p3 emin l = match List.map (zof emin) l with [a; b; c] -> ((a, b), c) | _ -> failwith "p3" in
          let emin = emin_of (mesh_dys m @ od) in
          let tris = mesh_tris emin m in
          let o = p3 emin [List.nth od 0; List.nth od 1; List.nth od 2] and e = p3 emin [List.nth od 3; List.nth od 4; List.nth od 5] in
          let (cr, dg) = seg_crossings o e tris in
          (* generic position also means: ends not within r of the surface, segment not within r of any edge
             whose triangle box (inflated by r) meets the segment box *)
          let s0 = zmax (max_abs (tri_pts tris)) (max_abs [o; e]) in
          let r = radius emin s0 in
          let tb0 = List.map (fun x -> (x, box_of_tri x)) tris in
          let sbox = box_of_tri ((o, e), e) in
          let ((slx, sly), slz), ((shx, shy), shz) = sbox in
          let dseg = psub e o in
          let r2 = zmul r r in
          let near_edge = List.exists (fun (((a, b), c), (((lx, ly), lz), ((hx, hy), hz))) ->
              let apart = zle (zadd shx r) lx || zle (zadd hx r) slx || zle (zadd shy r) ly || zle (zadd hy r) sly
                          || zle (zadd shz r) lz || zle (zadd hz r) slz in
              (not apart) &&
              List.exists (fun (u, v) ->
                  let w = o3 o e u v in
                  let cr_ = cross dseg (psub v u) in
                  zle (zmul w w) (zmul r2 (norm2 cr_))) [(a, b); (b, c); (c, a)]) tb0 in
          let dg = if near_edge || near3 o tb0 r || near3 e tb0 r then zadd dg (z_of_int 1) else dg in
          let wo = winding_fast tris o and we = winding_fast tris e in
          let sorted = ref true and prev = ref neg_infinity in
          List.iter (fun (d, _) -> if not (d >= !prev && d >= 0.0 && d <= 1.0) then sorted := false; prev := d) hits;
          let onsurf = ref true and onseg = ref true and cert = ref true in
          List.iteri (fun hi (_, pd) ->
              if List.for_all (fun d -> d.fin) pd then begin
                let em = min emin (emin_of pd) in
                let tr = mesh_tris em m in
                let tb = List.map (fun x -> (x, box_of_tri x)) tr in
                let p = p3 em pd and o = p3 em [List.nth od 0; List.nth od 1; List.nth od 2] and e = p3 em [List.nth od 3; List.nth od 4; List.nth od 5] in
                let s = zmax (max_abs (tri_pts tr)) (max_abs [o; e]) in
                let tl = zmax (shr s 36) (z_of_int 1) in
                let tol2 = qz (zmul tl tl) in
                (match on_surface p tb tl tol2 with None -> cert := false | Some b -> if not b then onsurf := false);
                (match pt_tri_dist2 p ((o, e), e) with None -> cert := false | Some d -> if not (qlt d tol2) then onseg := false);
                (* the reported parameter: | o + t (e - o) - p |^2 < tol^2, exactly (t is a dyadic rational) *)
                let td = List.nth tds hi in
                if not td.fin then tpar := false
                else begin
                  let tq = qof 0 td in
                  let comp f = let ov = qz (f o) and ev = qz (f e) and pv = qz (f p) in
                    let dq = qminus (qplus ov (qmult tq (qminus ev ov))) pv in qmult dq dq in
                  let d2 = qplus (comp (fun ((x, _), _) -> x)) (qplus (comp (fun ((_, y), _) -> y)) (comp (fun ((_, _), z) -> z))) in
                  if not (qlt d2 tol2) then tpar := false
                end
              end else onsurf := false) hits;
          if not !cert then Printf.printf "V %s ray CERTFAIL\n" id
          else Printf.printf "V %s ray %d %d %d %d %d %d %d %d %d\n" id nh (int_of_z cr) (int_of_z dg) (int_of_z wo) (int_of_z we)
              (b2i !sorted) (b2i !onsurf) (b2i !onseg) (b2i !tpar)
        | "W" ->
          let m = get mM in
          let pd = List.init 3 (fun i -> dy_of_hex t.(2 + i)) in
          let rep = int_of_string t.(5) in
          let emin = emin_of (mesh_dys m @ pd) in
          let tris = mesh_tris emin m in
          let p = match List.map (zof emin) pd with [a; b; c] -> ((a, b), c) | _ -> failwith "p" in
          let s = zmax (max_abs (tri_pts tris)) (max_abs [p]) in
          let r = radius emin s in
          let tb = List.map (fun x -> (x, box_of_tri x)) tris in
          Printf.printf "V %s wind %d %d %d\n" id rep (int_of_z (winding_fast tris p)) (b2i (near3 p tb r))
        | "SZ" -> slice_z := Some (dy_of_hex t.(2))
        | "S" | "P" ->
          let m = get mM in
          let is_slice = t.(0) = "S" in
          let np = int_of_string t.(2) in
          let pos = ref 3 in
          let polys = List.init np (fun _ ->
              let n = int_of_string t.(!pos) in
              incr pos;
              List.init n (fun _ -> let x = dy_of_hex t.(!pos) and y = dy_of_hex t.(!pos + 1) in pos := !pos + 2; (x, y))) in
          let zd = if is_slice then (match !slice_z with Some z -> z | None -> failwith "no z") else { m = 0; e = 0; fin = true } in
          let emin = emin_of (mesh_dys m @ [zd]) - 8 in
          let pe = min emin (emin_of (List.concat_map (fun p -> List.concat_map (fun (x, y) -> [x; y]) p) polys)) in
          let tris = mesh_tris emin m in
          let pts = tri_pts tris in
          if pts = [] then Printf.printf "V %s %s 0 %d 0 1 0\n" id (if is_slice then "slice" else "proj") (if np = 0 then 0 else 1) else
          let zpolys = List.map (List.map (fun (x, y) -> ((zof pe x, zof pe y), Z0))) polys in
          let z = zof emin zd in
          let generic = not (List.exists (fun ((_, _), vz) -> zcmp vz z = 0) pts) in
          let lo f = List.fold_left (fun a p -> if zcmp (f p) a < 0 then f p else a) (f (List.hd pts)) pts
          and hi f = List.fold_left (fun a p -> if zcmp (f p) a > 0 then f p else a) (f (List.hd pts)) pts in
          let fx ((x, _), _) = x and fy ((_, y), _) = y in
          let lx = lo fx and hx = hi fx and ly = lo fy and hy = hi fy in
          let s = max_abs pts in
          let r = radius emin s in
          let tb = List.map (fun x -> (x, box_of_tri x)) tris in
          let flat ((x, y), _) = ((x, y), Z0) in
          let eb = if is_slice then [] else List.concat_map (fun ((a, b), c) ->
              List.map (fun (u, v) -> let u = flat u and v = flat v in ((u, v), box_of_tri ((u, v), v))) [(a, b); (b, c); (c, a)]) tris in
          let nsamp = ref 0 and bad = ref 0 and skipped = ref 0 and inside_n = ref 0 in
          let div256 v k = zmul (shr v 8) (z_of_int k) in
          for i = 0 to 7 do for j = 0 to 7 do
              (* odd sixteenths of the bounding box + a skew, so that samples avoid axis-aligned and diagonal features;
                 exact because the scale has 8 spare bits *)
              let kx = 16 * (2 * i + 1) + j and ky = 16 * (2 * j + 1) + 3 * i - 7 in
              let x = zadd lx (div256 (zsub hx lx) kx) and y = zadd ly (div256 (zsub hy ly) ky) in
              let xp = shl x (emin - pe) and yp = shl y (emin - pe) in
              incr nsamp;
              if is_slice then begin
                let p = ((x, y), z) in
                if near3 p tb r then incr skipped
                else begin
                  let w2 = polys_wind zpolys ((xp, yp), Z0) and w3 = winding_fast tris p in
                  if zcmp w3 Z0 <> 0 then incr inside_n;
                  if zcmp w2 w3 <> 0 then incr bad
                end
              end else begin
                let p = ((x, y), Z0) in
                if near2 p eb r then incr skipped
                else begin
                  let w2 = polys_wind zpolys ((xp, yp), Z0) and sh = shadow_count tris p in
                  if zcmp sh Z0 <> 0 then incr inside_n;
                  if (zcmp w2 Z0 > 0) <> (zcmp sh Z0 <> 0) then incr bad
                end
              end
            done done;
          Printf.printf "V %s %s %d %d %d %d %d\n" id (if is_slice then "slice" else "proj") !nsamp !bad !skipped (b2i generic) !inside_n
        | "D" -> nparts_rep := int_of_string t.(2); parts := []
        | "DM" -> parts := parse_mesh t 2 :: !parts
        | "END" ->
          if !nparts_rep >= 0 then begin
            let m = get mM in
            let ps = List.rev !parts in
            let emin = emin_of (mesh_dys m @ List.concat_map mesh_dys ps) in
            let emin = if emin = max_int then 0 else emin in
            let nvu, it = mesh_itris m in
            let nexp = List.length (decompose (nat_of_int nvu) it) in
            let closed = List.for_all (fun p -> let n, it = mesh_itris p in n = p.nv && check_mesh (z_of_int n) it) ps in
            let conn = List.for_all (fun p -> let n, it = mesh_itris p in List.length (decompose (nat_of_int n) it) = 1) ps in
            let vsum = List.fold_left (fun a p -> zadd a (volume6 (mesh_tris emin p))) Z0 ps in
            let tsum = List.fold_left (fun a p -> a + p.nt) 0 ps in
            Printf.printf "V %s decomp %d %d %d %d %d %d\n" id !nparts_rep nexp (b2i closed) (b2i conn)
              (b2i (zcmp vsum (volume6 (mesh_tris emin m)) = 0)) (b2i (tsum = m.nt));
            nparts_rep := -1
          end;
          Printf.printf "V %s end\n" id
        | "T" ->
          let c = List.init 18 (fun i -> dy_of_hex t.(2 + i)) in
          let rep = dy_of_hex t.(20) in
          let emin = emin_of c in
          let emin = if emin = max_int then 0 else emin in
          let z = Array.of_list (List.map (zof emin) c) in
          let p i = ((z.(3 * i), z.(3 * i + 1)), z.(3 * i + 2)) in
          let t1 = ((p 0, p 1), p 2) and t2 = ((p 3, p 4), p 5) in
          let s = max_abs [p 0; p 1; p 2; p 3; p 4; p 5] in
          (match tri_dist2 (qtri_of t1) (qtri_of t2) with
           | None -> Printf.printf "V %s tritri CERTFAIL\n" id
           | Some (d, _) ->
             let rq = qof (2 * emin) rep in
             let tol = qplus { qnum = zmul s s; qden = pow2 40 } (qmult d { qnum = Zpos XH; qden = pow2 30 }) in
             Printf.printf "V %s tritri %d %d | got=%g exact=%g\n" id (b2i (rep.fin && qle_bool (qabs (qminus rq d)) tol)) (b2i (qle_bool d (qz Z0)))
               (float_of_hex t.(20)) (float_of_q d *. (2.0 ** float_of_int (2 * emin))))
        | _ -> ()
        with Failure msg -> Printf.printf "V %s error %s %s\n" id t.(0) msg
           | Invalid_argument msg -> Printf.printf "V %s error %s %s\n" id t.(0) msg
           | Not_found -> Printf.printf "V %s error %s notfound\n" id t.(0))
      end
    done
  with End_of_file -> ()
