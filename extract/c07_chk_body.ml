(* Driver for the extracted related_check checker (C07); prepended with one of the
   two preludes.  One command per line, integers in (signed) hex unless noted:
     RESET
     SRC sid(dec) n(dec) nchan(dec) nfid(dec)  [9 positions + 3*nchan props per triangle]*n  [faceIDs (dec)]*nfid
     FACE fid(dec) sid(dec) mode(dec: 0 user id, 1 coplanar) f(dec) st w T*12        -> F fid count
     TRI tid(str) fid(dec) tol ws kn kd one cp(dec) q*9 nout(dec) g0*nout g1*nout g2*nout   -> V tid code *)
let toks = ref [||]
let pos = ref 0
let next () = let v = !toks.(!pos) in incr pos; v
let nz () = z_of_hex (next ())
let ni () = int_of_string (next ())
let v3 () = let x = nz () in let y = nz () in let z = nz () in { M.vx = x; M.vy = y; M.vz = z }

let z_of_int n = z_of_hex (if n < 0 then "-" ^ Printf.sprintf "%x" (-n) else Printf.sprintf "%x" n)
let srcs = Hashtbl.create 16      (* sid -> (triangles, faceIDs) *)
let faces : (int, M.pTri list) Hashtbl.t = Hashtbl.create 64

let () =
  try
    while true do
      let line = input_line stdin in
      toks := Array.of_list (List.filter (fun s -> s <> "") (String.split_on_char ' ' line));
      pos := 0;
      if Array.length !toks > 0 then begin
        let cmd = next () in
        (try
          if cmd = "RESET" then (Hashtbl.reset srcs; Hashtbl.reset faces)
          else if cmd = "SRC" then begin
            let sid = ni () in let n = ni () in let nchan = ni () in let nfid = ni () in
            let tris = Array.init n (fun _ ->
              let p0 = v3 () in let p1 = v3 () in let p2 = v3 () in
              let props = List.init nchan (fun _ -> let a = nz () in let b = nz () in let c = nz () in ((a, b), c)) in
              (((p0, p1), p2), props)) in
            let fids = List.init nfid (fun _ -> z_of_int (ni ())) in
            Hashtbl.replace srcs sid (tris, fids)
          end else if cmd = "FACE" then begin
            let fid = ni () in let sid = ni () in let mode = ni () in let f = ni () in
            let st = nz () in let w = nz () in
            let c0 = v3 () in let c1 = v3 () in let c2 = v3 () in let c3 = v3 () in
            let t = { M.c0 = c0; M.c1 = c1; M.c2 = c2; M.c3 = c3 } in
            let (tris, fids) = Hashtbl.find srcs sid in
            let n = Array.length tris in
            let idx =
              if mode = 0 then List.map int_of_z (M.face_by_id fids (z_of_int f) (z_of_int 0))
              else if f < 0 || f >= n then []
              else begin
                let raw i = let (((p0, p1), p2), props) = tris.(i) in M.prep p0 p1 p2 props in
                let rf = raw f in
                let l = List.filter (fun i -> M.coplanar_b st rf (raw i)) (List.init n (fun i -> i)) in
                if List.mem f l then f :: List.filter (fun i -> i <> f) l else l
              end in
            let ss = List.map (fun i -> M.prep_x t w tris.(i)) idx in
            Hashtbl.replace faces fid ss;
            Printf.printf "F %d %d\n" fid (List.length ss)
          end else if cmd = "TRI" then begin
            let tid = next () in let fid = ni () in
            let tol = nz () in let ws = nz () in let kn = nz () in let kd = nz () in let one = nz () in
            let cp = ni () <> 0 in
            let q0 = v3 () in let q1 = v3 () in let q2 = v3 () in
            let nout = ni () in
            let g0 = List.init nout (fun _ -> nz ()) in
            let g1 = List.init nout (fun _ -> nz ()) in
            let g2 = List.init nout (fun _ -> nz ()) in
            let s = try Hashtbl.find faces fid with Not_found -> [] in
            let code = M.check_triangle tol ws kn kd one cp s q0 q1 q2 g0 g1 g2 in
            Printf.printf "V %s %d\n" tid (int_of_z code)
          end else Printf.printf "ERR unknown %s\n" cmd
        with e -> Printf.printf "ERR %s %s\n" cmd (Printexc.to_string e))
      end
    done
  with End_of_file -> ()
