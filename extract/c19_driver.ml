(* Driver for the extracted Partition model and tiling checker (C19).
   stdin:  P a b c d            -> same line format as harness/c19_partition.cpp
           R a b c d t0..t3 e0..e3 f0..f3 io -> Reindex
           O a b c d ... (a P line printed by the harness, with tag O) -> tiles_ok_float verdict on the implementation's arrays *)
open C19_model

let rec pos_of_int n = if n = 1 then XH else if n land 1 = 0 then XO (pos_of_int (n lsr 1)) else XI (pos_of_int (n lsr 1))
let z_of_int n = if n = 0 then Z0 else if n > 0 then Zpos (pos_of_int n) else Zneg (pos_of_int (-n))
let rec int_of_pos = function XH -> 1 | XO p -> 2 * int_of_pos p | XI p -> 2 * int_of_pos p + 1
let int_of_z = function Z0 -> 0 | Zpos p -> int_of_pos p | Zneg p -> - (int_of_pos p)
let rec int_of_nat = function O -> 0 | S n -> 1 + int_of_nat n
let v4z a b c d = { c0 = z_of_int a; c1 = z_of_int b; c2 = z_of_int c; c3 = z_of_int d }
let bits (f : float) = Int64.bits_of_float f

let print_partition tag a b c d (p : Float64.t partition) =
  let buf = Buffer.create 4096 in
  Buffer.add_string buf (Printf.sprintf "%s %d %d %d %d" tag a b c d);
  let ix = p.p_idx in
  Buffer.add_string buf (Printf.sprintf " I %d %d %d %d" (int_of_nat ix.c0) (int_of_nat ix.c1) (int_of_nat ix.c2) (int_of_nat ix.c3));
  let s = p.p_sorted in
  Buffer.add_string buf (Printf.sprintf " S %d %d %d %d" (int_of_z s.c0) (int_of_z s.c1) (int_of_z s.c2) (int_of_z s.c3));
  Buffer.add_string buf (Printf.sprintf " V %d T %d TV" (List.length p.p_vb) (List.length p.p_tv));
  List.iter (fun ((x, y), z) -> Buffer.add_string buf (Printf.sprintf " %d %d %d" (int_of_z x) (int_of_z y) (int_of_z z))) p.p_tv;
  Buffer.add_string buf " VB";
  List.iter (fun (v : Float64.t v4) ->
      List.iter (fun (x : Float64.t) -> Buffer.add_string buf (Printf.sprintf " %016Lx" (bits (Obj.magic x)))) [v.c0; v.c1; v.c2; v.c3]) p.p_vb;
  Buffer.add_string buf " C 1";
  print_endline (Buffer.contents buf)

let () =
  try
    while true do
      let line = input_line stdin in
      let toks = Array.of_list (List.filter (fun s -> s <> "") (String.split_on_char ' ' line)) in
      if Array.length toks = 0 then ()
      else if toks.(0) = "P" then begin
        let a = int_of_string toks.(1) and b = int_of_string toks.(2) and c = int_of_string toks.(3) and d = int_of_string toks.(4) in
        match get_partition_f (v4z a b c d) with
        | None -> Printf.printf "P %d %d %d %d UNDEFINED\n" a b c d
        | Some p -> print_partition "P" a b c d p
      end else if toks.(0) = "R" then begin
        let x = Array.map int_of_string (Array.sub toks 1 17) in
        let buf = Buffer.create 1024 in
        Buffer.add_string buf "R";
        Array.iter (fun v -> Buffer.add_string buf (Printf.sprintf " %d" v)) x;
        (match get_partition_f (v4z x.(0) x.(1) x.(2) x.(3)) with
         | None -> Buffer.add_string buf " UNDEFINED"
         | Some p ->
           let fwd = { c0 = x.(12) <> 0; c1 = x.(13) <> 0; c2 = x.(14) <> 0; c3 = x.(15) <> 0 } in
           match reindex_f p (v4z x.(4) x.(5) x.(6) x.(7)) (v4z x.(8) x.(9) x.(10) x.(11)) fwd (z_of_int x.(16)) with
           | None -> Buffer.add_string buf " UNDEFINED"
           | Some tv ->
             Buffer.add_string buf (Printf.sprintf " T %d TV" (List.length tv));
             List.iter (fun ((a, b), c) -> Buffer.add_string buf (Printf.sprintf " %d %d %d" (int_of_z a) (int_of_z b) (int_of_z c))) tv);
        print_endline (Buffer.contents buf)
      end else if toks.(0) = "S" && Array.length toks > 2 && toks.(2) = "NV" then begin
        (* S id NV nv T nt tris.. A ne (u v added).. [OUT ...]  -> the ported Subdivide on the same input *)
        let id = toks.(1) in
        let nv = int_of_string toks.(3) and nt = int_of_string toks.(5) in
        let t0 = 6 in
        let tris = List.init nt (fun i -> ((z_of_int (int_of_string toks.(t0 + 3 * i)), z_of_int (int_of_string toks.(t0 + 3 * i + 1))),
                                           z_of_int (int_of_string toks.(t0 + 3 * i + 2)))) in
        let a0 = t0 + 3 * nt in
        let ne = int_of_string toks.(a0 + 1) in
        let tbl = Hashtbl.create 64 in
        for i = 0 to ne - 1 do
          Hashtbl.replace tbl (int_of_string toks.(a0 + 2 + 3 * i), int_of_string toks.(a0 + 3 + 3 * i)) (int_of_string toks.(a0 + 4 + 3 * i))
        done;
        let added u v = match Hashtbl.find_opt tbl (int_of_z u, int_of_z v) with Some x -> z_of_int x | None -> Z0 in
        let buf = Buffer.create 4096 in
        Buffer.add_string buf (Printf.sprintf "S %s" id);
        (match subdivide_tris_f (z_of_int nv) tris added with
         | None -> Buffer.add_string buf " UNDEFINED"
         | Some out ->
           Buffer.add_string buf (Printf.sprintf " OUT %d" (List.length out));
           List.iter (fun ((a, b), c) -> Buffer.add_string buf (Printf.sprintf " %d %d %d" (int_of_z a) (int_of_z b) (int_of_z c))) out;
           (match subdivide_numvert_f (z_of_int nv) tris added with
            | Some n -> Buffer.add_string buf (Printf.sprintf " NV2 %d" (int_of_z n))
            | None -> Buffer.add_string buf " NV2 UNDEFINED");
           (match sub_parts_f (z_of_int nv) tris added with
            | Some ps ->
              let own = vert_owner_f (z_of_int nv) tris added ps in
              let n2 = match subdivide_numvert_f (z_of_int nv) tris added with Some n -> int_of_z n | None -> 0 in
              let arr = Array.make (max n2 1) (-9) in
              List.iter (fun (v, (t, _)) -> let vi = int_of_z v in if vi >= 0 && vi < n2 then arr.(vi) <- int_of_z t) own;
              Buffer.add_string buf " OWN";
              for v = 0 to n2 - 1 do Buffer.add_string buf (Printf.sprintf " %d" arr.(v)) done
            | None -> ()));
        print_endline (Buffer.contents buf)
      end else if toks.(0) = "O" then begin
        (* O a b c d I .. S s0 s1 s2 s3 V nv T nt TV ... VB ... C x *)
        let a = toks.(1) and b = toks.(2) and c = toks.(3) and d = toks.(4) in
        let s i = int_of_string toks.(11 + i) in
        let nv = int_of_string toks.(16) and nt = int_of_string toks.(18) in
        let tv0 = 20 in
        let tv = List.init nt (fun i -> ((z_of_int (int_of_string toks.(tv0 + 3 * i)), z_of_int (int_of_string toks.(tv0 + 3 * i + 1))),
                                         z_of_int (int_of_string toks.(tv0 + 3 * i + 2)))) in
        let vb0 = tv0 + 3 * nt + 1 in
        let fl i : Float64.t = Obj.magic (Int64.float_of_bits (Int64.of_string ("0x" ^ toks.(vb0 + i)))) in
        let vb = List.init nv (fun i -> { c0 = fl (4 * i); c1 = fl (4 * i + 1); c2 = fl (4 * i + 2); c3 = fl (4 * i + 3) }) in
        let ok = tiles_ok_float eps_float (v4z (s 0) (s 1) (s 2) (s 3)) vb tv in
        Printf.printf "O %s %s %s %s %d\n" a b c d (if ok then 1 else 0)
      end
    done
  with End_of_file -> ()
