(* Driver for the extracted collider model (C14). Reads cases on stdin:
   CASE id n m self kind  codes[n] boxes[6n] queries[(6|2)m]   -> model output lines
   CERT id n  children[2(n-1)] nodeboxes[6(2n-1)]                -> certificate verdict
   SPREAD                                                        -> spread_bits3 on 0..1023 *)
open C14_model

let rec pos_of_int n = if n = 1 then XH else if n land 1 = 0 then XO (pos_of_int (n lsr 1)) else XI (pos_of_int (n lsr 1))
let z_of_int n = if n = 0 then Z0 else if n > 0 then Zpos (pos_of_int n) else Zneg (pos_of_int (-n))
let rec int_of_pos = function XH -> 1 | XO p -> 2 * int_of_pos p | XI p -> 2 * int_of_pos p + 1
let int_of_z = function Z0 -> 0 | Zpos p -> int_of_pos p | Zneg p -> - (int_of_pos p)
let rec nat_of_int n = if n <= 0 then O else S (nat_of_int (n - 1))

let mkbox a o = { bminx = z_of_int a.(o); bminy = z_of_int a.(o+1); bminz = z_of_int a.(o+2);
                  bmaxx = z_of_int a.(o+3); bmaxy = z_of_int a.(o+4); bmaxz = z_of_int a.(o+5) }
let pbox b = Printf.sprintf "%d %d %d %d %d %d" (int_of_z b.bminx) (int_of_z b.bminy) (int_of_z b.bminz)
               (int_of_z b.bmaxx) (int_of_z b.bmaxy) (int_of_z b.bmaxz)

let k_init = ref 128
let k_mult = ref 4

let () =
  try
    while true do
      let line = input_line stdin in
      let toks = Array.of_list (List.filter (fun s -> s <> "") (String.split_on_char ' ' line)) in
      if Array.length toks = 0 then ()
      else if toks.(0) = "CONST" then begin
        (* kInitialLength / kLengthMultiple as read from src/collider.h by the check *)
        k_init := int_of_string toks.(1); k_mult := int_of_string toks.(2)
      end else if toks.(0) = "SPREAD" then begin
        let b = Buffer.create 8192 in
        Buffer.add_string b "SPREAD";
        for v = 0 to 1023 do Buffer.add_string b (Printf.sprintf " %d" (int_of_z (spread_bits3 (z_of_int v)))) done;
        print_endline (Buffer.contents b)
      end else if toks.(0) = "CASE" then begin
        let id = toks.(1) in
        let n = int_of_string toks.(2) and m = int_of_string toks.(3) in
        let self = toks.(4) = "1" and kind = int_of_string toks.(5) in
        let a = Array.map int_of_string (Array.sub toks 6 (Array.length toks - 6)) in
        let codes = Array.init n (fun i -> z_of_int a.(i)) in
        let leafbox = Array.init n (fun i -> mkbox a (n + 6 * i)) in
        let qoff = n + 6 * n in
        let code i = let k = int_of_z i in if k >= 0 && k < n then codes.(k) else Z0 in
        (match build_tree (z_of_int !k_init) (z_of_int !k_mult) (z_of_int n) code with
         | None -> Printf.printf "R %s UNDEFINED\n" id
         | Some ch ->
           let ch = Array.of_list ch in
           let children i = let k = int_of_z i in if k >= 0 && k < n - 1 then ch.(k) else (z_of_int (-1), z_of_int (-1)) in
           let b = Buffer.create 1024 in
           Buffer.add_string b (Printf.sprintf "R %s children" id);
           Array.iter (fun (c1, c2) -> Buffer.add_string b (Printf.sprintf " %d %d" (int_of_z c1) (int_of_z c2))) ch;
           (* internal boxes: order independent BuildInternalBoxes *)
           let nodebox = Array.make (2 * n - 1) leafbox.(0) in
           for i = 0 to n - 1 do nodebox.(2 * i) <- leafbox.(i) done;
           let lb i = leafbox.(int_of_z i) in
           let ok = ref true in
           for k = 0 to n - 2 do
             match tree_of children (nat_of_int (2 * n)) (z_of_int (2 * k + 1)) with
             | Some t -> nodebox.(2 * k + 1) <- box_of lb t
             | None -> ok := false
           done;
           if not !ok then Buffer.add_string b " BADTREE"
           else begin
             Buffer.add_string b " boxes";
             for k = 0 to n - 2 do Buffer.add_string b (" " ^ pbox nodebox.(2 * k + 1)) done;
             let bbox i = let k = int_of_z i in if k >= 0 && k < 2 * n - 1 then nodebox.(k) else leafbox.(0) in
             Buffer.add_string b " pairs";
             for q = 0 to m - 1 do
               let ov =
                 if kind = 0 then (let qb = mkbox a (qoff + 6 * q) in fun bx -> overlap bx qb)
                 else (let px = z_of_int a.(qoff + 2 * q) and py = z_of_int a.(qoff + 2 * q + 1) in fun bx -> overlap_pt bx px py) in
               match find_collision children bbox self ov (z_of_int q) (nat_of_int (2 * n)) with
               | None -> Buffer.add_string b (Printf.sprintf " %d UNDEFINED" q)
               | Some res -> List.iter (fun l -> Buffer.add_string b (Printf.sprintf " %d %d" q (int_of_z l))) res
             done
           end;
           print_endline (Buffer.contents b))
      end else if toks.(0) = "SWEEP" then begin
        let id = toks.(1) in
        let n = int_of_string toks.(2) in
        let a = Array.map int_of_string (Array.sub toks 3 (Array.length toks - 3)) in
        let boxes = List.init n (fun i -> { b2minx = z_of_int a.(4*i); b2miny = z_of_int a.(4*i+1);
                                            b2maxx = z_of_int a.(4*i+2); b2maxy = z_of_int a.(4*i+3) }) in
        let res = sweep_pairs (fun _ _ -> false) boxes in
        let b = Buffer.create 256 in
        Buffer.add_string b ("S " ^ id);
        List.iter (fun (x, y) -> Buffer.add_string b (Printf.sprintf " %d %d" (int_of_z x) (int_of_z y))) res;
        print_endline (Buffer.contents b)
      end else if toks.(0) = "KD" then begin
        let id = toks.(1) in
        let n = int_of_string toks.(2) and m = int_of_string toks.(3) in
        let a = Array.map int_of_string (Array.sub toks 4 (Array.length toks - 4)) in
        let pts = List.init n (fun i -> { px = z_of_int a.(2*i); py = z_of_int a.(2*i+1); pidx = z_of_int i }) in
        let tree = build_two_d_tree pts in
        let b = Buffer.create 256 in
        Buffer.add_string b ("K " ^ id ^ " tree");
        List.iter (fun p -> Buffer.add_string b (Printf.sprintf " %d" (int_of_z p.pidx))) tree;
        for q = 0 to m - 1 do
          let o = 2 * n + 4 * q in
          let r = { rminx = z_of_int a.(o); rminy = z_of_int a.(o+1); rmaxx = z_of_int a.(o+2); rmaxy = z_of_int a.(o+3) } in
          Buffer.add_string b " q";
          (* the explicit-stack loop (query_stack_never_overflows: equal to the recursive model) *)
          (match query_two_d_tree_stk tree r with
           | Some res -> List.iter (fun p -> Buffer.add_string b (Printf.sprintf " %d" (int_of_z p.pidx))) res
           | None -> Buffer.add_string b " STACK-OVERFLOW")
        done;
        print_endline (Buffer.contents b)
      end else if toks.(0) = "BT" then begin
        (* BT <id> sel sc tr (x3 rows) <6 ints per box ...>: Box::Transform of every box by the model's btransform *)
        let id = toks.(1) in
        let a = Array.map int_of_string (Array.sub toks 2 (Array.length toks - 2)) in
        let row o = { sel = z_of_int a.(o); sc = z_of_int a.(o+1); tr = z_of_int a.(o+2) } in
        let t = { rx = row 0; ry = row 3; rz = row 6 } in
        let nb = (Array.length a - 9) / 6 in
        let b = Buffer.create 256 in
        Buffer.add_string b ("T " ^ id);
        for i = 0 to nb - 1 do
          let r = btransform t (mkbox a (9 + 6 * i)) in
          Buffer.add_string b (Printf.sprintf " %d %d %d %d %d %d" (int_of_z r.bminx) (int_of_z r.bminy) (int_of_z r.bminz)
                                 (int_of_z r.bmaxx) (int_of_z r.bmaxy) (int_of_z r.bmaxz))
        done;
        print_endline (Buffer.contents b)
      end else if toks.(0) = "CERT" then begin
        let id = toks.(1) in
        let n = int_of_string toks.(2) in
        let a = Array.map int_of_string (Array.sub toks 3 (Array.length toks - 3)) in
        let children i = let k = int_of_z i in
          if k >= 0 && k < n - 1 then (z_of_int a.(2 * k), z_of_int a.(2 * k + 1)) else (z_of_int (-1), z_of_int (-1)) in
        let off = 2 * (n - 1) in
        let nb = Array.init (2 * n - 1) (fun i -> mkbox a (off + 6 * i)) in
        let bbox i = let k = int_of_z i in if k >= 0 && k < 2 * n - 1 then nb.(k) else nb.(0) in
        Printf.printf "W %s %d\n" id (if wf_check children bbox (z_of_int n) then 1 else 0)
      end
    done
  with End_of_file -> ()
