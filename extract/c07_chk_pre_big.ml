(* prelude for the ExtrOcamlZBigInt extraction: Z is zarith's big integer *)
module M = C07_rcb_model
let flavour = "zarith"
let z_of_hex (s : string) : Big_int_Z.big_int =
  let neg = String.length s > 0 && s.[0] = '-' in
  let s = if neg then String.sub s 1 (String.length s - 1) else s in
  let v = Z.of_string_base 16 s in if neg then Z.neg v else v
let int_of_z (v : Big_int_Z.big_int) : int = Z.to_int v
