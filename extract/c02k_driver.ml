(* Driver for the extracted exact (Q) port of the boolean3.cpp kernels and of
   the Winding03 flood fill (C02).  Input lines come from harness/c02_kern.cpp
   (KMESH ...) plus commands added by checks/C02.py:
     KRUN <id> <expandP 0|1> <capV> <capF> <capE>
        -> S01F/S01B/K02F/K02B/K11/K12F/K12B <id> ints...   (same order as the harness; 9 = model undefined)
        -> the same tags prefixed by G: one character per entry, '1' when some decision on a COMPUTED value
           (interpolated / intersected) was closer to a tie than 1e-9 relative -- a rounding difference of the
           double-precision kernel is possible there
     W03 <id> <expandP> [capW] -> W03F <id> w...  /  W03B <id> w...   per-vertex sums over ALL faces
     FLOOD <id> <expandP> <n12> e... <n21> e...   (broken halfedges of P resp. Q)
        -> FLF <id> w... / FLB <id> w...  the Winding03 model: union of unbroken edges, value of the representative *)
open C02k_model

let rec pos_of_int n = if n = 1 then XH else if n land 1 = 0 then XO (pos_of_int (n lsr 1)) else XI (pos_of_int (n lsr 1))
let z_of_int n = if n = 0 then Z0 else if n > 0 then Zpos (pos_of_int n) else Zneg (pos_of_int (-n))
let rec int_of_pos = function XH -> 1 | XO p -> 2 * int_of_pos p | XI p -> 2 * int_of_pos p + 1
let int_of_z = function Z0 -> 0 | Zpos p -> int_of_pos p | Zneg p -> - (int_of_pos p)
let rec nat_of_int n = if n <= 0 then O else S (nat_of_int (n - 1))
let rec shl_pos p s = if s <= 0 then p else shl_pos (XO p) (s - 1)
let z_shl z s = match z with Z0 -> Z0 | Zpos p -> Zpos (shl_pos p s) | Zneg p -> Zneg (shl_pos p s)

exception Nonfinite
let rec norm m e = if m = 0 then (0, 0) else if m land 1 = 0 then norm (m asr 1) (e + 1) else (m, e)
let dyadic_of_token (s : string) : int * int =
  if String.length s > 0 && s.[0] = 'x' then begin
    let b = Int64.of_string ("0x" ^ String.sub s 1 (String.length s - 1)) in
    let sign = Int64.to_int (Int64.shift_right_logical b 63) in
    let e = (Int64.to_int (Int64.shift_right_logical b 52)) land 0x7ff in
    let m = Int64.to_int (Int64.logand b 0xFFFFFFFFFFFFFL) in
    if e = 0x7ff then raise Nonfinite;
    let (m, e) = if e = 0 then (m, -1074) else (m lor (1 lsl 52), e - 1075) in
    norm (if sign = 1 then -m else m) e
  end else norm (int_of_string s) 0
let q_of_token s =
  let (m, e) = dyadic_of_token s in
  if e >= 0 then { qnum = z_shl (z_of_int m) e; qden = XH } else { qnum = z_of_int m; qden = shl_pos XH (-e) }

(* approximate magnitude of a positive as (mantissa in [1,2), exponent) *)
let fl_of_pos p =
  let rec bits p acc = match p with XH -> 1 :: acc | XO q -> bits q (0 :: acc) | XI q -> bits q (1 :: acc) in
  let bl = bits p [] in   (* most significant first *)
  let n = List.length bl in
  let rec take l k acc = match l with [] -> acc | b :: r -> if k = 0 then acc else take r (k - 1) (acc *. 2.0 +. float_of_int b) in
  let m = take bl 60 0.0 in
  (m, n - (min n 60))
let log2_abs_q (q : q) : float =     (* log2 |q|, neg_infinity for 0 *)
  match q.qnum with
  | Z0 -> neg_infinity
  | Zpos p | Zneg p ->
    let (mn, en) = fl_of_pos p and (md, ed) = fl_of_pos q.qden in
    (log mn -. log md) /. log 2.0 +. float_of_int (en - ed)

type kmesh_raw = { nv : int; nh : int; nf : int; km : kmesh }
let kmeshes : (string, kmesh_raw) Hashtbl.t = Hashtbl.create 8

let min_gap = ref infinity       (* log2 of the smallest relative gap seen in a computed comparison *)
let shc_instr p q0 dir =
  let d = log2_abs_q (qminus p q0) in
  let m = max (max (log2_abs_q p) (log2_abs_q q0)) (-200.0) in
  let rel = d -. m in
  if rel < !min_gap then min_gap := rel;
  gen_shadowsQ p q0 dir
let gap_bound = -30.0            (* 2^-30 ~ 1e-9 relative *)

let fwd_edges (r : kmesh_raw) cap =
  let acc = ref [] and cnt = ref 0 in
  for h = 0 to r.nh - 1 do
    if !cnt < cap then begin
      let zh = z_of_int h in
      if int_of_z (r.km.hstart zh) < int_of_z (hend r.km zh) then (acc := h :: !acc; incr cnt)
    end
  done;
  List.rev !acc

let emit tag id (vals : (int * bool) list) =
  let b = Buffer.create 4096 and g = Buffer.create 4096 in
  Buffer.add_string b (tag ^ " " ^ id);
  Buffer.add_string g ("G" ^ tag ^ " " ^ id ^ " ");
  List.iter (fun (v, close) -> Buffer.add_string b (" " ^ string_of_int v); Buffer.add_char g (if close then '1' else '0')) vals;
  print_endline (Buffer.contents b);
  print_endline (Buffer.contents g)

let timed f = min_gap := infinity; let r = f () in (r, !min_gap < gap_bound)

let () =
  try
    while true do
      let line = input_line stdin in
      let toks = Array.of_list (List.filter (fun s -> s <> "") (String.split_on_char ' ' line)) in
      if Array.length toks > 0 then begin
        try
          match toks.(0) with
          | "KMESH" ->
            let nv = int_of_string toks.(2) and nh = int_of_string toks.(3) and nf = int_of_string toks.(4) in
            let o = ref 5 in
            let rdv n = let a = Array.init n (fun i -> { vx = q_of_token toks.(!o + 3*i); vy = q_of_token toks.(!o + 3*i + 1); vz = q_of_token toks.(!o + 3*i + 2) }) in o := !o + 3 * n; a in
            let pos = rdv nv in let vn = rdv nv in let fn = rdv nf in
            let rdi n = let a = Array.init n (fun i -> z_of_int (int_of_string toks.(!o + i))) in o := !o + n; a in
            let st = rdi nh in let pr = rdi nh in
            let zero = { vx = q_of_token "0"; vy = q_of_token "0"; vz = q_of_token "0" } in
            let geta a d i = let k = int_of_z i in if k >= 0 && k < Array.length a then a.(k) else d in
            Hashtbl.replace kmeshes toks.(1)
              { nv; nh; nf; km = { vpos = geta pos zero; vnorm = geta vn zero; fnorm = geta fn zero;
                                   hstart = geta st (z_of_int (-1)); hpair = geta pr (z_of_int (-1)) } }
          | "KRUN" ->
            let id = toks.(1) and ex = toks.(2) = "1" in
            let capV = int_of_string toks.(3) and capF = int_of_string toks.(4) and capE = int_of_string toks.(5) in
            let p = Hashtbl.find kmeshes ("P" ^ id) and q = Hashtbl.find kmeshes ("Q" ^ id) in
            let nvP = min p.nv capV and nvQ = min q.nv capV and nfP = min p.nf capF and nfQ = min q.nf capF in
            let eP = fwd_edges p capE and eQ = fwd_edges q capE in
            let range n = List.init n (fun i -> i) in
            let cross l1 l2 f = List.concat_map (fun a -> List.map (fun b -> f a b) l2) l1 in
            let zi = z_of_int in
            let s01 fw (a : kmesh_raw) (b : kmesh_raw) v h =
              timed (fun () -> int_of_z (fst (shadow01_g gen_shadowsQ shc_instr ex fw (zi v) (zi h) (b.km.hstart (zi h)) (hend b.km (zi h)) a.km b.km))) in
            emit "S01F" id (cross (range nvP) eQ (s01 true p q));
            emit "S01B" id (cross (range nvQ) eP (s01 false q p));
            let k02 fw (a : kmesh_raw) (b : kmesh_raw) v f =
              timed (fun () -> match kernel02_g gen_shadowsQ shc_instr ex fw a.km b.km (zi v) (zi f) with None -> 9 | Some (s, _) -> int_of_z s) in
            emit "K02F" id (cross (range nvP) (range nfQ) (k02 true p q));
            emit "K02B" id (cross (range nvQ) (range nfP) (k02 false q p));
            let k11 hp hq =
              timed (fun () -> match kernel11_g gen_shadowsQ shc_instr ex p.km q.km (zi hp) (p.km.hstart (zi hp)) (hend p.km (zi hp))
                                       (zi hq) (q.km.hstart (zi hq)) (hend q.km (zi hq)) with None -> 9 | Some (s, _) -> int_of_z s) in
            emit "K11" id (cross eP eQ k11);
            let k12 fw h f =
              timed (fun () -> match kernel12_g gen_shadowsQ shc_instr ex fw p.km q.km (zi h) (zi f) with None -> 9 | Some (s, _) -> int_of_z s) in
            Printf.printf "CM %s %d %d\n" id (if closed_meshb p.km (nat_of_int p.nf) then 1 else 0) (if closed_meshb q.km (nat_of_int q.nf) then 1 else 0);
            emit "K12F" id (cross eP (range nfQ) (k12 true));
            emit "K12B" id (cross eQ (range nfP) (k12 false))
          | "W03" ->
            let id = toks.(1) and ex = toks.(2) = "1" in
            let p = Hashtbl.find kmeshes ("P" ^ id) and q = Hashtbl.find kmeshes ("Q" ^ id) in
            let faces n = List.init n (fun i -> z_of_int i) in
            let w fw (a : kmesh_raw) (b : kmesh_raw) v =
              timed (fun () -> match w03_sum_g gen_shadowsQ shc_instr ex fw a.km b.km (faces b.nf) (z_of_int v) with None -> 99 | Some s -> int_of_z s) in
            let capW = if Array.length toks > 3 then int_of_string toks.(3) else max_int in
            emit "W03F" id (List.init (min capW p.nv) (w true p q));
            emit "W03B" id (List.init (min capW q.nv) (w false q p))
          | "FLOOD" ->
            let id = toks.(1) and ex = toks.(2) = "1" in
            let p = Hashtbl.find kmeshes ("P" ^ id) and q = Hashtbl.find kmeshes ("Q" ^ id) in
            let n12 = int_of_string toks.(3) in
            let b12 = List.init n12 (fun i -> z_of_int (int_of_string toks.(4 + i))) in
            let n21 = int_of_string toks.(4 + n12) in
            let b21 = List.init n21 (fun i -> z_of_int (int_of_string toks.(5 + n12 + i))) in
            let faces n = List.init n (fun i -> z_of_int i) in
            let fl fw (a : kmesh_raw) (b : kmesh_raw) broken =
              let edges = unbroken_edges a.km.hstart (hend a.km) (nat_of_int a.nh) broken in
              let memo = Hashtbl.create 16 in
              let wroot r = let k = int_of_z r in
                match Hashtbl.find_opt memo k with Some v -> v | None ->
                  let v = (match w03_sum_g gen_shadowsQ gen_shadowsQ ex fw a.km b.km (faces b.nf) r with None -> z_of_int 99 | Some s -> s) in
                  Hashtbl.replace memo k v; v in
              (* uf_build = fold_left uf_unite edges uf_init and winding03 = wroot o find, with the representative map
                 tabulated after every unite (the extracted closures would otherwise be re-evaluated exponentially often) *)
              let tab (u : z -> z) = let t = Array.init a.nv (fun i -> u (z_of_int i)) in
                fun i -> let k = int_of_z i in if k >= 0 && k < a.nv then t.(k) else i in
              let u = List.fold_left (fun u (x, y) -> tab (uf_unite u x y)) (tab uf_init) edges in
              List.init a.nv (fun i -> (int_of_z (wroot (uf_find u (z_of_int i))), false)) in
            emit "FLF" id (fl true p q b12);
            emit "FLB" id (fl false q p b21)
          | "KDROP" -> Hashtbl.remove kmeshes ("P" ^ toks.(1)); Hashtbl.remove kmeshes ("Q" ^ toks.(1))
          | _ -> ()
        with
        | Nonfinite -> Printf.printf "E %s nonfinite\n" (if Array.length toks > 1 then toks.(1) else "?")
        | Not_found -> Printf.printf "E %s unknown-name\n" (if Array.length toks > 1 then toks.(1) else "?")
        | Failure s -> Printf.printf "E %s failure:%s\n" (if Array.length toks > 1 then toks.(1) else "?") s
        | Invalid_argument s -> Printf.printf "E %s invalid:%s\n" (if Array.length toks > 1 then toks.(1) else "?") s
      end
    done
  with End_of_file -> ()
