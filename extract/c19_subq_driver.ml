(* Driver for the general ported Subdivide (marked quads, keepInterior).
   stdin: Q id KI k NV nv T nt tris.. A ne (u v added).. M nm (u v).. [OUT ...]
   stdout: Q id OUT n tris.. NV2 x | Q id UNDEFINED *)
open C19_subq

let rec pos_of_int n = if n = 1 then XH else if n land 1 = 0 then XO (pos_of_int (n lsr 1)) else XI (pos_of_int (n lsr 1))
let z_of_int n = if n = 0 then Z0 else if n > 0 then Zpos (pos_of_int n) else Zneg (pos_of_int (-n))
let rec int_of_pos = function XH -> 1 | XO p -> 2 * int_of_pos p | XI p -> 2 * int_of_pos p + 1
let int_of_z = function Z0 -> 0 | Zpos p -> int_of_pos p | Zneg p -> - (int_of_pos p)

let () =
  try
    while true do
      let line = input_line stdin in
      let toks = Array.of_list (List.filter (fun s -> s <> "") (String.split_on_char ' ' line)) in
      if Array.length toks > 3 && toks.(0) = "Q" && toks.(2) = "KI" then begin
        let id = toks.(1) in
        let keep = toks.(3) = "1" in
        let nv = int_of_string toks.(5) and nt = int_of_string toks.(7) in
        let t0 = 8 in
        let tris = List.init nt (fun i -> ((z_of_int (int_of_string toks.(t0 + 3 * i)), z_of_int (int_of_string toks.(t0 + 3 * i + 1))),
                                           z_of_int (int_of_string toks.(t0 + 3 * i + 2)))) in
        let a0 = t0 + 3 * nt in
        let ne = int_of_string toks.(a0 + 1) in
        let tbl = Hashtbl.create 64 in
        for i = 0 to ne - 1 do
          Hashtbl.replace tbl (int_of_string toks.(a0 + 2 + 3 * i), int_of_string toks.(a0 + 3 + 3 * i)) (int_of_string toks.(a0 + 4 + 3 * i))
        done;
        let m0 = a0 + 2 + 3 * ne in
        let nm = int_of_string toks.(m0 + 1) in
        let mk = Hashtbl.create 16 in
        for i = 0 to nm - 1 do
          Hashtbl.replace mk (int_of_string toks.(m0 + 2 + 2 * i), int_of_string toks.(m0 + 3 + 2 * i)) true
        done;
        let added u v = match Hashtbl.find_opt tbl (int_of_z u, int_of_z v) with Some x -> z_of_int x | None -> Z0 in
        let marked x y = let a = int_of_z x and b = int_of_z y in Hashtbl.mem mk (min a b, max a b) in
        let buf = Buffer.create 4096 in
        Buffer.add_string buf (Printf.sprintf "Q %s" id);
        (match subdivide_tris_q_f (z_of_int nv) tris added marked keep with
         | None -> Buffer.add_string buf " UNDEFINED"
         | Some out ->
           Buffer.add_string buf (Printf.sprintf " OUT %d" (List.length out));
           List.iter (fun ((a, b), c) -> Buffer.add_string buf (Printf.sprintf " %d %d %d" (int_of_z a) (int_of_z b) (int_of_z c))) out;
           (match subdivide_numvert_q_f (z_of_int nv) tris added marked keep with
            | Some n -> Buffer.add_string buf (Printf.sprintf " NV2 %d" (int_of_z n))
            | None -> Buffer.add_string buf " NV2 UNDEFINED"));
        print_endline (Buffer.contents buf)
      end
    done
  with End_of_file -> ()
