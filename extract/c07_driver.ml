(* Driver for the extracted relation model (C07).  One command per stdin line,
   all tokens integers.  Relation entries are  key orig back hasN handle ;
   triRefs are  mesh orig face cop .  Transforms are opaque integer handles
   (T := int), except in COMP where a handle h is carried as the integer
   translation matrix (h,0,0) so that the model's m34mul adds handles.
     RUNS id isOriginal nmap entries ntri refs
     BOOL id counter invertQ nP entries nQ entries
     INCR id counter nmap entries ntri refs
     INIT id counter nmap entries ntri refs
     COMP id snapshot nnodes (nodehandle nmap entries ntri refs)* *)
open C07_model

let rec pos_of_int n = if n = 1 then XH else if n land 1 = 0 then XO (pos_of_int (n lsr 1)) else XI (pos_of_int (n lsr 1))
let z_of_int n = if n = 0 then Z0 else if n > 0 then Zpos (pos_of_int n) else Zneg (pos_of_int (-n))
let rec int_of_pos = function XH -> 1 | XO p -> 2 * int_of_pos p | XI p -> 2 * int_of_pos p + 1
let int_of_z = function Z0 -> 0 | Zpos p -> int_of_pos p | Zneg p -> - (int_of_pos p)

let pos = ref 0
let toks = ref [||]
let next () = let v = !toks.(!pos) in incr pos; int_of_string v
let zl l = String.concat " " (List.map (fun z -> string_of_int (int_of_z z)) l)

let read_map mk =
  let n = next () in
  let l = ref [] in
  for _ = 1 to n do
    let k = next () in let o = next () in let b = next () in let h = next () in let t = next () in
    l := (z_of_int k, { rOriginalID = z_of_int o; rTransform = mk t; rBackSide = (b <> 0); rHasNormals = (h <> 0) }) :: !l
  done;
  (* build through the model's own operator[] so the std::map invariant holds *)
  List.fold_left (fun acc (k, v) -> m_set k v acc) [] (List.rev !l)

let read_refs () =
  let n = next () in
  let l = ref [] in
  for _ = 1 to n do
    let m = next () in let o = next () in let f = next () in let c = next () in
    l := { meshID = z_of_int m; originalID = z_of_int o; faceID = z_of_int f; coplanarID = z_of_int c } :: !l
  done;
  List.rev !l

let pmap pr m =
  String.concat " " (List.map (fun (k, r) ->
    Printf.sprintf "%d %d %d %d %s" (int_of_z k) (int_of_z r.rOriginalID) (if r.rBackSide then 1 else 0)
      (if r.rHasNormals then 1 else 0) (pr r.rTransform)) m)
let prefs l =
  String.concat " " (List.map (fun r -> Printf.sprintf "%d %d %d %d" (int_of_z r.meshID) (int_of_z r.originalID)
                                  (int_of_z r.faceID) (int_of_z r.coplanarID)) l)

let tr h = let z = z_of_int 0 and o = z_of_int 1 in
  { c0 = { vx = o; vy = z; vz = z }; c1 = { vx = z; vy = o; vz = z }; c2 = { vx = z; vy = z; vz = o };
    c3 = { vx = z_of_int h; vy = z; vz = z } }

let () =
  try
    while true do
      let line = input_line stdin in
      toks := Array.of_list (List.filter (fun s -> s <> "") (String.split_on_char ' ' line));
      if Array.length !toks >= 2 then begin
        let cmd = !toks.(0) and id = !toks.(1) in
        pos := 2;
        (try
          if cmd = "RUNS" then begin
            let isOrig = next () <> 0 in
            let m = read_map (fun t -> t) in
            let refs = read_refs () in
            let ok = asc_b (List.map fst m) in
            let out = get_mesh_runs (-1) isOrig m refs in
            Printf.printf "RUNS %s %d | %s | %s | %s | %s | %s | %s | %s\n" id (if ok then 1 else 0)
              (zl out.triNew2Old) (zl out.outFaceID) (zl out.runIndex) (zl out.runOriginalID) (zl out.runFlags)
              (String.concat " " (List.map string_of_int out.runTransform)) (zl out.runKeys)
          end else if cmd = "BOOL" then begin
            let counter = next () in let inv = next () <> 0 in
            let mp = read_map (fun t -> t) in
            let mq = read_map (fun t -> t) in
            let merged = merge_maps (z_of_int counter) inv mp mq [] in
            (match increment_mesh_ids (z_of_int counter) merged [] with
             | None -> Printf.printf "BOOL %s UNDEFINED\n" id
             | Some ((m', _), c') ->
               Printf.printf "BOOL %s %d | %s | %s\n" id (int_of_z c') (pmap string_of_int merged) (pmap string_of_int m'))
          end else if cmd = "INCR" then begin
            let counter = next () in
            let m = read_map (fun t -> t) in
            let refs = read_refs () in
            (match increment_mesh_ids (z_of_int counter) m refs with
             | None -> Printf.printf "INCR %s UNDEFINED\n" id
             | Some ((m', refs'), c') ->
               Printf.printf "INCR %s %d | %s | %s\n" id (int_of_z c') (pmap string_of_int m') (prefs refs'))
          end else if cmd = "INIT" then begin
            let counter = next () in
            let m = read_map (fun t -> t) in
            let refs = read_refs () in
            let (((oid, m'), refs'), c') = initialize_original (-1) (z_of_int counter) m refs in
            Printf.printf "INIT %s %d %d | %s | %s\n" id (int_of_z c') (int_of_z oid) (pmap string_of_int m') (prefs refs')
          end else if cmd = "COMP" then begin
            let snapshot = next () in
            let nn = next () in
            let nodes = ref [] in
            for _ = 1 to nn do
              let h = next () in
              let m = read_map tr in
              let refs = read_refs () in
              nodes := ((tr h, m), refs) :: !nodes
            done;
            let (m, refs) = compose_relation (z_of_int snapshot) (List.rev !nodes) in
            let pr t = string_of_int (int_of_z t.c3.vx) in
            (match increment_mesh_ids (z_of_int snapshot) m refs with
             | None -> Printf.printf "COMP %s UNDEFINED | %s\n" id (pmap pr m)
             | Some ((m', refs'), c') ->
               Printf.printf "COMP %s %d | %s | %s\n" id (int_of_z c') (pmap pr m') (prefs refs'))
          end else Printf.printf "ERR %s unknown-command\n" id
        with e -> Printf.printf "ERR %s %s\n" id (Printexc.to_string e))
      end
    done
  with End_of_file -> ()
