(* Driver for the extracted parallel.h model (C13).  stdin:
     PARAMS <kSeqThreshold> <MAX_BUFFER_SIZE>
     CASE <id> <alg> <seed> <threads> <p1> <p2> <dump> N <n> x.. [M <m> y..]
     SCHED <id> <record>          (zero or more, the simulator's log for that case, in order)
     END <id>
   stdout per case:  R <id> <alg> legal=<0|1> OUT <count> v..     (or  R <id> <alg> legal=.. SKIP)
   Every SCHED record is checked with the extracted legal_* predicates of
   Par/Sched.v; the model is run under the logged schedule (or, without a log,
   under the trivial one: a single leaf / one serial final scan). *)
open C13_model

let rec pos_of_int n = if n = 1 then XH else if n land 1 = 0 then XO (pos_of_int (n lsr 1)) else XI (pos_of_int (n lsr 1))
let z_of_int n = if n = 0 then Z0 else if n > 0 then Zpos (pos_of_int n) else Zneg (pos_of_int (-n))
let rec int_of_pos = function XH -> 1 | XO p -> 2 * int_of_pos p | XI p -> 2 * int_of_pos p + 1
let int_of_z = function Z0 -> 0 | Zpos p -> int_of_pos p | Zneg p -> - (int_of_pos p)
let nat_of_int n = let rec go acc k = if k <= 0 then acc else go (S acc) (k - 1) in go O n
let rec int_of_nat = function O -> 0 | S k -> 1 + int_of_nat k
let nats l = List.map nat_of_int l

(* ---- schedule records *)
let rec parse_tree toks = match toks with
  | "L" :: r -> (Leaf, r)
  | "N" :: m :: r -> let (l, r1) = parse_tree r in let (rt, r2) = parse_tree r1 in (Node (nat_of_int (int_of_string m), l, rt), r2)
  | _ -> failwith "tree"
let rec parse_rtree toks = match toks with
  | "L" :: r -> (RLeaf, r)
  | "N" :: m :: fr :: r -> let (l, r1) = parse_rtree r in let (rt, r2) = parse_rtree r1 in
      (RNode (nat_of_int (int_of_string m), fr = "1", l, rt), r2)
  | _ -> failwith "rtree"
let rec parse_ops toks = match toks with
  | [] -> []
  | "S" :: b :: c :: r -> OSplit (nat_of_int (int_of_string b), nat_of_int (int_of_string c)) :: parse_ops r
  | "P" :: b :: lo :: hi :: r -> OPre (nat_of_int (int_of_string b), nat_of_int (int_of_string lo), nat_of_int (int_of_string hi)) :: parse_ops r
  | "F" :: b :: lo :: hi :: r -> OFinal (nat_of_int (int_of_string b), nat_of_int (int_of_string lo), nat_of_int (int_of_string hi)) :: parse_ops r
  | "J" :: b :: a :: r -> ORevJoin (nat_of_int (int_of_string b), nat_of_int (int_of_string a)) :: parse_ops r
  | "A" :: b :: a :: r -> OAssign (nat_of_int (int_of_string b), nat_of_int (int_of_string a)) :: parse_ops r
  | _ -> failwith "ops"

type record =
  | RFor of int * int * split_tree * int list
  | RRed of int * int * rtree
  | RScan of int * int * scan_op list
  | RInv of int * int list
  | RComb of int * int list * int list
  | RBad of string

let parse_record toks =
  try match toks with
    | "FOR" :: n :: g :: "TREE" :: r ->
        let (t, r1) = parse_tree r in
        (match r1 with "ORDER" :: _k :: o -> RFor (int_of_string n, int_of_string g, t, List.map int_of_string o) | _ -> RBad "for")
    | "RED" :: n :: g :: "TREE" :: r -> let (t, _) = parse_rtree r in RRed (int_of_string n, int_of_string g, t)
    | "SCAN" :: n :: g :: "OPS" :: _k :: r -> RScan (int_of_string n, int_of_string g, parse_ops r)
    | "INV" :: k :: "ORDER" :: o -> RInv (int_of_string k, List.map int_of_string o)
    | "TG" :: k :: "ORDER" :: o -> RInv (int_of_string k, List.map int_of_string o)
    | "COMB" :: k :: "NLOCAL" :: m :: r ->
        let m = int_of_string m in
        let rec take i l acc = if i = 0 then (List.rev acc, l) else (match l with x :: t -> take (i - 1) t (x :: acc) | [] -> failwith "comb") in
        let (sl, r1) = take m r [] in
        (match r1 with "ORDER" :: o -> RComb (int_of_string k, List.map int_of_string sl, List.map int_of_string o) | _ -> RBad "comb")
    | _ -> RBad (String.concat " " toks)
  with _ -> RBad (String.concat " " toks)

let legal_record = function
  | RFor (n, g, t, o) -> legal_for (nat_of_int g) (nat_of_int n) (t, nats o)
  | RRed (n, g, t) -> legal_reduce (nat_of_int g) (nat_of_int n) t
  | RScan (n, _, ops) -> legal_scan_inplace (nat_of_int n) ops   (* legal_scan + pre-scan before final scan *)
  | RInv (k, o) -> legal_invoke (nat_of_int k) (nats o)
  | RComb (k, s, o) -> legal_combinable (nat_of_int k) (nats s) (nats o)
  | RBad _ -> false

(* ---- helpers *)
let thr = ref 10000 and maxbuf = ref 65536
let op_of k = match k with
  | 1 -> (fun a b -> if int_of_z a >= int_of_z b then a else b)
  | 2 -> (fun a b -> if int_of_z a <= int_of_z b then a else b)
  | 3 -> (fun a b -> if int_of_z a <> 0 then a else b)
  | _ -> (fun a b -> z_of_int (int_of_z a + int_of_z b))
let ident_of k = match k with 1 -> - (1 lsl 60) | 2 -> 1 lsl 60 | _ -> 0
let arr_fun (a : 'a array) (d : 'a) = fun i -> let k = int_of_nat i in if k >= 0 && k < Array.length a then a.(k) else d
let dump_fun o n = List.init n (fun i -> o (nat_of_int i))
let serial_ops n = if n = 0 then [] else [OFinal (O, O, nat_of_int n)]
let first_red recs = let rec f = function RRed (_, _, t) :: _ -> Some t | _ :: r -> f r | [] -> None in f recs
let first_for recs = let rec f = function RFor (_, _, t, o) :: _ -> Some (t, nats o) | _ :: r -> f r | [] -> None in f recs
let scans recs = List.filter_map (function RScan (_, _, ops) -> Some ops | _ -> None) recs
let first_scan recs n = match scans recs with ops :: _ -> ops | [] -> serial_ops n
let lt_pair (a : int * int) (b : int * int) = fst a < fst b

let run_case alg p1 p2 (x : int list) (y : int list) recs : int list option =
  let n = List.length x in
  let nthr = nat_of_int !thr in
  let pairs = List.mapi (fun i k -> (k, i)) x in
  let flat l = List.concat_map (fun (k, i) -> [k; i]) l in
  let rtree = match first_red recs with Some t -> t | None -> RLeaf in
  let fsched = match first_for recs with Some s -> s | None -> (Leaf, if n = 0 then [] else [O]) in
  let zx = List.map z_of_int x in
  let xa = Array.of_list x in
  match alg with
  | "sort_cmp" | "sort_less" ->
      (match merge_sort lt_pair nthr pairs, merge_sort_buf lt_pair nthr pairs with
       | Some r, Some r2 when r = r2 -> Some (flat r)
       | _ -> None)
  | "mergerec" ->
      let run2 = List.mapi (fun i k -> (k, n + i)) y in
      (match pmerge lt_pair (nat_of_int (n + List.length y + 1)) nthr pairs run2 with
       | Some r -> Some (flat r) | None -> None)
  | "sort_i32" | "sort_i64" ->
      (* signed integral keys: generic SortFunctor -> mergeSort with std::less (radix is unsigned-only since 1f3be2f4) *)
      (match merge_sort (fun (a : int) b -> a < b) nthr x with Some r -> Some r | None -> None)
  | "lsb_radix" ->
      (* details::LSB_radix_sort(input, tmp, n) on uint32 keys: flag, then BOTH buffers (tmp pre-filled with 2^32-1) *)
      if List.exists (fun v -> v < 0) x then None else
      let ((a, b), t) = lsb_radix_sort_buf (nat_of_int 4) zx (fun _ -> z_of_int 4294967295) in
      let (inp, tmp) = if t then (b, a) else (a, b) in
      Some ((if t then 1 else 0) :: List.map int_of_z (dump_fun inp n) @ List.map int_of_z (dump_fun tmp n))
  | "sort_u32" ->
      if List.exists (fun v -> v < 0) x then None else
      (match radix_sort nthr (nat_of_int 4) zx rtree with Some r -> Some (List.map int_of_z r) | None -> None)
  | "sort_u64" | "sort_sz" ->
      if List.exists (fun v -> v < 0) x then None else
      (match radix_sort nthr (nat_of_int 8) zx rtree with Some r -> Some (List.map int_of_z r) | None -> None)
  | "reduce" -> Some [int_of_z (reduce_par (op_of p2) zx (z_of_int p1) rtree)]
  | "treduce" -> Some [int_of_z (reduce_par (op_of p2) (List.map (fun v -> z_of_int (v * v + 1)) x) (z_of_int p1) rtree)]
  | "count_if" ->
      let m = if p1 < 1 then 1 else p1 in
      Some [int_of_nat (reduce_par Nat.add (List.map (fun v -> if v mod m = 0 then S O else O) x) O rtree)]
  | "all_of" -> Some [if all_of_par (fun v -> v <> p1) x rtree then 1 else 0]
  | "incl_scan" ->
      let (_, o) = incl_scan_par zx (first_scan recs n) (fun _ -> z_of_int (-7)) in
      Some (List.map int_of_z (dump_fun o n))
  | "exclusive_scan-inplace" ->
      let (_, o) = excl_scan_inplace (z_of_int (ident_of p2)) (op_of p2) zx (z_of_int p1) (first_scan recs n) in
      Some (List.map int_of_z (dump_fun o n))
  | "inclusive_scan-inplace" ->
      let (_, o) = incl_scan_inplace zx (first_scan recs n) in
      Some (List.map int_of_z (dump_fun o n))
  | "excl_scan" ->
      let (_, o) = excl_scan_par (z_of_int (ident_of p2)) (op_of p2) zx (z_of_int p1) (first_scan recs n) (fun _ -> z_of_int (-7)) in
      Some (List.map int_of_z (dump_fun o n))
  | "copy_if" ->
      let m = if p1 < 1 then 1 else p1 in
      let (k, o) = copy_if_par (0, 0) (fun (key, _) -> key mod m = 0) pairs (first_scan recs n) (fun _ -> (-1, -1)) in
      Some (int_of_nat k :: flat (dump_fun o (n + 2)))
  | "remove_if" ->
      let m = if p1 < 1 then 1 else p1 in
      let r = remove_if_par (0, 0) (fun (key, _) -> key mod m = 0) pairs (first_scan recs n) in
      Some (List.length r :: flat r)
  | "remove" ->
      let r = remove_if_par 0 (fun v -> v = p1) x (first_scan recs n) in
      Some (List.length r :: r)
  | "unique" ->
      let sch = match scans recs with
        | [] -> (* no log: serial schedule per chunk *)
            let rec chunks len = if len <= 0 then [] else let c = min !maxbuf len in serial_ops (c - 1) :: chunks (len - c) in
            chunks n
        | l -> l in
      (match unique_par (nat_of_int !maxbuf) sch zx with
       | Some r -> Some (List.length r :: List.map int_of_z r) | None -> None)
  | "transform-inplace" ->
      let xf = (fun i -> let k = int_of_nat i in z_of_int (if k < Array.length xa then xa.(k) else 0)) in
      let (w, h) = fe_for_each (fun c -> z_of_int (3 * int_of_z c + p1)) in
      Some (List.map int_of_z (dump_fun (par_for w h (nat_of_int n) fsched xf) n))
  | "for_each" | "for_each_n" | "transform" | "copy" | "copy_n" | "fill" | "sequence" | "gather" | "scatter" ->
      let nn = if alg = "gather" then List.length y else n in
      let ya = Array.of_list y in
      let xf = (fun i -> let k = int_of_nat i in z_of_int (if k < Array.length xa then xa.(k) else 0)) in
      let yf = (fun i -> let k = int_of_nat i in nat_of_int (if k < Array.length ya then ya.(k) else 0)) in
      let (w, h) = match alg with
        | "for_each" | "for_each_n" -> fe_for_each (fun c -> z_of_int (int_of_z c * 2 + p1))
        | "transform" -> fe_transform xf (fun v -> z_of_int (3 * int_of_z v + p1))
        | "copy" | "copy_n" -> fe_copy xf
        | "fill" -> fe_fill (z_of_int p1)
        | "sequence" -> fe_sequence
        | "gather" -> fe_gather yf xf
        | _ -> fe_scatter yf xf in
      let o0 = if alg = "for_each" || alg = "for_each_n" then xf else (fun _ -> z_of_int (-7)) in
      let o = par_for w h (nat_of_int nn) fsched o0 in
      let vals = List.map int_of_z (dump_fun o nn) in
      if alg = "for_each" || alg = "for_each_n" then Some (List.concat (List.mapi (fun i v -> [v; i]) vals)) else Some vals
  | _ -> None

let () =
  let cur = ref None and recs = ref [] in
  try
    while true do
      let line = input_line stdin in
      let toks = List.filter (fun s -> s <> "") (String.split_on_char ' ' line) in
      match toks with
      | "PARAMS" :: t :: m :: _ -> thr := int_of_string t; maxbuf := int_of_string m
      | "UFM" :: id :: n :: _m :: rest ->
          (* sequential DisjointSets model: words (rank, parent) after uniting the pairs in order *)
          let n = int_of_string n in
          let rec prs = function a :: b :: r -> (nat_of_int (int_of_string a), nat_of_int (int_of_string b)) :: prs r | _ -> [] in
          (match uf_run_seq (nat_of_int n) (prs rest) with
           | Some st -> Printf.printf "A %s%s\n" id (String.concat "" (List.map (fun (r, p) -> Printf.sprintf " %d %d" (int_of_nat r) (int_of_nat p)) st))
           | None -> Printf.printf "A %s NONE\n" id)
      | "HTM" :: id :: m :: step :: nk :: rest ->
          (* keys are dense indices; every key comes with its masked hash; then ARR = the implementation's final key array *)
          let m = int_of_string m and step = int_of_string step and nk = int_of_string nk in
          let a = Array.of_list rest in
          let ks = List.init nk (fun i -> int_of_string a.(2 * i)) in
          let hs = Hashtbl.create 16 in
          List.iteri (fun i k -> Hashtbl.replace hs k (int_of_string a.(2 * i + 1))) ks;
          let h k = nat_of_int (try Hashtbl.find hs (int_of_nat k) with Not_found -> 0) in
          let impl = List.init m (fun i -> let v = int_of_string a.(2 * nk + 1 + i) in if v < 0 then None else Some (nat_of_int v)) in
          let empty = List.init m (fun _ -> None) in
          let show t = String.concat "" (List.map (function None -> " -1" | Some k -> " " ^ string_of_int (int_of_nat k)) t) in
          (match ht_run (nat_of_int m) h (nat_of_int step) (nat_of_int (m + 1)) empty O (nats ks) with
           | Some (t, u) -> Printf.printf "HM %s %d%s\n" id (int_of_nat u) (show t)
           | None -> Printf.printf "HM %s NONE\n" id);
          (* the open-addressing invariant on the implementation's array: every stored key is found at its slot *)
          let ok = ref true in
          List.iteri (fun s v -> match v with
            | None -> ()
            | Some k -> (match ht_find (nat_of_int m) h (nat_of_int step) (nat_of_int (m + 1)) impl k O with
                         | Some s' when int_of_nat s' = s -> ()
                         | _ -> ok := false)) impl;
          Printf.printf "HC %s %d\n" id (if !ok then 1 else 0)
      | "CASE" :: _ -> cur := Some toks; recs := []
      | "SCHED" :: _id :: r -> recs := parse_record r :: !recs
      | "END" :: _ ->
          (match !cur with
           | Some ("CASE" :: id :: alg :: _seed :: _threads :: p1 :: p2 :: _dump :: rest) ->
               let rs = List.rev !recs in
               let legal = List.for_all legal_record rs in
               let ints = List.map int_of_string (List.filter (fun s -> s <> "N" && s <> "M") rest) in
               (* rest = N n x.. [M m y..] *)
               let (x, y) = (match rest with
                 | "N" :: n :: r ->
                     let n = int_of_string n in
                     let rec take i l acc = if i = 0 then (List.rev acc, l) else (match l with v :: t -> take (i - 1) t (int_of_string v :: acc) | [] -> (List.rev acc, [])) in
                     let (x, r1) = take n r [] in
                     (match r1 with "M" :: m :: r2 -> let (y, _) = take (int_of_string m) r2 [] in (x, y) | _ -> (x, []))
                 | _ -> ([], [])) in
               ignore ints;
               (match (try run_case alg (int_of_string p1) (int_of_string p2) x y rs with Stack_overflow | Failure _ | Not_found | Invalid_argument _ -> None) with
                | Some out ->
                    Printf.printf "R %s %s legal=%d OUT %d%s\n" id alg (if legal then 1 else 0) (List.length out)
                      (String.concat "" (List.map (fun v -> " " ^ string_of_int v) out))
                | None -> Printf.printf "R %s %s legal=%d SKIP\n" id alg (if legal then 1 else 0));
               (if not legal then
                  List.iteri (fun i r -> if not (legal_record r) then Printf.printf "ILLEGAL %s record#%d\n" id i) rs)
           | _ -> ());
          cur := None; recs := []
      | _ -> ()
    done
  with End_of_file -> ()
