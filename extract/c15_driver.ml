(* Driver for the extracted C15 model.  stdin lines:
     A <id> <k> <kind><0|1>*<count> ...   kinds: E loop entry, C loop chunk, P plain-return check,
                                           F check producing a Cancelled object, O observe
        -> V <id> <k> complete|final|escape|bad          (automaton `accept` on the logged word)
     X <id> <expr>                        expr: L | O<iid>(<expr>,...)
        -> X <id> <wf 0/1> <NumLeaves-1> <reductions>     (Level B evaluator, no collapsing) *)
open C15_model

let rec nat_of_int n = if n <= 0 then O else S (nat_of_int (n - 1))
let rec int_of_nat = function O -> 0 | S n -> 1 + int_of_nat n

let parse_expr (s : string) : expr =
  let p = ref 0 in
  let rec go () =
    match s.[!p] with
    | 'L' -> incr p; Leaf
    | 'O' ->
      incr p;
      let q = ref !p in
      while s.[!q] <> '(' do incr q done;
      let iid = int_of_string (String.sub s !p (!q - !p)) in
      p := !q + 1;
      let kids = ref [] in
      while s.[!p] <> ')' do
        kids := go () :: !kids;
        if s.[!p] = ',' then incr p
      done;
      incr p;
      Op (nat_of_int iid, List.rev !kids)
    | _ -> failwith "bad expr"
  in go ()

let () =
  try
    while true do
      let line = input_line stdin in
      let toks = List.filter (fun s -> s <> "") (String.split_on_char ' ' line) in
      match toks with
      | "A" :: id :: k :: rest ->
        let word = List.concat_map (fun t ->
            let kind = match t.[0] with 'E' -> KLoopEntry | 'C' -> KLoopChunk | 'P' -> KAbortP | 'F' -> KAbortF | _ -> KObserve in
            let seen = t.[1] = '1' in
            let cnt = int_of_string (String.sub t 3 (String.length t - 3)) in
            List.init cnt (fun _ -> (kind, seen))) rest in
        let v = match accept word O with VComplete -> "complete" | VFinal -> "final" | VEscape -> "escape" | VBad -> "bad" in
        Printf.printf "V %s %s %s\n" id k v
      | [ "X"; id; e ] ->
        let e = parse_expr e in
        Printf.printf "X %s %d %d %d\n" id (if wf e then 1 else 0) (int_of_nat (total_booleans e))
          (int_of_nat (reductions (fun _ -> false) e))
      | _ -> ()
    done
  with End_of_file -> ()
