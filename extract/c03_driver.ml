(* Driver for the extracted CSG evaluator (C03), instantiated at the voxel carrier.
   Input, one case per line (same text the C++ harness reads, plus the oracle
   answers observed on the implementation):
     CASE id gx0 gx1 gy0 gy1 gz0 gz1 | op | op ... # j:k,k,... j:...
   after '#': for the force at op index j, the registered op nodes k whose
   cache_ was set in the implementation afterwards (=> use_count oracle:
   "unique" exactly for the nodes the implementation did not evaluate).
   Output per force: R id j nvox outflag hexbitmap / S id j H ... N ... (same
   shape as the harness) / ALT id j ok n (other oracle answers, big-step vs
   explicit stack: same solid?). *)
open C03_model

let rec pos_of_int n = if n = 1 then XH else if n land 1 = 0 then XO (pos_of_int (n lsr 1)) else XI (pos_of_int (n lsr 1))
let z_of_int n = if n = 0 then Z0 else if n > 0 then Zpos (pos_of_int n) else Zneg (pos_of_int (-n))
let rec int_of_pos = function XH -> 1 | XO p -> 2 * int_of_pos p | XI p -> 2 * int_of_pos p + 1
let int_of_z = function Z0 -> 0 | Zpos p -> int_of_pos p | Zneg p -> - (int_of_pos p)
let rec nat_of_int n = if n <= 0 then O else S (nat_of_int (n - 1))
let rec int_of_nat = function O -> 0 | S n -> 1 + int_of_nat n

let big_fuel = nat_of_int 200000
(* voxels lifted with Status codes; argv[2] = the forwarding rule read from the source by the check:
   "first" (pinned: the first errored operand's code) or "min" (the smallest code wins) *)
let a_ops = if (try Sys.argv.(2) with _ -> "first") = "min" then sVoxOpsMin else sVoxOps
let fdiv a b = if a >= 0 then a / b else - ((- a + b - 1) / b)   (* floor division, b > 0 *)
let cdiv a b = - (fdiv (- a) b)

(* cells whose centre (64 i + 32 in 1/64 units) lies strictly inside (a, b) *)
let cell_range a b = (fdiv (a - 32) 64 + 1, cdiv (b - 32) 64 - 1 + 1)

let rec rep n x = if n <= 0 then [] else x :: rep (n - 1) x
let md4 r = ((r mod 4) + 4) mod 4

type sleaf = z st * gen list
type oracle_set = { uq : heap -> nat -> bool; ov : sleaf -> sleaf -> bool; sz : sleaf -> z; km : nat }

let vox_of (x : z st) : vox list = match x with Ok v -> (Obj.magic v : vox list) | Err _ -> []
let sz_count (l : sleaf) = z_of_int (List.length (vox_of (fst l)))
let km1000 = nat_of_int (try int_of_string Sys.argv.(1) with _ -> 1000)

let run_hop (o : oracle_set) (stack : bool) (s : state) (h : hop) : state option =
  do_hop a_ops o.uq (Obj.magic o.ov) (Obj.magic o.sz) o.km big_fuel stack s h

(* Status code and voxel set of handle a, if it is a leaf *)
let leaf_vox (s : state) (a : int) : (int * vox list) option =
  match handle a_ops s (nat_of_int a) with
  | None -> None
  | Some id ->
    (match get_node a_ops s.st_heap id with
     | Some (NLeaf l) ->
       (match (Obj.magic (lden a_ops l) : z st) with
        | Ok v -> Some (0, (Obj.magic v : vox list))
        | Err e -> Some (int_of_z e, []))
     | _ -> None)

let canon (l : vox list) = List.sort_uniq compare (List.map (fun ((x, y), z) -> (int_of_z x, int_of_z y, int_of_z z)) l)

let hexbitmap g (vs : (int * int * int) list) =
  let (gx0, gx1, gy0, gy1, gz0, gz1) = g in
  let nx = gx1 - gx0 and ny = gy1 - gy0 and nz = gz1 - gz0 in
  if nx <= 0 || ny <= 0 || nz <= 0 then ("-", (if vs = [] then 0 else 1))
  else begin
    let n = nx * ny * nz in
    let bits = Bytes.make n '0' in
    let out = ref 0 in
    List.iter (fun (x, y, z) ->
        (* doubled centres are odd *)
        let ix = (x - 1) / 2 and iy = (y - 1) / 2 and iz = (z - 1) / 2 in
        let ix = if x - 1 < 0 then fdiv (x - 1) 2 else ix and iy = if y - 1 < 0 then fdiv (y - 1) 2 else iy
        and iz = if z - 1 < 0 then fdiv (z - 1) 2 else iz in
        if ix < gx0 || ix >= gx1 || iy < gy0 || iy >= gy1 || iz < gz0 || iz >= gz1 then out := 1
        else Bytes.set bits (((iz - gz0) * ny + (iy - gy0)) * nx + (ix - gx0)) '1') vs;
    let b = Buffer.create (n / 4 + 2) in
    let i = ref 0 in
    while !i < n do
      let v = ref 0 in
      for k = 0 to 3 do
        v := !v * 2 + (if !i + k < n && Bytes.get bits (!i + k) = '1' then 1 else 0)
      done;
      Buffer.add_char b "0123456789abcdef".[!v];
      i := !i + 4
    done;
    (Buffer.contents b, !out)
  end

(* ---- native re-implementation of CsgDefs.alive / uniq_rc (same definitions on int arrays).  The extracted functions
   work on unary numbers and are quadratic in the number of nodes; they are used (and compared with these, answer by
   answer) on every heap with fewer than [slow_limit] nodes, the native ones alone on the >1000-operand cases. *)
let slow_limit = 160
let fast_mismatch = ref 0

let fast_alive (h : heap) (hs : nat option list) : bool array * node array * int list array =
  let nodes = Array.of_list h.nodes in
  let cells = Array.of_list (List.map (fun c -> List.map int_of_nat c) h.cells) in
  let nn = Array.length nodes in
  let alive = Array.make nn false in
  let stack = ref (List.filter_map (function Some id -> Some (int_of_nat id) | None -> None) hs) in
  while !stack <> [] do
    (match !stack with
     | x :: r ->
       stack := r;
       if x < nn && not alive.(x) then begin
         alive.(x) <- true;
         (match nodes.(x) with
          | NLeaf _ -> ()
          | NOp (_, _, c, ca) ->
            let c = int_of_nat c in
            if c < Array.length cells then List.iter (fun y -> stack := y :: !stack) cells.(c);
            (match ca with Some k -> stack := int_of_nat k :: !stack | None -> ()))
       end
     | [] -> ())
  done;
  (alive, nodes, cells)

let uniq_rc_fast (hs : nat option list) (h : heap) (idn : nat) : bool =
  let id = int_of_nat idn in
  let (alive, nodes, cells) = fast_alive h hs in
  let nn = Array.length nodes in
  let handles = List.exists (function Some k -> int_of_nat k = id | None -> false) hs in
  let cell_of x = if x < nn then (match nodes.(x) with NOp (_, _, c, _) -> Some (int_of_nat c) | _ -> None) else None in
  let live_cell = Array.make (Array.length cells) false in
  Array.iteri (fun x a -> if a then match cell_of x with Some c when c < Array.length cells -> live_cell.(c) <- true | _ -> ()) alive;
  let refs = ref 0 in
  Array.iteri (fun c l -> if l then List.iter (fun y -> if y = id then incr refs) cells.(c)) live_cell;
  (not handles) && !refs <= 1 &&
  (match cell_of id with
   | None -> false
   | Some c ->
     let owners = ref 0 in
     Array.iteri (fun x a -> if a && cell_of x = Some c then incr owners) alive;
     !owners <= 1)

let uniq_rc_checked (hs : nat option list) (h : heap) (idn : nat) : bool =
  let f = uniq_rc_fast hs h idn in
  if List.length h.nodes < slow_limit then begin
    let s = uniq_rc a_ops hs h idn in
    if s <> f then incr fast_mismatch;
    s
  end else f

let split_on s sep =
  (* split string s on the token sep surrounded by spaces *)
  let toks = List.filter (fun t -> t <> "") (String.split_on_char ' ' s) in
  let rec go acc cur = function
    | [] -> List.rev (List.rev cur :: acc)
    | t :: r when t = sep -> go (List.rev cur :: acc) [] r
    | t :: r -> go acc (t :: cur) r in
  go [] [] toks

let op_of_int = function 0 -> Add | 1 -> Sub | _ -> Int
let int_of_op = function Add -> 0 | Sub -> 1 | Int -> 2

(* shape dump, in the harness format *)
let dump (s : state) (reg : int array) (nreg : int) : string =
  let h = s.st_heap in
  let nodes = Array.of_list h.nodes in
  let cells = Array.of_list (List.map (fun c -> List.map int_of_nat c) h.cells) in
  let nn = Array.length nodes in
  (* dead = not reachable from a live handle: the extracted [alive] that uniq_rc uses (native twin on big heaps) *)
  let (alive, _, _) = fast_alive h s.st_handles in
  if nn < slow_limit then begin
    let a2 = Array.make nn false in
    List.iter (fun id -> let i = int_of_nat id in if i < nn then a2.(i) <- true) (C03_model.alive a_ops h s.st_handles);
    if a2 <> alive then incr fast_mismatch
  end;
  let regk = Hashtbl.create 64 in
  for k = 0 to nreg - 1 do if alive.(reg.(k)) then Hashtbl.replace regk reg.(k) k done;
  let ref_of id =
    match Hashtbl.find_opt regk id with
    | Some k -> Printf.sprintf "n%d" k
    | None ->
      let res = ref "x" in
      (try
         for k = 0 to nreg - 1 do
           if alive.(reg.(k)) then
             match nodes.(reg.(k)) with
             | NOp (_, _, _, Some cid) when int_of_nat cid = id -> res := Printf.sprintf "c%d" k; raise Exit
             | _ -> ()
         done;
         for k = 0 to nreg - 1 do
           if alive.(reg.(k)) then
             match nodes.(reg.(k)) with
             | NOp (_, _, c, _) when (let c = int_of_nat c in c < Array.length cells && cells.(c) = [id]) ->
               res := Printf.sprintf "r%d" k; raise Exit
             | _ -> ()
         done
       with Exit -> ());
      !res in
  let b = Buffer.create 256 in
  Buffer.add_string b "H";
  List.iter (function
      | None -> Buffer.add_string b " -"
      | Some id -> Buffer.add_string b (" " ^ ref_of (int_of_nat id))) s.st_handles;
  Buffer.add_string b " N";
  for k = 0 to nreg - 1 do
    if alive.(reg.(k)) then
      match nodes.(reg.(k)) with
      | NLeaf _ -> Buffer.add_string b (Printf.sprintf " %d:L" k)
      | NOp (o, _, c, ca) ->
        let c = int_of_nat c in
        let rep = ref k in
        (try for k2 = 0 to nreg - 1 do
             if alive.(reg.(k2)) then
               match nodes.(reg.(k2)) with
               | NOp (_, _, c2, _) when int_of_nat c2 = c -> rep := k2; raise Exit
               | _ -> ()
           done with Exit -> ());
        let ch = if c < Array.length cells then cells.(c) else [] in
        Buffer.add_string b (Printf.sprintf " %d:%d:%d:%d:%s:%s" k (int_of_op o)
                               (match ca with Some _ -> 1 | None -> 0) !rep
                               (if List.length ch = 1 then "E" else "R")
                               (String.concat "," (List.map ref_of ch)))
  done;
  Buffer.contents b

let process line =
  let parts = String.split_on_char '#' line in
  let main = List.hd parts in
  (* after each '#': "j k:cached:kind k:cached:kind ..." = the implementation's live op nodes after the force at op j *)
  let post_after = Hashtbl.create 16 in
  List.iter (fun seg ->
      match List.filter (fun t -> t <> "") (String.split_on_char ' ' seg) with
      | j :: toks ->
        Hashtbl.replace post_after (int_of_string j)
          (List.filter_map (fun t -> match String.split_on_char ':' t with
               | [k; c; kd] -> Some (int_of_string k, (c = "1", kd = "E"))
               | _ -> None) toks)
      | [] -> ()) (match parts with _ :: r -> r | [] -> []);
  match split_on main "|" with
  | [] -> ()
  | hd :: ops ->
    (match hd with
     | "CASE" :: id :: g ->
       let gi = Array.of_list (List.map int_of_string g) in
       let grid = (gi.(0), gi.(1), gi.(2), gi.(3), gi.(4), gi.(5)) in
       let reg = Array.make (List.length ops + 1) 0 in
       let nreg = ref 0 in
       let st = ref (init_state a_ops) in
       let nhandles = ref 0 in
       let ok = ref true in
       let base_or = { uq = (fun _ _ -> false); ov = svovl; sz = sz_count; km = km1000 } in
       List.iteri (fun j op ->
           if !ok then begin
             let i = int_of_string in
             let before = List.length (!st).st_heap.nodes in
             let registers, hop, force_of =
               match op with
               | ["L"; ax; ay; az; bx; by; bz] ->
                 let (x0, x1) = cell_range (i ax) (i bx) and (y0, y1) = cell_range (i ay) (i by)
                 and (z0, z1) = cell_range (i az) (i bz) in
                 (true, HLeaf (Obj.magic (Ok (Obj.magic (vbox (z_of_int x0) (z_of_int x1) (z_of_int y0) (z_of_int y1) (z_of_int z0) (z_of_int z1))) : z st)), None)
               | ["E"; _; code] -> (true, HLeaf (Obj.magic (Err (z_of_int (i code)) : z st)), None)
               | "O" :: o :: n :: hs -> (i n <> 1, HOp (op_of_int (i o), List.map (fun h -> nat_of_int (i h)) hs), None)
               | ["B"; o; a; b] -> (true, HBool (op_of_int (i o), nat_of_int (i a), nat_of_int (i b)), None)
               | ["TT"; a; dx; dy; dz] ->
                 (true, HTransform (nat_of_int (i a), Obj.magic [GT (z_of_int (i dx), z_of_int (i dy), z_of_int (i dz))]), None)
               | ["TR"; a; rx; ry; rz] ->
                 (true, HTransform (nat_of_int (i a),
                                    Obj.magic (rep (md4 (i rz)) GRz @ rep (md4 (i ry)) GRy @ rep (md4 (i rx)) GRx)), None)
               | ["TM"; a; sx; sy; sz] ->
                 (true, HTransform (nat_of_int (i a),
                                    Obj.magic ((if i sx < 0 then [GMx] else []) @ (if i sy < 0 then [GMy] else [])
                                               @ (if i sz < 0 then [GMz] else []))), None)
               | ["C"; a] -> (false, HCopy (nat_of_int (i a)), None)
               | ["D"; a] -> (false, HDrop (nat_of_int (i a)), None)
               | "F" :: a :: _ -> (false, HForce (nat_of_int (i a)), Some (i a))
               | _ -> failwith ("bad op in case " ^ id) in
             let post = try Hashtbl.find post_after j with Not_found -> [] in
             let regtab = Hashtbl.create 64 in
             for k = 0 to !nreg - 1 do Hashtbl.replace regtab reg.(k) k done;
             let ncollapse = ref 0 in
             let pre = !st in
             let pre_nodes = Array.of_list pre.st_heap.nodes in
             let pre_cells = Array.of_list pre.st_heap.cells in
             let cell_of nid = if nid < Array.length pre_nodes then
                 (match pre_nodes.(nid) with NOp (_, _, c, _) -> Some (int_of_nat c) | _ -> None) else None in
             (* use_count oracle inferred from what the implementation did: a node that is alive afterwards was
                "unique" (collapsed) iff its cache_ is still empty; a node that died during the force was evaluated
                (not unique) iff it left its result in a children vector shared with a surviving, uncached node *)
             let uq_inferred idn =
               let nid = int_of_nat idn in
               match Hashtbl.find_opt regtab nid with
               | None -> false
               | Some k ->
                   match List.assoc_opt k post with
                   | Some (cached, _) -> not cached
                   | None ->
                     (match cell_of nid with
                      | None -> true
                      | Some c ->
                        let raw_pre = c < Array.length pre_cells && List.length pre_cells.(c) <> 1 in
                        let sharers = List.filter (fun (k2, _) -> k2 <> k && cell_of reg.(k2) = Some c) post in
                        not (raw_pre && List.exists (fun (_, (_, e)) -> e) sharers
                             && not (List.exists (fun (_, (ca, _)) -> ca) sharers))) in
             (* the answers the model USES are derived from its own heap and live handles by counting owners (the
                extracted uniq_rc); they are compared with the answers inferred from the implementation *)
             let prev = !st in
             let uq_total = ref 0 and uq_agree = ref 0 in
             let uq_rc h idn =
               let d = uniq_rc_checked prev.st_handles h idn in
               (* counted only where the implementation's answer is observable: the node is alive afterwards *)
               (match Hashtbl.find_opt regtab (int_of_nat idn) with
                | Some k when List.mem_assoc k post
                              && (match get_node a_ops h idn with
                                  | Some (NOp (_, _, c, _)) ->
                                    (match List.nth_opt h.cells (int_of_nat c) with Some ch -> List.length ch <> 1 | None -> false)
                                  | _ -> false) ->   (* with an already reduced children vector the answer is not used *)
                  incr uq_total; (if d = uq_inferred idn then incr uq_agree)
                | _ -> ());
               (if d then incr ncollapse); d in
             let o_main = { base_or with uq = uq_rc } in
             (match run_hop o_main true prev hop with
              | None -> Printf.printf "X %s %d model-undefined\n" id j; ok := false
              | Some s' ->
                st := s';
                if registers then begin reg.(!nreg) <- before; incr nreg end;
                (match hop with HLeaf _ | HOp _ | HBool _ | HTransform _ | HCopy _ -> incr nhandles | _ -> ());
                (match force_of with
                 | None -> ()
                 | Some a ->
                   (match leaf_vox s' a with
                    | None -> Printf.printf "X %s %d model-not-leaf\n" id j; ok := false
                    | Some vs ->
                      let (stc, vv) = vs in
                      let cv = canon vv in
                      let ncol = !ncollapse and uqt = !uq_total and uqa = !uq_agree in
                      let (hex, out) = hexbitmap grid cv in
                      Printf.printf "R %s %d %d %d %d %s\n" id j stc (List.length cv) out hex;
                      Printf.printf "S %s %d %s\n" id j (dump s' reg !nreg);
                      (* other oracle answers and the big-step evaluator: same solid? *)
                      let alts = [
                        (false, o_main);
                        (true, { base_or with uq = (fun _ _ -> true) });
                        (false, { base_or with uq = (fun _ _ -> true); km = nat_of_int 2 });
                        (true, { base_or with uq = (fun _ _ -> false); ov = (fun _ _ -> true) });
                        (false, { base_or with uq = (fun h _ -> int_of_nat h.tick mod 2 = 0);
                                               sz = (fun l -> z_of_int (- (List.length (vox_of (fst l))))); km = nat_of_int 3 });
                        (true, { base_or with uq = (fun h n -> (int_of_nat h.tick + int_of_nat n) mod 3 = 0);
                                              sz = (fun _ -> Z0) }) ] in
                      (* on the many-operand cases only the main run (explicit stack, derived use counts) is made *)
                      let alts = if List.length prev.st_heap.nodes >= slow_limit then [] else alts in
                      let nok = ref 0 in
                      List.iter (fun (stk, o) ->
                          match run_hop o stk prev hop with
                          | Some s2 -> (match leaf_vox s2 a with
                              | Some (st2, v2) when canon v2 = cv && (st2 <> 0) = (stc <> 0) -> incr nok
                              | _ -> ())
                          | None -> ()) alts;
                      Printf.printf "ALT %s %d %d %d %d %d %d\n" id j !nok (List.length alts) ncol uqa uqt)))
           end) ops;
       if !fast_mismatch > 0 then begin Printf.printf "X %s 0 native-refcount-differs-from-extracted %d\n" id !fast_mismatch; fast_mismatch := 0 end;
       Printf.printf "END %s\n" id
     | _ -> ())

let () =
  try
    while true do
      let line = input_line stdin in
      if String.length line >= 4 && String.sub line 0 4 = "CASE" then
        (try process line with e -> Printf.printf "X ? 0 driver-exception %s\n" (Printexc.to_string e))
      else if line = "PING" then print_endline "PONG";
      flush stdout
    done
  with End_of_file -> ()
