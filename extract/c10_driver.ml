(* Driver for the extracted C10 model and checker.  Lines on stdin:
   CHK <key> <tolsq> <npoly> { <n> { <idx> <X> <Y> }*n }*npoly <ntri> { a b c }*
        -> V <key> <consistent> <index> <chain> <area> <count> <ccw> <expected> <nbadccw>
        (X, Y, tolsq: signed hexadecimal integers, arbitrary size)
   RPL <key> <npoly> { <n> { idx }*n }*npoly <nev> { <tag> a b c }*
        -> MT <key> <status> <ntri> { a b c }*        status: ok | undefined | mismatch:<what>
           MG <key> <n> { midx left right }*           final polygon_ of the model
           MS <key> nclip nfilt nlive decisions_consumed decisions_total njoin nbad rings_closed init_ok
              (the last three are the executable hypotheses of theorem earclip_contract_partial)
   HPR <key> <npoly> { <n> { idx }*n }*npoly <ntri> { a b c }*
        -> MH <key> <n> { pairedHalfedge }*     (AddHalfedge hash pairing model on reversed contours + triangles)
   CVX <key> <npoly> { <n> { idx }*n }*npoly
        -> MC <key> <ntri|undefined> { a b c }*         (TriangulateConvex model)
   The replay oracle answers every geometric question of the model from the
   implementation's trace, in the order the implementation asked them. *)
open C10_model

let rec pos_of_int n = if n = 1 then XH else if n land 1 = 0 then XO (pos_of_int (n lsr 1)) else XI (pos_of_int (n lsr 1))
let z_of_int n = if n = 0 then Z0 else if n > 0 then Zpos (pos_of_int n) else Zneg (pos_of_int (-n))
let rec int_of_pos = function XH -> 1 | XO p -> 2 * int_of_pos p | XI p -> 2 * int_of_pos p + 1
let int_of_z = function Z0 -> 0 | Zpos p -> int_of_pos p | Zneg p -> - (int_of_pos p)
let rec nat_of_int n = if n <= 0 then O else S (nat_of_int (n - 1))
let int_of_nat n = let rec go acc = function O -> acc | S m -> go (acc + 1) m in go 0 n

(* signed hexadecimal of arbitrary size -> Coq Z *)
let z_of_hex (s : string) : z =
  let neg = String.length s > 0 && s.[0] = '-' in
  let s = if neg then String.sub s 1 (String.length s - 1) else s in
  (* bits, most significant first *)
  let bits = Buffer.create 64 in
  String.iter (fun ch ->
    let d = match ch with
      | '0'..'9' -> Char.code ch - 48
      | 'a'..'f' -> Char.code ch - 87
      | 'A'..'F' -> Char.code ch - 55
      | _ -> failwith "hex" in
    for k = 3 downto 0 do Buffer.add_char bits (if (d lsr k) land 1 = 1 then '1' else '0') done) s;
  let b = Buffer.contents bits in
  let n = String.length b in
  let i = ref 0 in
  while !i < n && b.[!i] = '0' do incr i done;
  if !i >= n then Z0 else begin
    (* positive: leading 1 is XH, then each following bit wraps *)
    let p = ref XH in
    for j = !i + 1 to n - 1 do
      p := if b.[j] = '1' then XI !p else XO !p
    done;
    if neg then Zneg !p else Zpos !p
  end

let hex_of_z (x : z) : string =
  (* only used for small values *)
  string_of_int (int_of_z x)

let b2s b = if b then "1" else "0"

type ev = { tag : char; a : int; b : int; c : int }

let () =
  try
    while true do
      let line = input_line stdin in
      let toks = Array.of_list (List.filter (fun s -> s <> "") (String.split_on_char ' ' line)) in
      let pos = ref 0 in
      let next () = let t = toks.(!pos) in incr pos; t in
      let nexti () = int_of_string (next ()) in
      if Array.length toks = 0 then ()
      else begin
        let kw = next () in
        if kw = "CHK" then begin
          let key = next () in
          let tolsq = z_of_hex (next ()) in
          let npoly = nexti () in
          let polys = List.init npoly (fun _ ->
            let n = nexti () in
            List.init n (fun _ ->
              let idx = z_of_int (nexti ()) in
              let x = z_of_hex (next ()) in
              let y = z_of_hex (next ()) in
              ((idx, x), y))) in
          let ntri = nexti () in
          let ts = List.init ntri (fun _ ->
            let a = z_of_int (nexti ()) in let b = z_of_int (nexti ()) in let c = z_of_int (nexti ()) in
            ((a, b), c)) in
          let v = tri_check polys ts tolsq in
          Printf.printf "V %s %s %s %s %s %s %s %d %d\n" key (b2s v.v_consistent) (b2s v.v_index) (b2s v.v_chain)
            (b2s v.v_area) (b2s v.v_count) (b2s v.v_ccw) (int_of_z v.v_expected) (int_of_z v.v_nbad_ccw)
        end else if kw = "CVX" then begin
          let key = next () in
          let npoly = nexti () in
          let polys = List.init npoly (fun _ -> let n = nexti () in List.init n (fun _ -> z_of_int (nexti ()))) in
          match triangulateConvex polys with
          | None -> Printf.printf "MC %s undefined\n" key
          | Some ts ->
            let b = Buffer.create 256 in
            Buffer.add_string b (Printf.sprintf "MC %s %d" key (List.length ts));
            List.iter (fun ((a, b'), c) -> Buffer.add_string b (Printf.sprintf " %d %d %d" (int_of_z a) (int_of_z b') (int_of_z c))) ts;
            print_endline (Buffer.contents b)
        end else if kw = "HPR" then begin
          let key = next () in
          let npoly = nexti () in
          let polys = List.init npoly (fun _ -> let n = nexti () in List.init n (fun _ -> z_of_int (nexti ()))) in
          let ntri = nexti () in
          let ts = List.init ntri (fun _ ->
            let a = z_of_int (nexti ()) in let b = z_of_int (nexti ()) in let c = z_of_int (nexti ()) in ((a, b), c)) in
          let ht = addHalfedges (het_halfedges polys ts) in
          let b = Buffer.create 1024 in
          Buffer.add_string b (Printf.sprintf "MH %s %d" key (List.length ht.hpair));
          List.iter (fun p -> Buffer.add_string b (Printf.sprintf " %d" (int_of_z p))) ht.hpair;
          print_endline (Buffer.contents b)
        end else if kw = "RPL" then begin
          let key = next () in
          let npoly = nexti () in
          let polys = List.init npoly (fun _ -> let n = nexti () in List.init n (fun _ -> z_of_int (nexti ()))) in
          let nv = List.fold_left (fun s p -> s + List.length p) 0 polys in
          let nev = nexti () in
          let evs = Array.init nev (fun _ ->
            let t = (next ()).[0] in let a = nexti () in let b = nexti () in let c = nexti () in
            { tag = t; a; b; c }) in
          (* tables *)
          let ftab = Hashtbl.create 16 and htab = Hashtbl.create 16 and btab = Hashtbl.create 16 and jtab = Hashtbl.create 16 in
          let horder = Hashtbl.create 16 in
          let nh = ref 0 in
          let dec = ref [] in
          Array.iter (fun e ->
            match e.tag with
            | 'F' -> Hashtbl.replace ftab e.a (e.b, e.c)
            | 'H' -> Hashtbl.replace htab e.a e.b; Hashtbl.replace horder e.a !nh; incr nh
            | 'B' -> Hashtbl.replace btab e.a (e.b, e.c)
            | 'J' -> Hashtbl.replace jtab e.a e.b
            | 'Q' | 'D' | 'P' | 'E' -> dec := e :: !dec
            | _ -> ()) evs;
          let dec = Array.of_list (List.rev !dec) in
          let cur = ref 0 in
          let mism = ref "" in
          let note s = if !mism = "" then mism := s in
          let peek () = if !cur < Array.length dec then Some dec.(!cur) else None in
          let i = int_of_nat in
          let o_degen _ e =
            let e = i e in
            (match peek () with
             | Some { tag = 'Q'; a; _ } when a = e -> incr cur
             | _ -> note (Printf.sprintf "degen-query-%d-at-%d" e !cur));
            (match peek () with
             | Some { tag = 'D'; a; _ } when a = e -> incr cur; true
             | _ -> false) in
          let o_newstart _ first _ _ v =
            (match Hashtbl.find_opt ftab (i first) with
             | Some (_, s) -> s = i v
             | None -> note (Printf.sprintf "findstart-%d-untraced" (i first)); false) in
          let o_hole _ first _ = (match Hashtbl.find_opt ftab (i first) with Some (k, _) -> k = 1 | None -> false) in
          let o_outer _ first _ = (match Hashtbl.find_opt ftab (i first) with Some (k, _) -> k = 3 | None -> false) in
          let ord s = match Hashtbl.find_opt horder s with Some k -> k | None -> max_int in
          let o_holepos _ holes s =
            let os = ord (i s) in
            let rec cnt = function [] -> 0 | h :: t -> (if ord (i h) < os then 1 else 0) + cnt t in
            nat_of_int (cnt holes) in
          let o_conn _ start _ e = (match Hashtbl.find_opt htab (i start) with Some x -> x = i e | None -> false) in
          let o_bridge0 _ start edge =
            (match Hashtbl.find_opt btab (i start) with
             | Some (ed, c0) -> if ed <> i edge then note "bridge-edge"; c0 <> i edge
             | None -> note "bridge-untraced"; false) in
          let o_bridge_early _ _ _ = false in
          let o_bridge _ start _ c v =
            (match Hashtbl.find_opt jtab (i start) with
             | Some f -> i v = f && i c <> f
             | None -> false) in
          let skip_fallback_e () =
            (match peek () with Some { tag = 'E'; _ } -> incr cur | _ -> ()) in
          let o_cand _ v =
            let v = i v in
            skip_fallback_e ();
            (match peek () with
             | Some { tag = 'P'; a; b; _ } when a = v -> incr cur; b = 1
             | _ -> note (Printf.sprintf "processear-%d-at-%d" v !cur); false) in
          let o_pick _ q =
            (match peek () with
             | Some { tag = 'E'; a; _ } ->
               incr cur;
               let rec idx k = function [] -> (note (Printf.sprintf "ear-%d-not-in-queue" a); 0)
                                     | h :: t -> if i h = a then k else idx (k + 1) t in
               nat_of_int (idx 0 q)
             | _ -> note (Printf.sprintf "ear-choice-at-%d" !cur); O) in
          let orc = { o_degen; o_newstart; o_hole; o_outer; o_holepos; o_conn; o_bridge0; o_bridge_early;
                      o_bridge; o_cand; o_pick } in
          let fuel = nat_of_int (2 * (nv + 2 * npoly) + 8) in
          (match triangulate orc fuel polys with
           | None -> Printf.printf "MT %s undefined 0\n" key
           | Some st ->
             skip_fallback_e ();
             if !cur <> Array.length dec then note (Printf.sprintf "decisions-left-%d-of-%d" (Array.length dec - !cur) (Array.length dec));
             let b = Buffer.create 1024 in
             Buffer.add_string b (Printf.sprintf "MT %s %s %d" key (if !mism = "" then "ok" else "mismatch:" ^ !mism) (List.length st.tris));
             List.iter (fun ((a, b'), c) -> Buffer.add_string b (Printf.sprintf " %d %d %d" (int_of_z a) (int_of_z b') (int_of_z c))) st.tris;
             print_endline (Buffer.contents b);
             let b = Buffer.create 1024 in
             Buffer.add_string b (Printf.sprintf "MG %s %d" key (List.length st.poly));
             List.iter (fun v -> Buffer.add_string b (Printf.sprintf " %d %d %d" (int_of_z v.midx) (int_of_nat v.vleft) (int_of_nat v.vright))) st.poly;
             print_endline (Buffer.contents b);
             let iok = (match initialize (reset polys) polys with Some (st1, _) -> init_ok polys st1 | None -> false) in
             Printf.printf "MS %s %d %d %d %d %d %d %d %s %s\n" key (int_of_nat st.nclip) (int_of_nat st.nfilt) (int_of_nat (nlive st)) !cur (Array.length dec)
               (int_of_nat st.njoin) (int_of_nat st.nbad) (b2s (rings_closed st)) (b2s iok))
        end
      end
    done
  with End_of_file -> ()
