(* Driver for the extracted C16 checkers (hull_check, winding, pt_tri_dist2).
   Reads the output of harness/c16_hull on stdin (bit patterns + integers),
   scales all doubles of one case exactly to integers by a common power of two
   and prints verdict lines  V <id> <check> <integers> [| approximations]. *)
open C16_model

(* ---- integers ---------------------------------------------------------- *)
let rec pos_of_int n = if n = 1 then XH else if n land 1 = 0 then XO (pos_of_int (n lsr 1)) else XI (pos_of_int (n lsr 1))
let z_of_int n = if n = 0 then Z0 else if n > 0 then Zpos (pos_of_int n) else Zneg (pos_of_int (-n))
let rec int_of_pos = function XH -> 1 | XO p -> 2 * int_of_pos p | XI p -> 2 * int_of_pos p + 1
let int_of_z = function Z0 -> 0 | Zpos p -> int_of_pos p | Zneg p -> - (int_of_pos p)
let rec nat_of_int n = if n <= 0 then O else S (nat_of_int (n - 1))
let rec shl_pos p k = if k <= 0 then p else shl_pos (XO p) (k - 1)
let shl z k = match z with Z0 -> Z0 | Zpos p -> Zpos (shl_pos p k) | Zneg p -> Zneg (shl_pos p k)
let pow2 k = shl_pos XH k
let rec float_of_pos = function XH -> 1.0 | XO p -> 2.0 *. float_of_pos p | XI p -> 2.0 *. float_of_pos p +. 1.0
let float_of_z = function Z0 -> 0.0 | Zpos p -> float_of_pos p | Zneg p -> -. float_of_pos p
let float_of_q (x : q) = float_of_z x.qnum /. float_of_pos x.qden
let zmul = Z.mul and zadd = Z.add and zsub = Z.sub and zabs = Z.abs
let zcmp a b = match Z.compare a b with Eq -> 0 | Lt -> -1 | Gt -> 1
let zmax a b = if zcmp a b >= 0 then a else b

(* ---- doubles as dyadic rationals m * 2^e ------------------------------- *)
type dy = { m : int; e : int; fin : bool }
let dy_of_hex (s : string) : dy =
  let b = Int64.of_string ("0x" ^ s) in
  let sign = Int64.compare (Int64.shift_right_logical b 63) 0L <> 0 in
  let ex = Int64.to_int (Int64.logand (Int64.shift_right_logical b 52) 0x7ffL) in
  let fr = Int64.to_int (Int64.logand b 0xfffffffffffffL) in
  if ex = 0x7ff then { m = 0; e = 0; fin = false }
  else begin
    let m, e = if ex = 0 then fr, -1074 else fr lor (1 lsl 52), ex - 1075 in
    if m = 0 then { m = 0; e = 0; fin = true }
    else begin
      let m = ref m and e = ref e in
      while !m land 1 = 0 do m := !m lsr 1; incr e done;
      { m = (if sign then - !m else !m); e = !e; fin = true }
    end
  end
let float_of_hex s = Int64.float_of_bits (Int64.of_string ("0x" ^ s))
let emin_of (l : dy list) = List.fold_left (fun a d -> if d.m = 0 then a else min a d.e) max_int l
let zof emin d = if d.m = 0 then Z0 else shl (z_of_int d.m) (d.e - emin)
(* value * 2^(-unit_e) as a rational *)
let qof unit_e d : q =
  if d.m = 0 then { qnum = Z0; qden = XH }
  else if d.e >= unit_e then { qnum = shl (z_of_int d.m) (d.e - unit_e); qden = XH }
  else { qnum = z_of_int d.m; qden = pow2 (unit_e - d.e) }
let qz z : q = { qnum = z; qden = XH }
let qlt a b = not (qle_bool b a)
let qabs (a : q) : q = { qnum = zabs a.qnum; qden = a.qden }

(* ---- meshes ------------------------------------------------------------ *)
type mesh = { nv : int; nt : int; nprop : int; vd : dy array (* 3 nv *); ti : int array (* 3 nt, merged *) }
let parse_mesh (t : string array) (o : int) : mesh =
  let nv = int_of_string t.(o) and nt = int_of_string t.(o + 1) in
  let nprop = int_of_string t.(o + 2) and nm = int_of_string t.(o + 3) in
  let vd = Array.init (3 * nv) (fun i -> dy_of_hex t.(o + 4 + i)) in
  let ti = Array.init (3 * nt) (fun i -> int_of_string t.(o + 4 + 3 * nv + i)) in
  let mo = o + 4 + 3 * nv + 3 * nt in
  let mp = Array.init nv (fun i -> i) in
  for i = 0 to nm - 1 do mp.(int_of_string t.(mo + 2 * i)) <- int_of_string t.(mo + 2 * i + 1) done;
  { nv; nt; nprop; vd; ti = Array.map (fun i -> mp.(i)) ti }
let mesh_dys (m : mesh) = Array.to_list m.vd
let mesh_pts emin (m : mesh) = Array.init m.nv (fun i -> ((zof emin m.vd.(3 * i), zof emin m.vd.(3 * i + 1)), zof emin m.vd.(3 * i + 2)))
let mesh_tris emin (m : mesh) =
  let p = mesh_pts emin m in
  List.init m.nt (fun i -> ((p.(m.ti.(3 * i)), p.(m.ti.(3 * i + 1))), p.(m.ti.(3 * i + 2))))
let mesh_itris (m : mesh) =
  (* vertices that are referenced, renumbered densely *)
  let used = Array.make m.nv (-1) in
  let n = ref 0 in
  Array.iter (fun i -> if used.(i) < 0 then begin used.(i) <- !n; incr n end) m.ti;
  !n, List.init m.nt (fun i -> ((z_of_int used.(m.ti.(3 * i)), z_of_int used.(m.ti.(3 * i + 1))), z_of_int used.(m.ti.(3 * i + 2))))
let max_abs (pts : ((z * z) * z) list) =
  List.fold_left (fun a ((x, y), z) -> zmax a (zmax (zabs x) (zmax (zabs y) (zabs z)))) (z_of_int 1) pts
let tri_pts l = List.concat_map (fun ((a, b), c) -> [a; b; c]) l
let b2i b = if b then 1 else 0
let ptri p = ((p, p), p)

let rec shr_pos p k = if k <= 0 then p else (match p with XO q -> shr_pos q (k - 1) | XI q -> shr_pos q (k - 1) | XH -> XH)
let shr z k = match z with Z0 -> Z0 | Zpos p -> Zpos (shr_pos p k) | Zneg p -> Zneg (shr_pos p k)
let zle a b = zcmp a b <= 0
(* p is farther than r from the box of t along some axis (comparisons only) *)
let far_axis ((x, y), z) ((a, b) : ((z * z) * z) * ((z * z) * z)) r =
  let ((ax, ay), az) = a and ((bx, by), bz) = b in
  zle r (zsub ax x) || zle r (zsub x bx) || zle r (zsub ay y) || zle r (zsub y by) || zle r (zsub az z) || zle r (zsub z bz)
let box_of_tri ((((ax, ay), az), ((bx, by), bz)), ((cx, cy), cz)) =
  let mn a b c = if zle a b then (if zle a c then a else c) else (if zle b c then b else c)
  and mx a b c = if zle b a then (if zle c a then a else c) else (if zle c b then b else c) in
  (((mn ax bx cx, mn ay by cy), mn az bz cz), ((mx ax bx cx, mx ay by cy), mx az bz cz))
(* generic-position filter (not a verdict): is p within r of the plane of a
   triangle whose box inflated by r contains p?  Conservative: may say "near"
   for far points, never "far" for points within r of the surface. *)
let near3 p (tb : (_ * _) list) r =
  let r2 = zmul r r in
  List.exists (fun (((a, b), c), bx) ->
      (not (far_axis p bx r)) &&
      (let o = o3 a b c p in
       let n = cross (psub b a) (psub c a) in
       zle (zmul o o) (zmul r2 (norm2 n)))) tb
(* verdict: exact squared distance from p to the surface is < tol2 (Some true),
   not (Some false); None = certificate failure *)
let on_surface p (tb : (_ * _) list) t tol2 =
  let res = ref (Some false) in
  List.iter (fun (tr, bx) ->
      if !res = Some false && not (far_axis p bx t) then
        (match pt_tri_dist2 p tr with None -> res := None | Some d -> if qlt d tol2 then res := Some true)) tb;
  !res


(* interior sample points of a closed mesh: grid over its bounding box (odd
   sixteenths + skew, exact thanks to 8 spare bits), kept when the exact
   winding is non-zero and the point is not within r of the surface *)
let bbox_pts pts =
  let lo f = List.fold_left (fun a p -> if zcmp (f p) a < 0 then f p else a) (f (List.hd pts)) pts
  and hi f = List.fold_left (fun a p -> if zcmp (f p) a > 0 then f p else a) (f (List.hd pts)) pts in
  let fx ((x, _), _) = x and fy ((_, y), _) = y and fz ((_, _), z) = z in
  (lo fx, hi fx), (lo fy, hi fy), (lo fz, hi fz)
let grid n ((lx, hx), (ly, hy), (lz, hz)) =
  let div256 v k = zmul (shr v 8) (z_of_int k) in
  let step = 256 / n in
  let acc = ref [] in
  for i = 0 to n - 1 do for j = 0 to n - 1 do for k = 0 to n - 1 do
        let kx = step * i + step / 2 + j - 1 and ky = step * j + step / 2 + k - 2 and kz = step * k + step / 2 + 2 * i - 3 in
        acc := ((zadd lx (div256 (zsub hx lx) kx), zadd ly (div256 (zsub hy ly) ky)), zadd lz (div256 (zsub hz lz) kz)) :: !acc
      done done done;
  List.rev !acc
let with_boxes tris = List.map (fun x -> (x, box_of_tri x)) tris
let inside tris p = zcmp (winding_fast tris p) Z0 <> 0
let padd ((a, b), c) ((d, e), f) = ((zadd a d, zadd b e), zadd c f)
let psubz ((a, b), c) ((d, e), f) = ((zsub a d, zsub b e), zsub c f)
let rec take n l = if n <= 0 then [] else match l with [] -> [] | x :: r -> x :: take (n - 1) r
(* ceil(sqrt(z)) *)
let csqrt z = let s = Z.sqrt z in if zcmp (zmul s s) z = 0 then s else zadd s (z_of_int 1)

let () =
  let hp = ref [] and hs = ref [||] in
  let mA = ref None and mB = ref None and ms = ref [||] in
  let get r = match !r with Some x -> x | None -> failwith "no mesh" in
  try
    while true do
      let line = input_line stdin in
      let t = Array.of_list (List.filter (fun s -> s <> "") (String.split_on_char ' ' line)) in
      if Array.length t >= 2 then begin
        let id = t.(1) in
        (try match t.(0) with
        | "HP" -> let n = int_of_string t.(2) in hp := List.init (3 * n) (fun i -> dy_of_hex t.(3 + i))
        | "HS" -> hs := t
        | "HM" ->
          let m = parse_mesh t 2 in
          let t' = !hs in
          let status = int_of_string t'.(2) and vol = dy_of_hex t'.(5) in
          let simp_empty = int_of_string t'.(6) and is_empty = int_of_string t'.(7) in
          let epsd = dy_of_hex t.(Array.length t - 1) in ignore epsd;
          let emin = emin_of (!hp @ mesh_dys m) in
          let emin = if emin = max_int then 0 else emin in
          let rec pts3 = function a :: b :: c :: r -> ((zof emin a, zof emin b), zof emin c) :: pts3 r | _ -> [] in
          let pts = pts3 !hp in
          let fin = List.for_all (fun d -> d.fin) (!hp @ mesh_dys m) in
          let s = if pts = [] then z_of_int 1 else max_abs pts in
          (* eps = 2 * defaultEps * scale, defaultEps given on the command line as a double bit pattern *)
          let de = dy_of_hex Sys.argv.(1) in
          let num = zmul (z_of_int (2 * de.m)) s in       (* eps_scaled = num * 2^de.e *)
          let n2 = zmul num num in
          let eps2 = if de.e >= 0 then shl n2 (2 * de.e) else zadd (shr n2 (-2 * de.e)) (z_of_int 1) in
          let it = List.init m.nt (fun i -> ((z_of_int m.ti.(3 * i), z_of_int m.ti.(3 * i + 1)), z_of_int m.ti.(3 * i + 2))) in
          let vpos = Array.to_list (mesh_pts emin m) in
          let code = if not fin then 9 else int_of_z (hull_check_code vpos it pts eps2) in
          let flat = hull_input_flat pts in
          Printf.printf "V %s hull %d %d %d %d %d %d %d %d %d\n" id code (b2i flat) m.nv m.nt (List.length pts) status simp_empty is_empty (b2i (vol.m = 0))
        | "MS" -> ms := t
        | "CV" -> hs := t
        | "CM" ->
          let m = parse_mesh t 2 in
          let t' = !hs in
          let status = int_of_string t'.(2) and isconv = int_of_string t'.(3) and genus = int_of_string t'.(4) in
          let emin = emin_of (mesh_dys m) in
          let emin = (if emin = max_int then 0 else emin) - 40 in   (* spare bits so that scale/2^30 is representable *)
          let vpos = Array.to_list (mesh_pts emin m) in
          let it = List.init m.nt (fun i -> ((z_of_int m.ti.(3 * i), z_of_int m.ti.(3 * i + 1)), z_of_int m.ti.(3 * i + 2))) in
          let s = if vpos = [] then z_of_int 1 else max_abs vpos in
          (* exact global convexity: closed manifold, every vertex within eps = scale/2^30 of the inner side of every face plane *)
          let e = zmax (shr s 30) (z_of_int 1) in
          let code = int_of_z (hull_check_code vpos it vpos (zmul e e)) in
          let flat = hull_input_flat vpos in
          Printf.printf "V %s conv %d %d %d %d %d %d\n" id status isconv genus (b2i (code = 0 && not flat && m.nt > 0)) code m.nt
        | "MA" -> mA := Some (parse_mesh t 2)
        | "MB" -> mB := Some (parse_mesh t 2)
        | "MR" ->
          let r = parse_mesh t 2 and a = get mA and b = get mB in
          let op = !ms.(2) and status = int_of_string !ms.(3) in
          let emin = emin_of (mesh_dys a @ mesh_dys b @ mesh_dys r) - 8 in
          let ta = mesh_tris emin a and tb = mesh_tris emin b and tr = mesh_tris emin r in
          let pa = tri_pts ta and pb = tri_pts tb in
          let s = zmax (max_abs pa) (zmax (max_abs pb) (if tr = [] then z_of_int 1 else max_abs (tri_pts tr))) in
          let rr = zmax (shr s 20) (z_of_int 1) in
          let ba = with_boxes ta and bb = with_boxes tb and br = with_boxes tr in
          let big = a.nt > 400 || r.nt > 4000 in     (* many-triangle operands: fewer grid samples, targeted ones do the work *)
          let sa = List.filter (fun p -> inside ta p && not (near3 p ba rr)) (grid (if big then 2 else 4) (bbox_pts pa)) in
          let sb = List.filter (fun p -> inside tb p && not (near3 p bb rr)) (grid (if big then 2 else 3) (bbox_pts pb)) in
          (* targeted samples: for up to 96 triangles t of A spread evenly over the whole index range (so that every batch
             of Impl::Minkowski's triangle loop is hit), the surface point a_t = (2 v0 + v1 + v2)/4 and the vertex b*_t of B
             that is extreme along t's outward normal; all exact thanks to the 8 spare bits *)
          let q4 ((x, y), z) k = ((zmul (shr x 2) (z_of_int k), zmul (shr y 2) (z_of_int k)), zmul (shr z 2) (z_of_int k)) in
          let mk_targeted tris verts =
            let tarr = Array.of_list tris in
            let nta = Array.length tarr in
            let stride = max 1 (nta / 96) in
            List.filter_map (fun i ->
              if i mod stride <> 0 || verts = [] then None else begin
                let ((v0, v1), v2) = tarr.(i) in
                let at = padd (q4 v0 2) (padd (q4 v1 1) (q4 v2 1)) in
                let n = fnormal v0 v1 v2 in
                let best = List.fold_left (fun acc v -> match acc with None -> Some v | Some w -> if zcmp (dot n v) (dot n w) > 0 then Some v else acc) None verts in
                let worst = List.fold_left (fun acc v -> match acc with None -> Some v | Some w -> if zcmp (dot n v) (dot n w) < 0 then Some v else acc) None verts in
                match best, worst with Some bs, Some ws -> Some (at, bs, ws) | _ -> None
              end) (List.init nta (fun i -> i)) in
          let targeted = mk_targeted ta (Array.to_list (mesh_pts emin b)) in
          (* the sum is commutative and the library sweeps whichever operand is not convex: also B's triangles against A's vertices *)
          let targeted_b = if op = "sum" then mk_targeted tb (Array.to_list (mesh_pts emin a)) else [] in
          let origin_in_b = inside tb ((Z0, Z0), Z0) in
          let r_closed = (let n, it = mesh_itris r in r.nt = 0 || (n = r.nv && check_mesh (z_of_int n) it)) in
          if op = "sum" then begin
            (* a + b in Sum *)
            let tested = ref 0 and missing = ref 0 and skipped = ref 0 and first = ref "" in
            List.iter (fun pa_ -> List.iter (fun pb_ ->
                let p = padd pa_ pb_ in
                if near3 p br rr then incr skipped
                else begin
                  incr tested;
                  if not (inside tr p) then begin
                    incr missing;
                    if !first = "" then begin
                      let f ((x, y), z) = Printf.sprintf "(%g,%g,%g)" (float_of_z x *. 2.0 ** float_of_int emin) (float_of_z y *. 2.0 ** float_of_int emin) (float_of_z z *. 2.0 ** float_of_int emin) in
                      first := Printf.sprintf "a=%s b=%s" (f pa_) (f pb_)
                    end
                  end
                end) sb) sa;
            (* targeted: a_t + (3/4) b*_t lies in A (+) B (a_t in the closed solid, (3/4) b* in the convex hull of B's vertices
               and 0; judged only when B is convex or the point is classified inside B exactly) *)
            let t_tested = ref 0 and t_missing = ref 0 in
            let judge other_t other_b other_bb (at, bs, _) =
                let b34 = q4 bs 3 in
                if inside other_t b34 && not (near3 b34 other_bb rr) then begin
                  let p = padd at b34 in
                  if not (near3 p br rr) then begin
                    incr t_tested; incr tested;
                    if not (inside tr p) then begin
                      incr t_missing; incr missing;
                      if !first = "" then begin
                        let f ((x, y), z) = Printf.sprintf "(%g,%g,%g)" (float_of_z x *. 2.0 ** float_of_int emin) (float_of_z y *. 2.0 ** float_of_int emin) (float_of_z z *. 2.0 ** float_of_int emin) in
                        first := Printf.sprintf "%s=%s(on surface) %s=%s" other_b (f at) (if other_b = "a" then "b" else "a") (f b34)
                      end
                    end
                  end
                end in
            List.iter (judge tb "a" bb) targeted;
            List.iter (judge ta "b" ba) targeted_b;
            (* A subset of Sum *)
            let a_tested = ref 0 and a_missing = ref 0 in
            List.iter (fun p -> if not (near3 p br rr) then begin incr a_tested; if not (inside tr p) then incr a_missing end) sa;
            (* nothing farther from A than reach(B) (+ margin): grid over the inflated box of A and of the result *)
            let reach2 = List.fold_left (fun acc p -> zmax acc (norm2 p)) Z0 pb in
            let reach = zadd (csqrt reach2) (zmul (z_of_int 10) rr) in
            let reach_z2 = zmul reach reach in
            let reach_sq = qz reach_z2 in
            let va = Array.to_list (mesh_pts emin a) in
            let (x0, x1), (y0, y1), (z0, z1) = bbox_pts (pa @ (if tr = [] then [] else tri_pts tr)) in
            let m2 = zmul (z_of_int 2) reach in
            (* round the box outwards to multiples of 256 so the grid stays exact *)
            let dn v = shl (shr (zsub v m2) 8) 8 and up v = shl (zadd (shr (zadd v m2) 8) (z_of_int 1)) 8 in
            let far_tested = ref 0 and far_inside = ref 0 and cert = ref true and far_first = ref "" in
            let far_probe p =
                if not (inside ta p) then begin
                  (* exact: is p farther than reach from every triangle of A? *)
                  (* cheap sufficient test first: a vertex of A within reach (integers only) *)
                  let close = ref (List.exists (fun v -> zle (norm2 (psubz p v)) reach_z2) va) in
                  List.iter (fun (tri, bx) ->
                      if not !close && not (far_axis p bx reach) then
                        (match pt_tri_dist2 p tri with None -> cert := false | Some d -> if qle_bool d reach_sq then close := true)) ba;
                  if not !close then begin
                    incr far_tested;
                    if inside tr p then begin
                      incr far_inside;
                      if !far_first = "" then begin
                        let ((x, y), z) = p in
                        far_first := Printf.sprintf "far=(%g,%g,%g)" (float_of_z x *. 2.0 ** float_of_int emin) (float_of_z y *. 2.0 ** float_of_int emin) (float_of_z z *. 2.0 ** float_of_int emin)
                      end
                    end
                  end
                end in
            (* around the result (inflated box) and, densely, inside the box of A itself: gaps between
               components of A and concavities of A are sampled there *)
            List.iter far_probe (grid (if big then 4 else 5) ((dn x0, up x1), (dn y0, up y1), (dn z0, up z1)));
            List.iter far_probe (grid (if big then 4 else 6) (bbox_pts pa));
            if not !cert then Printf.printf "V %s mink CERTFAIL\n" id
            else Printf.printf "V %s sum %d %d %d %d %d %d %d %d %d %d %d %d %d | %s\n" id status (b2i origin_in_b) (b2i r_closed)
                (List.length sa) (List.length sb) !tested !missing !skipped !a_tested !a_missing !far_tested !far_inside r.nt (!first ^ " " ^ !far_first)
          end else begin
            (* Difference: D subset of A; p - b in A for p in D, b in B *)
            let sd = if tr = [] then [] else List.filter (fun p -> inside tr p && not (near3 p br rr)) (grid (if big then 3 else 5) (bbox_pts (tri_pts tr))) in
            (* targeted: p_t = a_t - b*_t/4 is just below face t; with b = (3/4) w_t (w_t = vertex of B most opposite to the
               normal) p_t - b is usually outside A, so p_t must have been eroded away.  Added to the samples when inside the result. *)
            let sd_t = if tr = [] then [] else List.filter_map (fun (at, bs, _) ->
                let p = psubz at (q4 bs 1) in if inside tr p && not (near3 p br rr) then Some p else None) targeted in
            let sd = sd @ sd_t in
            let sb = sb @ List.filter (fun b_ -> inside tb b_ && not (near3 b_ bb rr))
                       (List.sort_uniq compare (List.concat_map (fun (_, bs, ws) -> [q4 bs 3; q4 ws 3]) targeted)) in
            let d_tested = ref 0 and d_outside = ref 0 and e_tested = ref 0 and e_outside = ref 0 and skipped = ref 0 in
            List.iter (fun p ->
                if near3 p ba rr then incr skipped
                else begin incr d_tested; if not (inside ta p) then incr d_outside end;
                List.iter (fun b_ ->
                    let q = psubz p b_ in
                    if near3 q ba rr then incr skipped
                    else begin incr e_tested; if not (inside ta q) then incr e_outside end) sb) sd;
            Printf.printf "V %s diff %d %d %d %d %d %d %d %d %d %d %d\n" id status (b2i origin_in_b) (b2i r_closed)
              (List.length sd) (List.length sb) !d_tested !d_outside !e_tested !e_outside !skipped r.nt
          end
        | "END" -> Printf.printf "V %s end\n" id
        | "ERR" -> Printf.printf "V %s error harness\n" id
        | _ -> ()
        with Failure msg -> Printf.printf "V %s error %s %s\n" id t.(0) msg
           | Invalid_argument msg -> Printf.printf "V %s error %s %s\n" id t.(0) msg
           | Not_found -> Printf.printf "V %s error %s notfound\n" id t.(0))
      end
    done
  with End_of_file -> ()
