(* Driver for the extracted C17 models. stdin lines:
   EXT id nDiv cone k n1..nk        -> EXT id nverts tris...      (side triangles only)
   REV id nDiv full npoly (n f1..fn)* -> REV id nverts tris... | st ... | en ...
   SEG id explicit m arg            -> SEG id circ sphere_n cylinder_n
   CLOSED id nv a b c ...           -> CLOSED id c m  (c: boundary chain 0 and indices in range; m: each directed edge exactly once)
   WIND id ntri npts <9*ntri hex ints> <3*npts hex ints> -> WIND id vol6 w1 w2 ...
   ROT id cx sx cy sy cz sz x y z   -> ROT id x' y' z'  *)
open C17_model

let rec pos_of_int n = if n = 1 then XH else if n land 1 = 0 then XO (pos_of_int (n lsr 1)) else XI (pos_of_int (n lsr 1))
let z_of_int n = if n = 0 then Z0 else if n > 0 then Zpos (pos_of_int n) else Zneg (pos_of_int (-n))
let rec int_of_pos = function XH -> 1 | XO p -> 2 * int_of_pos p | XI p -> 2 * int_of_pos p + 1
let int_of_z = function Z0 -> 0 | Zpos p -> int_of_pos p | Zneg p -> - (int_of_pos p)
let rec nat_of_int n = if n <= 0 then O else S (nat_of_int (n - 1))

(* big integers: signed hex strings <-> Z *)
let z_of_hex s =
  let neg = String.length s > 0 && s.[0] = '-' in
  let s = if neg then String.sub s 1 (String.length s - 1) else s in
  (* build positive from most significant bit down *)
  let bits = Buffer.create 64 in
  String.iter (fun c ->
    let v = if c >= '0' && c <= '9' then Char.code c - 48 else if c >= 'a' && c <= 'f' then Char.code c - 87
            else if c >= 'A' && c <= 'F' then Char.code c - 55 else failwith "hex" in
    for k = 3 downto 0 do Buffer.add_char bits (if (v lsr k) land 1 = 1 then '1' else '0') done) s;
  let b = Buffer.contents bits in
  let n = String.length b in
  let rec first i = if i >= n then n else if b.[i] = '1' then i else first (i + 1) in
  let f = first 0 in
  if f >= n then Z0 else begin
    let p = ref XH in
    for i = f + 1 to n - 1 do p := if b.[i] = '1' then XI !p else XO !p done;
    if neg then Zneg !p else Zpos !p
  end

let hex_of_z z =
  let rec bits p acc = match p with XH -> 1 :: acc | XO q -> bits q (0 :: acc) | XI q -> bits q (1 :: acc) in
  let tohex p =
    let bs = bits p [] in                          (* most significant first *)
    let pad = (4 - List.length bs mod 4) mod 4 in
    let bs = List.init pad (fun _ -> 0) @ bs in
    let buf = Buffer.create 16 in
    let rec go = function
      | a :: b :: c :: d :: r -> Buffer.add_char buf "0123456789abcdef".[a * 8 + b * 4 + c * 2 + d]; go r
      | _ -> () in
    go bs; Buffer.contents buf in
  match z with Z0 -> "0" | Zpos p -> tohex p | Zneg p -> "-" ^ tohex p

let ptri b ((a, bb), c) = Buffer.add_string b (Printf.sprintf " %d %d %d" (int_of_z a) (int_of_z bb) (int_of_z c))

let () =
  try
    while true do
      let line = input_line stdin in
      let toks = Array.of_list (List.filter (fun s -> s <> "") (String.split_on_char ' ' line)) in
      if Array.length toks < 2 then ()
      else begin
        let id = toks.(1) in
        let ti k = int_of_string toks.(k) in
        match toks.(0) with
        | "EXT" ->
          let nd = ti 2 and cone = ti 3 = 1 and k = ti 4 in
          let sizes = List.init k (fun j -> nat_of_int (ti (5 + j))) in
          let b = Buffer.create 1024 in
          Buffer.add_string b (Printf.sprintf "EXT %s %d" id (int_of_z (ext_nverts sizes (nat_of_int nd) cone)));
          List.iter (ptri b) (ext_sides sizes (nat_of_int nd) cone);
          print_endline (Buffer.contents b)
        | "REV" ->
          let nd = ti 2 and full = ti 3 = 1 and np = ti 4 in
          let pos = ref 5 in
          let polys = List.init np (fun _ ->
            let n = ti !pos in incr pos;
            let fl = List.init n (fun i -> ti (!pos + i) = 1) in pos := !pos + n; fl) in
          let (((ts, st), en), nv) = rev_polys polys (nat_of_int nd) (rev_nslices (nat_of_int nd) full) full Z0 in
          let b = Buffer.create 1024 in
          Buffer.add_string b (Printf.sprintf "REV %s %d" id (int_of_z nv));
          List.iter (ptri b) ts;
          Buffer.add_string b " | st";
          List.iter (fun z -> Buffer.add_string b (Printf.sprintf " %d" (int_of_z z))) st;
          Buffer.add_string b " | en";
          List.iter (fun z -> Buffer.add_string b (Printf.sprintf " %d" (int_of_z z))) en;
          print_endline (Buffer.contents b)
        | "SEG" ->
          let e = z_of_int (ti 2) and m = z_of_int (ti 3) and arg = z_of_int (ti 4) in
          Printf.printf "SEG %s %d %d %d\n" id (int_of_z (circ_segments e m)) (int_of_z (sphere_n arg e m)) (int_of_z (cylinder_n arg e m))
        | "CLOSED" ->
          let nv = z_of_int (ti 2) in
          let n = (Array.length toks - 3) / 3 in
          let ts = List.init n (fun i -> ((z_of_int (ti (3 + 3 * i)), z_of_int (ti (4 + 3 * i))), z_of_int (ti (5 + 3 * i)))) in
          let ok = chain_closedb ts && List.for_all (tri_in_rangeb nv) ts in
          Printf.printf "CLOSED %s %d %d\n" id (if ok then 1 else 0) (if manifold_closedb ts then 1 else 0)
        | "WIND" ->
          let nt = ti 2 and np = ti 3 in
          let z k = z_of_hex toks.(k) in
          let pt k = ((z k, z (k + 1)), z (k + 2)) in
          let tris = List.init nt (fun i -> ((pt (4 + 9 * i), pt (7 + 9 * i)), pt (10 + 9 * i))) in
          let base = 4 + 9 * nt in
          let b = Buffer.create 256 in
          Buffer.add_string b (Printf.sprintf "WIND %s %s" id (hex_of_z (volume6 tris)));
          for i = 0 to np - 1 do
            Buffer.add_string b (Printf.sprintf " %d" (int_of_z (winding_fast tris (pt (base + 3 * i)))))
          done;
          print_endline (Buffer.contents b)
        | "ROT" ->
          let m = mat_rot (z_of_int (ti 2)) (z_of_int (ti 3)) (z_of_int (ti 4)) (z_of_int (ti 5)) (z_of_int (ti 6)) (z_of_int (ti 7)) in
          let n = (Array.length toks - 8) / 3 in
          let b = Buffer.create 256 in
          Buffer.add_string b ("ROT " ^ id);
          for i = 0 to n - 1 do
            let ((x, y), zz) = apply m ((z_of_int (ti (8 + 3 * i)), z_of_int (ti (9 + 3 * i))), z_of_int (ti (10 + 3 * i))) in
            Buffer.add_string b (Printf.sprintf " %d %d %d" (int_of_z x) (int_of_z y) (int_of_z zz))
          done;
          print_endline (Buffer.contents b)
        | _ -> ()
      end
    done
  with End_of_file -> ()
