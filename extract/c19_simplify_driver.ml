(* Driver for the extracted edge-operation model (C19 simplify_counts).
   stdin: lines printed by harness c19_partition in mode X:
     X id.k (C|W) e ST0 n (start pair prop)*n nvert numprop nprop ST1 <same> DID d LIVE l LIVE0 l0 SLOTS0 s0
   stdout: X id.k OK | DIFF <what> | UNDEFINED, plus the model's num_live. *)
open C19_simplify

let rec pos_of_int n = if n = 1 then XH else if n land 1 = 0 then XO (pos_of_int (n lsr 1)) else XI (pos_of_int (n lsr 1))
let z_of_int n = if n = 0 then Z0 else if n > 0 then Zpos (pos_of_int n) else Zneg (pos_of_int (-n))
let rec int_of_pos = function XH -> 1 | XO p -> 2 * int_of_pos p | XI p -> 2 * int_of_pos p + 1
let int_of_z = function Z0 -> 0 | Zpos p -> int_of_pos p | Zneg p -> - (int_of_pos p)
let rec nat_of_int n = if n <= 0 then O else S (nat_of_int (n - 1))

let parse_state toks pos =
  let n = int_of_string toks.(pos) in
  let he = List.init n (fun i ->
      ((z_of_int (int_of_string toks.(pos + 1 + 3 * i)), z_of_int (int_of_string toks.(pos + 2 + 3 * i))),
       z_of_int (int_of_string toks.(pos + 3 + 3 * i)))) in
  let q = pos + 1 + 3 * n in
  ({ he = he; nvert = z_of_int (int_of_string toks.(q)); numprop = z_of_int (int_of_string toks.(q + 1));
     nprop = z_of_int (int_of_string toks.(q + 2)) }, q + 3)

let same_state a b =
  a.nvert = b.nvert && a.numprop = b.numprop && a.nprop = b.nprop && a.he = b.he

let () =
  let fuel = nat_of_int 400 in
  try
    while true do
      let line = input_line stdin in
      let toks = Array.of_list (List.filter (fun s -> s <> "") (String.split_on_char ' ' line)) in
      if Array.length toks > 4 && toks.(0) = "X" && toks.(4) = "ST0" then begin
        let id = toks.(1) and op = toks.(2) and e = int_of_string toks.(3) in
        let (s0, p1) = parse_state toks 5 in
        let (s1, p2) = parse_state toks (p1 + 1) in
        let did = toks.(p2 + 1) = "1" in
        let live = int_of_string toks.(p2 + 3) in
        let res =
          if op = "W" then (match swap_edge fuel s0 (z_of_int e) with Some s -> Some (s, true) | None -> None)
          else collapse_edge2 fuel s0 (z_of_int e) false in
        match res with
        | None -> Printf.printf "X %s UNDEFINED\n" id
        | Some (s, d) ->
          let ml = int_of_z (num_live s) in
          if same_state s s1 && (op = "W" || d = did) && ml = live && slots s = slots s0
          then begin
            (* the hypotheses of the invariant theorems, evaluated on this real state *)
            let inv0 = pair_inv s0 and inv1 = pair_inv s in
            let guard = (if op = "W" then swap_edge_guard fuel s0 (z_of_int e) else collapse_edge2_guard fuel s0 (z_of_int e) false) in
            let g = match guard with Some true -> 1 | Some false -> 0 | None -> -1 in
            Printf.printf "X %s OK %d INV0 %d INV1 %d GUARD %d\n" id ml (if inv0 then 1 else 0) (if inv1 then 1 else 0) g
          end
          else Printf.printf "X %s DIFF state=%b did=%b live=%d/%d\n" id (same_state s s1) (d = did) ml live
      end
    done
  with End_of_file -> ()
