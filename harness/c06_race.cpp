// C06 tie / search harness: client threads run generated programs over SHARED
// lazy Manifolds / CrossSections / ExecutionContexts built from /repo's
// current sources.  Built as the `tsan` variant (ThreadSanitizer, PAR off so
// every synchronisation is visible to it) and as `seq` for the answer oracle.
//
// One case per input line:
//   CASE <id> <reps> <loose> | <setup op>,<setup op>,... | <thread0 op>,... | <thread1 op>,... | ...
// Setup ops (executed by the main thread, each appends one object to a pool):
//   cube sx sy sz tx ty tz          Manifold leaf with a pending (lazy) translate
//   sph  r segs tx ty tz            Sphere, lazy translate
//   bool <op> i j                   pool.m[i] op pool.m[j]   (op in + - ^)   lazy op node
//   tr i tx ty tz                   pool.m[i].Translate       (shares the op node's impl_)
//   sc i k                          pool.m[i].Scale(2^k)
//   xsq sx sy tx ty                 CrossSection square with a pending transform
//   xci r segs tx ty                Circle, lazy translate
//   xbool <op> i j                  CrossSection boolean (eager in this library)
//   xtr i tx ty                     CrossSection translate (lazy)
//   xstrips n pitch len width k     n thin parallel diagonal strips (4n edges, all edge boxes overlapping), with a
//                                   pending Scale(2^k): big enough to take the 2-D Boolean's BVH broad phase
//   ctx                             a fresh ExecutionContext
// Thread ops (every op yields one answer word):
//   q <kind> i        kind in numtri vol bbox status mesh genus  on the SHARED pool.m[i]
//   cp i              copy-construct from pool.m[i], query the copy (mesh)
//   as i              assign pool.m[i] to a thread-local Manifold, query it (mesh)
//   ex <op> i j t     E = pool.m[i] op pool.m[j].Translate(t,0,0); evaluated; only its Status is compared (see SigHash)
//   exc <op> i j t c  same, evaluated through WithContext(pool.c[c]).Status() first
//   qc i c            pool.m[i].WithContext(pool.c[c]).Status(), then mesh
//   rid n             Manifold::ReserveIDs(n)     (answer "-"; ranges are checked for overlap)
//   poll c k          k times pool.c[c].Progress() and Cancelled(); answer "-" (range check only)
//   cancel c          pool.c[c].Cancel()          (only generated in loose cases)
//   xq <kind> i       kind in area nv bounds polys nc   on the SHARED pool.x[i]
//   xcp i / xas i     copy / assign from pool.x[i], polys hash
//   xex <op> i j t    pool.x[i] op pool.x[j].Translate(t,0); polys hash
//   xbig <op> i j d   pool.x[i] op pool.x[j].Translate(d,d): polygons hash, compared STRICTLY (pool strips only carry
//                     power-of-two pending scales, so composing the translate is exact whatever was materialised first)
//   xoff i delta      pool.x[i].Offset(delta, Miter): polygons hash
//   xtol i            pool.x[i].GetTolerance()    (answer "-": value legitimately depends on
//                     whether the lazy transform was materialised before; see report)
//   xext i h          Manifold::Extrude(pool.x[i].ToPolygons(), h) mesh hash
//
// For every case the programs are first run serially (thread 0's program, then
// thread 1's, ...) on a fresh pool with Cancel() disabled - the baseline - and
// then <reps> times concurrently, each on a fresh pool.  Output:
//   B <id> <tid> <opidx> <answer>            baseline answers
//   R <id> <rep> <tid> <opidx> <answer>      only answers that DIFFER from the baseline
//   D <id> <rep> <n_answers> <n_diff> <ids_ok>
// and "@@CASE <id> <rep>" markers on stderr so that sanitizer reports can be
// attributed to a case.
#include <atomic>
#include <cstdint>
#include <cstdio>
#include <cmath>
#include <cstring>
#include <iostream>
#include <map>
#include <sstream>
#include <string>
#include <thread>
#include <vector>

#include "manifold/cross_section.h"
#include "manifold/manifold.h"

using namespace manifold;

namespace {

struct Hash {
  uint64_t h = 1469598103934665603ull;
  void byte(uint8_t b) { h = (h ^ b) * 1099511628211ull; }
  void u64(uint64_t v) { for (int i = 0; i < 8; ++i) byte((v >> (8 * i)) & 255); }
  void dbl(double d) {
    if (d == 0) d = 0;  // -0 == +0 (never produced differently, but harmless)
    uint64_t v; std::memcpy(&v, &d, 8); u64(v);
  }
  std::string str() const { char b[32]; snprintf(b, sizeof b, "%016llx", (unsigned long long)h); return b; }
};

std::string MeshHash(const Manifold& m) {
  if (m.Status() == Manifold::Error::Cancelled) return "C";
  MeshGL64 g = m.GetMeshGL64();
  Hash h;
  h.u64((uint64_t)m.Status());
  h.u64(g.numProp);
  h.u64(g.vertProperties.size());
  for (double d : g.vertProperties) h.dbl(d);
  h.u64(g.triVerts.size());
  for (auto v : g.triVerts) h.u64(v);
  h.u64(g.mergeFromVert.size());
  for (auto v : g.mergeFromVert) h.u64(v);
  for (auto v : g.mergeToVert) h.u64(v);
  h.u64(g.runIndex.size());
  for (auto v : g.runIndex) h.u64(v);
  // original IDs come from a process-global counter: rename by first appearance
  std::map<uint32_t, uint64_t> ren;
  for (auto id : g.runOriginalID) {
    auto it = ren.find(id);
    if (it == ren.end()) it = ren.emplace(id, ren.size()).first;
    h.u64(it->second);
  }
  for (double d : g.runTransform) h.dbl(d);
  for (auto f : g.runFlags) h.byte(f);
  h.u64(g.faceID.size());
  for (auto v : g.faceID) h.u64(v);
  for (double d : g.halfedgeTangent) h.dbl(d);
  return h.str();
}

// Geometric signature for expressions a thread BUILDS from shared objects: the
// structure of such an expression (and with it vertex order, triangulation and
// last-bit rounding of composed lazy transforms) legitimately depends on whether
// the shared operands had already been evaluated (operand order of the Boolean,
// collapse decisions; on coplanar inputs even empty vs zero-volume sliver).  The
// denotation of such expressions is the business of C02/C03; here they are
// evaluated (for the race detector) and only the Status is compared.
std::string SigHash(const Manifold& m) {
  if (m.Status() == Manifold::Error::Cancelled) return "C";
  (void)m.NumTri();
  (void)m.Volume();
  Hash h;
  h.u64((uint64_t)m.Status());
  return h.str();
}

std::string XSigHash(const CrossSection& x) {
  (void)x.Area();
  Hash h;
  h.u64(x.IsEmpty() ? 0 : 1);
  return "x" + h.str().substr(0, 1);   // evaluated; the value is not compared (see above)
}

std::string PolysHash(const Polygons& p) {
  Hash h;
  h.u64(p.size());
  for (auto& ring : p) {
    h.u64(ring.size());
    for (auto& v : ring) { h.dbl(v.x); h.dbl(v.y); }
  }
  return h.str();
}

std::vector<std::string> Split(const std::string& s, char sep) {
  std::vector<std::string> out;
  std::string cur;
  for (char c : s) {
    if (c == sep) { out.push_back(cur); cur.clear(); } else cur.push_back(c);
  }
  out.push_back(cur);
  return out;
}

std::vector<std::string> Words(const std::string& s) {
  std::istringstream in(s);
  std::vector<std::string> w;
  std::string t;
  while (in >> t) w.push_back(t);
  return w;
}

OpType Op(const std::string& s) {
  return s == "+" ? OpType::Add : s == "-" ? OpType::Subtract : OpType::Intersect;
}

struct Pool {
  std::vector<Manifold> m;
  std::vector<CrossSection> x;
  std::vector<ExecutionContext> c;
};

void Setup(Pool& p, const std::vector<std::string>& ops) {
  for (auto& o : ops) {
    auto w = Words(o);
    if (w.empty()) continue;
    auto D = [&](int i) { return std::stod(w[i]); };
    auto I = [&](int i) { return std::stoi(w[i]); };
    if (w[0] == "cube")
      p.m.push_back(Manifold::Cube(vec3(D(1), D(2), D(3))).Translate(vec3(D(4), D(5), D(6))));
    else if (w[0] == "sph")
      p.m.push_back(Manifold::Sphere(D(1), I(2)).Translate(vec3(D(3), D(4), D(5))));
    else if (w[0] == "bool")
      p.m.push_back(p.m[I(2)].Boolean(p.m[I(3)], Op(w[1])));
    else if (w[0] == "tr")
      p.m.push_back(p.m[I(1)].Translate(vec3(D(2), D(3), D(4))));
    else if (w[0] == "sc")
      p.m.push_back(p.m[I(1)].Scale(vec3(std::ldexp(1.0, I(2)))));
    else if (w[0] == "xsq")
      p.x.push_back(CrossSection::Square(vec2(D(1), D(2))).Translate(vec2(D(3), D(4))));
    else if (w[0] == "xci")
      p.x.push_back(CrossSection::Circle(D(1), I(2)).Translate(vec2(D(3), D(4))));
    else if (w[0] == "xstrips") {
      Polygons polys;
      const double sq = 0.70710678118654752;
      for (int k = 0; k < I(1); ++k) {
        const vec2 o(k * D(2), 0.0), d(D(3) * sq, D(3) * sq), nrm(-D(4) * sq, D(4) * sq);
        polys.push_back({o, o + d, o + d + nrm, o + nrm});
      }
      const double sc = std::ldexp(1.0, I(5));
      p.x.push_back(CrossSection(polys).Scale(vec2(sc, sc)));
    } else if (w[0] == "xbool")
      p.x.push_back(p.x[I(2)].Boolean(p.x[I(3)], Op(w[1])));
    else if (w[0] == "xtr")
      p.x.push_back(p.x[I(1)].Translate(vec2(D(2), D(3))));
    else if (w[0] == "ctx")
      p.c.emplace_back();
    else {
      fprintf(stderr, "c06_race: unknown setup op '%s'\n", o.c_str());
      exit(3);
    }
  }
}

struct IdRange { uint32_t lo, n; };

struct ThreadOut {
  std::vector<std::string> ans;
  std::vector<IdRange> ids;
  bool progress_bad = false;
};

void RunProgram(Pool& p, const std::vector<std::string>& ops, bool cancelEnabled, ThreadOut& out) {
  Manifold local;  // target of assignments
  CrossSection xlocal;
  for (auto& o : ops) {
    auto w = Words(o);
    if (w.empty()) continue;
    auto D = [&](int i) { return std::stod(w[i]); };
    auto I = [&](int i) { return std::stoi(w[i]); };
    std::string a = "-";
    if (w[0] == "q") {
      const Manifold& m = p.m[I(2)];
      Hash h;
      if (w[1] == "numtri") { h.u64(m.NumTri()); a = h.str(); }
      else if (w[1] == "vol") { h.dbl(m.Volume()); a = h.str(); }
      else if (w[1] == "bbox") {
        Box b = m.BoundingBox();
        for (int k = 0; k < 3; ++k) { h.dbl(b.min[k]); h.dbl(b.max[k]); }
        a = h.str();
      } else if (w[1] == "status") { h.u64((uint64_t)m.Status()); a = h.str(); }
      else if (w[1] == "genus") { h.u64((uint64_t)(int64_t)m.Genus()); h.u64(m.NumVert()); h.u64(m.NumEdge()); a = h.str(); }
      else a = MeshHash(m);
      if (m.Status() == Manifold::Error::Cancelled) a = "C";
    } else if (w[0] == "cp") {
      Manifold c(p.m[I(1)]);
      a = MeshHash(c);
    } else if (w[0] == "as") {
      local = p.m[I(1)];
      a = MeshHash(local);
    } else if (w[0] == "ex") {
      Manifold e = p.m[I(2)].Boolean(p.m[I(3)].Translate(vec3(D(4), 0, 0)), Op(w[1]));
      a = SigHash(e);
    } else if (w[0] == "exc") {
      Manifold e = p.m[I(2)].Boolean(p.m[I(3)].Translate(vec3(D(4), 0, 0)), Op(w[1]));
      Manifold ec = e.WithContext(p.c[I(5)]);
      Manifold::Error st = ec.Status();
      a = st == Manifold::Error::Cancelled ? "C" : SigHash(ec);
    } else if (w[0] == "qc") {
      Manifold ec = p.m[I(1)].WithContext(p.c[I(2)]);
      Manifold::Error st = ec.Status();
      a = st == Manifold::Error::Cancelled ? "C" : MeshHash(ec);
    } else if (w[0] == "rid") {
      uint32_t n = (uint32_t)I(1);
      out.ids.push_back({Manifold::ReserveIDs(n), n});
    } else if (w[0] == "poll") {
      ExecutionContext& c = p.c[I(1)];
      for (int k = 0; k < I(2); ++k) {
        double pr = c.Progress();
        (void)c.Cancelled();
        if (!(pr >= 0.0)) out.progress_bad = true;  // NaN or negative
        std::this_thread::yield();
      }
    } else if (w[0] == "cancel") {
      if (cancelEnabled) p.c[I(1)].Cancel();
    } else if (w[0] == "xq") {
      const CrossSection& x = p.x[I(2)];
      Hash h;
      if (w[1] == "area") { h.dbl(x.Area()); a = h.str(); }
      else if (w[1] == "nv") { h.u64(x.NumVert()); a = h.str(); }
      else if (w[1] == "nc") { h.u64(x.NumContour()); a = h.str(); }
      else if (w[1] == "bounds") {
        Rect r = x.Bounds();
        h.dbl(r.min.x); h.dbl(r.min.y); h.dbl(r.max.x); h.dbl(r.max.y);
        a = h.str();
      } else a = PolysHash(x.ToPolygons());
    } else if (w[0] == "xcp") {
      CrossSection c(p.x[I(1)]);
      a = PolysHash(c.ToPolygons());
    } else if (w[0] == "xas") {
      xlocal = p.x[I(1)];
      a = PolysHash(xlocal.ToPolygons());
    } else if (w[0] == "xex") {
      CrossSection e = p.x[I(2)].Boolean(p.x[I(3)].Translate(vec2(D(4), 0)), Op(w[1]));
      a = XSigHash(e);
    } else if (w[0] == "xbig") {
      CrossSection e = p.x[I(2)].Boolean(p.x[I(3)].Translate(vec2(D(4), D(4))), Op(w[1]));
      Polygons out = e.ToPolygons();
      Hash h;
      h.dbl(e.Area());
      h.u64(e.NumVert());
      a = PolysHash(out) + h.str().substr(0, 6);
    } else if (w[0] == "xoff") {
      CrossSection e = p.x[I(1)].Offset(D(2), JoinType::Miter);
      a = PolysHash(e.ToPolygons());
    } else if (w[0] == "xtol") {
      volatile double t = p.x[I(1)].GetTolerance();
      (void)t;
    } else if (w[0] == "xext") {
      Manifold e = Manifold::Extrude(p.x[I(1)].ToPolygons(), D(2));
      a = MeshHash(e);
    } else {
      fprintf(stderr, "c06_race: unknown thread op '%s'\n", o.c_str());
      exit(3);
    }
    out.ans.push_back(a);
  }
}

bool IdsDisjoint(const std::vector<ThreadOut>& outs) {
  std::vector<IdRange> all;
  for (auto& o : outs) all.insert(all.end(), o.ids.begin(), o.ids.end());
  for (size_t i = 0; i < all.size(); ++i)
    for (size_t j = i + 1; j < all.size(); ++j) {
      uint64_t a0 = all[i].lo, a1 = a0 + all[i].n, b0 = all[j].lo, b1 = b0 + all[j].n;
      if (all[i].n && all[j].n && a0 < b1 && b0 < a1) return false;
    }
  return true;
}

}  // namespace

int main() {
  std::string line;
  while (std::getline(std::cin, line)) {
    auto parts = Split(line, '|');
    if (parts.size() < 3) continue;
    auto head = Words(parts[0]);
    if (head.size() < 4 || head[0] != "CASE") continue;
    const std::string id = head[1];
    const int reps = std::stoi(head[2]);
    const bool loose = head[3] == "1";
    (void)loose;
    auto setup = Split(parts[1], ',');
    std::vector<std::vector<std::string>> progs;
    for (size_t t = 2; t < parts.size(); ++t) progs.push_back(Split(parts[t], ','));
    const int T = (int)progs.size();

    // baseline: serial, cancel disabled
    fprintf(stderr, "@@CASE %s base\n", id.c_str());
    std::vector<ThreadOut> base(T);
    {
      Pool p;
      Setup(p, setup);
      for (int t = 0; t < T; ++t) RunProgram(p, progs[t], false, base[t]);
    }
    for (int t = 0; t < T; ++t)
      for (size_t k = 0; k < base[t].ans.size(); ++k)
        printf("B %s %d %zu %s\n", id.c_str(), t, k, base[t].ans[k].c_str());

    for (int rep = 0; rep < reps; ++rep) {
      fprintf(stderr, "@@CASE %s %d\n", id.c_str(), rep);
      std::vector<ThreadOut> outs(T);
      {
        Pool p;
        Setup(p, setup);
        std::atomic<int> ready{0};
        std::atomic<bool> go{false};
        std::vector<std::thread> th;
        for (int t = 0; t < T; ++t)
          th.emplace_back([&, t]() {
            ready.fetch_add(1);
            while (!go.load(std::memory_order_acquire)) std::this_thread::yield();
            RunProgram(p, progs[t], true, outs[t]);
          });
        while (ready.load() < T) std::this_thread::yield();
        go.store(true, std::memory_order_release);
        for (auto& x : th) x.join();
      }
      size_t n = 0, nd = 0;
      bool pbad = false;
      for (int t = 0; t < T; ++t) {
        pbad = pbad || outs[t].progress_bad;
        for (size_t k = 0; k < outs[t].ans.size(); ++k) {
          ++n;
          if (outs[t].ans[k] != base[t].ans[k]) {
            ++nd;
            printf("R %s %d %d %zu %s\n", id.c_str(), rep, t, k, outs[t].ans[k].c_str());
          }
        }
      }
      printf("D %s %d %zu %zu %d %d\n", id.c_str(), rep, n, nd, IdsDisjoint(outs) ? 1 : 0, pbad ? 0 : 1);
      fflush(stdout);
    }
  }
  return 0;
}
