// C15 harness: runs one program of context-observed operations against the
// library built from vp.REPO (with hooks/C15.patch applied and -DMANIFOLD_VERIF),
// with the cancel flag injected at the k-th IsCancelled check (k = 0: never).
//
// stdin, one case per line:
//   CASE <id> <k> <final> O <n> <opdef>*n D <m> <def>*m [E <e> <spec>*e]
//     spec  : j  evaluate def j on its own (no context) BEFORE the observed evaluation;  jc  the same through a copy of the handle
//     opdef : cube:sx:sy:sz:tx:ty:tz | sphere:r:seg:tx:ty:tz | cyl:h:r:seg:tx:ty:tz
//             | tet:s:tx:ty:tz | smoothtet:s | smoothsphere:r:seg
//     def   : prefix expression without blanks over  $i (operand i), #j (earlier def j,
//             shared sub-expression),  +(..) -(..) ^(..)  B+(..) B^(..) B-(..) (BatchBoolean)
//             T(e,x,y,z) S(e,s) R(e,deg)            -- the last def is the root
//     final : status | refine:n | reflen:l | reftol:t | hull | minksum:<def> | minkdiff:<def>
//             | frommesh | frommesh64 | smooth | levelset:kind:edge
// stdout per case (integers / hex only):
//   R <id> <k> key=value ...      W <id> <k> <site word, run-length coded>      P <id> <k> <done/total word>
#include <algorithm>
#include <cmath>
#include <cstdint>
#include <cstdio>
#include <cstring>
#include <functional>
#include <iostream>
#include <map>
#include <mutex>
#include <sstream>
#include <string>
#include <vector>

#include "manifold/manifold.h"
#include "execution_impl.h"

using namespace manifold;

#ifdef VERIF_HAS_HOOK
struct Ev { long seq; const char* file; int line; int done; int total; bool cancelled; };
static std::mutex g_mu;
static std::vector<Ev> g_log;
static void Observer(void*, long seq, const char* file, int line, int done, int total, bool cancelled) {
  std::lock_guard<std::mutex> lock(g_mu);
  g_log.push_back({seq, file, line, done, total, cancelled});
}
#endif

static uint64_t fnv(uint64_t h, const void* p, size_t n) {
  const unsigned char* b = static_cast<const unsigned char*>(p);
  for (size_t i = 0; i < n; ++i) { h ^= b[i]; h *= 1099511628211ull; }
  return h;
}
static uint64_t HashOf(const Manifold& m) {
  uint64_t h = 1469598103934665603ull;
  int st = static_cast<int>(m.Status());
  h = fnv(h, &st, sizeof st);
  MeshGL64 g = m.GetMeshGL64();
  uint64_t np = g.numProp, nv = g.NumVert(), nt = g.NumTri();
  h = fnv(h, &np, 8); h = fnv(h, &nv, 8); h = fnv(h, &nt, 8);
  if (!g.vertProperties.empty()) h = fnv(h, g.vertProperties.data(), g.vertProperties.size() * sizeof(double));
  if (!g.triVerts.empty()) h = fnv(h, g.triVerts.data(), g.triVerts.size() * sizeof(uint64_t));
  if (!g.runIndex.empty()) h = fnv(h, g.runIndex.data(), g.runIndex.size() * sizeof(uint64_t));
  if (!g.halfedgeTangent.empty()) h = fnv(h, g.halfedgeTangent.data(), g.halfedgeTangent.size() * sizeof(double));
  return h;
}

static std::vector<std::string> Split(const std::string& s, char c) {
  std::vector<std::string> out; std::string cur;
  for (char ch : s) { if (ch == c) { out.push_back(cur); cur.clear(); } else cur.push_back(ch); }
  out.push_back(cur); return out;
}
static MeshGL TetGLOf(double s) {
  MeshGL g; g.numProp = 3;
  g.vertProperties = {float(-s), float(-s), float(s), float(-s), float(s), float(-s),
                      float(s), float(-s), float(-s), float(s), float(s), float(s)};
  g.triVerts = {2, 0, 1, 0, 3, 1, 2, 3, 0, 3, 2, 1};
  return g;
}
static Manifold MakeOperand(const std::string& def) {
  auto t = Split(def, ':');
  auto d = [&](size_t i) { return i < t.size() ? atof(t[i].c_str()) : 0.0; };
  if (t[0] == "cube") return Manifold::Cube(vec3(d(1), d(2), d(3))).Translate(vec3(d(4), d(5), d(6)));
  if (t[0] == "sphere") return Manifold::Sphere(d(1), int(d(2))).Translate(vec3(d(3), d(4), d(5)));
  if (t[0] == "cyl") return Manifold::Cylinder(d(1), d(2), d(2), int(d(3))).Translate(vec3(d(4), d(5), d(6)));
  if (t[0] == "tet") return Manifold::Tetrahedron().Scale(vec3(d(1))).Translate(vec3(d(2), d(3), d(4)));
  if (t[0] == "smoothtet") return Manifold::Smooth(TetGLOf(d(1)));
  if (t[0] == "smoothsphere") return Manifold::Smooth(Manifold::Sphere(d(1), int(d(2))).GetMeshGL());
  return Manifold();
}

struct Parser {
  const std::string& s; size_t p = 0;
  const std::vector<Manifold>& ops; const std::vector<Manifold>& defs;
  bool ok = true;
  double Num() { size_t q = p; while (q < s.size() && (isdigit(s[q]) || s[q] == '.' || s[q] == '-' || s[q] == 'e')) ++q;
                 double v = atof(s.substr(p, q - p).c_str()); p = q; return v; }
  void Expect(char c) { if (p < s.size() && s[p] == c) ++p; else ok = false; }
  std::vector<Manifold> Args() { std::vector<Manifold> a; Expect('(');
    while (ok) { a.push_back(Expr()); if (p < s.size() && s[p] == ',') { ++p; continue; } break; } Expect(')'); return a; }
  Manifold Expr() {
    if (p >= s.size()) { ok = false; return Manifold(); }
    char c = s[p++];
    if (c == '$') { size_t i = size_t(Num()); if (i >= ops.size()) { ok = false; return Manifold(); } return ops[i]; }
    if (c == '#') { size_t i = size_t(Num()); if (i >= defs.size()) { ok = false; return Manifold(); } return defs[i]; }
    if (c == '+' || c == '-' || c == '^') {
      auto a = Args(); if (a.empty()) { ok = false; return Manifold(); }
      Manifold r = a[0];
      for (size_t i = 1; i < a.size(); ++i) r = c == '+' ? r + a[i] : c == '-' ? r - a[i] : r ^ a[i];
      return r;
    }
    if (c == 'B') { char o = s[p++]; auto a = Args(); return Manifold::BatchBoolean(a, o == '+' ? OpType::Add : o == '-' ? OpType::Subtract : OpType::Intersect); }
    if (c == 'T') { Expect('('); Manifold e = Expr(); Expect(','); double x = Num(); Expect(','); double y = Num(); Expect(',');
                    double z = Num(); Expect(')'); return e.Translate(vec3(x, y, z)); }
    if (c == 'S') { Expect('('); Manifold e = Expr(); Expect(','); double x = Num(); Expect(')'); return e.Scale(vec3(x)); }
    if (c == 'R') { Expect('('); Manifold e = Expr(); Expect(','); double x = Num(); Expect(')'); return e.Rotate(0, 0, x); }
    ok = false; return Manifold();
  }
};

static bool BuildDefs(const std::vector<std::string>& defTxt, const std::vector<Manifold>& ops, std::vector<Manifold>& defs) {
  defs.clear();
  for (const auto& d : defTxt) {
    Parser ps{d, 0, ops, defs};
    Manifold m = ps.Expr();
    if (!ps.ok || ps.p != d.size()) return false;
    defs.push_back(m);
  }
  return !defs.empty();
}

static double SdfSphere(vec3 p) { return 1.0 - la::length(p); }
static double SdfBlob(vec3 p) { return 0.6 - (std::cos(3 * p.x) * std::sin(3 * p.y) + std::cos(3 * p.y) * std::sin(3 * p.z) + std::cos(3 * p.z) * std::sin(3 * p.x)) * 0.3 - la::length(p) * 0.4; }

// Runs the final (context-observed) operation. `root` is the deferred expression.
static Manifold RunFinal(const std::string& fin, const Manifold& root, const std::vector<Manifold>& defs,
                         const std::vector<Manifold>& ops, ExecutionContext& ctx, const MeshGL* gl, const MeshGL64* gl64) {
  auto t = Split(fin, ':');
  if (t[0] == "status") { Manifold w = root.WithContext(ctx); (void)w.Status(); return w; }
  if (t[0] == "refine") return root.WithContext(ctx).Refine(atoi(t[1].c_str()));
  if (t[0] == "reflen") return root.WithContext(ctx).RefineToLength(atof(t[1].c_str()));
  if (t[0] == "reftol") return root.WithContext(ctx).RefineToTolerance(atof(t[1].c_str()));
  if (t[0] == "hull") return root.WithContext(ctx).Hull();
  if (t[0] == "minksum" || t[0] == "minkdiff") {
    size_t j = size_t(atoi(t[1].c_str()));
    const Manifold& other = j < defs.size() ? defs[j] : ops[0];
    return t[0] == "minksum" ? root.WithContext(ctx).MinkowskiSum(other) : root.WithContext(ctx).MinkowskiDifference(other);
  }
  if (t[0] == "frommesh") return ctx.FromMeshGL(*gl);
  if (t[0] == "frommesh64") return ctx.FromMeshGL(*gl64);
  if (t[0] == "smooth") return ctx.Smooth(*gl);
  if (t[0] == "levelset") {
    double edge = atof(t[2].c_str());
    if (t[1] == "sphere") return ctx.LevelSet(SdfSphere, {vec3(-1.1), vec3(1.1)}, edge);
    return ctx.LevelSet(SdfBlob, {vec3(-1.6), vec3(1.6)}, edge);
  }
  return Manifold();
}
static bool NeedsMesh(const std::string& fin) { return fin.rfind("frommesh", 0) == 0 || fin == "smooth"; }

int main() {
  std::string line;
  while (std::getline(std::cin, line)) {
    std::istringstream is(line);
    std::string tag, id, fin; long k;
    if (!(is >> tag) || tag != "CASE") continue;
    is >> id >> k >> fin;
    std::string mark; size_t n;
    std::vector<std::string> opTxt, defTxt;
    is >> mark >> n; for (size_t i = 0; i < n; ++i) { std::string s; is >> s; opTxt.push_back(s); }
    is >> mark >> n; for (size_t i = 0; i < n; ++i) { std::string s; is >> s; defTxt.push_back(s); }
    std::vector<std::string> preTxt;
    if (is >> mark >> n) for (size_t i = 0; i < n; ++i) { std::string s; is >> s; preTxt.push_back(s); }
#ifndef VERIF_HAS_HOOK
    printf("R %s %ld nohook=1\n", id.c_str(), k);
    continue;
#else
    // operands: evaluated up front, without any context
    std::vector<Manifold> ops;
    std::vector<uint64_t> opHash;
    for (const auto& s : opTxt) { Manifold m = MakeOperand(s); (void)m.Status(); ops.push_back(m); opHash.push_back(HashOf(m)); }
    std::vector<Manifold> defs;
    if (!BuildDefs(defTxt, ops, defs)) { printf("R %s %ld parse=0\n", id.c_str(), k); fflush(stdout); continue; }
    MeshGL gl; MeshGL64 gl64;
    if (NeedsMesh(fin)) {  // mesh input of a static factory = the root evaluated without context (an operand, too)
      Manifold plain = defs.back(); gl = plain.GetMeshGL(); gl64 = plain.GetMeshGL64();
      gl.halfedgeTangent.clear(); gl64.halfedgeTangent.clear();
      BuildDefs(defTxt, ops, defs);
    }
    // every def is a live handle; `held` are second handles taken before anything is evaluated (they keep pointing at the op nodes)
    std::vector<Manifold> held(defs.begin(), defs.end());
    std::vector<char> isPre(defs.size(), 0);
    for (const auto& sp : preTxt) {
      size_t j = size_t(atoi(sp.c_str()));
      if (j + 1 >= defs.size()) continue;      // never the root
      isPre[j] = 1;
      if (!sp.empty() && sp.back() == 'c') { Manifold c = defs[j]; (void)c.Status(); } else (void)defs[j].Status();
    }
    ExecutionContext ctx;
    VerifCancelController& vc = VerifCancel();
    g_log.clear();
    vc.count.store(0); vc.cancelAt.store(k); vc.observer = Observer; vc.user = nullptr;
    vc.ctx.store(ctx.impl_.get());
    Manifold res = RunFinal(fin, defs.back(), defs, ops, ctx, &gl, &gl64);
    vc.ctx.store(nullptr);  // stop counting: everything below is observation
    const long N = vc.count.load();
    const int done = ctx.impl_->donePhases.load(), total = ctx.impl_->totalPhases.load();
    const int st = static_cast<int>(res.Status());
    const int empty = res.IsEmpty() ? 1 : 0;
    const uint64_t h = HashOf(res);
    const int ctxc = ctx.Cancelled() ? 1 : 0;
    // the same object queried again / the same call repeated through the same context
    const int requery = static_cast<int>(res.Status());
    Manifold again = RunFinal(fin, defs.back(), defs, ops, ctx, &gl, &gl64);
    const int again_st = static_cast<int>(again.Status());
    const uint64_t again_h = HashOf(again);
    // the expression itself (op nodes shared with what was evaluated), queried without a context
    const int root_st = NeedsMesh(fin) || fin.rfind("levelset", 0) == 0 ? -1 : static_cast<int>(defs.back().Status());
    // something else through the same context
    Manifold other = (ops[0] + ops[0].Translate(vec3(0.25, 0, 0))).WithContext(ctx);
    const int other_st = static_cast<int>(other.Status());
    const int otherfm_st = static_cast<int>(ctx.FromMeshGL(ops[0].GetMeshGL()).Status());
    // rebuild from the operands with a fresh context
    std::vector<Manifold> defs2; BuildDefs(defTxt, ops, defs2);
    ExecutionContext fresh;
    Manifold rb = RunFinal(fin, defs2.back(), defs2, ops, fresh, &gl, &gl64);
    const int rb_st = static_cast<int>(rb.Status());
    const uint64_t rb_h = HashOf(rb);
    const int rb_done = fresh.impl_->donePhases.load(), rb_total = fresh.impl_->totalPhases.load();
    int opsSame = 1;
    for (size_t i = 0; i < ops.size(); ++i) if (HashOf(ops[i]) != opHash[i]) opsSame = 0;
    printf("R %s %ld N=%ld st=%d empty=%d h=%016llx ctxc=%d done=%d total=%d requery=%d again=%d againh=%016llx root=%d other=%d otherfm=%d "
           "rb=%d rbh=%016llx rbdone=%d rbtotal=%d ops=%d nv=%zu nt=%zu\n",
           id.c_str(), k, N, st, empty, (unsigned long long)h, ctxc, done, total, requery, again_st, (unsigned long long)again_h,
           root_st, other_st, otherfm_st, rb_st, (unsigned long long)rb_h, rb_done, rb_total, opsSame, res.NumVert(), res.NumTri());
    // every other live handle: status, triangles, export hash (pre-evaluated ones must be unchanged); rebuild from each pre-evaluated one
    {
      std::string hl = "H " + id + " " + std::to_string(k);
      for (size_t j = 0; j + 1 < held.size(); ++j) {
        char buf[128];
        if (isPre[j]) {
          ExecutionContext fr2;
          Manifold rb2 = held[j] + Manifold::Cube(vec3(1), true).Translate(vec3(50, 0, 0));
          const int rst = static_cast<int>(rb2.WithContext(fr2).Status());
          snprintf(buf, sizeof buf, " %zu:1:%d:%016llx", j, rst, (unsigned long long)HashOf(rb2));
          hl += buf;
        }
        const int hst = static_cast<int>(held[j].Status());
        snprintf(buf, sizeof buf, " %zu:0:%d:%zu:%016llx", j, hst, held[j].NumTri(), (unsigned long long)HashOf(held[j]));
        hl += buf;
      }
      puts(hl.c_str());
    }
    // site word and progress word, run-length coded; in check order (threads may report out of order)
    std::stable_sort(g_log.begin(), g_log.end(), [](const Ev& a, const Ev& b) { return a.seq < b.seq; });
    {
      std::string w = "W " + id + " " + std::to_string(k), p = "P " + id + " " + std::to_string(k);
      size_t i = 0;
      while (i < g_log.size()) {
        size_t j = i;
        while (j < g_log.size() && g_log[j].line == g_log[i].line && !strcmp(g_log[j].file, g_log[i].file) &&
               g_log[j].cancelled == g_log[i].cancelled) ++j;
        const char* f = strrchr(g_log[i].file, '/'); f = f ? f + 1 : g_log[i].file;
        w += " " + std::string(f) + ":" + std::to_string(g_log[i].line) + (g_log[i].cancelled ? "!" : "") + "*" + std::to_string(j - i);
        i = j;
      }
      i = 0;
      while (i < g_log.size()) {
        size_t j = i;
        while (j < g_log.size() && g_log[j].done == g_log[i].done && g_log[j].total == g_log[i].total) ++j;
        p += " " + std::to_string(g_log[i].done) + "/" + std::to_string(g_log[i].total) + "*" + std::to_string(j - i);
        i = j;
      }
      puts(w.c_str()); puts(p.c_str());
    }
    fflush(stdout);
#endif
  }
  return 0;
}
