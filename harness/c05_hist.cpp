// C05 value-semantics harness: replays operation histories over a pool of
// Manifold / CrossSection objects and prints, after every step, bit-pattern
// hashes of everything observable about the live objects (see
// translate/c05_hist.py for the vocabulary, the generator and the oracle).
//
// stdin, one case per line:
//   H <id> eager|lazy|lazy0 <op> <op> ...     history on a fresh pool
//   I <id> <method> <arg>                     Impl-level copy-on-write probe
//   I 0 list x                                 -> "L <name> ..." and "LR <raw names> ..."
// stdout (flushed per line):
//   N <id> <step> <slot> new|copy:<src>|moved:<src>|dead   incarnation bookkeeping
//   S <id> <step> <why>        guarded op skipped (destination slots get empty objects)
//   X <id> <step> <what>       library exception (destination slots get empty objects)
//   E <id> <step> <msg>        invalid op (skipped; only happens in shrunk histories)
//   P <id> <step> <slot>=<h>.. cheap-getter hash of observed Manifold slots
//   T <id> <step> <slot>=<h>.. CrossSection::GetTolerance() bits read BEFORE forcing
//   O <id> <step|end> <slot>=<h>..  full hash of observed slots (always printed)
//   U <id> <step> <nbuf> <nshared> <maxcount> ok|BAD:<detail> sh=<slots sharing>
// Modes: eager = all live slots observed after every step; lazy = look:<s>
// targets + slots touched by the step; lazy0 = look:<s> targets only.
//
// Impl methods NOT in the I-mode menu (cannot be called sensibly on a copy):
// CreateHalfedges (clear+shrink on a shared buffer frees it under the other
// owner: construction-only), Face2Tri (needs Boolean-internal face tables),
// CreateLevelSet, CollapseEdge/CollapseEdge2/SwapEdge/RecursiveEdgeSwap/
// RemoveIfFolded/PairUp/UpdateVert/FormLoop/CollapseTri/DedupeEdge (single-edge
// helpers of the menu entries), MarkQuads/LinearizeFlatTangents/
// DistributeTangents/SharpenTangent (tangent-only helpers of CreateTangents),
// Minkowski/Slice/Project/RayCast/MinGap (const, never write).  Finish,
// RemoveDegenerates, MarkCoplanar do not exist in this tree.
#include <algorithm>
#include <array>
#include <atomic>
#include <cassert>
#include <cfloat>
#include <chrono>
#include <cmath>
#include <cstddef>
#include <cstdint>
#include <cstdio>
#include <cstdlib>
#include <cstring>
#include <deque>
#include <functional>
#include <iomanip>
#include <iostream>
#include <iterator>
#include <limits>
#include <map>
#include <memory>
#include <mutex>
#include <numeric>
#include <optional>
#include <set>
#include <sstream>
#include <stdexcept>
#include <string>
#include <type_traits>
#include <unordered_map>
#include <utility>
#include <vector>
#define private public
#define protected public
#include "manifold/manifold.h"
#include "manifold/cross_section.h"
#include "impl.h"
#include "csg_tree.h"
#undef private
#undef protected
using namespace manifold;

// ---------------------------------------------------------------- hashing
struct Fnv {
  uint64_t h = 1469598103934665603ULL;
  void bytes(const void* p, size_t n) {
    const unsigned char* c = (const unsigned char*)p;
    for (size_t i = 0; i < n; ++i) { h ^= c[i]; h *= 1099511628211ULL; }
  }
  template <class T> void val(const T& x) {
    static_assert(std::is_arithmetic<T>::value || std::is_enum<T>::value, "scalar only");
    bytes(&x, sizeof x);
  }
  void u(uint64_t x) { val(x); }
  void d(double x) { val(x); }
  template <class T> void vec(const std::vector<T>& v) {
    u(v.size());
    for (const T& x : v) val(x);
  }
  void v3(const vec3& v) { d(v.x); d(v.y); d(v.z); }
};

template <class M> static void hashMesh(Fnv& f, const M& m) {
  f.u(m.numProp);
  f.vec(m.vertProperties);
  f.vec(m.triVerts);
  f.vec(m.mergeFromVert);
  f.vec(m.mergeToVert);
  f.vec(m.runIndex);
  f.vec(m.runOriginalID);
  f.vec(m.runTransform);
  f.vec(m.runFlags);
  f.vec(m.faceID);
  f.vec(m.halfedgeTangent);
  f.val(m.tolerance);
}

static uint64_t peekHash(const Manifold& m) {
  Fnv f;
  f.u((uint64_t)m.Status());
  f.u(m.NumVert());
  f.u(m.NumTri());
  f.u(m.NumProp());
  Box b = m.BoundingBox();
  f.v3(b.min); f.v3(b.max);
  f.d(m.GetTolerance());
  f.u((uint64_t)(int64_t)m.OriginalID());
  return f.h;
}

static uint64_t fullHash(const Manifold& m) {
  Fnv f;
  f.u((uint64_t)m.Status());
  f.u(m.NumVert());
  f.u(m.NumTri());
  f.u(m.NumEdge());
  f.u(m.NumProp());
  f.u(m.NumPropVert());
  Box b = m.BoundingBox();
  f.v3(b.min); f.v3(b.max);
  f.d(m.GetTolerance());
  f.d(m.GetEpsilon());
  f.u((uint64_t)(int64_t)m.OriginalID());
  f.u((uint64_t)(int64_t)m.Genus());
  f.u(m.IsEmpty() ? 1 : 0);
  hashMesh(f, m.GetMeshGL64());
  hashMesh(f, m.GetMeshGL());
  return f.h;
}

static std::string hex16(uint64_t h);
// Every getter separately, called in an order that is a function of (history id, step, slot): each getter comes first
// in some observations, so a getter that answers differently before/after the object is evaluated is seen.
// "tbox" = tight box of the vertices of the exported mesh, hashed like "bbox": the two must be equal.
static std::string getterLine(const Manifold& m, uint64_t seed) {
  static const char* names[] = {"bbox", "nvert", "ntri", "nprop", "vol", "tol", "eps", "status", "oid", "genus", "empty", "export", "nedge", "area"};
  const int N = 14;
  int order[N];
  for (int i = 0; i < N; ++i) order[i] = i;
  uint64_t x = seed * 6364136223846793005ULL + 1442695040888963407ULL;
  for (int i = N - 1; i > 0; --i) {
    x = x * 6364136223846793005ULL + 1442695040888963407ULL;
    int j = (int)((x >> 33) % (uint64_t)(i + 1));
    std::swap(order[i], order[j]);
  }
  if ((x >> 20) % 3 == 0) {          // the bounding box first, one time in three
    for (int i = 0; i < N; ++i) if (order[i] == 0) { std::swap(order[0], order[i]); break; }
  }
  std::string res;
  std::string tbox;
  Box bb, tight;
  bool haveTight = false;
  for (int k = 0; k < N; ++k) {
    Fnv f;
    switch (order[k]) {
      case 0: { Box b = m.BoundingBox(); f.v3(b.min); f.v3(b.max); bb = b; break; }
      case 1: f.u(m.NumVert()); break;
      case 2: f.u(m.NumTri()); break;
      case 3: f.u(m.NumProp()); f.u(m.NumPropVert()); break;
      case 4: f.d(m.Volume()); break;
      case 5: f.d(m.GetTolerance()); break;
      case 6: f.d(m.GetEpsilon()); break;
      case 7: f.u((uint64_t)m.Status()); break;
      case 8: f.u((uint64_t)(int64_t)m.OriginalID()); break;
      case 9: f.u((uint64_t)(int64_t)m.Genus()); break;
      case 10: f.u(m.IsEmpty() ? 1 : 0); break;
      case 11: {
        MeshGL64 g = m.GetMeshGL64();
        hashMesh(f, g);
        Box t;
        const size_t nv = g.numProp ? g.vertProperties.size() / g.numProp : 0;
        for (size_t v = 0; v < nv; ++v)
          t.Union(vec3(g.vertProperties[v * g.numProp], g.vertProperties[v * g.numProp + 1], g.vertProperties[v * g.numProp + 2]));
        Fnv ft; ft.v3(t.min); ft.v3(t.max);
        // an empty export has no tight box (BoundingBox() of a mesh that Simplify collapsed to nothing keeps the old box)
        tight = t; haveTight = nv > 0;
        tbox = hex16(ft.h);
        break;
      }
      case 12: f.u(m.NumEdge()); break;
      case 13: f.d(m.SurfaceArea()); break;
    }
    res += (k ? "," : "") + std::string(names[order[k]]) + ":" + hex16(f.h);
  }
  // numeric comparison (-0.0 == 0.0): "ok", "-" (empty export: no tight box) or the hash of the tight box
  if (!haveTight) tbox = "-";
  else if (bb.min.x == tight.min.x && bb.min.y == tight.min.y && bb.min.z == tight.min.z && bb.max.x == tight.max.x &&
           bb.max.y == tight.max.y && bb.max.z == tight.max.z) tbox = "ok";
  res += ",tbox:" + tbox;
  return res;
}

static uint64_t csTolHash(const CrossSection& c) {  // does not force
  Fnv f;
  f.d(c.GetTolerance());
  return f.h;
}

static uint64_t fullHash(const CrossSection& c) {
  Fnv f;
  Polygons p = c.ToPolygons();
  f.u(p.size());
  for (auto& s : p) {
    f.u(s.size());
    for (auto& v : s) { f.d(v.x); f.d(v.y); }
  }
  f.u(c.NumVert());
  f.u(c.NumContour());
  Rect r = c.Bounds();
  f.d(r.min.x); f.d(r.min.y); f.d(r.max.x); f.d(r.max.y);
  f.u(c.IsEmpty() ? 1 : 0);
  f.d(c.Area());
  f.d(c.GetTolerance());  // after forcing: a pure function of the value
  return f.h;
}

static void out(const std::string& s) {
  fputs(s.c_str(), stdout);
  fputc('\n', stdout);
  fflush(stdout);
}
static std::string hex16(uint64_t h) {
  char b[32];
  snprintf(b, sizeof b, "%016llx", (unsigned long long)h);
  return b;
}

// ---------------------------------------------------------------- fixed inputs
static const double CUBE_V[8][3] = {{0, 0, 0}, {0, 0, 1}, {0, 1, 0}, {0, 1, 1},
                                    {1, 0, 0}, {1, 0, 1}, {1, 1, 0}, {1, 1, 1}};
static const int CUBE_T[12][3] = {{1, 0, 4}, {2, 4, 0}, {1, 3, 0}, {3, 1, 5}, {3, 2, 0}, {3, 7, 2},
                                  {5, 4, 6}, {5, 1, 4}, {6, 4, 2}, {7, 6, 2}, {7, 3, 5}, {7, 5, 6}};

static Manifold meshInput(int v) {
  if (v == 0) {  // cube, 2 extra props with duplicated values, runOriginalID + faceID
    MeshGL g;
    g.numProp = 5;
    for (int i = 0; i < 8; ++i) {
      for (int j = 0; j < 3; ++j) g.vertProperties.push_back((float)CUBE_V[i][j]);
      g.vertProperties.push_back(1.0f);
      g.vertProperties.push_back((float)CUBE_V[i][0]);
    }
    for (int t = 0; t < 12; ++t) {
      for (int j = 0; j < 3; ++j) g.triVerts.push_back(CUBE_T[t][j]);
      g.faceID.push_back(t / 2);
    }
    g.runOriginalID = {Manifold::ReserveIDs(1)};
    g.runIndex = {0, 36};
    return Manifold(g);
  }
  if (v == 1) {  // two disjoint cubes = two runs with transforms
    MeshGL g;
    g.numProp = 4;
    for (int c = 0; c < 2; ++c)
      for (int i = 0; i < 8; ++i) {
        g.vertProperties.push_back((float)(CUBE_V[i][0] + 2.5 * c));
        g.vertProperties.push_back((float)CUBE_V[i][1]);
        g.vertProperties.push_back((float)CUBE_V[i][2]);
        g.vertProperties.push_back((float)(c + 0.5));
      }
    for (int c = 0; c < 2; ++c)
      for (int t = 0; t < 12; ++t) {
        for (int j = 0; j < 3; ++j) g.triVerts.push_back(CUBE_T[t][j] + 8 * c);
        g.faceID.push_back(100 * c + t / 2);
      }
    uint32_t id = Manifold::ReserveIDs(2);
    g.runOriginalID = {id, id + 1};
    g.runIndex = {0, 36, 72};
    for (int c = 0; c < 2; ++c) {
      const float tr[12] = {1, 0, 0, 0, 1, 0, 0, 0, 1, 0.5f * c, 0, 0};
      for (float x : tr) g.runTransform.push_back(x);
    }
    return Manifold(g);
  }
  // v == 2: MeshGL64, one vertex per triangle corner, merge vectors, 3 extra props
  MeshGL64 g;
  g.numProp = 6;
  std::map<int, int> first;
  for (int t = 0; t < 12; ++t)
    for (int j = 0; j < 3; ++j) {
      const int cv = CUBE_T[t][j];
      const uint64_t idx = 3 * t + j;
      for (int k = 0; k < 3; ++k) g.vertProperties.push_back(CUBE_V[cv][k]);
      g.vertProperties.push_back((double)(t / 2));
      g.vertProperties.push_back(0.5);
      g.vertProperties.push_back(CUBE_V[cv][0] + CUBE_V[cv][1]);
      g.triVerts.push_back(idx);
      if (first.count(cv)) {
        g.mergeFromVert.push_back(idx);
        g.mergeToVert.push_back(first[cv]);
      } else {
        first[cv] = (int)idx;
      }
    }
  for (int t = 0; t < 12; ++t) g.faceID.push_back(t / 2);
  g.runOriginalID = {7};
  return Manifold(g);
}

static Manifold smoothInput(int v) {
  if (v == 0) return Manifold::Smooth(Manifold::Tetrahedron().GetMeshGL());
  if (v == 1) return Manifold::Smooth(Manifold::Cube().GetMeshGL(), {{0, 0.5}, {7, 0.0}});
  return Manifold::Smooth(Manifold::Sphere(1.0, 4).GetMeshGL64());
}

static CrossSection polyInput(int v) {
  Polygons p;
  p.push_back({{0, 0}, {4, 0}, {4, 4}, {0, 4}});
  p.push_back({{1, 1}, {1, 3}, {3, 3}, {3, 1}});  // clockwise hole
  if (v >= 1) p.push_back({{1.5, 1.5}, {2.5, 1.5}, {2.5, 2.5}, {1.5, 2.5}});  // island
  if (v >= 2) p.push_back({{6, 0}, {7, 0}, {7, 1.5}, {6, 1}});
  if (v == 3) return CrossSection::EvenOdd(p);
  return CrossSection(p);
}

static std::function<void(vec3&)> warpFn(int k) {
  switch (k) {
    case 0: return [](vec3&) {};
    case 1: return [](vec3& v) { v = vec3(v.y, v.z, v.x); };
    case 2: return [](vec3& v) { v.z += 0.25 * v.x * v.x; };
    case 3: return [](vec3& v) { v.x *= 2; v.y *= 0.5; };
    case 4: return [](vec3& v) { if (v.x > 0.5) v.x = std::numeric_limits<double>::infinity(); };
    default: return [](vec3& v) { v = vec3(-v.y, v.x, v.z) + vec3(0.125, 0, 0); };
  }
}
static std::function<void(vec2&)> warp2Fn(int k) {
  switch (k) {
    case 0: return [](vec2&) {};
    case 1: return [](vec2& v) { v = vec2(-v.y, v.x); };
    case 2: return [](vec2& v) { v.y += 0.125 * v.x * v.x; };
    default: return [](vec2& v) { v.x *= 2; v.y *= 0.5; };
  }
}
static mat3x4 xfMat(int k) {
  switch (k) {
    case 0: return mat3x4(la::identity);
    case 1: return mat3x4({-1, 0, 0}, {0, 1, 0}, {0, 0, 1}, {0, 0, 0});            // mirror
    case 2: return mat3x4({1, 0, 0}, {0.5, 1, 0}, {0, 0.25, 1}, {0.25, 0, 0});      // shear
    case 3: return mat3x4({0, 1, 0}, {-1, 0, 0}, {0, 0, 1}, {1, 2, 3});             // rot90 + move
    case 4: return mat3x4({2, 0, 0}, {0, -0.5, 0}, {0, 0, 1.5}, {0, 0.5, 0});       // neg det scale
    default: return mat3x4({0, 0, 1}, {0, 1, 0}, {1, 0, 0}, {0, 0, 0});             // swap = neg det
  }
}
static mat2x3 xf2Mat(int k) {
  switch (k) {
    case 0: return mat2x3(la::identity);
    case 1: return mat2x3({-1, 0}, {0, 1}, {0, 0});
    case 2: return mat2x3({1, 0}, {0.5, 1}, {0.25, 0});
    case 3: return mat2x3({0, 1}, {-1, 0}, {1, 2});
    default: return mat2x3({2, 0}, {0, -0.5}, {0, 0.5});
  }
}

// ---------------------------------------------------------------- pool
enum { EMPTY = 0, MAN = 1, CS = 2, DEAD = 3 };
struct Slot {
  int kind = EMPTY;
  std::unique_ptr<Manifold> m;
  std::unique_ptr<CrossSection> c;
  long est = 0;  // upper estimate of triangle count (not forcing)
};
static const int NSLOT = 16, MAXLIVE = 12;
static const long MAXTRI = 3000, MAXRES = 2500;

struct BadOp { std::string msg; };
struct SkipOp { std::string why; };

struct Hist {
  std::string id;
  std::string step;
  Slot pool[NSLOT];
  std::vector<int> touched;
  std::vector<int> pendingDest;  // destinations to fill with empties on S/X
  std::vector<int> pendingKind;

  int live() const {
    int n = 0;
    for (auto& s : pool) n += (s.kind == MAN || s.kind == CS);
    return n;
  }
  void note(int slot, const std::string& how) {
    out("N " + id + " " + step + " " + std::to_string(slot) + " " + how);
  }
  int slotIdx(long s) {
    if (s < 0 || s >= NSLOT) throw BadOp{"slot out of range"};
    return (int)s;
  }
  Manifold& man(long s) {
    Slot& x = pool[slotIdx(s)];
    if (x.kind != MAN) throw BadOp{"slot " + std::to_string(s) + " is not a live Manifold"};
    touched.push_back((int)s);
    return *x.m;
  }
  CrossSection& cs(long s) {
    Slot& x = pool[slotIdx(s)];
    if (x.kind != CS) throw BadOp{"slot " + std::to_string(s) + " is not a live CrossSection"};
    touched.push_back((int)s);
    return *x.c;
  }
  int dest(long d, int kind) {
    Slot& x = pool[slotIdx(d)];
    if (x.kind != EMPTY) throw BadOp{"destination slot " + std::to_string(d) + " is not empty"};
    for (int p : pendingDest)
      if (p == d) throw BadOp{"duplicate destination"};
    if (live() + (int)pendingDest.size() >= MAXLIVE) throw BadOp{"too many live objects"};
    pendingDest.push_back((int)d);
    pendingKind.push_back(kind);
    return (int)d;
  }
  void putM(int d, Manifold&& v, const std::string& how, long est) {
    Slot& x = pool[d];
    x.m.reset(new Manifold(std::move(v)));
    x.kind = MAN;
    x.est = est;
    touched.push_back(d);
    note(d, how);
  }
  void putC(int d, CrossSection&& v, const std::string& how) {
    Slot& x = pool[d];
    x.c.reset(new CrossSection(std::move(v)));
    x.kind = CS;
    touched.push_back(d);
    note(d, how);
  }
  void fillEmpties() {  // keep the pool's kind-state a pure function of the op list
    for (size_t i = 0; i < pendingDest.size(); ++i) {
      Slot& x = pool[pendingDest[i]];
      if (x.kind != EMPTY) continue;
      if (pendingKind[i] == MAN) putM(pendingDest[i], Manifold(), "new", 0);
      else putC(pendingDest[i], CrossSection(), "new");
    }
  }
  void kill(int s) {
    Slot& x = pool[s];
    x.m.reset();
    x.c.reset();
    x.kind = EMPTY;
    x.est = 0;
  }
  long tris(long s) {  // forces
    long n = (long)man(s).NumTri();
    pool[s].est = n;
    return n;
  }
  void guardTri(long s) {
    if (tris(s) > MAXTRI) throw SkipOp{"operand too large"};
  }
  void guardEst(long s) {
    man(s);
    if (pool[s].est > MAXTRI) throw SkipOp{"operand estimate too large"};
  }
};

static vec3 v3q(long x, long y, long z) { return vec3(x / 4.0, y / 4.0, z / 4.0); }
static OpType opType(long o) {
  if (o == 0) return OpType::Add;
  if (o == 1) return OpType::Subtract;
  if (o == 2) return OpType::Intersect;
  throw BadOp{"bad boolean op"};
}

typedef std::vector<long> Args;
static long arg(const Args& a, size_t i) {
  if (i >= a.size()) throw BadOp{"missing field"};
  return a[i];
}

static void runOp(Hist& h, const std::string& name, const Args& a, std::vector<int>& looks) {
  auto A = [&](size_t i) { return arg(a, i); };
  // ------------------------------------------------ observation / value ops
  if (name == "look") { looks.push_back(h.slotIdx(A(0))); if (h.pool[A(0)].kind != MAN && h.pool[A(0)].kind != CS) throw BadOp{"look at non-live slot"}; return; }
  if (name == "force") {
    Slot& s = h.pool[h.slotIdx(A(0))];
    if (s.kind == MAN) { MeshGL g = h.man(A(0)).GetMeshGL(); s.est = (long)g.NumTri(); }
    else if (s.kind == CS) { Polygons p = h.cs(A(0)).ToPolygons(); (void)p; }
    else throw BadOp{"force on non-live slot"};
    return;
  }
  if (name == "peek") {
    Slot& s = h.pool[h.slotIdx(A(0))];
    if (s.kind == MAN) out("P " + h.id + " " + h.step + " " + std::to_string(A(0)) + "=" + hex16(peekHash(*s.m)));
    else if (s.kind == CS) out("T " + h.id + " " + h.step + " " + std::to_string(A(0)) + "=" + hex16(csTolHash(*s.c)));
    else throw BadOp{"peek on non-live slot"};
    return;
  }
  if (name == "cp") {
    Slot& s = h.pool[h.slotIdx(A(1))];
    if (s.kind == MAN) { int d = h.dest(A(0), MAN); Manifold& src = h.man(A(1)); Slot& x = h.pool[d]; x.m.reset(new Manifold(src)); x.kind = MAN; x.est = s.est; h.touched.push_back(d); h.note(d, "copy:" + std::to_string(A(1))); }
    else if (s.kind == CS) { int d = h.dest(A(0), CS); CrossSection& src = h.cs(A(1)); Slot& x = h.pool[d]; x.c.reset(new CrossSection(src)); x.kind = CS; h.touched.push_back(d); h.note(d, "copy:" + std::to_string(A(1))); }
    else throw BadOp{"copy of non-live slot"};
    return;
  }
  if (name == "cpa") {
    Slot& d = h.pool[h.slotIdx(A(0))];
    Slot& s = h.pool[h.slotIdx(A(1))];
    if (A(0) == A(1)) throw BadOp{"use self for self-assignment"};
    if (d.kind == MAN && s.kind == MAN) { h.man(A(0)) = h.man(A(1)); d.est = s.est; }
    else if (d.kind == CS && s.kind == CS) { h.cs(A(0)) = h.cs(A(1)); }
    else throw BadOp{"copy-assign needs two live slots of the same kind"};
    h.note((int)A(0), "copy:" + std::to_string(A(1)));
    return;
  }
  if (name == "rez") {  // copy-assign onto a moved-from (dead) object; NOT generated by default
    Slot& d = h.pool[h.slotIdx(A(0))];
    Slot& s = h.pool[h.slotIdx(A(1))];
    if (d.kind != DEAD) throw BadOp{"rez needs a dead destination"};
    if (d.m && s.kind == MAN) { *d.m = h.man(A(1)); d.kind = MAN; d.est = s.est; }
    else if (d.c && s.kind == CS) { *d.c = h.cs(A(1)); d.kind = CS; }
    else throw BadOp{"rez kind mismatch"};
    h.touched.push_back((int)A(0));
    h.note((int)A(0), "copy:" + std::to_string(A(1)));
    return;
  }
  if (name == "mv") {
    Slot& s = h.pool[h.slotIdx(A(1))];
    const int k = s.kind;
    if (k != MAN && k != CS) throw BadOp{"move of non-live slot"};
    s.kind = DEAD;  // a move does not add a live object
    int d;
    try { d = h.dest(A(0), k); } catch (...) { s.kind = k; throw; }
    Slot& x = h.pool[d];
    if (k == MAN) { x.m.reset(new Manifold(std::move(*s.m))); x.est = s.est; }
    else x.c.reset(new CrossSection(std::move(*s.c)));
    x.kind = k;
    h.touched.push_back(d);
    h.note((int)A(0), "moved:" + std::to_string(A(1)));
    h.note((int)A(1), "dead");
    return;
  }
  if (name == "mva") {
    Slot& d = h.pool[h.slotIdx(A(0))];
    Slot& s = h.pool[h.slotIdx(A(1))];
    if (A(0) == A(1)) throw BadOp{"self move-assign not supported"};
    if (d.kind == MAN && s.kind == MAN) { *d.m = std::move(*s.m); d.est = s.est; }
    else if (d.kind == CS && s.kind == CS) { *d.c = std::move(*s.c); }
    else throw BadOp{"move-assign needs two live slots of the same kind"};
    s.kind = DEAD;
    h.touched.push_back((int)A(0));
    h.note((int)A(0), "moved:" + std::to_string(A(1)));
    h.note((int)A(1), "dead");
    return;
  }
  if (name == "self") {
    Slot& s = h.pool[h.slotIdx(A(0))];
    if (s.kind == MAN) { Manifold& m = h.man(A(0)); Manifold* p = &m; m = *p; }
    else if (s.kind == CS) { CrossSection& c = h.cs(A(0)); CrossSection* p = &c; c = *p; }
    else throw BadOp{"self-assign of non-live slot"};
    return;  // same incarnation: the value must not change
  }
  if (name == "cadd") {  // a op= b
    Slot& d = h.pool[h.slotIdx(A(0))];
    Slot& s = h.pool[h.slotIdx(A(1))];
    OpType op = opType(A(2));
    if (d.kind == MAN && s.kind == MAN) {
      h.guardEst(A(0)); h.guardEst(A(1));
      if (d.est + s.est > MAXTRI) throw SkipOp{"compound operands too large"};
      Manifold& x = h.man(A(0)); const Manifold& y = h.man(A(1));
      if (op == OpType::Add) x += y; else if (op == OpType::Subtract) x -= y; else x ^= y;
      d.est = 2 * (d.est + s.est) + 8;
    } else if (d.kind == CS && s.kind == CS) {
      CrossSection& x = h.cs(A(0)); const CrossSection& y = h.cs(A(1));
      if (x.NumVert() + y.NumVert() > 2000) throw SkipOp{"cs too large"};
      if (op == OpType::Add) x += y; else if (op == OpType::Subtract) x -= y; else x ^= y;
    } else throw BadOp{"compound assign needs two live slots of the same kind"};
    h.note((int)A(0), "new");
    return;
  }
  if (name == "drop") {
    Slot& s = h.pool[h.slotIdx(A(0))];
    if (s.kind == EMPTY) throw BadOp{"drop of empty slot"};
    const bool wasLive = s.kind != DEAD;
    h.kill((int)A(0));
    if (wasLive) h.note((int)A(0), "dead");
    return;
  }
  // ------------------------------------------------ Manifold constructors
  if (name == "cube") { int d = h.dest(A(0), MAN); h.putM(d, Manifold::Cube(v3q(A(1), A(2), A(3)), A(4) != 0), "new", 12); return; }
  if (name == "tet") { int d = h.dest(A(0), MAN); h.putM(d, Manifold::Tetrahedron(), "new", 4); return; }
  if (name == "sph") {
    int d = h.dest(A(0), MAN);
    long n = A(2);
    if (n < 3 || n > 16) throw BadOp{"sphere segments out of range"};
    h.putM(d, Manifold::Sphere(A(1) / 4.0, (int)n), "new", 2 * n * n);
    return;
  }
  if (name == "cyl") {
    int d = h.dest(A(0), MAN);
    long n = A(4);
    if (n < 3 || n > 16) throw BadOp{"cylinder segments out of range"};
    h.putM(d, Manifold::Cylinder(A(1) / 4.0, A(2) / 4.0, A(3) / 4.0, (int)n, A(5) != 0), "new", 4 * n);
    return;
  }
  if (name == "mesh") { int d = h.dest(A(0), MAN); h.putM(d, meshInput((int)A(1)), "new", 24); return; }
  if (name == "smooth") { int d = h.dest(A(0), MAN); h.putM(d, smoothInput((int)A(1)), "new", 32); return; }
  if (name == "ext") {
    int d = h.dest(A(0), MAN);
    CrossSection& c = h.cs(A(1));
    if (c.NumVert() > 200) throw SkipOp{"cs too large"};
    long nd = A(3);
    if (nd < 0 || nd > 4) throw BadOp{"nDivisions out of range"};
    h.putM(d, Manifold::Extrude(c.ToPolygons(), A(2) / 4.0, (int)nd, 15.0 * A(4), vec2(A(5) / 4.0, A(5) / 4.0)), "new", 4 * (long)c.NumVert() * (nd + 2));
    return;
  }
  if (name == "rev") {
    int d = h.dest(A(0), MAN);
    CrossSection& c = h.cs(A(1));
    if (c.NumVert() > 200) throw SkipOp{"cs too large"};
    long n = A(2);
    if (n < 3 || n > 12) throw BadOp{"revolve segments out of range"};
    Polygons polys = c.ToPolygons();
    if (a.size() > 4 && a[4] != 0) {  // optional 5th field: shift the profile into x > 0 (a profile that crosses the
      Rect b = c.Bounds();            // axis makes Revolve produce a mesh on which Refine/SmoothOut crash: known defect)
      const double dx = 0.25 - b.min.x;
      if (std::isfinite(dx)) for (auto& poly : polys) for (auto& v : poly) v.x += dx;
    }
    h.putM(d, Manifold::Revolve(polys, (int)n, 15.0 * A(3)), "new", 4 * (long)c.NumVert() * n);
    return;
  }
  // ------------------------------------------------ CrossSection constructors
  if (name == "sq") { int d = h.dest(A(0), CS); h.putC(d, CrossSection::Square(vec2(A(1) / 4.0, A(2) / 4.0), A(3) != 0), "new"); return; }
  if (name == "circ") {
    int d = h.dest(A(0), CS);
    if (A(2) < 3 || A(2) > 24) throw BadOp{"circle segments out of range"};
    h.putC(d, CrossSection::Circle(A(1) / 4.0, (int)A(2)), "new");
    return;
  }
  if (name == "poly") { int d = h.dest(A(0), CS); h.putC(d, polyInput((int)A(1)), "new"); return; }
  // ------------------------------------------------ lazy Manifold ops
  if (name == "bool") {
    int d = h.dest(A(0), MAN);
    h.guardEst(A(1)); h.guardEst(A(2));
    long e = h.pool[A(1)].est + h.pool[A(2)].est;
    if (e > MAXTRI) throw SkipOp{"boolean operands too large"};
    const Manifold& x = h.man(A(1)); const Manifold& y = h.man(A(2));
    OpType op = opType(A(3));
    Manifold r = A(4) ? x.Boolean(y, op) : (op == OpType::Add ? x + y : op == OpType::Subtract ? x - y : x ^ y);
    h.putM(d, std::move(r), "new", 2 * e + 8);
    return;
  }
  if (name == "batch" || name == "compose" || name == "hulln") {
    int d = h.dest(A(0), MAN);
    size_t first = name == "batch" ? 2 : 1;
    std::vector<Manifold> v;
    long e = 0;
    for (size_t i = first; i < a.size(); ++i) {
      if (name == "hulln") h.guardTri(a[i]); else h.guardEst(a[i]);
      e += h.pool[a[i]].est;
      v.push_back(h.man(a[i]));
    }
    if (v.empty()) throw BadOp{"empty operand list"};
    if (e > MAXTRI) throw SkipOp{"batch operands too large"};
    std::string how = "new";
    if (name == "batch") {
      // documented: the single-input case returns the input unchanged
      if (v.size() == 1) how = "copy:" + std::to_string(a[first]);
      h.putM(d, Manifold::BatchBoolean(v, opType(A(1))), how, 2 * e + 8);
    } else if (name == "compose") {
      if (v.size() == 1) how = "copy:" + std::to_string(a[first]);
      h.putM(d, Manifold::Compose(v), how, 2 * e + 8);
    } else {
      h.putM(d, Manifold::Hull(v), "new", 2 * e + 8);
    }
    return;
  }
  if (name == "tr" || name == "rot" || name == "sc" || name == "xf") {
    int d = h.dest(A(0), MAN);
    h.guardEst(A(1));
    const Manifold& s = h.man(A(1));
    Manifold r;
    if (name == "tr") r = s.Translate(v3q(A(2), A(3), A(4)));
    else if (name == "rot") r = s.Rotate(15.0 * A(2), 15.0 * A(3), 15.0 * A(4));
    else if (name == "sc") r = s.Scale(v3q(A(2), A(3), A(4)));
    else r = s.Transform(xfMat((int)A(2)));
    h.putM(d, std::move(r), "new", h.pool[A(1)].est);
    return;
  }
  // ------------------------------------------------ evaluating Manifold ops (copy the Impl)
  if (name == "mir" || name == "warp" || name == "warpb" || name == "setp" || name == "norm" || name == "curv" ||
      name == "ref" || name == "rlen" || name == "rtol" || name == "smo" || name == "smn" || name == "simp" ||
      name == "stol" || name == "orig" || name == "hull" || name == "trim") {
    int d = h.dest(A(0), MAN);
    h.guardTri(A(1));
    const Manifold& s = h.man(A(1));
    const long nt = h.pool[A(1)].est;
    Box bb = s.BoundingBox();
    vec3 sz = bb.max - bb.min;
    double D = std::max(sz.x, std::max(sz.y, sz.z));
    if (!(D >= 0) || !std::isfinite(D)) D = 0;
    Manifold r;
    if (name == "mir") r = s.Mirror(v3q(A(2), A(3), A(4)));
    else if (name == "warp") r = s.Warp(warpFn((int)A(2)));
    else if (name == "warpb") {
      auto f = warpFn((int)A(2));
      r = s.WarpBatch([f](VecView<vec3> vs) { for (auto& v : vs) f(v); });
    } else if (name == "setp") {
      const int n = (int)A(2), k = (int)A(3), oldN = (int)s.NumProp();
      if (n < 0 || n > 8) throw BadOp{"numProp out of range"};
      std::function<void(double*, vec3, const double*)> f;
      if (k == 0) f = nullptr;
      else if (k == 1) f = [n](double* p, vec3, const double*) { for (int i = 0; i < n; ++i) p[i] = i + 1; };
      else if (k == 2) f = [n](double* p, vec3 v, const double*) { for (int i = 0; i < n; ++i) p[i] = v[i % 3] * (i + 1); };
      else if (k == 3) f = [n, oldN](double* p, vec3, const double* o) { for (int i = 0; i < n; ++i) p[i] = i < oldN ? o[i] : 0.5; };
      else f = [n](double* p, vec3 v, const double*) { for (int i = 0; i < n; ++i) p[i] = std::floor(v[i % 3] * 2); };
      r = s.SetProperties(n, f);
    } else if (name == "norm") r = s.CalculateNormals((int)A(2), 15.0 * A(3));
    else if (name == "curv") r = s.CalculateCurvature((int)A(2), (int)A(3));
    else if (name == "ref") {
      long n = A(2);
      if (n < 0 || n > 4) throw BadOp{"refine factor out of range"};
      if (nt * std::max(1L, n * n) > MAXRES) throw SkipOp{"refine result too large"};
      r = s.Refine((int)n);
    } else if (name == "rlen") {
      if (A(2) < 1) throw BadOp{"length must be >= 1"};
      double len = A(2) / 8.0, div = 1.8 * D / len + 1;
      if (nt * div * div > MAXRES) throw SkipOp{"refine result too large"};
      r = s.RefineToLength(len);
    } else if (name == "rtol") {
      if (A(2) < 1) throw BadOp{"tolerance must be >= 1"};
      double tol = A(2) / 32.0, div2 = 3 * (4 * D) / (4 * tol) + 1;
      if (nt * div2 > MAXRES) throw SkipOp{"refine result too large"};
      r = s.RefineToTolerance(tol);
    } else if (name == "smo") r = s.SmoothOut(15.0 * A(2), A(3) / 4.0);
    else if (name == "smn") {
      if (A(2) < 0 || (long)s.NumProp() < A(2) + 3) throw SkipOp{"not enough properties for normals"};
      r = s.SmoothByNormals((int)A(2));
    } else if (name == "simp") r = s.Simplify(A(2) / 16.0);
    else if (name == "stol") r = s.SetTolerance(A(2) < 0 ? s.GetTolerance() / 2 : A(2) / 64.0);
    else if (name == "orig") r = s.AsOriginal();
    else if (name == "hull") r = s.Hull();
    else r = s.TrimByPlane(v3q(A(2), A(3), A(4)), A(5) / 4.0);
    h.putM(d, std::move(r), "new", 4 * nt + 64);
    return;
  }
  if (name == "dec") {
    h.guardTri(A(0));
    std::vector<int> ds;
    for (size_t i = 1; i < a.size(); ++i) ds.push_back(h.dest(a[i], MAN));
    const Manifold& s = h.man(A(0));
    const bool ok = s.Status() == Manifold::Error::NoError;
    std::vector<Manifold> parts = s.Decompose();
    // documented: a connected input yields one element that is a copy of the original
    const std::string how = (parts.size() == 1 && ok) ? "copy:" + std::to_string(A(0)) : "new";
    for (size_t i = 0; i < ds.size() && i < parts.size(); ++i) h.putM(ds[i], std::move(parts[i]), how, h.pool[A(0)].est);
    h.fillEmpties();
    return;
  }
  if (name == "split" || name == "splitp") {
    int d1 = h.dest(A(0), MAN), d2 = h.dest(A(1), MAN);
    h.guardTri(A(2));
    std::pair<Manifold, Manifold> r;
    long e = h.pool[A(2)].est;
    if (name == "split") {
      h.guardTri(A(3));
      e += h.pool[A(3)].est;
      if (e > MAXTRI) throw SkipOp{"split operands too large"};
      r = h.man(A(2)).Split(h.man(A(3)));
    } else {
      r = h.man(A(2)).SplitByPlane(v3q(A(3), A(4), A(5)), A(6) / 4.0);
    }
    h.putM(d1, std::move(r.first), "new", 2 * e + 24);
    h.putM(d2, std::move(r.second), "new", 2 * e + 24);
    return;
  }
  if (name == "mks" || name == "mkd") {
    int d = h.dest(A(0), MAN);
    long na = h.tris(A(1)), nb = h.tris(A(2));
    if (na > 100 || nb > 30 || na * nb > 1500) throw SkipOp{"minkowski operands too large"};
    const Manifold& x = h.man(A(1)); const Manifold& y = h.man(A(2));
    Manifold r = name == "mks" ? x.MinkowskiSum(y) : x.MinkowskiDifference(y);
    h.putM(d, std::move(r), "new", MAXTRI);
    return;
  }
  if (name == "slice" || name == "proj") {
    int d = h.dest(A(0), CS);
    h.guardTri(A(1));
    const Manifold& s = h.man(A(1));
    Polygons p = name == "slice" ? s.Slice(A(2) / 4.0) : s.Project();
    h.putC(d, CrossSection(p), "new");
    return;
  }
  // ------------------------------------------------ CrossSection ops
  if (name == "cbool") {
    int d = h.dest(A(0), CS);
    const CrossSection& x = h.cs(A(1)); const CrossSection& y = h.cs(A(2));
    if (x.NumVert() + y.NumVert() > 2000) throw SkipOp{"cs too large"};
    OpType op = opType(A(3));
    h.putC(d, A(4) ? x.Boolean(y, op) : (op == OpType::Add ? x + y : op == OpType::Subtract ? x - y : x ^ y), "new");
    return;
  }
  if (name == "cbatch" || name == "ccompose" || name == "chulln") {
    int d = h.dest(A(0), CS);
    size_t first = name == "cbatch" ? 2 : 1;
    std::vector<CrossSection> v;
    size_t nv = 0;
    for (size_t i = first; i < a.size(); ++i) { v.push_back(h.cs(a[i])); nv += v.back().NumVert(); }
    if (v.empty()) throw BadOp{"empty operand list"};
    if (nv > 2000) throw SkipOp{"cs too large"};
    if (name == "cbatch") h.putC(d, CrossSection::BatchBoolean(v, opType(A(1))), "new");
    else if (name == "ccompose") h.putC(d, CrossSection::BatchBoolean(v, OpType::Add), "new");  // CrossSection has no Compose in this tree
    else h.putC(d, CrossSection::Hull(v), "new");
    return;
  }
  if (name == "ctr" || name == "crot" || name == "csc" || name == "cmir" || name == "cxf" || name == "cwarp" ||
      name == "cwarpb" || name == "coff" || name == "csimp" || name == "chull" || name == "cstol") {
    int d = h.dest(A(0), CS);
    const CrossSection& s = h.cs(A(1));
    CrossSection r;
    if (name == "ctr") r = s.Translate(vec2(A(2) / 4.0, A(3) / 4.0));
    else if (name == "crot") r = s.Rotate(15.0 * A(2));
    else if (name == "csc") r = s.Scale(vec2(A(2) / 4.0, A(3) / 4.0));
    else if (name == "cmir") r = s.Mirror(vec2(A(2) / 4.0, A(3) / 4.0));
    else if (name == "cxf") r = s.Transform(xf2Mat((int)A(2)));
    else if (name == "cwarp") r = s.Warp(warp2Fn((int)A(2)));
    else if (name == "cwarpb") {
      auto f = warp2Fn((int)A(2));
      r = s.WarpBatch([f](VecView<vec2> vs) { for (auto& v : vs) f(v); });
    } else if (name == "coff") {
      if (s.NumVert() > 500) throw SkipOp{"cs too large"};
      if (A(3) < 0 || A(3) > 3 || A(4) < 0 || A(4) > 16) throw BadOp{"offset parameters out of range"};
      r = s.Offset(A(2) / 8.0, (JoinType)A(3), 2.0, (int)A(4));
    } else if (name == "csimp") r = s.Simplify(A(2) / 16.0);
    else if (name == "chull") r = s.Hull();
    else r = s.SetTolerance(A(2) / 64.0);
    h.putC(d, std::move(r), "new");
    return;
  }
  if (name == "cdec") {
    std::vector<int> ds;
    for (size_t i = 1; i < a.size(); ++i) ds.push_back(h.dest(a[i], CS));
    std::vector<CrossSection> parts = h.cs(A(0)).Decompose();
    for (size_t i = 0; i < ds.size() && i < parts.size(); ++i) h.putC(ds[i], std::move(parts[i]), "new");
    h.fillEmpties();
    return;
  }
  throw BadOp{"unknown op " + name};
}

// ---------------------------------------------------------------- refcount cross-check
static void refcountLine(Hist& h) {
  struct Buf { int count; size_t size; std::set<const Manifold::Impl*> impls; std::set<int> slots; };
  std::map<const int*, Buf> bufs;
  for (int s = 0; s < NSLOT; ++s) {
    if (h.pool[s].kind != MAN) continue;
    std::shared_ptr<CsgNode> node = h.pool[s].m->pNode_;  // no forcing
    if (!node || node->GetNodeType() != CsgNodeType::Leaf) continue;
    const CsgLeafNode* leaf = static_cast<const CsgLeafNode*>(node.get());
    const Manifold::Impl* impl = leaf->pImpl_.get();  // raw field: no transform is applied
    if (!impl) continue;
    const SharedVec<int>* vs[3] = {&impl->halfedge_.start_, &impl->halfedge_.paired_, &impl->halfedge_.propVert_};
    for (auto* v : vs) {
      if (v->ptr_ == nullptr || v->count_ == nullptr) continue;
      Buf& b = bufs[v->ptr_];
      b.count = v->count_->load();
      b.size = v->size_;
      b.impls.insert(impl);
      b.slots.insert(s);
    }
  }
  int nshared = 0, maxc = 0;
  std::string bad;
  std::set<int> sharing;
  for (auto& kv : bufs) {
    const Buf& b = kv.second;
    maxc = std::max(maxc, b.count);
    if (b.impls.size() >= 2) { ++nshared; sharing.insert(b.slots.begin(), b.slots.end()); }
    if (b.count < (int)b.impls.size() && bad.empty()) {
      bad = "count=" + std::to_string(b.count) + ",impls=" + std::to_string(b.impls.size()) + ",slots=";
      for (int s : b.slots) bad += std::to_string(s) + "/";
    }
  }
  std::string sh = "sh=";
  for (int s : sharing) sh += std::to_string(s) + ",";
  out("U " + h.id + " " + h.step + " " + std::to_string(bufs.size()) + " " + std::to_string(nshared) + " " +
      std::to_string(maxc) + " " + (bad.empty() ? std::string("ok") : "BAD:" + bad) + " " + sh);
}

static void observe(Hist& h, std::vector<int> slots, const std::string& stepName) {
  std::sort(slots.begin(), slots.end());
  slots.erase(std::unique(slots.begin(), slots.end()), slots.end());
  std::string P, T, O, G, Q;
  auto bits = [](double v) { uint64_t u; std::memcpy(&u, &v, 8); return hex16(u); };
  for (int s : slots) {
    Slot& x = h.pool[s];
    try {
      if (x.kind == MAN) {
        {
          Fnv sd; sd.bytes(h.id.data(), h.id.size()); sd.bytes(stepName.data(), stepName.size()); sd.u((uint64_t)s);
          Q += " " + std::to_string(s) + "=" + getterLine(*x.m, sd.h);
        }
        P += " " + std::to_string(s) + "=" + hex16(peekHash(*x.m));
        O += " " + std::to_string(s) + "=" + hex16(fullHash(*x.m));
        x.est = (long)x.m->NumTri();
        // G: evaluation-order independent invariants (bit patterns; compared with a tolerance by the oracle):
        // status, emptiness, volume, surface area, bounding box
        Box b = x.m->BoundingBox();
        G += " " + std::to_string(s) + "=M," + std::to_string((int)x.m->Status()) + "," + (x.m->IsEmpty() ? "1" : "0") + "," +
             bits(x.m->Volume()) + "," + bits(x.m->SurfaceArea()) + "," + bits(b.min.x) + "," + bits(b.min.y) + "," +
             bits(b.min.z) + "," + bits(b.max.x) + "," + bits(b.max.y) + "," + bits(b.max.z);
      } else if (x.kind == CS) {
        T += " " + std::to_string(s) + "=" + hex16(csTolHash(*x.c));
        O += " " + std::to_string(s) + "=" + hex16(fullHash(*x.c));
        Rect r = x.c->Bounds();
        G += " " + std::to_string(s) + "=C,0," + (x.c->IsEmpty() ? "1" : "0") + "," + bits(x.c->Area()) + "," + bits(0.0) + "," +
             bits(r.min.x) + "," + bits(r.min.y) + "," + bits(0.0) + "," + bits(r.max.x) + "," + bits(r.max.y) + "," + bits(0.0);
      }
    } catch (std::exception& e) {
      out("X " + h.id + " " + stepName + " observe:" + e.what());
    }
  }
  if (!Q.empty()) out("Q " + h.id + " " + stepName + Q);
  if (!P.empty()) out("P " + h.id + " " + stepName + P);
  if (!T.empty()) out("T " + h.id + " " + stepName + T);
  out("O " + h.id + " " + stepName + O);
  if (!G.empty()) out("G " + h.id + " " + stepName + G);
}

static void runHistory(std::istringstream& in) {
  Hist h;
  std::string mode, tok;
  in >> h.id >> mode;
  const bool eager = mode == "eager", lazy0 = mode == "lazy0";
  int step = 0;
  while (in >> tok) {
    h.step = std::to_string(step);
    h.touched.clear();
    h.pendingDest.clear();
    h.pendingKind.clear();
    std::vector<int> looks;
    std::string name;
    Args a;
    {
      std::stringstream ss(tok);
      std::string f;
      bool first = true, bad = false;
      while (std::getline(ss, f, ':')) {
        if (first) { name = f; first = false; continue; }
        char* end = nullptr;
        long v = strtol(f.c_str(), &end, 0);
        if (end == f.c_str() || *end) bad = true;
        a.push_back(v);
      }
      if (bad) { out("E " + h.id + " " + h.step + " bad field in " + tok); name = ""; }
    }
    if (!name.empty()) {
      try {
        runOp(h, name, a, looks);
      } catch (BadOp& e) {
        out("E " + h.id + " " + h.step + " " + e.msg);
      } catch (SkipOp& e) {
        out("S " + h.id + " " + h.step + " " + e.why);
        h.fillEmpties();
      } catch (std::exception& e) {
        std::string w = e.what();
        for (auto& c : w) if (c == '\n') c = ' ';
        out("X " + h.id + " " + h.step + " " + w);
        h.fillEmpties();
      }
    }
    std::vector<int> obs = looks;
    if (eager) {
      for (int s = 0; s < NSLOT; ++s) obs.push_back(s);
    } else if (!lazy0) {
      obs.insert(obs.end(), h.touched.begin(), h.touched.end());
    }
    observe(h, obs, h.step);
    refcountLine(h);
    ++step;
  }
  std::vector<int> all;
  for (int s = 0; s < NSLOT; ++s) all.push_back(s);
  h.step = "end";
  observe(h, all, "end");
}

// ---------------------------------------------------------------- Impl-level mode
typedef Manifold::Impl Impl;
static const char* SAFE_METHODS[] = {
    "DedupePropVerts", "SortGeometry", "Subdivide", "Refine", "CleanupTopology", "SimplifyTopology",
    "SimplifyTopology2", "RemoveUnreferencedVerts", "SetNormalsAndCoplanar", "InitializeOriginal",
    "CreateTangentsIdx", "CreateTangentsSharp", "SetNormals", "CalculateVertNormals", "CalculateCurvature",
    "Warp", "WarpBatch", "TransformMirror", "TransformTranslate", "TransformIdentity", "GatherFaces", "SortFaces",
    "MakeEmpty", "IncrementMeshIDs", "CalculateBBox", "SetEpsilon", "Hull", "CopyAssign"};
// no MakeUnique inside by design (callers are expected to own the buffers):
static const char* RAW_METHODS[] = {"ReindexVerts", "SortVerts", "CompactProps", "ReorderHalfedges",
                                    "SplitPinchedVerts", "DedupeEdges", "SwapDegenerates", "CollapseShortEdges",
                                    "CollapseColinearEdges"};

static Impl makeA(int menu) {
  Manifold m;
  switch (menu) {
    case 0: m = Manifold::Cube(); break;
    case 1: m = Manifold::Sphere(1.0, 8); break;
    case 2: {
      Manifold a = Manifold::Cube(vec3(1.0), true).SetProperties(4, [](double* p, vec3 v, const double*) { for (int i = 0; i < 4; ++i) p[i] = v[i % 3] * (i + 1); });
      Manifold b = Manifold::Sphere(0.6, 8).SetProperties(4, [](double* p, vec3, const double*) { for (int i = 0; i < 4; ++i) p[i] = i; });
      m = a - b;
      break;
    }
    case 3: m = Manifold::Tetrahedron().SmoothOut(60, 0.25).Refine(2).CalculateNormals(0, 45).SmoothByNormals(0); break;
    // 4/5: several property vertices per geometric vertex (sharp normals) that are then given equal values,
    // so that DedupePropVerts has something to merge
    case 4: m = Manifold::Cube().CalculateNormals(0, 30).SetProperties(4, [](double* p, vec3, const double*) { for (int i = 0; i < 4; ++i) p[i] = 1 + i; }); break;
    default: m = Manifold::Sphere(1.0, 6).CalculateNormals(0, 10).SetProperties(3, [](double* p, vec3 v, const double*) { for (int i = 0; i < 3; ++i) p[i] = std::floor(2 * v[i]); }); break;
  }
  Impl a = *m.GetCsgLeafNode().GetImpl();
  a.halfedge_.MakeUnique();  // independent of the Manifold that produced it
  return a;
}

static uint64_t heHash(const Impl& x) {
  Fnv f;
  const SharedVec<int>* vs[3] = {&x.halfedge_.start_, &x.halfedge_.paired_, &x.halfedge_.propVert_};
  for (auto* v : vs) {
    f.u(v->size_);
    for (size_t i = 0; i < v->size_; ++i) f.val(v->ptr_[i]);
  }
  return f.h;
}
static uint64_t implHash(const Impl& x) {
  Fnv f;
  f.u(heHash(x));
  f.u(x.vertPos_.size());
  for (auto& v : x.vertPos_) f.v3(v);
  f.u(x.properties_.size());
  for (double d : x.properties_) f.d(d);
  f.u((uint64_t)x.numProp_);
  return f.h;
}
static std::string counts(const Impl& x) {
  const SharedVec<int>* vs[3] = {&x.halfedge_.start_, &x.halfedge_.paired_, &x.halfedge_.propVert_};
  std::string s;
  for (int i = 0; i < 3; ++i) s += (i ? "," : "") + std::to_string(vs[i]->count_ ? vs[i]->count_->load() : -1);
  return s;
}

static void implCase(const std::string& id, const std::string& method, int argv) {
  const int menu = argv % 10;
  const bool loose = argv >= 10;
  Impl A = makeA(menu);
  // NB: SharedVec's copy CONSTRUCTOR deep-copies (Vec(vec.view()) + move); only copy
  // ASSIGNMENT shares the buffer.  So `Impl B = A;` would not share anything.
  Impl B;
  B = A;
  if (loose) B.tolerance_ = 0.2 * B.bBox_.Scale();
  const int* pa[3] = {A.halfedge_.start_.ptr_, A.halfedge_.paired_.ptr_, A.halfedge_.propVert_.ptr_};
  const bool shared0 = B.halfedge_.start_.ptr_ == pa[0] && B.halfedge_.paired_.ptr_ == pa[1] && B.halfedge_.propVert_.ptr_ == pa[2];
  const std::string c0 = counts(A);
  const uint64_t hA0 = implHash(A), hB0 = heHash(B);
  Impl R;            // result object for const methods
  Impl* after = &B;  // which object plays "B after the call"
  auto one = [](vec3, vec4, vec4) { return 1; };
  std::string na;
  try {
    if (method == "DedupePropVerts") B.DedupePropVerts();
    else if (method == "SortGeometry") {  // permute the axes first so that the sort has something to do
      for (auto& v : B.vertPos_) v = vec3(v.z, v.x, v.y);
      B.CalculateBBox();
      B.SortGeometry();
    }
    else if (method == "Subdivide") B.Subdivide(one, false);
    else if (method == "Refine") B.Refine(one, false, nullptr);
    else if (method == "CleanupTopology") B.CleanupTopology();
    else if (method == "SimplifyTopology") B.SimplifyTopology(0);
    else if (method == "SimplifyTopology2") B.SimplifyTopology2();
    else if (method == "RemoveUnreferencedVerts") B.RemoveUnreferencedVerts();
    else if (method == "SetNormalsAndCoplanar") B.SetNormalsAndCoplanar();
    else if (method == "InitializeOriginal") B.InitializeOriginal();
    else if (method == "CreateTangentsIdx") { if (B.numProp_ < 3) na = "numProp<3"; else B.CreateTangents(0); }
    else if (method == "CreateTangentsSharp") B.CreateTangents(B.SharpenEdges(60, 0.25), nullptr);
    else if (method == "SetNormals") B.SetNormals(0, 60);
    else if (method == "CalculateVertNormals") B.CalculateVertNormals();
    else if (method == "CalculateCurvature") B.CalculateCurvature(0, 1);
    else if (method == "Warp") B.Warp(warpFn(1));
    else if (method == "WarpBatch") { auto f = warpFn(1); B.WarpBatch([f](VecView<vec3> vs) { for (auto& v : vs) f(v); }); }
    else if (method == "TransformMirror") { R = B.Transform(xfMat(1)); after = &R; }
    else if (method == "TransformTranslate") { R = B.Transform(mat3x4({1, 0, 0}, {0, 1, 0}, {0, 0, 1}, {0.5, 0.25, 0})); after = &R; }
    else if (method == "TransformIdentity") { R = B.Transform(mat3x4(la::identity)); after = &R; }
    else if (method == "GatherFaces") {
      Vec<int> n2o(B.NumTri());
      for (size_t i = 0; i < n2o.size(); ++i) n2o[i] = (int)(n2o.size() - 1 - i);
      B.GatherFaces(n2o);
    } else if (method == "SortFaces") {
      Vec<Box> fb; Vec<uint32_t> fm;
      B.GetFaceBoxMorton(fb, fm);
      for (size_t i = 0; i < fm.size(); ++i) fm[i] = (uint32_t)(fm.size() - i);  // force a permutation
      B.SortFaces(fb, fm);
    } else if (method == "MakeEmpty") B.MakeEmpty(Manifold::Error::NoError);
    else if (method == "IncrementMeshIDs") B.IncrementMeshIDs();
    else if (method == "CalculateBBox") B.CalculateBBox();
    else if (method == "SetEpsilon") B.SetEpsilon(-1, false);
    else if (method == "Hull") { Vec<vec3> pts = B.vertPos_; B.Hull(pts.cview()); }
    else if (method == "CopyAssign") { Impl C = makeA(0); B = C; }
    else if (method == "ReindexVerts") {
      Vec<int> n2o(B.NumVert());
      for (size_t i = 0; i < n2o.size(); ++i) n2o[i] = (int)(n2o.size() - 1 - i);
      B.ReindexVerts(n2o, B.NumVert());
    } else if (method == "SortVerts") { for (auto& v : B.vertPos_) v = vec3(v.z, v.x, v.y); B.SortVerts(); }
    else if (method == "CompactProps") B.CompactProps();
    else if (method == "ReorderHalfedges") B.ReorderHalfedges();
    else if (method == "SplitPinchedVerts") B.SplitPinchedVerts();
    else if (method == "DedupeEdges") B.DedupeEdges();
    else if (method == "SwapDegenerates") B.SwapDegenerates(0);
    else if (method == "CollapseShortEdges") B.CollapseShortEdges(0);
    else if (method == "CollapseColinearEdges") B.CollapseColinearEdges(0);
    else na = "unknown-method";
  } catch (std::exception& e) {
    out("X " + id + " " + method + " " + e.what());
  }
  if (!na.empty()) { out("I " + id + " " + method + " NA " + na); return; }
  const uint64_t hA1 = implHash(A), hB1 = heHash(*after);
  const bool ptrSame = A.halfedge_.start_.ptr_ == pa[0] && A.halfedge_.paired_.ptr_ == pa[1] && A.halfedge_.propVert_.ptr_ == pa[2];
  const Halfedges& bh = after->halfedge_;
  const bool detached = bh.start_.ptr_ != pa[0] && bh.paired_.ptr_ != pa[1] && bh.propVert_.ptr_ != pa[2];
  out("I " + id + " " + method + " a_unchanged=" + ((hA0 == hA1 && ptrSame) ? "1" : "0") + " b_detached=" + (detached ? "1" : "0") +
      " b_changed=" + (hB0 != hB1 ? "1" : "0") + " a_counts=" + c0 + ">" + counts(A) + " b_counts=" + counts(*after) +
      " shared_before=" + (shared0 ? "1" : "0") + " ntri=" + std::to_string(A.NumTri()));
}

int main() {
  std::string line;
  while (std::getline(std::cin, line)) {
    std::istringstream in(line);
    std::string tag;
    in >> tag;
    try {
      if (tag == "H") {
        runHistory(in);
      } else if (tag == "I") {
        std::string id, method;
        int a = 0;
        in >> id >> method >> a;
        if (method == "list") {
          std::string l = "L", r = "LR";
          for (auto* m : SAFE_METHODS) l += std::string(" ") + m;
          for (auto* m : RAW_METHODS) r += std::string(" ") + m;
          out(l);
          out(r);
        } else {
          implCase(id, method, a);
        }
      }
    } catch (std::exception& e) {
      out(std::string("X ? ? toplevel:") + e.what());
    }
  }
  return 0;
}
