// C01 end-to-end harness: interprets serialised programs of PUBLIC Manifold
// operations and, for every Manifold a program produces, prints only integers:
//   S <id> status empty finitePos finiteProp finiteTan nVgl numProp nPropVert note
//   MESH <id> nV repV repE repT repG nT  a b c ...
// where the triangles are GetMeshGL64().triVerts after applying
// mergeFromVert -> mergeToVert and renumbering the surviving vertices 0..nV-1 in
// increasing order.  The verdict is given by the EXTRACTED Coq checker
// (extract/c01_driver.ml), never here.
//
// One program per input line:
//   PROG <id> <maxtri> | op args | op args | ...
// Every instruction defines value #k (k = its position); operands are value
// numbers of earlier instructions.  Instructions that yield several Manifolds
// (split, splitplane, decompose) emit all of them (ids <id>.<k>, <id>.<k>b, ...)
// and define value #k as described at each op.
#include <csignal>
#include <cstdio>
#include <cstdlib>
#include <cmath>
#include <iostream>
#include <sstream>
#include <string>
#include <vector>
#include <tuple>
#include <unistd.h>

#include "manifold/manifold.h"
using namespace manifold;

static int g_maxtri = 4000;
static bool g_lazy = false;  // PROG <id> -<maxtri>: build the whole program first, evaluate afterwards (last value first)

static void emit(const std::string& id, const Manifold& m, const std::string& note) {
  const int status = (int)m.Status();
  MeshGL64 g = m.GetMeshGL64();
  const size_t nVgl = g.NumVert();
  const size_t nT = g.NumTri();
  bool finPos = true, finProp = true, finTan = true;
  for (size_t v = 0; v < nVgl; ++v)
    for (size_t p = 0; p < g.numProp; ++p) {
      const double x = g.vertProperties[v * g.numProp + p];
      if (!std::isfinite(x)) (p < 3 ? finPos : finProp) = false;
    }
  for (double x : g.halfedgeTangent)
    if (!std::isfinite(x)) finTan = false;
  // apply the merge vectors
  std::vector<long long> rep(nVgl);
  for (size_t i = 0; i < nVgl; ++i) rep[i] = (long long)i;
  bool mergeOk = g.mergeFromVert.size() == g.mergeToVert.size();
  if (mergeOk)
    for (size_t k = 0; k < g.mergeFromVert.size(); ++k) {
      if (g.mergeFromVert[k] >= nVgl || g.mergeToVert[k] >= nVgl) { mergeOk = false; break; }
      rep[g.mergeFromVert[k]] = (long long)g.mergeToVert[k];
    }
  auto root = [&](long long v) {
    for (int hop = 0; hop < 64 && rep[v] != v; ++hop) v = rep[v];
    return v;
  };
  std::vector<long long> rank(nVgl, -1);
  long long nV = 0;
  for (size_t i = 0; i < nVgl; ++i)
    if (rep[i] == (long long)i) rank[i] = nV++;
  printf("S %s %d %d %d %d %d %zu %zu %zu %s\n", id.c_str(), status, m.IsEmpty() ? 1 : 0, finPos ? 1 : 0,
         finProp ? 1 : 0, finTan ? 1 : 0, nVgl, (size_t)g.numProp, m.NumPropVert(), note.c_str());
  std::string out;
  out.reserve(64 + nT * 24);
  char buf[160];
  snprintf(buf, sizeof buf, "MESH %s %lld %zu %zu %zu %d %zu", id.c_str(), mergeOk ? nV : -1LL, m.NumVert(),
           m.NumEdge(), m.NumTri(), m.Genus(), nT);
  out += buf;
  for (size_t i = 0; i < 3 * nT; ++i) {
    const unsigned long long v = g.triVerts[i];
    long long w;
    if (v >= nVgl) w = (long long)nVgl + 1000000;  // out of range: let the checker reject it
    else {
      const long long r = root((long long)v);
      w = rank[r] >= 0 ? rank[r] : (long long)nVgl + 2000000;  // merge cycle
    }
    snprintf(buf, sizeof buf, " %lld", w);
    out += buf;
  }
  puts(out.c_str());
  fflush(stdout);
}

struct Prog {
  std::vector<std::vector<std::string>> ins;
};

static double D(const std::vector<std::string>& t, size_t i) { return i < t.size() ? strtod(t[i].c_str(), nullptr) : 0.0; }
static long long I(const std::vector<std::string>& t, size_t i) { return i < t.size() ? atoll(t[i].c_str()) : 0; }

static Polygons readPolys(const std::vector<std::string>& t, size_t& i) {
  Polygons ps;
  int np = (int)I(t, i++);
  for (int p = 0; p < np; ++p) {
    int n = (int)I(t, i++);
    SimplePolygon sp;
    for (int k = 0; k < n; ++k) {
      double x = D(t, i++), y = D(t, i++);
      sp.push_back(vec2(x, y));
    }
    ps.push_back(sp);
  }
  return ps;
}

static MeshGL64 soup(int kind, int p1, int p2);
static MeshGL64 soupBig(int kind, int p1, int p2) {
  // the same soup followed by 2^18 unused vertices: vertPos_.size() >= 1<<18 selects the bucket-sort
  // branch of CreateHalfedges; the unused vertices must disappear (RemoveUnreferencedVerts)
  MeshGL64 g = soup(kind, p1, p2);
  const size_t extra = (1u << 18) + 7;
  for (size_t i = 0; i < extra; ++i)
    for (size_t c = 0; c < g.numProp; ++c) g.vertProperties.push_back(c == 0 ? 5.0 + 1e-5 * i : 0.0);
  return g;
}
static MeshGL64 soup(int kind, int p1, int p2) {
  if (kind >= 100) return soupBig(kind - 100, p1, p2);
  MeshGL64 g;
  g.numProp = 3;
  auto V = [&](double x, double y, double z) {
    g.vertProperties.push_back(x); g.vertProperties.push_back(y); g.vertProperties.push_back(z);
    return (uint64_t)(g.vertProperties.size() / 3 - 1);
  };
  auto T = [&](uint64_t a, uint64_t b, uint64_t c) { g.triVerts.push_back(a); g.triVerts.push_back(b); g.triVerts.push_back(c); };
  auto tet = [&](uint64_t a, uint64_t b, uint64_t c, uint64_t d) { T(a, c, b); T(a, d, c); T(a, b, d); T(b, c, d); };
  switch (kind) {
    case 0: {  // torus grid p1 x p2
      int n = std::max(3, p1), m = std::max(3, p2);
      for (int i = 0; i < n; ++i)
        for (int j = 0; j < m; ++j) {
          double u = 2 * M_PI * i / n, w = 2 * M_PI * j / m;
          V((2 + cos(w)) * cos(u), (2 + cos(w)) * sin(u), sin(w));
        }
      auto id = [&](int i, int j) { return (uint64_t)(((i % n) * m) + (j % m)); };
      for (int i = 0; i < n; ++i)
        for (int j = 0; j < m; ++j) {
          T(id(i, j), id(i + 1, j), id(i + 1, j + 1));
          T(id(i, j), id(i + 1, j + 1), id(i, j + 1));
        }
      break;
    }
    case 1: {  // two tetrahedra sharing one vertex index (pinched vertex)
      auto a = V(0, 0, 0), b = V(1, 0, 0), c = V(0, 1, 0), d = V(0, 0, 1);
      auto e = V(-1, 0, 0), f = V(0, -1, 0), h = V(0, 0, -1);
      tet(a, b, c, d);
      tet(a, f, e, h);
      break;
    }
    case 2: {  // two tetrahedra sharing an edge (4-manifold edge)
      auto a = V(0, 0, 0), b = V(0, 0, 1), c = V(1, 0, 0), d = V(0, 1, 0);
      auto e = V(-1, 0, 0), f = V(0, -1, 0);
      tet(a, c, d, b);
      tet(a, e, f, b);
      break;
    }
    case 3: {  // open: tetrahedron missing a face
      auto a = V(0, 0, 0), b = V(1, 0, 0), c = V(0, 1, 0), d = V(0, 0, 1);
      T(a, c, b); T(a, d, c); T(a, b, d);
      break;
    }
    case 4: {  // one flipped face
      auto a = V(0, 0, 0), b = V(1, 0, 0), c = V(0, 1, 0), d = V(0, 0, 1);
      T(a, c, b); T(a, d, c); T(a, b, d); T(b, d, c);
      break;
    }
    case 5: {  // cube, 4 verts per face, merge vectors, one extra property channel
      g.numProp = 4;
      g.vertProperties.clear();
      const double P[8][3] = {{0,0,0},{1,0,0},{1,1,0},{0,1,0},{0,0,1},{1,0,1},{1,1,1},{0,1,1}};
      const int F[6][4] = {{0,3,2,1},{4,5,6,7},{0,1,5,4},{2,3,7,6},{1,2,6,5},{0,4,7,3}};
      std::vector<long long> first(8, -1);
      for (int f = 0; f < 6; ++f) {
        uint64_t base = g.vertProperties.size() / 4;
        for (int k = 0; k < 4; ++k) {
          const int pv = F[f][k];
          for (int c = 0; c < 3; ++c) g.vertProperties.push_back(P[pv][c] * (p1 > 0 ? p1 : 1));
          g.vertProperties.push_back((double)f);
          if (first[pv] < 0) first[pv] = (long long)(base + k);
          else { g.mergeFromVert.push_back(base + k); g.mergeToVert.push_back((uint64_t)first[pv]); }
        }
        T(base, base + 1, base + 2); T(base, base + 2, base + 3);
      }
      break;
    }
    case 6: {  // tetrahedron plus an opposed pair of coincident triangles on one face
      auto a = V(0, 0, 0), b = V(1, 0, 0), c = V(0, 1, 0), d = V(0, 0, 1);
      tet(a, b, c, d);
      T(a, b, c); T(a, c, b);
      break;
    }
    case 7: {  // index out of range
      auto a = V(0, 0, 0), b = V(1, 0, 0), c = V(0, 1, 0), d = V(0, 0, 1);
      tet(a, b, c, d);
      g.triVerts[5] = 17;
      break;
    }
    case 8: {  // tetrahedron with a degenerate (repeated-vertex) sliver pair glued on an edge
      auto a = V(0, 0, 0), b = V(1, 0, 0), c = V(0, 1, 0), d = V(0, 0, 1);
      tet(a, b, c, d);
      T(a, b, b); T(b, a, a);
      break;
    }
    case 9: {  // octahedron with two coincident (unmerged) vertices at the same position: two fans
      auto t = V(0, 0, 1), bo = V(0, 0, -1);
      uint64_t r[4] = {V(1, 0, 0), V(0, 1, 0), V(-1, 0, 0), V(0, -1, 0)};
      for (int k = 0; k < 4; ++k) { T(t, r[k], r[(k + 1) % 4]); T(bo, r[(k + 1) % 4], r[k]); }
      // second octahedron at the same place sharing nothing: coincident copy shifted by p1*0.5
      auto t2 = V(0.5 * p1, 0, 1), b2 = V(0.5 * p1, 0, -1);
      uint64_t q[4] = {V(1 + 0.5 * p1, 0, 0), V(0.5 * p1, 1, 0), V(-1 + 0.5 * p1, 0, 0), V(0.5 * p1, -1, 0)};
      for (int k = 0; k < 4; ++k) { T(t2, q[k], q[(k + 1) % 4]); T(b2, q[(k + 1) % 4], q[k]); }
      break;
    }
    case 10:    // p1 = N (fan size), p2 = triangle order: two wedge solids sharing the edge A-B (A, B high valence)
    case 12: {  // three wedges around the same edge
      const int N = std::max(3, p1);
      const int nW = kind == 10 ? 2 : 3;
      const double half = kind == 10 ? 60.0 : 50.0;
      auto A = V(0, 0, 0), B = V(0, 0, 1);
      std::vector<std::vector<uint64_t>> ws;
      for (int w = 0; w < nW; ++w) {
        const double th0 = 360.0 * w / nW;
        std::vector<uint64_t> r;
        for (int i = 0; i < N; ++i) {
          const double th = (th0 - half + 2 * half * i / (N - 1)) * M_PI / 180.0;
          r.push_back(V(std::cos(th), std::sin(th), 0.5));
        }
        std::vector<uint64_t> t;
        auto tr = [&](uint64_t a, uint64_t b, uint64_t c) { t.push_back(a); t.push_back(b); t.push_back(c); };
        for (int i = 0; i + 1 < N; ++i) tr(A, r[i + 1], r[i]);
        for (int i = 0; i + 1 < N; ++i) tr(B, r[i], r[i + 1]);
        tr(A, B, r[N - 1]);
        tr(B, A, r[0]);
        ws.push_back(t);
      }
      std::vector<uint64_t> all;
      for (auto& t : ws) all.insert(all.end(), t.begin(), t.end());
      const size_t nT = all.size() / 3;
      std::vector<size_t> ord(nT);
      for (size_t i = 0; i < nT; ++i) ord[i] = i;
      if (p2 % 4 == 1) { ord.insert(ord.begin(), nT - 1); ord.pop_back(); }           // last triangle first
      else if (p2 % 4 == 2) { for (size_t i = 0; i < nT; ++i) ord[i] = (i % 2 ? nT - 1 - i / 2 : i / 2); }  // interleaved from both ends
      else if (p2 % 4 == 3) { for (size_t i = 0; i < nT; ++i) ord[i] = nT - 1 - i; }  // reversed
      for (size_t i : ord) T(all[3 * i], all[3 * i + 1], all[3 * i + 2]);
      break;
    }
    case 11: {  // p2 (2..5) bipyramids sharing ONE apex vertex: a pinched vertex with p2 fans of p1 triangles
      const int N = std::max(3, p1), m = std::max(2, std::min(5, p2));
      auto A = V(0, 0, 0);
      for (int j = 0; j < m; ++j) {
        const double ph = 2 * M_PI * j / m;
        const vec3 d(std::cos(ph), std::sin(ph), 0), u(-std::sin(ph), std::cos(ph), 0), w(0, 0, 1);
        auto C = V(3 * d.x, 3 * d.y, 0);
        std::vector<uint64_t> r;
        for (int i = 0; i < N; ++i) {
          const double t = 2 * M_PI * i / N;
          const vec3 q = 1.5 * d + 0.5 * (std::cos(t) * u + std::sin(t) * w);
          r.push_back(V(q.x, q.y, q.z));
        }
        for (int i = 0; i < N; ++i) { T(A, r[(i + 1) % N], r[i]); T(C, r[i], r[(i + 1) % N]); }
      }
      break;
    }
    default: {
      auto a = V(0, 0, 0), b = V(1, 0, 0), c = V(0, 1, 0), d = V(0, 0, 1);
      tet(a, b, c, d);
    }
  }
  return g;
}

static std::function<double(vec3)> sdf(int kind, double p) {
  switch (kind) {
    case 0: return [p](vec3 v) { return p - la::length(v); };
    case 1: return [p](vec3 v) { double q = std::sqrt(v.x * v.x + v.y * v.y) - 1.0; return p - std::sqrt(q * q + v.z * v.z); };
    case 2: return [p](vec3 v) { return std::max(p - la::length(v - vec3(0.6, 0, 0)), p - la::length(v + vec3(0.6, 0, 0))); };
    case 3: return [p](vec3 v) { return std::cos(3 * v.x) * std::sin(3 * v.y) + std::cos(3 * v.y) * std::sin(3 * v.z) + std::cos(3 * v.z) * std::sin(3 * v.x) + p - 0.5; };
    case 4: return [p](vec3 v) { return p - std::max(std::abs(v.x), std::max(std::abs(v.y), std::abs(v.z))); };  // axis-aligned cube: coincident with grid
    default: return [p](vec3 v) { return p - std::abs(v.z); };  // slab cut by the bounds
  }
}

static std::function<void(vec3&)> warpf(int kind, double p) {
  switch (kind) {
    case 0: return [p](vec3& v) { v.z += p * v.x * v.y; };
    case 1: return [p](vec3& v) { double a = p * v.z, c = std::cos(a), s = std::sin(a); v = vec3(c * v.x - s * v.y, s * v.x + c * v.y, v.z); };
    case 2: return [](vec3& v) { v.z = 0; };                                    // flatten completely
    case 3: return [p](vec3& v) { double q = p > 0 ? p : 0.25; v = vec3(std::round(v.x / q) * q, std::round(v.y / q) * q, std::round(v.z / q) * q); };  // snap to lattice
    case 4: return [p](vec3& v) { if (v.x > p) v.x = std::nan(""); };          // non-finite: must give an empty error
    case 5: return [](vec3& v) { v = vec3(v.x, v.y, std::abs(v.z)); };         // fold over
    default: return [p](vec3& v) { v = v * (1 + p * v.z * v.z); };
  }
}

static bool tooBig(const Manifold& m, double factor = 1.0) { return (double)m.NumTri() * factor > (double)g_maxtri; }

static void runProgram(const std::string& pid, const std::vector<std::vector<std::string>>& ins) {
  std::vector<Manifold> vals;
  std::vector<std::tuple<std::string, Manifold, std::string>> pending;
  auto R = [&](const std::vector<std::string>& t, size_t i) -> Manifold {
    long long k = I(t, i);
    if (k < 0 || k >= (long long)vals.size()) return Manifold();
    return vals[k];
  };
  for (size_t k = 0; k < ins.size(); ++k) {
    const auto& t = ins[k];
    const std::string op = t.empty() ? "nop" : t[0];
    std::string id = pid + "." + std::to_string(k);
    std::string note = "-";
    Manifold r;
    std::vector<std::pair<std::string, Manifold>> extra;
    if (op == "cube") r = Manifold::Cube(vec3(D(t, 1), D(t, 2), D(t, 3)), I(t, 4) != 0);
    else if (op == "sphere") r = Manifold::Sphere(D(t, 1), (int)I(t, 2));
    else if (op == "cyl") r = Manifold::Cylinder(D(t, 1), D(t, 2), D(t, 3), (int)I(t, 4), I(t, 5) != 0);
    else if (op == "tet") r = Manifold::Tetrahedron();
    else if (op == "empty") r = Manifold();
    else if (op == "extrude") { size_t i = 6; Polygons ps = readPolys(t, i); r = Manifold::Extrude(ps, D(t, 1), (int)I(t, 2), D(t, 3), vec2(D(t, 4), D(t, 5))); }
    else if (op == "revolve") { size_t i = 3; Polygons ps = readPolys(t, i); r = Manifold::Revolve(ps, (int)I(t, 1), D(t, 2)); }
    else if (op == "soup") { MeshGL64 g = soup((int)I(t, 1), (int)I(t, 2), (int)I(t, 3)); r = Manifold(g); }
    else if (op == "reimport") {
      Manifold a = R(t, 1);
      int kind = (int)I(t, 2);
      if (kind == 0) { MeshGL g = a.GetMeshGL(); r = Manifold(g); }
      else if (kind == 1) { MeshGL64 g = a.GetMeshGL64(); r = Manifold(g); }
      else if (kind == 2) { MeshGL64 g = a.GetMeshGL64(); g.mergeFromVert.clear(); g.mergeToVert.clear(); g.Merge(); r = Manifold(g); }
      else { MeshGL64 g = a.GetMeshGL64(); g.runIndex.clear(); g.runOriginalID.clear(); g.runTransform.clear(); g.runFlags.clear(); g.faceID.clear(); g.halfedgeTangent.clear(); r = Manifold(g); }
    }
    else if (op == "bool") r = R(t, 1).Boolean(R(t, 2), (OpType)(I(t, 3) % 3));
    else if (op == "batch") {
      std::vector<Manifold> ms;
      for (size_t i = 2; i < t.size(); ++i) ms.push_back(R(t, i));
      r = Manifold::BatchBoolean(ms, (OpType)(I(t, 1) % 3));
    }
    else if (op == "split") { auto pr = R(t, 1).Split(R(t, 2)); r = pr.first; extra.push_back({id + "b", pr.second}); if (I(t, 3)) std::swap(r, extra[0].second); }
    else if (op == "splitplane") { auto pr = R(t, 1).SplitByPlane(vec3(D(t, 2), D(t, 3), D(t, 4)), D(t, 5)); r = pr.first; extra.push_back({id + "b", pr.second}); if (I(t, 6)) std::swap(r, extra[0].second); }
    else if (op == "trim") r = R(t, 1).TrimByPlane(vec3(D(t, 2), D(t, 3), D(t, 4)), D(t, 5));
    else if (op == "translate") r = R(t, 1).Translate(vec3(D(t, 2), D(t, 3), D(t, 4)));
    else if (op == "scale") r = R(t, 1).Scale(vec3(D(t, 2), D(t, 3), D(t, 4)));
    else if (op == "rotate") r = R(t, 1).Rotate(D(t, 2), D(t, 3), D(t, 4));
    else if (op == "mirror") r = R(t, 1).Mirror(vec3(D(t, 2), D(t, 3), D(t, 4)));
    else if (op == "transform") {
      mat3x4 m;
      for (int c = 0; c < 4; ++c) for (int rr = 0; rr < 3; ++rr) m[c][rr] = D(t, 2 + 3 * c + rr);
      r = R(t, 1).Transform(m);
    }
    else if (op == "warp") r = R(t, 1).Warp(warpf((int)I(t, 2), D(t, 3)));
    else if (op == "warpbatch") { auto f = warpf((int)I(t, 2), D(t, 3)); r = R(t, 1).WarpBatch([f](VecView<vec3> vs) { for (auto& v : vs) f(v); }); }
    else if (op == "hull") r = R(t, 1).Hull();
    else if (op == "hullmany") { std::vector<Manifold> ms; for (size_t i = 1; i < t.size(); ++i) ms.push_back(R(t, i)); r = Manifold::Hull(ms); }
    else if (op == "hullpts") { std::vector<vec3> ps; for (size_t i = 1; i + 2 < t.size(); i += 3) ps.push_back(vec3(D(t, i), D(t, i + 1), D(t, i + 2))); r = Manifold::Hull(ps); }
    else if (op == "mink" || op == "minkdiff") {
      Manifold a = R(t, 1), b = R(t, 2);
      if ((double)a.NumTri() * (double)b.NumTri() > (double)I(t, 3)) { r = a; note = "skipped-large"; }
      else r = op == "mink" ? a.MinkowskiSum(b) : a.MinkowskiDifference(b);
    }
    else if (op == "levelset") {
      double h = D(t, 3), e = D(t, 4);
      if (std::pow(2 * h / e, 3) > 3e5) { r = Manifold(); note = "skipped-large"; }
      else r = Manifold::LevelSet(sdf((int)I(t, 1), D(t, 2)), Box(vec3(-h), vec3(h)), e, D(t, 5), D(t, 6), I(t, 7) != 0);
    }
    else if (op == "smoothout") { Manifold a = R(t, 1); if (tooBig(a)) { r = a; note = "skipped-large"; } else r = a.SmoothOut(D(t, 2), D(t, 3)); }
    else if (op == "smoothbynormals") {
      Manifold a = R(t, 1);
      int idx = (int)I(t, 2);
      if (tooBig(a) || (int)a.NumProp() < idx + 3) { r = a; note = "skipped"; } else r = a.SmoothByNormals(idx);
    }
    else if (op == "smoothmesh") {
      Manifold a = R(t, 1);
      if (tooBig(a)) { r = a; note = "skipped-large"; }
      else {
        MeshGL64 g = a.GetMeshGL64();
        std::vector<Smoothness> sh;
        for (size_t i = 3; i + 1 < t.size(); i += 2)
          if (g.NumTri() > 0) sh.push_back({(size_t)(I(t, i) % (long long)(3 * g.NumTri())), D(t, i + 1)});
        if (I(t, 2)) { g.halfedgeTangent.clear(); }
        r = Manifold::Smooth(g, sh);
      }
    }
    else if (op == "refine") { Manifold a = R(t, 1); long long n = I(t, 2); if (tooBig(a, (double)(n * n))) { r = a; note = "skipped-large"; } else r = a.Refine((int)n); }
    else if (op == "refinelen") {
      Manifold a = R(t, 1);
      const double len = D(t, 2) * (I(t, 3) ? a.BoundingBox().Scale() : 1.0);
      const double est = a.SurfaceArea() / (0.4 * len * len);
      if (!(len > 0) || !(est < g_maxtri * 4.0) || tooBig(a)) { r = a; note = "skipped-large"; }
      else r = a.RefineToLength(len);
    }
    else if (op == "refinetol") {
      Manifold a = R(t, 1);
      const double tol = D(t, 2) * (I(t, 3) ? a.BoundingBox().Scale() : 1.0);
      if (!(tol > 0) || tooBig(a, 40.0) || tol < 0.004 * a.BoundingBox().Scale()) { r = a; note = "skipped-large"; }
      else r = a.RefineToTolerance(tol);
    }
    else if (op == "simplify") r = R(t, 1).Simplify(D(t, 2));
    else if (op == "settol") r = R(t, 1).SetTolerance(D(t, 2));
    else if (op == "decompose") {
      std::vector<Manifold> parts = R(t, 1).Decompose();
      note = "parts=" + std::to_string(parts.size());
      for (size_t j = 0; j < parts.size() && j < 12; ++j) extra.push_back({id + "c" + std::to_string(j), parts[j]});
      if (parts.empty()) r = Manifold();
      else r = parts[(size_t)I(t, 2) % parts.size()];
    }
    else if (op == "compose") { std::vector<Manifold> ms; for (size_t i = 1; i < t.size(); ++i) ms.push_back(R(t, i)); r = Manifold::Compose(ms); }
    else if (op == "asoriginal") r = R(t, 1).AsOriginal();
    else if (op == "calcnormals") r = R(t, 1).CalculateNormals((int)I(t, 2), D(t, 3));
    else if (op == "calccurv") r = R(t, 1).CalculateCurvature((int)I(t, 2), (int)I(t, 3));
    else if (op == "setprops") {
      Manifold a = R(t, 1);
      int kind = (int)I(t, 2);
      const int oldN = (int)a.NumProp();
      if (kind == 0) r = a.SetProperties(0, nullptr);
      else if (kind == 1) r = a.SetProperties(1, [](double* n, vec3 p, const double*) { n[0] = p.x; });
      else if (kind == 2) r = a.SetProperties(3, [](double* n, vec3 p, const double*) { n[0] = std::floor(p.x); n[1] = std::floor(2 * p.y); n[2] = p.z > 0 ? 1 : 0; });
      else if (kind == 3) r = a.SetProperties(4, nullptr);
      else r = a.SetProperties(oldN + 1, [oldN](double* n, vec3 p, const double* o) { for (int i = 0; i < oldN; ++i) n[i] = o[i]; n[oldN] = p.y; });
    }
    else if (op == "copy") r = R(t, 1);
    else { r = Manifold(); note = "unknown-op"; }
    vals.push_back(r);
    if (!g_lazy) {
      emit(id, r, note);
      for (auto& e : extra) emit(e.first, e.second, "-");
    } else {
      pending.push_back({id, r, note});
      for (auto& e : extra) pending.push_back({e.first, e.second, "-"});
    }
  }
  // lazy mode: nothing was evaluated while the program was built (except by size guards); now force the values
  // LAST FIRST, so that every CSG tree is evaluated with its pending transforms and unevaluated children
  for (size_t i = pending.size(); i-- > 0;) emit(std::get<0>(pending[i]), std::get<1>(pending[i]), std::get<2>(pending[i]));
  printf("END %s\n", pid.c_str());
  fflush(stdout);
}

int main(int argc, char** argv) {
  int alarmSecs = argc > 1 ? atoi(argv[1]) : 120;
  std::string line;
  while (std::getline(std::cin, line)) {
    std::istringstream in(line);
    std::string tag, pid;
    in >> tag;
    if (tag != "PROG") continue;
    in >> pid >> g_maxtri;
    g_lazy = g_maxtri < 0;
    if (g_lazy) g_maxtri = -g_maxtri;
    std::vector<std::vector<std::string>> ins;
    std::string tok;
    while (in >> tok) {
      if (tok == "|") ins.push_back({});
      else if (!ins.empty()) ins.back().push_back(tok);
    }
    alarm(alarmSecs);
    try {
      runProgram(pid, ins);
    } catch (const std::exception& e) {
      printf("EXC %s %s\n", pid.c_str(), "exception");
      printf("END %s\n", pid.c_str());
      fflush(stdout);
    }
    alarm(0);
  }
  return 0;
}
