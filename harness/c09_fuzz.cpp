// C09 harness: feeds explicit (possibly malformed) MeshGL / MeshGL64 records,
// polygons, point sets, OBJ text and numeric constructor arguments to the
// library built from vp.REPO and prints Status / NumTri of the result and of
// every step of a short program applied to it.  One output line per case, so
// that vp.run_cases can attribute a sanitizer abort / crash / hang to a case.
// Built in the `san` variant (ASan+UBSan, no recover); a 10 s CPU-time timer per
// case is the watchdog.
#include <sys/time.h>
#include <unistd.h>

#include <cmath>
#include <cstdint>
#include <cstdio>
#include <cstdlib>
#include <cstring>
#include <iostream>
#include <sstream>
#include <string>
#include <vector>

#include "impl.h"
#include "manifold/cross_section.h"
#include "manifold/manifold.h"
#include "manifold/polygon.h"

using namespace manifold;

// CPU-time watchdog (SIGPROF): a busy loop is killed after `sec` seconds of CPU,
// machine load alone does not trigger it.
static void watchdog(int sec) {
  struct itimerval t = {{0, 0}, {sec, 0}};
  setitimer(ITIMER_PROF, &t, nullptr);
}

// last library entry point started, for attributing a watchdog kill (no stack then)
static void stage(const char* name) { fprintf(stderr, "stage %s\n", name); }

static std::vector<std::string> split(const std::string& s) {
  std::vector<std::string> out;
  std::istringstream is(s);
  std::string t;
  while (is >> t) out.push_back(t);
  return out;
}

static double num(const std::string& t) {
  if (t == "nan") return std::nan("");
  if (t == "inf") return INFINITY;
  if (t == "-inf") return -INFINITY;
  return strtod(t.c_str(), nullptr);
}

struct Cursor {
  const std::vector<std::string>& t;
  size_t p;
  const std::string& next() {
    if (p >= t.size()) {
      fprintf(stderr, "harness: truncated case line\n");
      exit(3);
    }
    return t[p++];
  }
  void expect(const char* tag) {
    if (next() != tag) {
      fprintf(stderr, "harness: expected tag %s at token %zu\n", tag, p - 1);
      exit(3);
    }
  }
  uint64_t u() { return strtoull(next().c_str(), nullptr, 10); }
  double d() { return num(next()); }
};

template <typename P, typename I>
static MeshGLP<P, I> readMesh(Cursor& c) {
  MeshGLP<P, I> m;
  m.numProp = (I)c.u();
  m.tolerance = (P)c.d();
  size_t n;
  c.expect("VP"); n = c.u(); m.vertProperties.resize(n); for (auto& x : m.vertProperties) x = (P)c.d();
  c.expect("TV"); n = c.u(); m.triVerts.resize(n); for (auto& x : m.triVerts) x = (I)c.u();
  c.expect("MF"); n = c.u(); m.mergeFromVert.resize(n); for (auto& x : m.mergeFromVert) x = (I)c.u();
  c.expect("MT"); n = c.u(); m.mergeToVert.resize(n); for (auto& x : m.mergeToVert) x = (I)c.u();
  c.expect("RI"); n = c.u(); m.runIndex.resize(n); for (auto& x : m.runIndex) x = (I)c.u();
  c.expect("RO"); n = c.u(); m.runOriginalID.resize(n); for (auto& x : m.runOriginalID) x = (uint32_t)c.u();
  c.expect("RT"); n = c.u(); m.runTransform.resize(n); for (auto& x : m.runTransform) x = (P)c.d();
  c.expect("RF"); n = c.u(); m.runFlags.resize(n); for (auto& x : m.runFlags) x = (uint8_t)c.u();
  c.expect("FI"); n = c.u(); m.faceID.resize(n); for (auto& x : m.faceID) x = (I)c.u();
  c.expect("HT"); n = c.u(); m.halfedgeTangent.resize(n); for (auto& x : m.halfedgeTangent) x = (P)c.d();
  return m;
}

static const char* kOpNames[] = {
    "Translate", "Scale", "Rotate", "Mirror", "Mirror0", "Transform", "Warp", "WarpBatch",
    "SetTolerance", "Simplify", "Add", "SubFrom", "Intersect", "Refine", "RefineToLength",
    "RefineToTolerance", "SmoothOut", "SmoothByNormals", "CalculateNormals", "CalculateCurvature",
    "SetProperties", "AsOriginal", "Hull", "Compose", "BatchBoolean", "TrimByPlane",
    "SplitByPlane", "Split", "MinkowskiSum", "MinkowskiDifference", "Decompose", "HullMany",
    "WithContext", "Copy", "SubSelf", "AddAssign"};
static const int kNumOps = sizeof(kOpNames) / sizeof(kOpNames[0]);

static Manifold applyOp(const Manifold& m, int op) {
  const Manifold cube = Manifold::Cube(vec3(1.0), true).Translate({0.25, 0.1, 0.05});
  switch (op) {
    case 0: return m.Translate({1, 2, 3});
    case 1: return m.Scale({2, 1, 0.5});
    case 2: return m.Rotate(10, 20, 30);
    case 3: return m.Mirror({1, 1, 0});
    case 4: return m.Mirror({0, 0, 0});
    case 5: return m.Transform(mat3x4(mat3(la::identity), vec3(1, 0, 0)));
    case 6: return m.Warp([](vec3& v) { v.x += 0.1 * v.y; });
    case 7: return m.WarpBatch([](VecView<vec3> vs) { for (auto& v : vs) v.z *= 1.5; });
    case 8: return m.SetTolerance(0.01);
    case 9: return m.Simplify(0.01);
    case 10: return m + cube;
    case 11: return cube - m;
    case 12: return m ^ cube;
    case 13: return m.Refine(2);
    case 14: return m.RefineToLength(0.4);
    case 15: return m.RefineToTolerance(0.05);
    case 16: return m.SmoothOut();
    case 17: return m.SmoothByNormals(0);
    case 18: return m.CalculateNormals(0);
    case 19: return m.CalculateCurvature(0, 1);
    case 20: return m.SetProperties(1, [](double* o, vec3 p, const double*) { o[0] = p.x; });
    case 21: return m.AsOriginal();
    case 22: return m.Hull();
    case 23: return Manifold::Compose({cube.Translate({5, 0, 0}), m});
    case 24: return Manifold::BatchBoolean({cube, m, cube.Translate({0.1, 0, 0})}, OpType::Add);
    case 25: return m.TrimByPlane({0, 0, 1}, 0.0);
    case 26: return m.SplitByPlane({0, 1, 0}, 0.0).second;
    case 27: return m.Split(cube).first;
    case 28: return m.MinkowskiSum(cube);
    case 29: return m.MinkowskiDifference(cube);
    case 30: {
      auto v = m.Decompose();
      return v.empty() ? Manifold() : v[0];
    }
    case 31: return Manifold::Hull({cube, m});
    case 32: { ExecutionContext ctx; return m.WithContext(ctx); }
    case 33: { Manifold c = m; return c; }
    case 34: return m - m.Translate({0.01, 0, 0});
    case 35: { Manifold c = cube; c += m; return c; }
  }
  return m;
}

// Every observer must be callable on any object (errored or not).
static void observe(const Manifold& m) {
  volatile double sink = 0;
  sink += m.Volume() + m.SurfaceArea() + m.NumVert() + m.NumEdge() + m.NumProp() + m.NumPropVert();
  sink += m.Genus() + m.GetTolerance() + m.OriginalID();
  Box b = m.BoundingBox();
  sink += b.min.x;
  MeshGL g = m.GetMeshGL();
  MeshGL64 g64 = m.GetMeshGL64();
  sink += g.NumTri() + g64.NumTri();
  sink += m.IsEmpty();
  (void)sink;
}

template <typename P, typename I>
static void meshCase(const std::string& id, Cursor& c) {
  auto mesh = readMesh<P, I>(c);
  c.expect("PROG");
  size_t k = c.u();
  std::vector<int> prog(k);
  for (auto& o : prog) o = (int)c.u();
  Manifold m(mesh);
  int st = (int)m.Status();
  size_t nt = m.NumTri();
  observe(m);
  std::ostringstream os;
  os << "O " << id << " " << st << " " << nt << " |";
  Manifold cur = m;
  for (int o : prog) {
    cur = applyOp(cur, o % kNumOps);
    int s = (int)cur.Status();
    size_t n = cur.NumTri();
    observe(cur);
    os << " " << kOpNames[o % kNumOps] << ":" << s << ":" << n << ":" << (cur.IsEmpty() ? 1 : 0);
  }
  puts(os.str().c_str());
}

// Number of faces halfedge_ holds when SortGeometry gathers the tangents: the ingest
// constructor's steps up to CleanupTopology() replayed on the positions only (no
// tangents, no properties), so that the model's oracle `nFaceSort` is the value the
// implementation has.  -1 when the record does not get that far.
template <typename P, typename I>
static long facesAtSort(const MeshGLP<P, I>& mesh) {
  if (mesh.numProp < 3) return -1;
  const size_t nv = mesh.NumVert(), nt = mesh.NumTri();
  if (nv < 4 || nt < 4 || mesh.mergeFromVert.size() != mesh.mergeToVert.size()) return -1;
  for (auto x : mesh.vertProperties) if (!std::isfinite(x)) return -1;
  std::vector<uint32_t> p2v(nv);
  for (size_t i = 0; i < nv; ++i) p2v[i] = i;
  for (size_t i = 0; i < mesh.mergeFromVert.size(); ++i) {
    const uint32_t from = mesh.mergeFromVert[i], to = mesh.mergeToVert[i];
    if (from >= (uint32_t)nv || to >= (uint32_t)nv) return -1;
    p2v[from] = to;
  }
  Manifold::Impl impl;
  impl.vertPos_.resize(nv);
  for (size_t i = 0; i < nv; ++i)
    for (int k : {0, 1, 2}) impl.vertPos_[i][k] = mesh.vertProperties[mesh.numProp * i + k];
  Vec<ivec3> triVert;
  for (size_t t = 0; t < nt; ++t) {
    ivec3 tv;
    for (int k : {0, 1, 2}) {
      const uint32_t v = (uint32_t)mesh.triVerts[3 * t + k];
      if (v >= (uint32_t)nv) return -1;
      tv[k] = p2v[v];
    }
    if (tv[0] != tv[1] && tv[1] != tv[2] && tv[2] != tv[0]) triVert.push_back(tv);
  }
  impl.CreateHalfedges(triVert);
  if (!impl.IsManifold()) return -1;
  impl.CalculateBBox();
  impl.SetEpsilon(-1, std::is_same<P, float>::value);
  impl.CleanupTopology();
  return (long)(impl.halfedge_.size() / 3);
}

template <typename P, typename I>
static void facesCase(const std::string& id, Cursor& c) {
  auto mesh = readMesh<P, I>(c);
  printf("F %s %ld %zu\n", id.c_str(), facesAtSort(mesh), (size_t)mesh.NumTri());
}

// MeshGL::Merge() on an arbitrary record (exploration).
template <typename P, typename I>
static void mergeCase(const std::string& id, Cursor& c) {
  auto mesh = readMesh<P, I>(c);
  bool changed = mesh.Merge();
  Manifold m(mesh);
  printf("O %s %d %zu | Merge:%d\n", id.c_str(), (int)m.Status(), m.NumTri(), changed ? 1 : 0);
}

static Polygons readPolys(Cursor& c) {
  size_t np = c.u();
  Polygons ps(np);
  for (auto& p : ps) {
    size_t n = c.u();
    p.resize(n);
    for (auto& v : p) { v.x = c.d(); v.y = c.d(); }
  }
  return ps;
}

static std::string unhex(const std::string& h) {
  std::string s;
  for (size_t i = 0; i + 1 < h.size(); i += 2) s.push_back((char)strtol(h.substr(i, 2).c_str(), nullptr, 16));
  return s;
}

static void usable(const std::string& id, const char* what, const Manifold& m) {
  int st = (int)m.Status();
  size_t nt = m.NumTri();
  observe(m);
  // error => empty
  printf("O %s %d %zu | %s:%s\n", id.c_str(), st, nt, what, (st != 0 && nt != 0) ? "ERROR-NOT-EMPTY" : "ok");
}

// ---- error-position sweep -------------------------------------------------
// An errored object is placed in EVERY operand position of every operation that
// takes more than one object, against partners of every emptiness class, with
// operands either already evaluated (eager) or still deferred CSG trees (lazy).
// Every result must keep a non-NoError status and be empty.
static Manifold makeBad(int which) {
  MeshGL64 g = Manifold::Tetrahedron().GetMeshGL64();
  if (which == 0) g.vertProperties[4] = NAN;   // NonFiniteVertex
  else g.triVerts[2] = 1000;                   // VertexOutOfBounds
  return Manifold(g);
}

static void sweepOut(std::ostringstream& os, const std::string& name, const Manifold& r) {
  // evaluated twice: which error wins must not depend on the evaluation
  const int st = (int)r.Status();
  const size_t nt = r.NumTri();
  Manifold again = r;
  const int st2 = (int)again.Status();
  os << " " << name << ":" << st << ":" << nt << ":" << (st == st2 ? 1 : 0);
}

static void errorSweep(const std::string& id, bool lazy) {
  const Manifold solid = Manifold::Cube(vec3(1.0));
  const Manifold farCube = solid.Translate({5, 0, 0});
  auto defer = [lazy](const Manifold& m) {
    if (lazy) return m.Translate({0.25, 0, 0}).Rotate(0, 0, 90);  // unevaluated transform node
    Manifold c = m;
    (void)c.Status();                                               // force evaluation: a leaf
    return c;
  };
  const Manifold bad = defer(makeBad(0));
  struct Named { const char* name; Manifold m; };
  std::vector<Named> partners = {{"solid", defer(solid)},
                                 {"validEmpty", defer(solid ^ farCube)},
                                 {"default", defer(Manifold())},
                                 {"otherError", defer(makeBad(1))}};
  const std::pair<const char*, OpType> ops[] = {{"Add", OpType::Add}, {"Subtract", OpType::Subtract}, {"Intersect", OpType::Intersect}};
  std::ostringstream os;
  os << "E " << id << " " << (lazy ? "lazy" : "eager") << " |";
  for (const auto& p : partners) {
    const std::string pn = p.name;
    for (const auto& op : ops) {
      const std::string on = op.first;
      sweepOut(os, "Boolean" + on + "(bad," + pn + ")", bad.Boolean(p.m, op.second));
      sweepOut(os, "Boolean" + on + "(" + pn + ",bad)", p.m.Boolean(bad, op.second));
      sweepOut(os, "BatchBoolean" + on + "(bad," + pn + ",solid)", Manifold::BatchBoolean({bad, p.m, solid}, op.second));
      sweepOut(os, "BatchBoolean" + on + "(" + pn + ",bad,solid)", Manifold::BatchBoolean({p.m, bad, solid}, op.second));
      sweepOut(os, "BatchBoolean" + on + "(solid," + pn + ",bad)", Manifold::BatchBoolean({solid, p.m, bad}, op.second));
      sweepOut(os, "Nested" + on + "((" + pn + on + "bad)+solid)", p.m.Boolean(bad, op.second) + solid);
      sweepOut(os, "Nested" + on + "(solid+(bad" + on + pn + "))", solid + bad.Boolean(p.m, op.second));
      sweepOut(os, "Nested" + on + "((" + pn + on + "bad)^solid)", p.m.Boolean(bad, op.second) ^ solid);
    }
    { Manifold c = p.m; c += bad; sweepOut(os, "AddAssign(" + pn + ",bad)", c); }
    { Manifold c = p.m; c -= bad; sweepOut(os, "SubAssign(" + pn + ",bad)", c); }
    { Manifold c = p.m; c ^= bad; sweepOut(os, "IntAssign(" + pn + ",bad)", c); }
    { auto pr = bad.Split(p.m); sweepOut(os, "Split.first(bad," + pn + ")", pr.first); sweepOut(os, "Split.second(bad," + pn + ")", pr.second); }
    { auto pr = p.m.Split(bad); sweepOut(os, "Split.first(" + pn + ",bad)", pr.first); sweepOut(os, "Split.second(" + pn + ",bad)", pr.second); }
    sweepOut(os, "MinkowskiSum(bad," + pn + ")", bad.MinkowskiSum(p.m));
    sweepOut(os, "MinkowskiSum(" + pn + ",bad)", p.m.MinkowskiSum(bad));
    sweepOut(os, "MinkowskiDifference(bad," + pn + ")", bad.MinkowskiDifference(p.m));
    sweepOut(os, "MinkowskiDifference(" + pn + ",bad)", p.m.MinkowskiDifference(bad));
    sweepOut(os, "Hull(bad," + pn + ")", Manifold::Hull({bad, p.m}));
    sweepOut(os, "Hull(" + pn + ",bad)", Manifold::Hull({p.m, bad}));
    sweepOut(os, "Compose(bad," + pn + ")", Manifold::Compose({bad, p.m}));
    sweepOut(os, "Compose(" + pn + ",bad)", Manifold::Compose({p.m, bad}));
    // the error arrives through the cutter / the object being cut
    { auto pr = p.m.Boolean(bad, OpType::Subtract).SplitByPlane({0, 0, 1}, 0.5); sweepOut(os, "SplitByPlane.first(" + pn + "-bad)", pr.first); sweepOut(os, "SplitByPlane.second(" + pn + "-bad)", pr.second); }
    sweepOut(os, "TrimByPlane(" + pn + "^bad)", p.m.Boolean(bad, OpType::Intersect).TrimByPlane({0, 0, 1}, 0.5));
    sweepOut(os, "TrimByPlane(" + pn + "-bad)", p.m.Boolean(bad, OpType::Subtract).TrimByPlane({0, 0, 1}, 0.5));
  }
  { auto pr = bad.SplitByPlane({0, 0, 1}, 0.5); sweepOut(os, "SplitByPlane.first(bad)", pr.first); sweepOut(os, "SplitByPlane.second(bad)", pr.second); }
  sweepOut(os, "TrimByPlane(bad)", bad.TrimByPlane({0, 0, 1}, 0.5));
  puts(os.str().c_str());
}

int main() {
  std::string line;
  while (std::getline(std::cin, line)) {
    auto toks = split(line);
    if (toks.size() < 2) continue;
    Cursor c{toks, 0};
    std::string kind = c.next();
    std::string id = c.next();
    watchdog(10);
    if (kind == "E") {
      watchdog(60);
      errorSweep(id, c.next() == "lazy");
    } else if (kind == "R") {
      int prec = (int)c.u();
      if (prec == 32) meshCase<float, uint32_t>(id, c); else meshCase<double, uint64_t>(id, c);
    } else if (kind == "S") {  // Smooth(mesh, sharpenedEdges): S id variant halfedge smoothness
      const int variant = (int)c.u();                  // 0 MeshGL, 1 MeshGL64, 2 ctx.Smooth(MeshGL), 3 ctx.Smooth(MeshGL64)
      const size_t he = (size_t)strtoull(c.next().c_str(), nullptr, 10);
      const double sm = c.d();
      std::vector<Smoothness> edges = {{he, sm}, {2, 0.5}};
      const Manifold src = Manifold::Cube(vec3(1.0), true) + Manifold::Tetrahedron().Translate({3, 0, 0});
      stage("Smooth");
      Manifold m;
      ExecutionContext ctx;
      if (variant == 0) m = Manifold::Smooth(src.GetMeshGL(), edges);
      else if (variant == 1) m = Manifold::Smooth(src.GetMeshGL64(), edges);
      else if (variant == 2) m = ctx.Smooth(src.GetMeshGL(), edges);
      else m = ctx.Smooth(src.GetMeshGL64(), edges);
      stage("Smooth.Refine");
      Manifold r = m.Refine(2);
      observe(r);
      usable(id, "Smooth", m);
    } else if (kind == "W") {  // per-component non-finite injection: W id entry vertexSel comp value
      const std::string entry = c.next();
      const int sel = (int)c.u(), comp = (int)c.u();
      const double val = c.d();
      const Manifold src = Manifold::Sphere(1.0, 8);
      const size_t nv = src.NumVert();
      const size_t target = sel == 0 ? 0 : (sel == 1 ? nv / 2 : nv - 1);
      stage(entry.c_str());
      Manifold m;
      if (entry == "Warp") {
        size_t k = 0;
        m = src.Warp([&](vec3& v) { if (k++ == target) v[comp] = val; });
      } else if (entry == "WarpBatch") {
        m = src.WarpBatch([&](VecView<vec3> vs) { vs[std::min(target, (size_t)vs.size() - 1)][comp] = val; });
      } else if (entry == "Transform") {      // comp 0..11: matrix entry (column-major 3x4), sel ignored
        mat3x4 mt(mat3(la::identity), vec3(0.0));
        mt[(comp + 4 * sel) / 3][(comp + 4 * sel) % 3] = val;
        m = src.Transform(mt);
      } else if (entry == "Translate") { vec3 a(0.5); a[comp] = val; m = src.Translate(a); }
      else if (entry == "Scale") { vec3 a(1.5); a[comp] = val; m = src.Scale(a); }
      else if (entry == "Rotate") { vec3 a(10.0); a[comp] = val; m = src.Rotate(a.x, a.y, a.z); }
      else if (entry == "Mirror") { vec3 a(1.0); a[comp] = val; m = src.Mirror(a); }
      else if (entry == "MeshGL64" || entry == "MeshGL") {   // comp 3 = an extra property channel
        Manifold withProp = src.SetProperties(1, [](double* o, vec3 p, const double*) { o[0] = p.x; });
        if (entry == "MeshGL64") { MeshGL64 g = withProp.GetMeshGL64(); const size_t tv = sel == 0 ? 0 : (sel == 1 ? g.NumVert() / 2 : g.NumVert() - 1); g.vertProperties[tv * g.numProp + comp] = val; m = Manifold(g); }
        else { MeshGL g = withProp.GetMeshGL(); const size_t tv = sel == 0 ? 0 : (sel == 1 ? g.NumVert() / 2 : g.NumVert() - 1); g.vertProperties[tv * g.numProp + comp] = (float)val; m = Manifold(g); }
      } else if (entry == "SetPropertiesCb") {
        size_t k = 0;
        m = src.SetProperties(3, [&](double* o, vec3 p, const double*) { o[0] = p.x; o[1] = p.y; o[2] = p.z; if (k++ == 3 * target) o[comp] = val; });
      } else if (entry == "LevelSetSdf") {
        size_t k = 0;
        const size_t hit = sel == 0 ? 0 : (sel == 1 ? 500 : 100000);
        m = Manifold::LevelSet([&](vec3 p) { return (k++ == hit) ? val : 0.8 - la::length(p); }, Box({-1, -1, -1}, {1, 1, 1}), 0.25);
      } else if (entry == "LevelSetBounds") {
        vec3 lo(-1.0), hi(1.0);
        if (sel == 0) lo[comp] = val; else hi[comp] = val;
        m = Manifold::LevelSet([](vec3 p) { return 0.8 - la::length(p); }, Box(lo, hi), 0.25);
      } else if (entry == "ExtrudePoly" || entry == "RevolvePoly" || entry == "TriangulatePoly" || entry == "CrossSectionPoly") {
        Polygons ps = {{{0.2, 0.1}, {1.0, 0.1}, {1.0, 1.0}, {0.6, 1.3}, {0.2, 1.0}}};
        const size_t tv = sel == 0 ? 0 : (sel == 1 ? 2 : 4);
        ps[0][tv][comp % 2] = val;
        if (entry == "ExtrudePoly") m = Manifold::Extrude(ps, 1.0);
        else if (entry == "RevolvePoly") m = Manifold::Revolve(ps, 8);
        else if (entry == "TriangulatePoly") { auto tr = Triangulate(ps); m = Manifold::Extrude(ps, 1.0); (void)tr; }
        else { CrossSection cs(ps); CrossSection o = cs.Offset(0.1) + CrossSection::Square({1, 1}); m = Manifold::Extrude(o.ToPolygons(), 1.0); }
      }
      const int st = (int)m.Status();
      const size_t nt = m.NumTri();
      int finite = 1;
      MeshGL64 g = m.GetMeshGL64();
      for (size_t v = 0; v < g.NumVert(); ++v)
        for (int k : {0, 1, 2}) if (!std::isfinite(g.vertProperties[v * g.numProp + k])) finite = 0;
      if (!std::isfinite(m.Volume()) || !std::isfinite(m.SurfaceArea())) finite = 0;
      // a consumer must survive whatever came out
      stage("W.followup");
      const Manifold cube = Manifold::Cube(vec3(1.0), true);
      Manifold u = m + cube, d = cube - m, x = m ^ cube;
      observe(u); observe(d); observe(x);
      const int lost = (st != 0 && ((int)u.Status() == 0 || (int)d.Status() == 0 || (int)x.Status() == 0)) ? 1 : 0;
      printf("O %s %d %zu | W:%s finite=%d lost=%d\n", id.c_str(), st, nt, entry.c_str(), finite, lost);
    } else if (kind == "F") {
      int prec = (int)c.u();
      if (prec == 32) facesCase<float, uint32_t>(id, c); else facesCase<double, uint64_t>(id, c);
    } else if (kind == "G") {
      int prec = (int)c.u();
      if (prec == 32) mergeCase<float, uint32_t>(id, c); else mergeCase<double, uint64_t>(id, c);
    } else if (kind == "P") {  // polygons: Triangulate, CrossSection, Extrude, Revolve
      double eps = c.d();
      Polygons ps = readPolys(c);
      std::vector<ivec3> tris;
      int threw = 0;
      stage("Triangulate");
      try { tris = Triangulate(ps, eps); } catch (...) { threw = 1; }
      size_t nv = 0;
      for (auto& p : ps) nv += p.size();
      int bad = 0;
      for (auto& t : tris) for (int k : {0, 1, 2}) if (t[k] < 0 || (size_t)t[k] >= nv) bad = 1;
      stage("CrossSection");
      CrossSection cs(ps);
      CrossSection cs2 = CrossSection::EvenOdd(ps).Offset(0.1).Simplify(0.01);
      volatile double a = cs.Area() + cs2.Area() + cs.NumVert();
      (void)a;
      stage("Extrude");
      Manifold e = Manifold::Extrude(ps, 1.0, 2, 10.0);
      stage("Revolve");
      Manifold r = Manifold::Revolve(ps, 8, 270);
      stage("observe");
      observe(e); observe(r);
      printf("O %s %d %zu | tri:%zu threw:%d badindex:%d ex:%d rv:%d\n", id.c_str(), (int)e.Status(), e.NumTri(), tris.size(),
             threw, bad, (int)e.Status(), (int)r.Status());
    } else if (kind == "H") {  // point set hull
      size_t n = c.u();
      std::vector<vec3> pts(n);
      for (auto& p : pts) { p.x = c.d(); p.y = c.d(); p.z = c.d(); }
      stage("Hull");
      usable(id, "Hull", Manifold::Hull(pts));
    } else if (kind == "B") {  // OBJ text, hex encoded
      std::string txt = unhex(c.next());
      std::istringstream is(txt);
      stage("ReadOBJ");
      Manifold m = Manifold::ReadOBJ(is);
      std::istringstream is2(txt);
      MeshGL64 g = ReadOBJ(is2);
      Manifold m2(g);
      observe(m2);
      usable(id, "ReadOBJ", m);
    } else if (kind == "N") {  // numeric constructor arguments
      std::string what = c.next();
      double a = c.d(), b = c.d(), d = c.d();
      long n = (long)c.d();
      stage(what.c_str());
      Manifold m;
      if (what == "Cube") m = Manifold::Cube({a, b, d}, n & 1);
      else if (what == "Cylinder") m = Manifold::Cylinder(a, b, d, (int)n, n & 1);
      else if (what == "Sphere") m = Manifold::Sphere(a, (int)n);
      else if (what == "Extrude") m = Manifold::Extrude({{{0, 0}, {1, 0}, {0, 1}}}, a, (int)n, b, {d, d});
      else if (what == "Revolve") m = Manifold::Revolve({{{0.5, 0}, {1, 0}, {0.5, 1}}}, (int)n, a);
      else if (what == "Refine") m = Manifold::Cube().Refine((int)n);
      else if (what == "RefineToLength") m = Manifold::Tetrahedron().RefineToLength(a);
      else if (what == "RefineToTolerance") m = Manifold::Sphere(1, 8).SmoothOut().RefineToTolerance(a);
      else if (what == "LevelSet") {
        Box bx({-1, -1, -1}, {b, b, b});
        m = Manifold::LevelSet([](vec3 p) { return 0.8 - la::length(p); }, bx, a, d);
      } else if (what == "Scale") m = Manifold::Cube().Scale({a, b, d});
      else if (what == "Rotate") m = Manifold::Cube().Rotate(a, b, d);
      else if (what == "Translate") m = Manifold::Cube().Translate({a, b, d});
      else if (what == "SetTolerance") m = Manifold::Sphere(1, 8).SetTolerance(a);
      else if (what == "Simplify") m = Manifold::Sphere(1, 8).Simplify(a);
      else if (what == "SmoothByNormals") m = Manifold::Cube().CalculateNormals(0).SmoothByNormals((int)n);
      else if (what == "CalculateCurvature") m = Manifold::Sphere(1, 8).CalculateCurvature((int)n, (int)n + 1);
      else if (what == "CalculateNormals") m = Manifold::Cube().CalculateNormals((int)n, a);
      else if (what == "GetMeshGL") {
        Manifold c = Manifold::Cube().CalculateNormals(0) + Manifold::Cube().Translate({0.5, 0, 0});
        MeshGL g = c.GetMeshGL((int)n);
        MeshGL64 g64 = c.GetMeshGL64((int)n);
        m = Manifold(g64);
      }
      else if (what == "SetPropertiesN") m = Manifold::Cube().SetProperties((int)n, [](double* o, vec3 p, const double*) { o[0] = p.x; });
      else if (what == "SetPropertiesNull") m = Manifold::Cube().CalculateNormals(0).SetProperties((int)n, nullptr);
      else if (what == "ReserveIDs") {
        volatile uint32_t first = Manifold::ReserveIDs((uint32_t)(long long)n);
        (void)first;
        m = Manifold::Cube().AsOriginal();
      }
      else if (what == "MinGap") {
        volatile double g = Manifold::Cube().MinGap(Manifold::Cube().Translate({b, 0, 0}), a);
        (void)g;
        m = Manifold::Cube();
      }
      else if (what == "RayCast") {
        auto hits = Manifold::Sphere(1, 8).RayCast({a, b, d}, {-a, 0.1, 0.2});
        auto hits2 = Manifold::Sphere(1, 8).RayCast({0, 0, 0}, {a, b, d});
        auto wn = Manifold::Sphere(1, 8).WindingNumber({{a, b, d}, {0, 0, 0}});
        volatile size_t k = hits.size() + hits2.size() + wn.size();
        (void)k;
        m = Manifold::Cube();
      }
      else if (what == "SliceProject") {
        auto s1 = Manifold::Sphere(1, 8).Slice(a);
        volatile size_t k = s1.size();
        (void)k;
        m = Manifold::Cube();
      }
      else if (what == "Circle") { CrossSection cs = CrossSection::Circle(a, (int)n); m = Manifold::Extrude(cs.ToPolygons(), 1); }
      else if (what == "Square") { CrossSection cs = CrossSection::Square({a, b}, n & 1); m = Manifold::Extrude(cs.ToPolygons(), 1); }
      else if (what == "Offset") { CrossSection cs = CrossSection::Square({1, 1}).Offset(a, CrossSection::JoinType::Round, b, (int)n); m = Manifold::Extrude(cs.ToPolygons(), 1); }
      usable(id, what.c_str(), m);
    } else {
      fprintf(stderr, "harness: unknown case kind %s\n", kind.c_str());
      return 3;
    }
    fflush(stdout);
    watchdog(0);
  }
  return 0;
}
