// C17 geometry harness: builds a constructor result (+ optional transform
// chain) through the public API and prints the GetMeshGL64 output with the
// coordinates as raw IEEE bit patterns.
//
//   GEO id <base> [; <op> ...]*
// base:  CUBE sx sy sz center | TET | SPH r seg | CYL h rl rh seg center
//        EXTR h ndiv twist sx sy npoly (n x y ...)*        | REVO seg deg npoly (n x y ...)*
//        LVL kind a b c lo hi edge level tol     (sdf kinds, positive inside:
//              0 ball(a) ; 1 box half-sizes (a,b,c) [max norm] ; 2 union of ball(a)@-c and ball(b)@+c on x
//              3 intersection of the same two balls)
// op:    T x y z | R x y z | S x y z | M x y z | X m00..m32 (12, column major) | W kind
// Output: "GEO id status <int> empty <0/1> det-part ..." then one MESH line per stage:
//   MESH id base|final nvert ntri  <3*nvert hex uint64>  <3*ntri ints>
//   LVLDEV id <hex double max |sdf(v)-level| over vertices>
#include <cinttypes>
#include <cmath>
#include <cstdio>
#include <cstring>
#include <functional>
#include <iostream>
#include <sstream>
#include <string>
#include <vector>

#include "manifold/manifold.h"

using namespace manifold;

static void mesh_line(const std::string& id, const char* stage, const Manifold& m) {
  MeshGL64 g = m.GetMeshGL64();
  size_t nv = g.NumVert(), nt = g.NumTri();
  printf("MESH %s %s %zu %zu", id.c_str(), stage, nv, nt);
  for (size_t v = 0; v < nv; ++v)
    for (int k = 0; k < 3; ++k) {
      double d = g.vertProperties[v * g.numProp + k];
      uint64_t u;
      memcpy(&u, &d, 8);
      printf(" %" PRIx64, u);
    }
  for (size_t t = 0; t < 3 * nt; ++t) printf(" %" PRIu64, (uint64_t)g.triVerts[t]);
  printf("\n");
}

static Polygons read_polys(std::istringstream& is) {
  int np;
  is >> np;
  Polygons ps;
  for (int j = 0; j < np; ++j) {
    int n;
    is >> n;
    SimplePolygon p;
    for (int i = 0; i < n; ++i) {
      double x, y;
      is >> x >> y;
      p.push_back({x, y});
    }
    ps.push_back(p);
  }
  return ps;
}

int main() {
  std::string line;
  while (std::getline(std::cin, line)) {
    std::istringstream is(line);
    std::string tag, id, kind;
    if (!(is >> tag >> id >> kind)) continue;
    Manifold m;
    std::function<double(vec3)> sdf;
    double level = 0;
    bool isLvl = false;
    if (kind == "CUBE") {
      double x, y, z;
      int c;
      is >> x >> y >> z >> c;
      m = Manifold::Cube({x, y, z}, c != 0);
    } else if (kind == "TET") {
      m = Manifold::Tetrahedron();
    } else if (kind == "SPH") {
      double r;
      int seg;
      is >> r >> seg;
      m = Manifold::Sphere(r, seg);
    } else if (kind == "CYL") {
      double h, rl, rh;
      int seg, c;
      is >> h >> rl >> rh >> seg >> c;
      m = Manifold::Cylinder(h, rl, rh, seg, c != 0);
    } else if (kind == "EXTR") {
      double h, twist, sx, sy;
      int nd;
      is >> h >> nd >> twist >> sx >> sy;
      Polygons ps = read_polys(is);
      m = Manifold::Extrude(ps, h, nd, twist, {sx, sy});
    } else if (kind == "REVO") {
      int seg;
      double deg;
      is >> seg >> deg;
      Polygons ps = read_polys(is);
      m = Manifold::Revolve(ps, seg, deg);
    } else if (kind == "LVL") {
      int k;
      double a, b, c, lo, hi, edge, tol;
      is >> k >> a >> b >> c >> lo >> hi >> edge >> level >> tol;
      auto ball = [](vec3 p, vec3 ctr, double r) { return r - la::length(p - ctr); };
      if (k == 0)
        sdf = [=](vec3 p) { return ball(p, vec3(0.0), a); };
      else if (k == 1)
        sdf = [=](vec3 p) { return std::min(a - std::fabs(p.x), std::min(b - std::fabs(p.y), c - std::fabs(p.z))); };
      else if (k == 2)
        sdf = [=](vec3 p) { return std::max(ball(p, vec3(-c, 0, 0), a), ball(p, vec3(c, 0, 0), b)); };
      else
        sdf = [=](vec3 p) { return std::min(ball(p, vec3(-c, 0, 0), a), ball(p, vec3(c, 0, 0), b)); };
      Box bounds{vec3(lo), vec3(hi)};
      m = Manifold::LevelSet(sdf, bounds, edge, level, tol, false);
      isLvl = true;
    } else {
      printf("GEO %s badkind\n", id.c_str());
      continue;
    }
    Manifold base = m;
    bool transformed = false;
    std::string op;
    while (is >> op) {
      if (op == ";") continue;
      transformed = true;
      if (op == "T") {
        double x, y, z;
        is >> x >> y >> z;
        m = m.Translate({x, y, z});
      } else if (op == "R") {
        double x, y, z;
        is >> x >> y >> z;
        m = m.Rotate(x, y, z);
      } else if (op == "S") {
        double x, y, z;
        is >> x >> y >> z;
        m = m.Scale({x, y, z});
      } else if (op == "M") {
        double x, y, z;
        is >> x >> y >> z;
        m = m.Mirror({x, y, z});
      } else if (op == "X") {
        mat3x4 t;
        for (int c = 0; c < 4; ++c)
          for (int r = 0; r < 3; ++r) is >> t[c][r];
        m = m.Transform(t);
      } else if (op == "W") {
        int k;
        is >> k;
        if (k == 0)
          m = m.Warp([](vec3& v) { v = vec3(v.x + 0.25 * v.z, v.y, v.z); });  // shear
        else
          m = m.Warp([](vec3& v) { v = vec3(2.0 * v.x + 1.0, 0.5 * v.y - v.x, v.z + 3.0); });  // affine
      }
    }
    printf("GEO %s status %d empty %d basestatus %d numtri %zu volume %a basevolume %a\n", id.c_str(), (int)m.Status(),
           (int)m.IsEmpty(), (int)base.Status(), m.NumTri(), m.Volume(), base.Volume());
    mesh_line(id, "base", base);
    if (transformed) mesh_line(id, "final", m);
    if (isLvl) {
      MeshGL64 g = base.GetMeshGL64();
      double dev = 0;
      for (size_t v = 0; v < g.NumVert(); ++v) {
        vec3 p(g.vertProperties[v * g.numProp], g.vertProperties[v * g.numProp + 1], g.vertProperties[v * g.numProp + 2]);
        dev = std::max(dev, std::fabs(sdf(p) - level));
      }
      printf("LVLDEV %s %a\n", id.c_str(), dev);
    }
    fflush(stdout);
  }
  return 0;
}
