// C14 correspondence harness: runs /repo's Collider on the cases the model runs.
// Reads the same CASE lines as extract/c14_driver.ml; prints R lines in the
// same canonical format, plus the raw arrays (for the certificate), plus its
// own all-pairs scan verdict.
#include <cstdio>
#include <limits>
#include <iostream>
#include <sstream>
#include <string>
#include <vector>
#include <algorithm>
#include <mutex>
#define private public
#include "collider.h"
#undef private
using namespace manifold;

// -DC14_PARALLEL (par / sim library variants): the queries run with parallel = true and a
// mutex-protected recorder; the recorded pairs are sorted before printing (their order is then
// schedule dependent; the set and the multiplicities are what the property speaks about)
#ifdef C14_PARALLEL
static const bool kParallel = true;
static std::mutex recMutex;
#define C14_LOCK std::lock_guard<std::mutex> guard(recMutex)
#define C14_SORT(v) std::sort((v).begin(), (v).end())
#else
static const bool kParallel = false;
#define C14_LOCK
#define C14_SORT(v)
#endif

// coordinates at or beyond 2^59 in magnitude stand for +-infinity (the model keeps them as huge
// integers: the embedding is order preserving, and the closed-interval test only compares)
static double Ext(long long v) {
  const long long S = 1LL << 59;
  if (v >= S) return std::numeric_limits<double>::infinity();
  if (v <= -S) return -std::numeric_limits<double>::infinity();
  return (double)v;
}

int main() {
  std::string line;
  while (std::getline(std::cin, line)) {
    std::istringstream in(line);
    std::string tag;
    in >> tag;
    if (tag == "SPREAD") {
      printf("SPREAD");
      for (uint32_t v = 0; v < 1024; ++v) printf(" %u", collider_internal::SpreadBits3(v));
      printf("\n");
      continue;
    }
    if (tag == "AX") {
      // AX <id> 12 numbers (row-major 3x4: r0c0 r0c1 r0c2 r0c3 r1c0 ...): Collider::IsAxisAligned, and - when it
      // answers yes - Box::Transform of the given box next to the exact image hull of its 8 corners
      std::string id;
      in >> id;
      double a[12];
      for (auto& x : a) in >> x;
      mat3x4 m({a[0], a[4], a[8]}, {a[1], a[5], a[9]}, {a[2], a[6], a[10]}, {a[3], a[7], a[11]});
      long long b[6];
      for (auto& x : b) in >> x;
      Box bx(vec3(b[0], b[1], b[2]), vec3(b[3], b[4], b[5]));
      const bool ax = Collider::IsAxisAligned(m);
      Box t = bx.Transform(m), hull;
      for (int c = 0; c < 8; ++c) hull.Union(m * vec4(c & 1 ? bx.max.x : bx.min.x, c & 2 ? bx.max.y : bx.min.y, c & 4 ? bx.max.z : bx.min.z, 1.0));
      printf("X %s %d %lld %lld %lld %lld %lld %lld %lld %lld %lld %lld %lld %lld\n", id.c_str(), (int)ax, (long long)t.min.x, (long long)t.min.y,
             (long long)t.min.z, (long long)t.max.x, (long long)t.max.y, (long long)t.max.z, (long long)hull.min.x, (long long)hull.min.y,
             (long long)hull.min.z, (long long)hull.max.x, (long long)hull.max.y, (long long)hull.max.z);
      continue;
    }
    if (tag != "CASE") continue;
    std::string id;
    int n, m, self, kind;
    in >> id >> n >> m >> self >> kind;
    Vec<uint32_t> codes(n);
    Vec<Box> boxes(n);
    for (int i = 0; i < n; ++i) { long long c; in >> c; codes[i] = (uint32_t)c; }
    for (int i = 0; i < n; ++i) {
      long long a[6];
      for (auto& x : a) in >> x;
      boxes[i].min = vec3(a[0], a[1], a[2]);
      boxes[i].max = vec3(a[3], a[4], a[5]);
    }
    Vec<Box> qb(kind == 0 ? m : 0);
    Vec<vec3> qp(kind == 1 ? m : 0);
    for (int q = 0; q < m; ++q) {
      if (kind == 0) {
        long long a[6];
        for (auto& x : a) in >> x;
        qb[q].min = vec3(Ext(a[0]), Ext(a[1]), Ext(a[2]));
        qb[q].max = vec3(Ext(a[3]), Ext(a[4]), Ext(a[5]));
      } else {
        long long x, y;
        in >> x >> y;
        qp[q] = vec3(x, y, 0.0);
      }
    }
    Collider col(boxes.cview(), codes.cview());
    std::ostringstream out;
    out << "R " << id << " children";
    for (auto& c : col.internalChildren_) out << " " << c.first << " " << c.second;
    out << " boxes";
    for (int k = 0; k + 1 < n; ++k) {
      const Box& b = col.nodeBBox_[2 * k + 1];
      out << " " << (long long)b.min.x << " " << (long long)b.min.y << " " << (long long)b.min.z << " "
          << (long long)b.max.x << " " << (long long)b.max.y << " " << (long long)b.max.z;
    }
    out << " pairs";
    std::vector<std::pair<int, int>> pairs;
    auto rec = [&](int q, int l) { C14_LOCK; pairs.push_back({q, l}); };
    auto recorder = MakeSimpleRecorder(rec);
    if (kind == 0) {
      if (self) col.Collisions<true, Box>(recorder, qb.cview(), kParallel);
      else col.Collisions<false, Box>(recorder, qb.cview(), kParallel);
    } else {
      if (self) col.Collisions<true, vec3>(recorder, qp.cview(), kParallel);
      else col.Collisions<false, vec3>(recorder, qp.cview(), kParallel);
    }
    C14_SORT(pairs);
    for (auto& p : pairs) out << " " << p.first << " " << p.second;
    printf("%s\n", out.str().c_str());
    // raw arrays for the certificate
    std::ostringstream cert;
    cert << "CERT " << id << " " << n;
    for (auto& c : col.internalChildren_) cert << " " << c.first << " " << c.second;
    for (int k = 0; k < 2 * n - 1; ++k) {
      const Box& b = col.nodeBBox_[k];
      cert << " " << (long long)b.min.x << " " << (long long)b.min.y << " " << (long long)b.min.z << " "
           << (long long)b.max.x << " " << (long long)b.max.y << " " << (long long)b.max.z;
    }
    printf("%s\n", cert.str().c_str());
    // ---- UpdateBoxes and axis-aligned Transform: the same exactness must hold for the new boxes
    auto dumpAfter = [&](const char* suffix) {
      std::ostringstream c2;
      c2 << "CERT " << id << suffix << " " << n;
      for (auto& c : col.internalChildren_) c2 << " " << c.first << " " << c.second;
      for (int k = 0; k < 2 * n - 1; ++k) {
        const Box& b = col.nodeBBox_[k];
        c2 << " " << (long long)b.min.x << " " << (long long)b.min.y << " " << (long long)b.min.z << " "
           << (long long)b.max.x << " " << (long long)b.max.y << " " << (long long)b.max.z;
      }
      printf("%s\n", c2.str().c_str());
      std::vector<std::pair<int, int>> pr;
      auto rc = [&](int q, int l) { C14_LOCK; pr.push_back({q, l}); };
      auto rr = MakeSimpleRecorder(rc);
      if (kind == 0) {
        if (self) col.Collisions<true, Box>(rr, qb.cview(), kParallel);
        else col.Collisions<false, Box>(rr, qb.cview(), kParallel);
      } else {
        if (self) col.Collisions<true, vec3>(rr, qp.cview(), kParallel);
        else col.Collisions<false, vec3>(rr, qp.cview(), kParallel);
      }
      std::ostringstream o2;
      C14_SORT(pr);
      o2 << "A " << id << suffix;
      for (auto& p : pr) o2 << " " << p.first << " " << p.second;
      printf("%s\n", o2.str().c_str());
    };
    if (!self) {
      // new leaf boxes: a deterministic function of the old ones (checks/C14.py computes the same)
      Vec<Box> nb(n);
      for (int i = 0; i < n; ++i) {
        vec3 sh((i * 7) % 5 - 2, (i * 3) % 4 - 1, (i % 3) - 1);
        nb[i].min = boxes[i].min + sh;
        nb[i].max = boxes[i].max + sh + vec3(i % 2, 0, (i / 2) % 2);
      }
      col.UpdateBoxes(nb.cview());
      dumpAfter(".u");
      // axis-aligned transform: x' = 2y + 1, y' = -z + 2, z' = 3x + 3
      mat3x4 m({0.0, 0.0, 3.0}, {2.0, 0.0, 0.0}, {0.0, -1.0, 0.0}, {1.0, 2.0, 3.0});
      col.Transform(m);
      dumpAfter(".t");
    }
    // parent array consistency (nodeParent_ is only used by BuildInternalBoxes)
    bool parentsOk = true;
    for (int k = 0; k + 1 < n; ++k) {
      auto c = col.internalChildren_[k];
      if (col.nodeParent_[c.first] != 2 * k + 1 || col.nodeParent_[c.second] != 2 * k + 1) parentsOk = false;
    }
    printf("P %s %d\n", id.c_str(), parentsOk ? 1 : 0);
  }
  return 0;
}
