// C04 exploration harness: byte hashes of everything a program exports
// (GetMeshGL64 with all fields, CrossSection::ToPolygons, Triangulate), so
// that the same program can be compared across build variants (seq / par /
// sim), TBB arena sizes and simulated schedules.
//
//   c04_det [threads=N] [reps=R] [seed=S] < programs
//   program line :  P <id> <kind> <a> <b> <c>
//   output line  :  H <id> <rep> <hash> nv=.. nt=.. | <field>=<hash> ...
//
// Only integers / bit patterns are printed.  runOriginalID values come from a
// process-global counter, so they are hashed after an order-preserving
// renaming (DESIGN 3.4); every other field is hashed byte for byte.
#include <algorithm>
#include <cmath>
#include <cstdint>
#include <cstdio>
#include <cstdlib>
#include <cstring>
#include <functional>
#include <iostream>
#include <map>
#include <sstream>
#include <string>
#include <vector>

#include "manifold/cross_section.h"
#include "manifold/manifold.h"
#include "manifold/polygon.h"

#if defined(C04_PAR)
#include <tbb/global_control.h>
#endif

using namespace manifold;

struct Fnv {
  uint64_t h = 1469598103934665603ull;
  void bytes(const void* p, size_t n) {
    const unsigned char* c = static_cast<const unsigned char*>(p);
    for (size_t i = 0; i < n; ++i) {
      h ^= c[i];
      h *= 1099511628211ull;
    }
  }
  template <typename T>
  void pod(const T& v) {
    bytes(&v, sizeof(T));
  }
  template <typename T>
  void vec(const std::vector<T>& v) {
    uint64_t n = v.size();
    pod(n);
    if (n) bytes(v.data(), n * sizeof(T));
  }
};

template <typename T>
static uint64_t hvec(const std::vector<T>& v) {
  Fnv f;
  f.vec(v);
  return f.h;
}

struct Out {
  std::vector<std::pair<std::string, uint64_t>> parts;
  size_t nv = 0, nt = 0;
  void add(const std::string& k, uint64_t h) { parts.push_back({k, h}); }
  uint64_t total() const {
    Fnv f;
    for (auto& p : parts) {
      f.bytes(p.first.data(), p.first.size());
      f.pod(p.second);
    }
    return f.h;
  }
};

static void hashMesh(Out& o, const std::string& pre, const Manifold& m) {
  MeshGL64 g = m.GetMeshGL64();
  int st = static_cast<int>(m.Status());
  o.add(pre + "status", st);
  o.add(pre + "numProp", g.numProp);
  o.add(pre + "vertProp", hvec(g.vertProperties));
  o.add(pre + "triVerts", hvec(g.triVerts));
  o.add(pre + "mergeFrom", hvec(g.mergeFromVert));
  o.add(pre + "mergeTo", hvec(g.mergeToVert));
  o.add(pre + "runIndex", hvec(g.runIndex));
  // order-preserving renaming of the global-counter IDs
  std::vector<uint32_t> ids = g.runOriginalID, sorted = g.runOriginalID;
  std::sort(sorted.begin(), sorted.end());
  sorted.erase(std::unique(sorted.begin(), sorted.end()), sorted.end());
  for (auto& x : ids)
    x = std::lower_bound(sorted.begin(), sorted.end(), x) - sorted.begin();
  o.add(pre + "runID", hvec(ids));
  o.add(pre + "runXform", hvec(g.runTransform));
  o.add(pre + "runFlags", hvec(g.runFlags));
  o.add(pre + "faceID", hvec(g.faceID));
  o.add(pre + "tangent", hvec(g.halfedgeTangent));
  Fnv t;
  t.pod(g.tolerance);
  o.add(pre + "tol", t.h);
  o.nv += g.vertProperties.size() / std::max<size_t>(1, g.numProp);
  o.nt += g.triVerts.size() / 3;
}

static void hashPolys(Out& o, const std::string& pre, const Polygons& ps) {
  Fnv f;
  uint64_t n = ps.size();
  f.pod(n);
  for (auto& p : ps) {
    uint64_t k = p.size();
    f.pod(k);
    for (auto& v : p) {
      f.pod(v.x);
      f.pod(v.y);
    }
    o.nv += p.size();
  }
  o.add(pre + "polys", f.h);
}

static void hashTris(Out& o, const std::string& pre,
                     const std::vector<ivec3>& t) {
  Fnv f;
  uint64_t n = t.size();
  f.pod(n);
  for (auto& v : t) {
    f.pod(v[0]);
    f.pod(v[1]);
    f.pod(v[2]);
  }
  o.add(pre + "tris", f.h);
  o.nt += t.size();
}

// deterministic LCG for point clouds (never std::rand: libc state is global)
struct Lcg {
  uint64_t s;
  double next() {
    s = s * 6364136223846793005ull + 1442695040888963407ull;
    return static_cast<double>((s >> 11) & ((1ull << 53) - 1)) /
           static_cast<double>(1ull << 53);
  }
};

static Manifold rotCube(double size, double ang) {
  return Manifold::Cube(vec3(size), true)
      .Rotate(ang, ang * 0.7, ang * 0.3)
      .Translate(vec3(0.1, 0.05, 0.02));
}

static SimplePolygon combPoly(int teeth) {
  // comb with `teeth` teeth of varying height: 4*teeth+? vertices
  SimplePolygon p;
  const double w = 1.0;
  p.push_back({0.0, 0.0});
  p.push_back({teeth * 2 * w, 0.0});
  for (int i = teeth - 1; i >= 0; --i) {
    const double h = 2.0 + ((i * 7) % 5) * 0.37;
    p.push_back({(2 * i + 2) * w, 1.0});
    p.push_back({(2 * i + 1.6) * w, h});
    p.push_back({(2 * i + 0.4) * w, h + 0.1});
    p.push_back({(2 * i) * w, 1.0});
  }
  return p;
}

static MeshGL64 sharedEdgeMesh(int n) {
  // Sphere(n) plus two unit cubes that share one edge THROUGH SHARED VERTEX
  // INDICES (a 4-manifold edge): import runs DedupeEdges / SplitPinchedVerts.
  MeshGL64 s = Manifold::Sphere(1.0, n).Translate(vec3(5, 0, 0)).GetMeshGL64();
  MeshGL64 g;
  g.numProp = 3;
  for (size_t i = 0; i < s.vertProperties.size() / s.numProp; ++i)
    for (int k = 0; k < 3; ++k)
      g.vertProperties.push_back(s.vertProperties[i * s.numProp + k]);
  g.triVerts = s.triVerts;
  const uint64_t base = g.vertProperties.size() / 3;
  // cube A = [0,1]^3, cube B = [1,2]x[1,2]x[0,1]; shared edge x=1,y=1,z in[0,1]
  auto cube = [&](double ox, double oy, std::vector<uint64_t>& id) {
    id.resize(8);
    for (int i = 0; i < 8; ++i) {
      double x = ox + (i & 1), y = oy + ((i >> 1) & 1), z = (i >> 2) & 1;
      id[i] = g.vertProperties.size() / 3;
      g.vertProperties.push_back(x);
      g.vertProperties.push_back(y);
      g.vertProperties.push_back(z);
    }
  };
  std::vector<uint64_t> a, b;
  cube(0, 0, a);
  cube(1, 1, b);
  // share the edge: B's corner (x=1,y=1) z=0,1 are A's corner (1,1) z=0,1
  b[0] = a[3];
  b[4] = a[7];
  static const int T[12][3] = {{0, 2, 1}, {1, 2, 3}, {4, 5, 6}, {5, 7, 6},
                               {0, 1, 4}, {1, 5, 4}, {2, 6, 3}, {3, 6, 7},
                               {0, 4, 2}, {2, 4, 6}, {1, 3, 5}, {3, 7, 5}};
  for (auto* c : {&a, &b})
    for (auto& t : T)
      for (int k = 0; k < 3; ++k) g.triVerts.push_back((*c)[t[k]]);
  (void)base;
  return g;
}


// Many sort-key ties above the parallel thresholds: `tets` tiny tetrahedra
// clustered around `sites` sites in a 1000^3 box (each cluster far smaller than
// one Morton cell), so thousands of vertices / triangles share a Morton code and
// the exported order is decided by the STABILITY of the library's sorts.
static MeshGL64 cloudMesh(int tets, int sites) {
  MeshGL64 m;
  m.numProp = 4;  // x y z + particle id
  Lcg g{12345};
  std::vector<double> site(3 * sites);
  for (int s = 0; s < sites; ++s)
    for (int k = 0; k < 3; ++k) {
      const int cell = 16 + static_cast<int>(g.next() * 990.0);
      site[3 * s + k] = (cell + 0.5) * (1000.0 / 1023.0);
    }
  const double d[4][3] = {{0, 0, 0}, {1, 0, 0}, {0, 1, 0}, {0, 0, 1}};
  const uint64_t f[4][3] = {{0, 2, 1}, {0, 1, 3}, {0, 3, 2}, {1, 2, 3}};
  const double size = 0.01;
  for (int t = 0; t < tets; ++t) {
    double c[3];
    if (t == 0) {
      c[0] = c[1] = c[2] = 0.0;
    } else if (t == 1) {
      c[0] = c[1] = c[2] = 1000.0 - size;  // pins the bounding box
    } else {
      const int s = (t * 7) % sites;  // interleave the sites
      for (int k = 0; k < 3; ++k) c[k] = site[3 * s + k] + (g.next() - 0.5) * 0.2;
    }
    const uint64_t base = m.vertProperties.size() / 4;
    for (int v = 0; v < 4; ++v) {
      for (int k = 0; k < 3; ++k) m.vertProperties.push_back(c[k] + size * d[v][k]);
      m.vertProperties.push_back(static_cast<double>(t));
    }
    for (int i = 0; i < 4; ++i)
      for (int k = 0; k < 3; ++k) m.triVerts.push_back(base + f[i][k]);
  }
  return m;
}

// A large mesh whose vertices share Morton codes because the bounding box is
// dominated by one far-away tiny component.
static MeshGL64 farBoxMesh(int n, double far) {
  MeshGL64 s = Manifold::Sphere(1.0, n).GetMeshGL64();
  MeshGL64 g;
  g.numProp = 3;
  for (size_t i = 0; i < s.vertProperties.size() / s.numProp; ++i)
    for (int k = 0; k < 3; ++k) g.vertProperties.push_back(s.vertProperties[i * s.numProp + k]);
  g.triVerts = s.triVerts;
  const uint64_t base = g.vertProperties.size() / 3;
  const double d[4][3] = {{0, 0, 0}, {1, 0, 0}, {0, 1, 0}, {0, 0, 1}};
  const uint64_t f[4][3] = {{0, 2, 1}, {0, 1, 3}, {0, 3, 2}, {1, 2, 3}};
  for (int v = 0; v < 4; ++v)
    for (int k = 0; k < 3; ++k) g.vertProperties.push_back(far + d[v][k]);
  for (int i = 0; i < 4; ++i)
    for (int k = 0; k < 3; ++k) g.triVerts.push_back(base + f[i][k]);
  return g;
}

// 2-D: `n` tiny squares clustered around `sites` sites in a 1000^2 box
static Polygons cloudPolys(int n, int sites) {
  Polygons ps;
  Lcg g{777};
  std::vector<double> site(2 * sites);
  for (auto& x : site) x = 10.0 + g.next() * 980.0;
  ps.push_back({{0.0, 0.0}, {0.01, 0.0}, {0.01, 0.01}, {0.0, 0.01}});
  ps.push_back({{999.0, 999.0}, {999.01, 999.0}, {999.01, 999.01}, {999.0, 999.01}});
  for (int i = 2; i < n; ++i) {
    const int s = (i * 7) % sites;
    const double x = site[2 * s] + (g.next() - 0.5) * 0.5, y = site[2 * s + 1] + (g.next() - 0.5) * 0.5;
    const double w = 0.001;
    ps.push_back({{x, y}, {x + w, y}, {x + w, y + w}, {x, y + w}});
  }
  return ps;
}

// Large even-manifold-but-not-2-manifold import: `pairs` pairs of tetrahedra,
// the two of a pair touch along an edge and SHARE its two vertices (the edge has
// four triangles).  6 verts / 8 tris per pair; >= 43691 pairs gives >= 2^18
// vertices (CreateHalfedges' bucketed branch).  Triangle order is shuffled.
static MeshGL64 tetPairsMesh(int pairs, bool share) {
  struct V3 { double x, y, z; };
  std::vector<V3> verts;
  std::vector<std::array<uint64_t, 3>> tris;
  auto det = [&](uint64_t a, uint64_t b, uint64_t c, uint64_t d) {
    const V3 &A = verts[a], &B = verts[b], &C = verts[c], &D = verts[d];
    const double bx = B.x - A.x, by = B.y - A.y, bz = B.z - A.z, cx = C.x - A.x, cy = C.y - A.y, cz = C.z - A.z,
                 dx = D.x - A.x, dy = D.y - A.y, dz = D.z - A.z;
    return bx * (cy * dz - cz * dy) - by * (cx * dz - cz * dx) + bz * (cx * dy - cy * dx);
  };
  auto addTet = [&](uint64_t a, uint64_t b, uint64_t c, uint64_t d) {
    if (det(a, b, c, d) < 0) std::swap(c, d);
    tris.push_back({a, c, b});
    tris.push_back({a, b, d});
    tris.push_back({a, d, c});
    tris.push_back({b, c, d});
  };
  const int gx = 36, gy = 36;
  for (int k = 0; k < pairs; ++k) {
    const double ox = 3.0 * (k % gx), oy = 2.0 * ((k / gx) % gy), oz = 2.0 * (k / (gx * gy));
    const uint64_t s0 = verts.size();
    verts.push_back({ox, oy, oz});
    verts.push_back({ox, oy, oz + 1});
    verts.push_back({ox + 1, oy - 0.3, oz + 0.5});
    verts.push_back({ox + 1, oy + 0.3, oz + 0.5});
    verts.push_back({ox - 1, oy + 0.3, oz + 0.5});
    verts.push_back({ox - 1, oy - 0.3, oz + 0.5});
    addTet(s0, s0 + 1, s0 + 2, s0 + 3);
    if (share) {
      addTet(s0, s0 + 1, s0 + 4, s0 + 5);
    } else {
      verts.push_back({ox, oy, oz});
      verts.push_back({ox, oy, oz + 1});
      addTet(s0 + 6, s0 + 7, s0 + 4, s0 + 5);
    }
  }
  Lcg g{4242};
  for (size_t i = tris.size() - 1; i > 0; --i) {
    const size_t j = static_cast<size_t>(g.next() * (i + 1)) % (i + 1);
    std::swap(tris[i], tris[j]);
  }
  MeshGL64 m;
  m.numProp = 3;
  for (auto& v : verts) {
    m.vertProperties.push_back(v.x);
    m.vertProperties.push_back(v.y);
    m.vertProperties.push_back(v.z);
  }
  for (auto& t : tris)
    for (int i = 0; i < 3; ++i) m.triVerts.push_back(t[i]);
  return m;
}

// STL-like triangle soup: every triangle of Sphere(n) gets its own three
// vertices, jittered by less than the merge tolerance (so cluster members are
// equal only within tolerance, not bit-equal).  6 * n^2/... open vertices.
static MeshGL64 soupMesh(int n, double tol, double jitter) {
  MeshGL64 s = Manifold::Sphere(1.0, n).GetMeshGL64();
  MeshGL64 g;
  g.numProp = 3;
  g.tolerance = tol;
  Lcg r{99};
  for (size_t t = 0; t < s.triVerts.size(); ++t) {
    const uint64_t v = s.triVerts[t];
    for (int k = 0; k < 3; ++k)
      g.vertProperties.push_back(s.vertProperties[v * s.numProp + k] + (r.next() - 0.5) * jitter);
    g.triVerts.push_back(t);
  }
  return g;
}

static void runProgram(const std::string& kind, double a, double b, double c,
                       Out& o) {
  const int n = static_cast<int>(a);
  if (kind == "sphcube") {  // Boolean of a sphere with a rotated cube
    Manifold s = Manifold::Sphere(1.0, n);
    Manifold r = s.Boolean(rotCube(1.3, b), static_cast<OpType>((int)c));
    hashMesh(o, "", r);
  } else if (kind == "sphsph") {  // two spheres: many new verts / collisions
    Manifold r = Manifold::Sphere(1.0, n).Boolean(
        Manifold::Sphere(1.0, n).Translate(vec3(0.37, 0.21, 0.13)),
        static_cast<OpType>((int)c));
    hashMesh(o, "", r);
  } else if (kind == "curv") {
    hashMesh(o, "", Manifold::Sphere(1.0, n).CalculateCurvature(0, 1));
  } else if (kind == "normals") {
    hashMesh(o, "", (Manifold::Sphere(1.0, n) - rotCube(1.3, b))
                        .CalculateNormals(0, 40));
  } else if (kind == "levelset") {
    auto sdf = [](vec3 p) {
      return std::cos(3 * p.x) * std::sin(3 * p.y) +
             std::cos(3 * p.y) * std::sin(3 * p.z) +
             std::cos(3 * p.z) * std::sin(3 * p.x);
    };
    Box bx(vec3(-1.0), vec3(1.0));
    hashMesh(o, "", Manifold::LevelSet(sdf, bx, 2.0 / n, 0.1));
  } else if (kind == "refine") {
    Manifold s = Manifold::Sphere(1.0, n) - rotCube(1.2, 20);
    hashMesh(o, "", s.Refine(static_cast<int>(b)));
  } else if (kind == "smooth") {
    Manifold s = Manifold::Cube(vec3(1.0), true) - rotCube(0.8, 25);
    hashMesh(o, "", s.SmoothOut(50, 0.2).Refine(n));
  } else if (kind == "reflen") {
    hashMesh(o, "", rotCube(1.0, 10).RefineToLength(1.0 / n));
  } else if (kind == "batch") {  // BatchBoolean of many small parts
    std::vector<Manifold> parts;
    Lcg g{static_cast<uint64_t>(b) + 17};
    for (int i = 0; i < n; ++i) {
      vec3 t(g.next() * 3, g.next() * 3, g.next() * 3);
      Manifold p = (i % 3 == 0) ? Manifold::Sphere(0.4, 12 + 4 * (i % 4))
                                : Manifold::Cube(vec3(0.5 + 0.1 * (i % 4)), true)
                                      .Rotate(10.0 * i, 7.0 * i, 3.0 * i);
      parts.push_back(p.Translate(t));
    }
    hashMesh(o, "", Manifold::BatchBoolean(parts, static_cast<OpType>((int)c)));
  } else if (kind == "batchsub") {
    std::vector<Manifold> parts;
    parts.push_back(Manifold::Cube(vec3(4.0), true));
    Lcg g{static_cast<uint64_t>(b) + 5};
    for (int i = 0; i < n; ++i)
      parts.push_back(Manifold::Sphere(0.5, 16).Translate(
          vec3(g.next() * 4 - 2, g.next() * 4 - 2, g.next() * 4 - 2)));
    hashMesh(o, "", Manifold::BatchBoolean(parts, OpType::Subtract));
  } else if (kind == "hull") {
    std::vector<vec3> pts;
    Lcg g{static_cast<uint64_t>(b) + 3};
    for (int i = 0; i < n; ++i) {
      vec3 p(g.next() - 0.5, g.next() - 0.5, g.next() - 0.5);
      if (c > 0) p = la::normalize(p);  // all on the sphere: every point is extreme
      pts.push_back(p);
    }
    hashMesh(o, "", Manifold::Hull(pts));
  } else if (kind == "mink") {
    Manifold x = Manifold::Cube(vec3(1.0), true) -
                 Manifold::Cube(vec3(0.6, 0.6, 2.0), true);
    Manifold y = Manifold::Sphere(0.2, n);
    hashMesh(o, "", c > 0 ? x.MinkowskiDifference(y) : x.MinkowskiSum(y));
  } else if (kind == "decomp") {
    std::vector<Manifold> parts;
    for (int i = 0; i < n; ++i)
      parts.push_back(Manifold::Sphere(0.4, static_cast<int>(b))
                          .Translate(vec3(i % 7, (i / 7) % 7, i / 49)));
    Manifold all = Manifold::BatchBoolean(parts, OpType::Add);
    hashMesh(o, "all.", all);
    auto ds = all.Decompose();
    o.add("ncomp", ds.size());
    for (size_t i = 0; i < ds.size(); ++i)
      hashMesh(o, "c" + std::to_string(i) + ".", ds[i]);
  } else if (kind == "cloud") {  // many Morton ties, imported via MeshGL
    Manifold m(cloudMesh(n, static_cast<int>(b)));
    hashMesh(o, "", m.Translate(vec3(1.0, 2.0, 3.0)));
  } else if (kind == "cloudbool") {  // the same cloud through a Boolean
    Manifold m(cloudMesh(n, static_cast<int>(b)));
    hashMesh(o, "", m - Manifold::Cube(vec3(500.0)).Translate(vec3(100.0)));
  } else if (kind == "farbox") {
    Manifold m(farBoxMesh(n, b));
    hashMesh(o, "", m);
    hashMesh(o, "ref.", m.Refine(2));
  } else if (kind == "cscloud") {
    Polygons ps = cloudPolys(n, static_cast<int>(b));
    CrossSection cs(ps);
    hashPolys(o, "u.", cs.ToPolygons());
    hashPolys(o, "off.", cs.Offset(0.0005, JoinType::Miter).ToPolygons());
    hashMesh(o, "ext.", Manifold::Extrude(cs.ToPolygons(), 1.0));
  } else if (kind == "tricloud") {
    hashTris(o, "", Triangulate(cloudPolys(n, static_cast<int>(b)), -1, true));
  } else if (kind == "pinch") {
    // two pockets that touch along one vertical edge, cut into the top of a
    // block that shares its Impl with a sphere (so P has > 1e4 halfedges and
    // AppendWholeEdges hands out face slots in parallel): faces whose boundary
    // touches itself at a point
    Manifold P = Manifold::Compose({Manifold::Cube(vec3(4.0, 4.0, 2.0)),
                                    Manifold::Sphere(1.0, n).Translate(vec3(10, 0, 0))});
    Manifold Q = Manifold::Cube(vec3(1, 1, 2)).Translate(vec3(1, 1, 1)) +
                 Manifold::Cube(vec3(1, 1, 2)).Translate(vec3(2, 2, 1));
    hashMesh(o, "sub.", P - Q);
    hashMesh(o, "and.", P ^ Q.Rotate(0, 0, b));
  } else if (kind == "tetpairs") {
    Manifold m(tetPairsMesh(n, b > 0));
    o.add("numVert", m.NumVert());
    o.add("numTri", m.NumTri());
    o.add("genus", static_cast<uint64_t>(static_cast<int64_t>(m.Genus())));
    hashMesh(o, "", m);
  } else if (kind == "soup") {  // MeshGL::Merge on a triangle soup, then import
    MeshGL64 g = soupMesh(n, b, c);
    const bool changed = g.Merge();
    o.add("merged", changed);
    o.add("mergeFrom", hvec(g.mergeFromVert));
    o.add("mergeTo", hvec(g.mergeToVert));
    Manifold m(g);
    hashMesh(o, "m.", m);
  } else if (kind == "refcube") {
    // Boolean of two finely refined cubes: the raw result has > 1e5 halfedges
    // (FlagStore::run_par) and thousands of flagged short / collinear edges
    // whose collapse order decides vertex and triangle counts
    const Manifold A = Manifold::Cube(vec3(1.0), true).Refine(n);
    const Manifold B = Manifold::Cube(vec3(1.0), true).Refine(n).Rotate(b, 2 * b, 3 * b).Translate(vec3(0.3, 0.2, 0.1));
    Manifold r = A.Boolean(B, static_cast<OpType>((int)c));
    o.add("numVert", r.NumVert());
    o.add("numTri", r.NumTri());
    hashMesh(o, "", r);
  } else if (kind == "dedupe") {
    Manifold m(sharedEdgeMesh(n));
    hashMesh(o, "", m);
  } else if (kind == "simplify") {
    Manifold s = Manifold::Sphere(1.0, n) + rotCube(1.3, b);
    hashMesh(o, "", s.Simplify(c));
  } else if (kind == "split") {
    Manifold s = Manifold::Sphere(1.0, n);
    auto pr = s.Split(rotCube(1.3, b));
    hashMesh(o, "in.", pr.first);
    hashMesh(o, "out.", pr.second);
  } else if (kind == "warp") {
    Manifold s = Manifold::Sphere(1.0, n).Warp(
        [](vec3& v) { v.x += 0.3 * v.y * v.y; });
    hashMesh(o, "", s ^ rotCube(1.3, b));
  } else if (kind == "extrude") {
    Polygons ps{combPoly(n)};
    hashMesh(o, "", Manifold::Extrude(ps, 1.0, static_cast<int>(b), 30.0));
  } else if (kind == "revolve") {
    SimplePolygon p;
    for (int i = 0; i < n; ++i) {
      double t = 2 * 3.14159265358979 * i / n;
      p.push_back({2.0 + std::cos(t) * (1 + 0.2 * std::cos(5 * t)),
                   std::sin(t) * (1 + 0.2 * std::cos(5 * t))});
    }
    hashMesh(o, "", Manifold::Revolve({p}, static_cast<int>(b)));
  } else if (kind == "project") {
    Manifold s = Manifold::Sphere(1.0, n) + rotCube(1.5, b);
    hashPolys(o, "proj.", s.Project());
    hashPolys(o, "slice.", s.Slice(0.05));
  } else if (kind == "cscomb") {  // 2-D Boolean of many rectangles
    std::vector<CrossSection> parts;
    parts.push_back(CrossSection::Square({2.0 * n, 1.0}));
    for (int i = 0; i < n; ++i)
      parts.push_back(CrossSection::Square({1.2, 2.0 + ((i * 7) % 5) * 0.37})
                          .Rotate(3.0 * (i % 5))
                          .Translate({2.0 * i + 0.4, 0.5}));
    CrossSection u = CrossSection::BatchBoolean(parts, OpType::Add);
    hashPolys(o, "u.", u.ToPolygons());
    if (b > 0) hashPolys(o, "off.", u.Offset(0.15, JoinType::Round).ToPolygons());
  } else if (kind == "cscircles") {
    std::vector<CrossSection> parts;
    Lcg g{static_cast<uint64_t>(b) + 11};
    for (int i = 0; i < n; ++i)
      parts.push_back(CrossSection::Circle(0.5, 32).Translate(
          {g.next() * std::sqrt((double)n), g.next() * std::sqrt((double)n)}));
    CrossSection u = CrossSection::BatchBoolean(
        parts, static_cast<OpType>((int)c));
    hashPolys(o, "u.", u.ToPolygons());
    hashPolys(o, "hull.", u.Hull().ToPolygons());
    hashPolys(o, "simp.", u.Simplify(0.01).ToPolygons());
  } else if (kind == "csxor") {
    CrossSection a1 = CrossSection(Polygons{combPoly(n)});
    CrossSection b1 = a1.Rotate(7.0).Translate({0.3, 0.2});
    hashPolys(o, "and.", (a1 ^ b1).ToPolygons());
    hashPolys(o, "sub.", (a1 - b1).ToPolygons());
  } else if (kind == "tri") {
    Polygons ps{combPoly(n)};
    if (b > 0) {  // holes
      for (int i = 0; i < n; ++i) {
        SimplePolygon h;
        double x = 2.0 * i + 1.0, y = 0.5;
        h.push_back({x - 0.2, y - 0.2});
        h.push_back({x - 0.2, y + 0.2});
        h.push_back({x + 0.2, y + 0.2});
        h.push_back({x + 0.2, y - 0.2});
        ps.push_back(h);
      }
    }
    hashTris(o, "", Triangulate(ps, -1, true));
  } else {
    o.add("unknown-program", 1);
  }
}

int main(int argc, char** argv) {
  int threads = 0, reps = 1;
  unsigned long long seed = 0;
  for (int i = 1; i < argc; ++i) {
    if (!std::strncmp(argv[i], "threads=", 8)) threads = std::atoi(argv[i] + 8);
    if (!std::strncmp(argv[i], "reps=", 5)) reps = std::atoi(argv[i] + 5);
    if (!std::strncmp(argv[i], "seed=", 5)) seed = std::strtoull(argv[i] + 5, 0, 10);
  }
#if defined(C04_PAR)
  std::unique_ptr<tbb::global_control> gc;
  if (threads > 0)
    gc.reset(new tbb::global_control(
        tbb::global_control::max_allowed_parallelism, threads));
#endif
  (void)threads;
  std::string line;
  while (std::getline(std::cin, line)) {
    std::istringstream is(line);
    std::string tag, id, kind;
    double a = 0, b = 0, c = 0;
    is >> tag >> id >> kind >> a >> b >> c;
    if (tag != "P") continue;
    for (int rep = 0; rep < reps; ++rep) {
#if defined(VERIF_SCHED_H)
      // schedule simulator (harness/verif_sched.h, substituted with -include)
      verif_tbb::sched::reseed(seed * 1000003ull + rep);
#endif
      Out o;
      try {
        runProgram(kind, a, b, c, o);
      } catch (const std::exception& e) {
        o.add("exception", 1);
      }
      std::printf("H %s %d %016llx nv=%zu nt=%zu |", id.c_str(), rep,
                  (unsigned long long)o.total(), o.nv, o.nt);
      for (auto& p : o.parts)
        std::printf(" %s=%016llx", p.first.c_str(), (unsigned long long)p.second);
      std::printf("\n");
      std::fflush(stdout);
    }
  }
  (void)seed;
  return 0;
}
