// C14: 2-D broad phases (boolean2 BVH, x-sorted sweep) and the polygon k-d tree,
// run on the cases checks/C14.py generates; output compared with the extracted
// model and with the all-pairs scan.
#include <cstdio>
#include <iostream>
#include <sstream>
#include <string>
#include <vector>

#include "boolean2.h"
#include "tree2d.h"
using namespace manifold;

int main() {
  std::string line;
  while (std::getline(std::cin, line)) {
    std::istringstream in(line);
    std::string tag, id;
    in >> tag >> id;
    if (tag == "BVH2") {
      int n, m;
      in >> n >> m;
      std::vector<Box2> boxes(n), queries(m);
      auto rd = [&](Box2& b) {
        long long a[4];
        for (auto& x : a) in >> x;
        b.min = vec2(a[0], a[1]);
        b.max = vec2(a[2], a[3]);
      };
      for (auto& b : boxes) rd(b);
      for (auto& b : queries) rd(b);
      BVH bvh = BVHBuildFromBoxes(boxes);
      // the same tree as a 3-D case for the model (codes recomputed as the code does)
      Box2 bbox = boxes[0];
      for (const auto& b : boxes) bbox = bbox.Union(b);
      std::ostringstream c;
      c << "CASE " << id << " " << n << " " << m << " 0 0";
      for (int i = 0; i < n; ++i) c << " " << MortonCode2(boxes[bvh.leafToOrig[i]].Center(), bbox);
      auto pb = [](std::ostringstream& o, const Box2& b) {
        o << " " << (long long)b.min.x << " " << (long long)b.min.y << " 0 " << (long long)b.max.x << " "
          << (long long)b.max.y << " 0";
      };
      for (int i = 0; i < n; ++i) pb(c, boxes[bvh.leafToOrig[i]]);
      for (int q = 0; q < m; ++q) pb(c, queries[q]);
      printf("%s\n", c.str().c_str());
      std::ostringstream r;
      r << "R " << id << " children";
      for (auto& ch : bvh.internalChildren) r << " " << ch.first << " " << ch.second;
      r << " boxes";
      for (int k = 0; k + 1 < n; ++k) pb(r, bvh.nodeBBox[2 * k + 1]);
      r << " pairs";
      std::vector<std::pair<int, int>> leafPairs, origPairs;
      auto rec = [&](int q, int l) { leafPairs.push_back({q, l}); };
      auto recorder = MakeSimpleRecorder(rec);
      auto qf = [&](int i) { return queries[i]; };
      BVHCollisions(bvh, recorder, qf, m, false);
      for (auto& p : leafPairs) r << " " << p.first << " " << p.second;
      printf("%s\n", r.str().c_str());
      std::ostringstream cert;
      cert << "CERT " << id << " " << n;
      for (auto& ch : bvh.internalChildren) cert << " " << ch.first << " " << ch.second;
      for (int k = 0; k < 2 * n - 1; ++k) pb(cert, bvh.nodeBBox[k]);
      printf("%s\n", cert.str().c_str());
      CollidePairs(bvh, queries, [&](int q, int o) { origPairs.push_back({q, o}); });
      std::ostringstream o;
      o << "Q2 " << id;
      for (auto& p : origPairs) o << " " << p.first << " " << p.second;
      printf("%s\n", o.str().c_str());
    } else if (tag == "SWEEP") {
      int n;
      in >> n;
      std::vector<Box2> boxes(n);
      std::vector<EdgeM> edges(n);
      std::vector<vec2> verts(2 * n);
      for (int i = 0; i < n; ++i) {
        long long a[4];
        for (auto& x : a) in >> x;
        boxes[i].min = vec2(a[0], a[1]);
        boxes[i].max = vec2(a[2], a[3]);
        edges[i].v0 = 2 * i;
        edges[i].v1 = 2 * i + 1;
        verts[2 * i] = boxes[i].min;
        verts[2 * i + 1] = boxes[i].max;
      }
      std::vector<std::pair<int, int>> pairs;
      BVH empty;
      CollectIntersectionPairs(edges, verts, 0.0, boxes, empty, pairs);
      std::ostringstream o;
      o << "S " << id;
      for (auto& p : pairs) o << " " << p.first << " " << p.second;
      printf("%s\n", o.str().c_str());
    } else if (tag == "KD") {
      int n, m;
      in >> n >> m;
      Vec<PolyVert> pts(n);
      for (int i = 0; i < n; ++i) {
        long long x, y;
        in >> x >> y;
        pts[i].pos = vec2(x, y);
        pts[i].idx = i;
      }
      BuildTwoDTree(pts.view());
      std::ostringstream o;
      o << "K " << id << " tree";
      for (auto& p : pts) o << " " << p.idx;
      for (int q = 0; q < m; ++q) {
        long long a[4];
        for (auto& x : a) in >> x;
        Rect r;
        r.min = vec2(a[0], a[1]);
        r.max = vec2(a[2], a[3]);
        o << " q";
        QueryTwoDTree(pts.view(), r, [&](PolyVert p) { o << " " << p.idx; });
      }
      printf("%s\n", o.str().c_str());
    }
  }
  return 0;
}
