// C07 harness: runs stack programs over manifolds with property channels,
// face IDs and reserved original IDs; dumps (as JSON, one line per case) the
// sources, the result's meshRelation_ (triRef + meshIDtransform), the exported
// MeshGL64 and direct Impl-level "steps" (Boolean3::Result, Impl::Transform,
// CsgLeafNode::Compose, IncrementMeshIDs, InitializeOriginal) with the ID
// counter before/after.  Doubles are printed as IEEE-754 bit patterns.
#include <cstdint>
#include <cstdio>
#include <cstring>
#include <iostream>
#include <map>
#include <memory>
#include <sstream>
#include <string>
#include <vector>
#include <algorithm>
#include <atomic>
#include <mutex>
#define private public
#define protected public
#include "manifold/manifold.h"
#include "impl.h"
#include "csg_tree.h"
#include "boolean3.h"
#undef private
#undef protected

using namespace manifold;
typedef Manifold::Impl Impl;

static uint64_t bits(double d) { uint64_t u; memcpy(&u, &d, 8); return u; }
template <class V> static void jarr(std::ostream& o, const V& v) {
  o << "["; bool f = true; for (auto x : v) { if (!f) o << ","; f = false; o << (long long)x; } o << "]";
}
static void jdarr(std::ostream& o, const std::vector<double>& v) {
  o << "["; for (size_t i = 0; i < v.size(); ++i) { if (i) o << ","; o << bits(v[i]); } o << "]";
}
static void jmat(std::ostream& o, const mat3x4& m) {
  o << "["; for (int c = 0; c < 4; ++c) for (int r = 0; r < 3; ++r) { if (c || r) o << ","; o << bits(m[c][r]); } o << "]";
}
static void jrel(std::ostream& o, const Impl& impl) {
  const auto& mr = impl.meshRelation_;
  o << "{\"originalID\":" << mr.originalID << ",\"numTri\":" << impl.NumTri() << ",\"triRef\":[";
  for (size_t i = 0; i < mr.triRef.size(); ++i) {
    const TriRef& r = mr.triRef[i];
    if (i) o << ",";
    o << "[" << r.meshID << "," << r.originalID << "," << r.faceID << "," << r.coplanarID << "]";
  }
  o << "],\"map\":[";
  bool f = true;
  for (const auto& p : mr.meshIDtransform) {
    if (!f) o << ","; f = false;
    o << "[" << p.first << "," << p.second.originalID << "," << (p.second.backSide ? 1 : 0) << ","
      << (p.second.hasNormals ? 1 : 0) << ",";
    jmat(o, p.second.transform);
    o << "]";
  }
  o << "]}";
}
static void jmesh(std::ostream& o, const MeshGL64& g) {
  o << "\"numProp\":" << g.numProp << ",\"vertProperties\":"; jdarr(o, g.vertProperties);
  o << ",\"triVerts\":"; jarr(o, g.triVerts);
  o << ",\"faceID\":"; jarr(o, g.faceID);
  o << ",\"mergeFromVert\":"; jarr(o, g.mergeFromVert);
  o << ",\"mergeToVert\":"; jarr(o, g.mergeToVert);
  o << ",\"runIndex\":"; jarr(o, g.runIndex);
  o << ",\"runOriginalID\":"; jarr(o, g.runOriginalID);
  o << ",\"runFlags\":"; jarr(o, g.runFlags);
  o << ",\"runTransform\":"; jdarr(o, g.runTransform);
  o << ",\"tolerance\":" << bits(g.tolerance);
}

static uint64_t splitmix(uint64_t x) {
  x += 0x9e3779b97f4a7c15ULL; x = (x ^ (x >> 30)) * 0xbf58476d1ce4e5b9ULL;
  x = (x ^ (x >> 27)) * 0x94d049bb133111ebULL; return x ^ (x >> 31);
}
static int coef(uint64_t salt, uint64_t key, uint64_t c, uint64_t w) {
  return (int)(splitmix(splitmix(salt * 1000003ULL + key) * 31ULL + c * 7ULL + w) % 7ULL) - 3;
}

struct Ctx {
  std::vector<Manifold> st;
  std::vector<std::string> sources, steps;
  uint32_t counter() { return Impl::meshIDCounter_.load(); }
  Manifold pop() { if (st.empty()) throw std::runtime_error("stack underflow"); Manifold m = st.back(); st.pop_back(); return m; }
  void addSource(const char* kind, long long origID, int facemode, const MeshGL64& g) {
    std::ostringstream o; o << "{\"kind\":\"" << kind << "\",\"origID\":" << origID << ",\"facemode\":" << facemode << ",";
    jmesh(o, g); o << "}"; sources.push_back(o.str());
  }
};

static double parseRat(const std::string& s) {
  size_t k = s.find('/');
  if (k == std::string::npos) return (double)std::stoll(s);
  return (double)std::stoll(s.substr(0, k)) / (double)std::stoll(s.substr(k + 1));
}

static Manifold makeMesh(Ctx& cx, const Manifold& b, int nprop, int facemode, uint64_t salt) {
  MeshGL64 g = b.GetMeshGL64();
  const size_t np = g.numProp, nv = g.vertProperties.size() / np, nt = g.triVerts.size() / 3;
  std::vector<size_t> canon(nv);
  for (size_t i = 0; i < nv; ++i) canon[i] = i;
  for (size_t i = 0; i < g.mergeFromVert.size(); ++i) canon[g.mergeFromVert[i]] = g.mergeToVert[i];
  for (size_t i = 0; i < nv; ++i) { size_t c = i; int guard = 0; while (canon[c] != c && guard++ < 64) c = canon[c]; canon[i] = c; }
  std::vector<long long> grp(nt);
  for (size_t t = 0; t < nt; ++t) grp[t] = g.faceID.empty() ? (long long)t : (long long)g.faceID[t];
  std::vector<long long> distinct(grp); std::sort(distinct.begin(), distinct.end());
  distinct.erase(std::unique(distinct.begin(), distinct.end()), distinct.end());
  MeshGL64 in;
  in.numProp = 3 + nprop;
  if (nprop == 0) {
    std::vector<long long> newIdx(nv, -1); size_t cnt = 0;
    for (size_t i = 0; i < nv; ++i) if (canon[i] == i) {
      newIdx[i] = cnt++;
      for (int k = 0; k < 3; ++k) in.vertProperties.push_back(g.vertProperties[i * np + k]);
    }
    for (size_t e = 0; e < 3 * nt; ++e) in.triVerts.push_back(newIdx[canon[g.triVerts[e]]]);
  } else {
    std::vector<long long> first(nv, -1);
    for (size_t t = 0; t < nt; ++t) for (int j = 0; j < 3; ++j) {
      const size_t pv = 3 * t + j, v = canon[g.triVerts[pv]];
      const double x = g.vertProperties[v * np], y = g.vertProperties[v * np + 1], z = g.vertProperties[v * np + 2];
      in.vertProperties.push_back(x); in.vertProperties.push_back(y); in.vertProperties.push_back(z);
      const uint64_t key = facemode == 2 ? (uint64_t)t : (uint64_t)grp[t];
      for (int c = 0; c < nprop; ++c) {
        const double A = coef(salt, key, c, 0), B = coef(salt, key, c, 1), C = coef(salt, key, c, 2), D = coef(salt, key, c, 3);
        in.vertProperties.push_back(A * x + B * y + C * z + D);
      }
      in.triVerts.push_back(pv);
      if (first[v] < 0) first[v] = pv; else { in.mergeFromVert.push_back(pv); in.mergeToVert.push_back(first[v]); }
    }
  }
  if (facemode == 1) for (size_t t = 0; t < nt; ++t)
    in.faceID.push_back(7 + 3 * (std::lower_bound(distinct.begin(), distinct.end(), grp[t]) - distinct.begin()));
  if (facemode == 2) for (size_t t = 0; t < nt; ++t) in.faceID.push_back(100 + t);
  const uint32_t id = Manifold::ReserveIDs(1);
  in.runOriginalID = {id};
  Manifold m(in);
  if (m.Status() != Manifold::Error::NoError) throw std::runtime_error("mesh import rejected");
  if (m.NumTri() != nt) throw std::runtime_error("mesh import changed triangle count");
  cx.addSource("mesh", id, facemode, in);
  return m;
}

static void stepBool(Ctx& cx, const Manifold& a, const Manifold& b, OpType op, const char* name) {
  try {
    auto P = a.GetCsgLeafNode().GetImpl(); auto Q = b.GetCsgLeafNode().GetImpl();
    const uint32_t c0 = cx.counter();
    Boolean3 b3(*P, *Q, op);
    Impl R = b3.Result(op);
    const uint32_t c1 = cx.counter();
    std::ostringstream o;
    o << "{\"kind\":\"bool\",\"op\":\"" << name << "\",\"c0\":" << c0 << ",\"c1\":" << c1 << ",\"emptyP\":" << (P->IsEmpty() ? 1 : 0)
      << ",\"emptyQ\":" << (Q->IsEmpty() ? 1 : 0) << ",\"P\":"; jrel(o, *P); o << ",\"Q\":"; jrel(o, *Q); o << ",\"R\":"; jrel(o, R); o << "}";
    cx.steps.push_back(o.str());
  } catch (...) {}
}

static std::string runCase(const std::string& id, std::vector<std::string>& tk) {
  Ctx cx; size_t i = 0;
  auto nextS = [&]() -> std::string { if (i >= tk.size()) throw std::runtime_error("missing argument"); return tk[i++]; };
  auto nextI = [&]() -> long long { return std::stoll(nextS()); };
  while (i < tk.size()) {
    const std::string t = nextS();
    if (t == "cube" || t == "tet" || t == "sphere" || t == "cyl") {
      Manifold m;
      if (t == "cube") { double a = nextI(), b = nextI(), c = nextI(); m = Manifold::Cube({a, b, c}); }
      else if (t == "tet") m = Manifold::Tetrahedron();
      else if (t == "sphere") { double r = nextI(); int n = nextI(); m = Manifold::Sphere(r, n); }
      else { double h = nextI(), r = nextI(); int n = nextI(); m = Manifold::Cylinder(h, r, r, n); }
      cx.addSource("orig", m.OriginalID(), -1, m.GetMeshGL64());
      cx.st.push_back(m);
    } else if (t == "mesh") {
      int nprop = nextI(), fm = nextI(); uint64_t salt = nextI();
      Manifold b = cx.pop(); cx.st.push_back(makeMesh(cx, b, nprop, fm, salt));
    } else if (t == "asorig") {
      Manifold o = cx.pop().AsOriginal();
      cx.addSource("asorig", o.OriginalID(), -1, o.GetMeshGL64()); cx.st.push_back(o);
    } else if (t == "add" || t == "sub" || t == "int") {
      Manifold b = cx.pop(), a = cx.pop();
      const OpType op = t == "add" ? OpType::Add : t == "sub" ? OpType::Subtract : OpType::Intersect;
      stepBool(cx, a, b, op, t.c_str());
      cx.st.push_back(a.Boolean(b, op));
    } else if (t == "tr") {
      mat3x4 m;
      for (int c = 0; c < 4; ++c) for (int r = 0; r < 3; ++r) m[c][r] = parseRat(nextS());
      Manifold a = cx.pop();
      try {
        auto P = a.GetCsgLeafNode().GetImpl();
        Impl R = P->Transform(m);
        std::ostringstream o; o << "{\"kind\":\"transform\",\"mat\":"; jmat(o, m); o << ",\"P\":"; jrel(o, *P); o << ",\"R\":"; jrel(o, R); o << "}";
        cx.steps.push_back(o.str());
      } catch (...) {}
      cx.st.push_back(a.Transform(m));
    } else if (t == "mirror") {
      double x = nextI(), y = nextI(), z = nextI(); cx.st.push_back(cx.pop().Mirror({x, y, z}));
    } else if (t == "refine") {
      int n = nextI(); cx.st.push_back(cx.pop().Refine(n));
    } else if (t == "splitplane") {
      double x = nextI(), y = nextI(), z = nextI(), off = nextI(); int which = nextI();
      Manifold a = cx.pop();
      a.GetCsgLeafNode().GetImpl();   // evaluate the operand first: the next ID reserved is then the cutter's
      // SplitByPlane builds its half-space from the library original Manifold::Cube(vec3(2), true) (src/manifold.cpp
      // Halfspace); that cube is the first ID reserved inside the call.  Register an identical cube as its source.
      const uint32_t cutterID = cx.counter();
      auto pr = a.SplitByPlane({x, y, z}, off / 4.0);
      cx.addSource("halfspace", cutterID, -1, Manifold::Cube(vec3(2.0), true).GetMeshGL64());
      cx.st.push_back(which == 0 ? pr.first : pr.second);
    } else if (t == "split") {
      int which = nextI(); Manifold b = cx.pop(), a = cx.pop();
      auto pr = a.Split(b); cx.st.push_back(which == 0 ? pr.first : pr.second);
    } else if (t == "compose") {
      int k = nextI(); std::vector<Manifold> v(k);
      for (int j = k - 1; j >= 0; --j) v[j] = cx.pop();
      try {
        std::vector<std::shared_ptr<CsgLeafNode>> nodes; std::ostringstream o;
        o << "{\"kind\":\"compose\",\"nodes\":[";
        for (int j = 0; j < k; ++j) {
          CsgLeafNode& leaf = v[j].GetCsgLeafNode();
          auto node = std::make_shared<CsgLeafNode>(leaf.pImpl_, leaf.transform_);
          nodes.push_back(node);
          if (j) o << ",";
          o << "{\"transform\":"; jmat(o, node->transform_);
          o << ",\"identity\":" << (node->transform_ == mat3x4(la::identity) ? 1 : 0) << ",\"rel\":"; jrel(o, *node->pImpl_); o << "}";
        }
        const uint32_t c0 = cx.counter();
        auto leaf = CsgLeafNode::Compose(nodes);
        const uint32_t c1 = cx.counter();
        o << "],\"c0\":" << c0 << ",\"c1\":" << c1 << ",\"R\":"; jrel(o, *leaf->GetImpl()); o << "}";
        cx.steps.push_back(o.str());
      } catch (...) {}
      cx.st.push_back(Manifold::BatchBoolean(v, OpType::Add));
    } else if (t == "decompose") {
      int k = nextI(); auto v = cx.pop().Decompose();
      if (v.empty()) throw std::runtime_error("decompose of empty"); cx.st.push_back(v[k % v.size()]);
    } else if (t == "dup") { Manifold a = cx.pop(); cx.st.push_back(a); cx.st.push_back(a);
    } else if (t == "swap") { Manifold b = cx.pop(), a = cx.pop(); cx.st.push_back(b); cx.st.push_back(a);
    } else if (t == "over") { Manifold b = cx.pop(), a = cx.pop(); cx.st.push_back(a); cx.st.push_back(b); cx.st.push_back(a);
    } else if (t == "rot") { Manifold c = cx.pop(), b = cx.pop(), a = cx.pop(); cx.st.push_back(b); cx.st.push_back(c); cx.st.push_back(a);
    } else throw std::runtime_error("unknown token " + t);
  }
  Manifold r = cx.pop();
  if (r.Status() != Manifold::Error::NoError) throw std::runtime_error("result status not NoError");
  auto impl = r.GetCsgLeafNode().GetImpl();
  MeshGL64 out = r.GetMeshGL64();
  try {
    Impl cp = *impl; const uint32_t c0 = cx.counter(); cp.IncrementMeshIDs(); const uint32_t c1 = cx.counter();
    std::ostringstream o; o << "{\"kind\":\"increment\",\"c0\":" << c0 << ",\"c1\":" << c1 << ",\"P\":"; jrel(o, *impl); o << ",\"R\":"; jrel(o, cp); o << "}";
    cx.steps.push_back(o.str());
  } catch (...) {}
  try {
    Impl cp = *impl; const uint32_t c0 = cx.counter(); cp.InitializeOriginal(); const uint32_t c1 = cx.counter();
    std::ostringstream o; o << "{\"kind\":\"initorig\",\"c0\":" << c0 << ",\"c1\":" << c1 << ",\"P\":"; jrel(o, *impl); o << ",\"R\":"; jrel(o, cp); o << "}";
    cx.steps.push_back(o.str());
  } catch (...) {}
  std::ostringstream o;
  o << "{\"id\":\"" << id << "\",\"sources\":[";
  for (size_t k = 0; k < cx.sources.size(); ++k) { if (k) o << ","; o << cx.sources[k]; }
  o << "],\"rel\":"; jrel(o, *impl);
  o << ",\"tolerance\":" << bits(impl->tolerance_) << ",\"epsilon\":" << bits(impl->epsilon_) << ",\"numPropImpl\":" << impl->numProp_;
  o << ",\"out\":{"; jmesh(o, out); o << "},\"steps\":[";
  for (size_t k = 0; k < cx.steps.size(); ++k) { if (k) o << ","; o << cx.steps[k]; }
  o << "],\"counter\":" << cx.counter() << "}";
  return o.str();
}

int main() {
  std::string line;
  while (std::getline(std::cin, line)) {
    std::istringstream is(line); std::string cmd, id; is >> cmd >> id;
    if (cmd != "CASE") continue;
    std::vector<std::string> tk; std::string s; while (is >> s) tk.push_back(s);
    std::string res;
    try { res = runCase(id, tk); }
    catch (std::exception& e) { std::string w = e.what(); for (auto& ch : w) if (ch == '"' || ch == '\\' || ch < 32) ch = ' ';
      res = "{\"id\":\"" + id + "\",\"error\":\"" + w + "\"}"; }
    catch (...) { res = "{\"id\":\"" + id + "\",\"error\":\"unknown exception\"}"; }
    std::cout << res << std::endl;
  }
  return 0;
}
