// C18 harness: builds manifolds from a small stack program, runs the public
// measurement/query API and prints everything as integers and IEEE bit patterns.
// One case per input line:
//   CASE <id> <program tokens ...> ; <query tokens ...>
// program tokens (numbers are decimal doubles, parsed by strtod):
//   cube sx sy sz c | tet | sphere r n | cyl h rlo rhi n | lshape a b h | torus R r n m
//   tr x y z | rot x y z | sc x y z | add | sub | int | compose | dup | swap | settol t | simplify t
// queries (M = top of stack, N = the one below when present):
//   meas                     volume/area/bbox/counts + export of M
//   gap L1 L2 ...            MinGap(M, N, L) + export of N
//   ray ox oy oz ex ey ez    RayCast
//   wind x y z               WindingNumber
//   slice z | slicev k       Slice(z) / Slice at the height of exported vertex k
//   proj                     Project()
//   decomp                   Decompose()
//   tritri 18 doubles        DistanceTriangleTriangleSquared directly
#include <cstdint>
#include <cstdio>
#include <cstdlib>
#include <cstring>
#include <iostream>
#include <sstream>
#include <string>
#include <vector>

#include "manifold/manifold.h"
#include "tri_dist.h"

using namespace manifold;

static uint64_t bits(double d) {
  uint64_t u;
  memcpy(&u, &d, 8);
  return u;
}
static void pb(double d) { printf(" %016llx", (unsigned long long)bits(d)); }

static void dump_mesh(const char* tag, const std::string& id, const Manifold& m) {
  MeshGL64 g = m.GetMeshGL64();
  size_t nv = g.NumVert(), nt = g.NumTri();
  printf("%s %s %zu %zu %zu %zu", tag, id.c_str(), nv, nt, (size_t)g.numProp, g.mergeFromVert.size());
  for (size_t i = 0; i < nv; ++i)
    for (int k = 0; k < 3; ++k) pb(g.vertProperties[i * g.numProp + k]);
  for (size_t i = 0; i < 3 * nt; ++i) printf(" %llu", (unsigned long long)g.triVerts[i]);
  for (size_t i = 0; i < g.mergeFromVert.size(); ++i)
    printf(" %llu %llu", (unsigned long long)g.mergeFromVert[i], (unsigned long long)g.mergeToVert[i]);
  printf("\n");
}

static void dump_polys(const char* tag, const std::string& id, const Polygons& ps) {
  printf("%s %s %zu", tag, id.c_str(), ps.size());
  for (auto& p : ps) {
    printf(" %zu", p.size());
    for (auto& v : p) {
      pb(v.x);
      pb(v.y);
    }
  }
  printf("\n");
}

int main() {
  std::string line;
  while (std::getline(std::cin, line)) {
    std::istringstream is(line);
    std::string tok, id;
    is >> tok;
    if (tok != "CASE") continue;
    is >> id;
    std::vector<Manifold> st;
    auto num = [&]() {
      std::string s;
      is >> s;
      return strtod(s.c_str(), nullptr);
    };
    bool queries = false;
    int qn = 0;
    while (is >> tok) {
      if (tok == ";") {
        queries = true;
        continue;
      }
      if (!queries) {
        if (tok == "cube") {
          double x = num(), y = num(), z = num();
          int c = (int)num();
          st.push_back(Manifold::Cube(vec3(x, y, z), c != 0));
        } else if (tok == "tet") {
          st.push_back(Manifold::Tetrahedron());
        } else if (tok == "sphere") {
          double r = num();
          int n = (int)num();
          st.push_back(Manifold::Sphere(r, n));
        } else if (tok == "cyl") {
          double h = num(), a = num(), b = num();
          int n = (int)num();
          st.push_back(Manifold::Cylinder(h, a, b, n, false));
        } else if (tok == "lshape") {
          double a = num(), b = num(), h = num();
          // L-shaped polygon: [0,a]x[0,a] minus (b,a]x(b,a]
          Polygons p = {{{0, 0}, {a, 0}, {a, b}, {b, b}, {b, a}, {0, a}}};
          st.push_back(Manifold::Extrude(p, h));
        } else if (tok == "torus") {
          double R = num(), r = num();
          int n = (int)num(), m = (int)num();
          SimplePolygon c;
          for (int i = 0; i < m; ++i) {
            double t = 2 * 3.14159265358979323846 * i / m;
            c.push_back({R + r * cos(t), r * sin(t)});
          }
          st.push_back(Manifold::Revolve({c}, n));
        } else if (tok == "tr") {
          double x = num(), y = num(), z = num();
          st.back() = st.back().Translate(vec3(x, y, z));
        } else if (tok == "rot") {
          double x = num(), y = num(), z = num();
          st.back() = st.back().Rotate(x, y, z);
        } else if (tok == "sc") {
          double x = num(), y = num(), z = num();
          st.back() = st.back().Scale(vec3(x, y, z));
        } else if (tok == "add" || tok == "sub" || tok == "int" || tok == "compose") {
          Manifold b = st.back();
          st.pop_back();
          Manifold a = st.back();
          st.pop_back();
          if (tok == "add") st.push_back(a + b);
          if (tok == "sub") st.push_back(a - b);
          if (tok == "int") st.push_back(a ^ b);
          if (tok == "compose") st.push_back(Manifold::Compose({a, b}));
        } else if (tok == "settol") {
          st.back() = st.back().SetTolerance(num());
        } else if (tok == "simplify") {
          st.back() = st.back().Simplify(num());
        } else if (tok == "dup") {
          st.push_back(st.back());
        } else if (tok == "swap") {
          std::swap(st[st.size() - 1], st[st.size() - 2]);
        }
        continue;
      }
      // ---- queries
      const Manifold& M = st.back();
      std::string qid = id + "." + std::to_string(qn++);
      if (tok == "meas") {
        dump_mesh("M", id, M);
        Box b = M.BoundingBox();
        printf("Q %s", id.c_str());
        pb(M.Volume());
        pb(M.SurfaceArea());
        pb(b.min.x); pb(b.min.y); pb(b.min.z); pb(b.max.x); pb(b.max.y); pb(b.max.z);
        printf(" %zu %zu %zu %d %d %d", M.NumVert(), M.NumTri(), M.NumProp(), (int)M.IsEmpty(), M.Genus(), (int)M.Status());
        pb(M.GetEpsilon());
        pb(M.GetTolerance());
        printf("\n");
      } else if (tok == "gap") {
        const Manifold& N = st[st.size() - 2];
        dump_mesh("N", id, N);
        std::string rest;
        std::getline(is, rest);
        std::istringstream rs(rest);
        std::string s;
        printf("G %s", id.c_str());
        std::vector<double> Ls;
        while (rs >> s) Ls.push_back(strtod(s.c_str(), nullptr));
        printf(" %zu", Ls.size());
        for (double L : Ls) {
          pb(L);
          pb(M.MinGap(N, L));
          pb(N.MinGap(M, L));
        }
        printf("\n");
        break;
      } else if (tok == "ray") {
        vec3 o, e;
        o.x = num(); o.y = num(); o.z = num(); e.x = num(); e.y = num(); e.z = num();
        auto hits = M.RayCast(o, e);
        printf("R %s", qid.c_str());
        pb(o.x); pb(o.y); pb(o.z); pb(e.x); pb(e.y); pb(e.z);
        printf(" %zu", hits.size());
        for (auto& h : hits) {
          pb(h.distance); pb(h.position.x); pb(h.position.y); pb(h.position.z);
          printf(" %llu", (unsigned long long)h.faceID);
        }
        printf("\n");
      } else if (tok == "wind") {
        vec3 p;
        p.x = num(); p.y = num(); p.z = num();
        auto w = M.WindingNumber({p});
        printf("W %s", qid.c_str());
        pb(p.x); pb(p.y); pb(p.z);
        printf(" %d\n", w.empty() ? -999 : w[0]);
      } else if (tok == "slice") {
        double z = num();
        printf("SZ %s", qid.c_str());
        pb(z);
        printf("\n");
        dump_polys("S", qid, M.Slice(z));
      } else if (tok == "slicev") {
        // slice exactly at the height of an exported vertex (non-generic height)
        int k = (int)num();
        MeshGL64 g = M.GetMeshGL64();
        if (g.NumVert() > 0) {
          double z = g.vertProperties[(size_t)(k % (int)g.NumVert()) * g.numProp + 2];
          printf("SZ %s", qid.c_str());
          pb(z);
          printf("\n");
          dump_polys("S", qid, M.Slice(z));
        }
      } else if (tok == "proj") {
        dump_polys("P", qid, M.Project());
      } else if (tok == "decomp") {
        auto parts = M.Decompose();
        printf("D %s %zu\n", id.c_str(), parts.size());
        for (size_t j = 0; j < parts.size(); ++j) {
          std::string pid = id + "/" + std::to_string(j);
          dump_mesh("DM", pid, parts[j]);
        }
      } else if (tok == "tritri") {
        std::array<vec3, 3> p, q;
        for (int i = 0; i < 3; ++i) { p[i].x = num(); p[i].y = num(); p[i].z = num(); }
        for (int i = 0; i < 3; ++i) { q[i].x = num(); q[i].y = num(); q[i].z = num(); }
        printf("T %s", qid.c_str());
        for (int i = 0; i < 3; ++i) { pb(p[i].x); pb(p[i].y); pb(p[i].z); }
        for (int i = 0; i < 3; ++i) { pb(q[i].x); pb(q[i].y); pb(q[i].z); }
        pb(DistanceTriangleTriangleSquared(p, q));
        printf("\n");
      }
    }
    printf("END %s\n", id.c_str());
    fflush(stdout);
  }
  return 0;
}
