// C02 kernel correspondence harness: calls the REAL anonymous-namespace kernels
// of /repo's src/boolean3.cpp (Shadow01, Kernel02, Kernel11, Kernel12) and the
// real Boolean3 constructor (xv12_, xv21_, w03_, w30_) on operand pairs, and
// prints (a) the operand data the exact model needs (vertPos_, vertNormal_,
// faceNormal_, halfedges: exact bit patterns) and (b) the kernels' integer
// outputs in a canonical order.  extract/c02k_driver.ml prints the same lines
// from the extracted Coq model; checks/C02.py diffs them.
//
// stdin:  K <id> <op 0=Add 1=Subtract 2=Intersect> <capV> <capF> <capE> L <progP> | <progQ>
//         K <id> <op> <capV> <capF> <capE> G <shapeP> <shapeQ>          (shape syntax of c02_bool.cpp)
#include <cmath>
#include <cstdint>
#include <cstdio>
#include <cstring>
#include <iostream>
#include <sstream>
#include <string>
#include <vector>
#include <algorithm>
#include <array>
#include <atomic>
#include <chrono>
#include <functional>
#include <future>
#include <limits>
#include <map>
#include <memory>
#include <mutex>
#include <optional>
#include <set>
#include <thread>
#include <unordered_map>
#include <unordered_set>
#include <variant>
#define private public
#include "manifold/manifold.h"
#include "csg_tree.h"
#include "boolean3.cpp"
#undef private
using namespace manifold;

static void putd(std::string& o, double x) {
  char buf[40];
  if (std::isfinite(x) && std::fabs(x) < 4503599627370496.0 && (double)(long long)x == x) {
    snprintf(buf, sizeof buf, " %lld", (long long)x);
  } else {
    uint64_t b;
    memcpy(&b, &x, 8);
    snprintf(buf, sizeof buf, " x%016llx", (unsigned long long)b);
  }
  o += buf;
}

static Manifold lattice(std::istringstream& in) {
  std::string t;
  in >> t;
  if (t == "B") {
    double a[6];
    for (auto& x : a) in >> x;
    return Manifold::Cube(vec3(a[3] - a[0], a[4] - a[1], a[5] - a[2])).Translate(vec3(a[0], a[1], a[2]));
  }
  if (t == "+" || t == "-" || t == "^") {
    Manifold a = lattice(in), b = lattice(in);
    Manifold r = t == "+" ? a + b : t == "-" ? a - b : a ^ b;
    (void)r.NumTri();
    return r;
  }
  throw std::runtime_error("bad token " + t);
}

static double rdHex(std::istringstream& in) {
  std::string s;
  in >> s;
  return strtod(s.c_str(), nullptr);
}
static Manifold readShape(std::istringstream& in) {
  int kind;
  in >> kind;
  double p[4], r[3], s[3], t[3];
  for (auto& x : p) x = rdHex(in);
  for (auto& x : r) x = rdHex(in);
  for (auto& x : s) x = rdHex(in);
  for (auto& x : t) x = rdHex(in);
  Manifold m;
  switch (kind) {
    case 0: m = Manifold::Cube(vec3(p[0], p[1], p[2]), true); break;
    case 1: m = Manifold::Sphere(p[0], 4 * (int)p[1]); break;
    case 2: m = Manifold::Cylinder(p[0], p[1], p[2], 4 * (int)p[3], true); break;
    default: m = Manifold::Tetrahedron(); break;
  }
  return m.Scale(vec3(s[0], s[1], s[2])).Rotate(r[0], r[1], r[2]).Translate(vec3(t[0], t[1], t[2]));
}

static void printK(const std::string& name, const Manifold::Impl& m) {
  size_t nv = m.NumVert(), nh = m.halfedge_.size(), nf = m.NumTri();
  std::string o = "KMESH " + name + " " + std::to_string(nv) + " " + std::to_string(nh) + " " + std::to_string(nf);
  for (size_t v = 0; v < nv; ++v) for (int k = 0; k < 3; ++k) putd(o, m.vertPos_[v][k]);
  for (size_t v = 0; v < nv; ++v) for (int k = 0; k < 3; ++k) putd(o, m.vertNormal_[v][k]);
  for (size_t f = 0; f < nf; ++f) for (int k = 0; k < 3; ++k) putd(o, m.faceNormal_[f][k]);
  for (size_t h = 0; h < nh; ++h) o += " " + std::to_string(m.halfedge_.Start(h));
  for (size_t h = 0; h < nh; ++h) o += " " + std::to_string(m.halfedge_.Pair(h));
  puts(o.c_str());
}

static std::vector<int> fwdEdges(const Manifold::Impl& m, int cap) {
  std::vector<int> r;
  for (int h = 0; h < (int)m.halfedge_.size() && (int)r.size() < cap; ++h)
    if (m.halfedge_.Start(h) < m.halfedge_.End(h)) r.push_back(h);
  return r;
}

template <bool expandP>
static void runKernels(const std::string& id, const Manifold::Impl& P, const Manifold::Impl& Q, int capV, int capF, int capE) {
  int nvP = std::min<int>(P.NumVert(), capV), nvQ = std::min<int>(Q.NumVert(), capV);
  int nfP = std::min<int>(P.NumTri(), capF), nfQ = std::min<int>(Q.NumTri(), capF);
  auto eP = fwdEdges(P, capE), eQ = fwdEdges(Q, capE);
  std::string o;
  // Shadow01 forward: P vertex vs Q forward halfedge; backward: Q vertex vs P forward halfedge
  o = "S01F " + id;
  for (int a = 0; a < nvP; ++a) for (int h : eQ)
    o += " " + std::to_string(Shadow01<expandP, true>(a, h, Q.halfedge_.Start(h), Q.halfedge_.End(h), P, Q).first);
  puts(o.c_str());
  o = "S01B " + id;
  for (int a = 0; a < nvQ; ++a) for (int h : eP)
    o += " " + std::to_string(Shadow01<expandP, false>(a, h, P.halfedge_.Start(h), P.halfedge_.End(h), Q, P).first);
  puts(o.c_str());
  Kernel02<expandP, true> k02f{P, Q};
  Kernel02<expandP, false> k02b{Q, P};
  o = "K02F " + id;
  for (int a = 0; a < nvP; ++a) for (int b = 0; b < nfQ; ++b) o += " " + std::to_string(k02f(a, b).first);
  puts(o.c_str());
  o = "K02B " + id;
  for (int a = 0; a < nvQ; ++a) for (int b = 0; b < nfP; ++b) o += " " + std::to_string(k02b(a, b).first);
  puts(o.c_str());
  Kernel11<expandP> k11{P, Q};
  o = "K11 " + id;
  for (int p : eP) for (int q : eQ)
    o += " " + std::to_string(k11(p, P.halfedge_.Start(p), P.halfedge_.End(p), q, Q.halfedge_.Start(q), Q.halfedge_.End(q)).first);
  puts(o.c_str());
  Kernel12<expandP, true> k12f{P, Q, k02f, k11};
  Kernel12<expandP, false> k12b{Q, P, k02b, k11};
  o = "K12F " + id;
  for (int p : eP) for (int b = 0; b < nfQ; ++b) o += " " + std::to_string(k12f(p, b).first);
  puts(o.c_str());
  o = "K12B " + id;
  for (int q : eQ) for (int b = 0; b < nfP; ++b) o += " " + std::to_string(k12b(q, b).first);
  puts(o.c_str());
}

int main() {
  std::string line;
  while (std::getline(std::cin, line)) {
    std::istringstream in(line);
    std::string tag, id, kind;
    int op, capV, capF, capE;
    in >> tag >> id >> op >> capV >> capF >> capE >> kind;
    if (tag != "K") continue;
    try {
      Manifold mp, mq;
      if (kind == "L") {
        mp = lattice(in);
        std::string bar;
        in >> bar;
        mq = lattice(in);
      } else {
        mp = readShape(in);
        mq = readShape(in);
      }
      auto ip = mp.GetCsgLeafNode().GetImpl();
      auto iq = mq.GetCsgLeafNode().GetImpl();
      const Manifold::Impl& P = *ip;
      const Manifold::Impl& Q = *iq;
      printK("P" + id, P);
      printK("Q" + id, Q);
      OpType ot = op == 0 ? OpType::Add : op == 1 ? OpType::Subtract : OpType::Intersect;
      if (ot == OpType::Add) runKernels<true>(id, P, Q, capV, capF, capE);
      else runKernels<false>(id, P, Q, capV, capF, capE);
      // the real Boolean3 (public members through #define private public)
      Boolean3 b3(P, Q, ot);
      std::string o = "B3 " + id + " " + std::to_string(b3.xv12_.p1q2.size());
      for (size_t i = 0; i < b3.xv12_.p1q2.size(); ++i)
        o += " " + std::to_string(b3.xv12_.p1q2[i][0]) + " " + std::to_string(b3.xv12_.p1q2[i][1]) + " " + std::to_string(b3.xv12_.x12[i]);
      o += " " + std::to_string(b3.xv21_.p1q2.size());
      for (size_t i = 0; i < b3.xv21_.p1q2.size(); ++i)
        o += " " + std::to_string(b3.xv21_.p1q2[i][0]) + " " + std::to_string(b3.xv21_.p1q2[i][1]) + " " + std::to_string(b3.xv21_.x12[i]);
      o += " " + std::to_string(b3.w03_.size());
      for (int w : b3.w03_) o += " " + std::to_string(w);
      o += " " + std::to_string(b3.w30_.size());
      for (int w : b3.w30_) o += " " + std::to_string(w);
      puts(o.c_str());
      std::string v = "V12 " + id;
      for (size_t i = 0; i < b3.xv12_.v12.size(); ++i) for (int k = 0; k < 3; ++k) putd(v, b3.xv12_.v12[i][k]);
      v += " |";
      for (size_t i = 0; i < b3.xv21_.v12.size(); ++i) for (int k = 0; k < 3; ++k) putd(v, b3.xv21_.v12[i][k]);
      puts(v.c_str());
      printf("KD %s %d %d %d %d\n", id.c_str(), (int)P.NumVert(), (int)P.NumTri(), (int)Q.NumVert(), (int)Q.NumTri());
    } catch (std::exception& e) {
      printf("KD %s error %s\n", id.c_str(), e.what());
    }
    fflush(stdout);
  }
  return 0;
}
