// C10 harness: runs /repo's current triangulator on polygon sets read from stdin
// and prints, per case and variant, the returned triangles, the epsilon used,
// a reciprocity check of the halfedge pairing and (when the trace hook
// hooks/C10.patch is present in the included polygon.cpp) the integer decisions
// of EarClip plus the final polygon_ links.
//
// The polygon.cpp under test is included textually (path in C10_POLYGON_CPP):
// either /repo/src/polygon.cpp (hook committed) or a scratch copy of it to which
// the check applied the add-only hook patch.  Without C10_POLYGON_CPP the library
// object is used and no trace is printed.
//
// input :  CASE <id> <epsbits> <npoly> { <n> { <idx> <xbits> <ybits> }*n }*npoly
// output:  R  <id> <variant> <epsbits_out> <pair_ok> <api_eq> <ntri> {a b c}*
//          EV <id> <variant> <nev> { <tag> <a> <b> <c> }*        (hook only)
//          PG <id> <variant> <n> { <mesh_idx> <left> <right> }*   (hook only)
//          HP <id> <n> { pairedHalfedge }*n   (variant 1 only: the hash pairing, compared with the model)
//          DONE <id>
// variants: 0 fresh allowConvex=true, 1 fresh allowConvex=false,
//           2 reused triangulator allowConvex=false, 3 reused allowConvex=true
#include <cstdint>
#include <cstdio>
#include <cstring>
#include <iostream>
#include <sstream>
#include <string>
#include <vector>

#ifdef C10_POLYGON_CPP
#include C10_POLYGON_CPP
#else
#include "manifold/polygon.h"
#include "polygon_internal.h"
#endif

using namespace manifold;

struct Ev {
  int tag, a, b, c;
};
static std::vector<Ev> g_events;
#ifdef C10_HAVE_HOOK
static void Trace(int tag, int a, int b, int c) {
  g_events.push_back({tag, a, b, c});
}
#endif

static double FromBits(const std::string& s) {
  uint64_t u = std::stoull(s, nullptr, 16);
  double d;
  std::memcpy(&d, &u, 8);
  return d;
}
static std::string ToBits(double d) {
  uint64_t u;
  std::memcpy(&u, &d, 8);
  char buf[32];
  std::snprintf(buf, sizeof buf, "%016llx", (unsigned long long)u);
  return buf;
}

static bool PairingOk(const HalfedgeTriangulation& h) {
  const int n = h.halfedges.size();
  for (int i = 0; i < n; ++i) {
    const int p = h.halfedges[i].pairedHalfedge;
    if (p < 0 || p >= n) return false;
    if (h.halfedges[p].pairedHalfedge != i) return false;
    if (h.halfedges[i].startVert != h.halfedges[p].endVert ||
        h.halfedges[i].endVert != h.halfedges[p].startVert)
      return false;
  }
  return true;
}

int main() {
  std::ios::sync_with_stdio(false);
#ifdef C10_HAVE_HOOK
  manifold::verifEarClipTrace = Trace;
#endif
  PolygonTriangulator reused;  // shared by all cases: state must not leak
  std::string line;
  while (std::getline(std::cin, line)) {
    std::istringstream in(line);
    std::string kw, id, epsbits;
    in >> kw;
    if (kw != "CASE") continue;
    int npoly;
    in >> id >> epsbits >> npoly;
    const double eps = FromBits(epsbits);
    PolygonsIdx polys(npoly);
    for (int p = 0; p < npoly; ++p) {
      int n;
      in >> n;
      polys[p].resize(n);
      for (int i = 0; i < n; ++i) {
        std::string xb, yb;
        int idx;
        in >> idx >> xb >> yb;
        polys[p][i] = {vec2(FromBits(xb), FromBits(yb)), idx};
      }
    }
    for (int variant = 0; variant < 4; ++variant) {
      g_events.clear();
      const bool allowConvex = variant == 0 || variant == 3;
      HalfedgeTriangulation h =
          variant < 2
              ? TriangulateIdxHalfedges(polys, eps, allowConvex)
              : TriangulateIdxHalfedges(polys, eps, allowConvex, reused);
      std::vector<Ev> events;
      events.swap(g_events);
      const std::vector<ivec3> tris = h.Triangles();
      int apiEq = 1;
      if (variant < 2) {
        const std::vector<ivec3> api = TriangulateIdx(polys, eps, allowConvex);
        apiEq = api == tris ? 1 : 0;
        g_events.clear();
      }
      std::ostringstream out;
      out << "R " << id << " " << variant << " " << ToBits(h.epsilon) << " "
          << (PairingOk(h) ? 1 : 0) << " " << apiEq << " " << tris.size();
      for (const ivec3& t : tris) out << " " << t[0] << " " << t[1] << " " << t[2];
      out << "\n";
      if (variant == 1 && h.halfedges.size() <= 6000) {
        out << "HP " << id << " " << h.halfedges.size();
        for (const Halfedge& e : h.halfedges) out << " " << e.pairedHalfedge;
        out << "\n";
      }
#ifdef C10_HAVE_HOOK
      size_t nev = 0, npg = 0;
      for (const Ev& e : events) (e.tag == 'G' ? npg : nev)++;
      out << "EV " << id << " " << variant << " " << nev;
      for (const Ev& e : events)
        if (e.tag != 'G')
          out << " " << (char)e.tag << " " << e.a << " " << e.b << " " << e.c;
      out << "\nPG " << id << " " << variant << " " << npg;
      for (const Ev& e : events)
        if (e.tag == 'G') out << " " << e.a << " " << e.b << " " << e.c;
      out << "\n";
#endif
      std::cout << out.str();
    }
    std::cout << "DONE " << id << std::endl;
  }
  return 0;
}
