// C16 harness: Hull of point clouds / manifolds and Minkowski sum / difference.
//   HULLP <id> <n> x y z ...          Manifold::Hull(points)
//   HULLM <id> <program>              Hull() of the one manifold / Hull(vector) of all manifolds left on the stack
//   MINK <id> sum|diff <program A> | <program B>
// Output: bit patterns and integers only.
//   CONV <id> <program>               Impl::IsConvex() of the manifold + its export (direct tie of the Minkowski dispatch)
#include <algorithm>
#include <array>
#include <atomic>
#include <cmath>
#include <cstdint>
#include <cstdio>
#include <cstdlib>
#include <cstring>
#include <functional>
#include <iostream>
#include <map>
#include <memory>
#include <mutex>
#include <set>
#include <sstream>
#include <string>
#include <unordered_map>
#include <unordered_set>
#include <vector>
#define private public
#define protected public
#include "manifold/manifold.h"
#include "impl.h"
#include "csg_tree.h"
#undef private
#undef protected

#include "c16_prog.h"

using namespace manifold;
using namespace c16;

int main() {
  std::string line;
  while (std::getline(std::cin, line)) {
    std::istringstream is(line);
    std::string cmd, id;
    is >> cmd >> id;
    if (cmd == "HULLP") {
      size_t n;
      is >> n;
      std::vector<vec3> pts(n);
      for (auto& p : pts) {
        std::string a, b, c;
        is >> a >> b >> c;
        p = vec3(strtod(a.c_str(), nullptr), strtod(b.c_str(), nullptr), strtod(c.c_str(), nullptr));
      }
      Manifold h = Manifold::Hull(pts);
      printf("HP %s %zu", id.c_str(), n);
      for (auto& p : pts) { pb(p.x); pb(p.y); pb(p.z); }
      printf("\n");
      printf("HS %s %d", id.c_str(), (int)h.Status());
      pb(h.GetEpsilon()); pb(h.GetTolerance()); pb(h.Volume());
      printf(" %d %d\n", (int)h.Simplify().IsEmpty(), (int)h.IsEmpty());
      dump_mesh("HM", id, h);
    } else if (cmd == "HULLM") {
      std::vector<Manifold> st;
      run_program(is, st);
      Manifold h = st.size() == 1 ? st[0].Hull() : Manifold::Hull(st);
      std::vector<double> pts;
      for (auto& m : st) {
        MeshGL64 g = m.GetMeshGL64();
        for (size_t i = 0; i < g.NumVert(); ++i)
          for (int k = 0; k < 3; ++k) pts.push_back(g.vertProperties[i * g.numProp + k]);
      }
      printf("HP %s %zu", id.c_str(), pts.size() / 3);
      for (double d : pts) pb(d);
      printf("\n");
      printf("HS %s %d", id.c_str(), (int)h.Status());
      pb(h.GetEpsilon()); pb(h.GetTolerance()); pb(h.Volume());
      printf(" %d %d\n", (int)h.Simplify().IsEmpty(), (int)h.IsEmpty());
      dump_mesh("HM", id, h);
    } else if (cmd == "CONV") {
      std::vector<Manifold> st;
      run_program(is, st);
      const Manifold& M = st.back();
      auto impl = M.GetCsgLeafNode().GetImpl();
      printf("CV %s %d %d %d", id.c_str(), (int)M.Status(), (int)impl->IsConvex(), M.Genus());
      pb(M.GetTolerance());
      printf("\n");
      dump_mesh("CM", id, M);
    } else if (cmd == "MINK") {
      std::string op;
      is >> op;
      std::vector<Manifold> sa, sb;
      std::string t = run_program(is, sa);
      if (t != "|") { printf("ERR %s bad-program\n", id.c_str()); continue; }
      run_program(is, sb);
      const Manifold &A = sa.back(), &B = sb.back();
      Manifold R = op == "sum" ? A.MinkowskiSum(B) : A.MinkowskiDifference(B);
      printf("MS %s %s %d", id.c_str(), op.c_str(), (int)R.Status());
      pb(A.Volume()); pb(B.Volume()); pb(R.Volume()); pb(R.GetTolerance());
      printf(" %d %d %d %d\n", (int)(A.Genus()), (int)(B.Genus()), (int)A.GetCsgLeafNode().GetImpl()->IsConvex(),
             (int)B.GetCsgLeafNode().GetImpl()->IsConvex());
      dump_mesh("MA", id, A);
      dump_mesh("MB", id, B);
      dump_mesh("MR", id, R);
    }
    printf("END %s\n", id.c_str());
    fflush(stdout);
  }
  return 0;
}
