// C12 harness: runs /repo's SimplifyRing / HullImpl (anonymous namespace of
// cross_section.cpp, reached by including the .cpp), DecomposeByContainment and
// the public CrossSection::{Offset,Hull,Decompose,Simplify}.
// One command per stdin line; integer commands use decimal integers, the API
// commands exchange doubles as 16-digit hex bit patterns (never printed as
// decimals).  RING = n x y ...   RINGS = k RING ...
//   SIMP id num den RING(int)         SimplifyRing(ring, num/den)      -> SIMP id RING(int)
//   HULL id RING(int)                 HullImpl(points)                  -> HULL id RING(int)
//   DECO id RINGS(int)                DecomposeByContainment            -> DECO id nc (k idx...)...
//   SIMPAPI id tolbits RINGS(bits)    CrossSection(polys).Simplify(tol) -> SIMPAPI id tol_in_bits IN RINGS OUT RINGS
//   HULLAPI id RING(bits)             CrossSection::Hull(points)        -> HULLAPI id RINGS
//   DECOAPI id RINGS(bits)            CrossSection(polys).Decompose()   -> DECOAPI id IN RINGS nc RINGS...
//   OFF id deltabits jt mlbits segs RINGS(bits)  CrossSection(polys).Offset(...)
//                                     -> OFF id tolbits IN RINGS OUT RINGS
#include <cinttypes>
#include <cstdint>
#include <cstdio>
#include <cstring>
#include <iostream>
#include <sstream>
#include <string>
#include <vector>

#include "../src/cross_section.cpp"

using namespace manifold;

static double bits2d(const std::string& s) {
  uint64_t u = std::strtoull(s.c_str(), nullptr, 16);
  double d;
  std::memcpy(&d, &u, 8);
  return d;
}
static void pd(double d) {
  uint64_t u;
  std::memcpy(&u, &d, 8);
  printf(" %016" PRIx64, u);
}
static SimplePolygon readRingInt(std::istream& in) {
  int n;
  in >> n;
  SimplePolygon r(n);
  for (int i = 0; i < n; ++i) {
    long long x, y;
    in >> x >> y;
    r[i] = vec2((double)x, (double)y);
  }
  return r;
}
static SimplePolygon readRingBits(std::istream& in) {
  int n;
  in >> n;
  SimplePolygon r(n);
  for (int i = 0; i < n; ++i) {
    std::string x, y;
    in >> x >> y;
    r[i] = vec2(bits2d(x), bits2d(y));
  }
  return r;
}
static void printRingInt(const SimplePolygon& r) {
  printf(" %zu", r.size());
  for (const vec2& p : r) printf(" %lld %lld", (long long)p.x, (long long)p.y);
}
static void printRings(const Polygons& ps) {
  printf(" %zu", ps.size());
  for (const auto& r : ps) {
    printf(" %zu", r.size());
    for (const vec2& p : r) {
      pd(p.x);
      pd(p.y);
    }
  }
}

int main() {
  std::string line;
  while (std::getline(std::cin, line)) {
    std::istringstream in(line);
    std::string tag, id;
    in >> tag >> id;
    if (tag == "SIMP") {
      long long num, den;
      in >> num >> den;
      SimplePolygon ring = readRingInt(in);
      SimplePolygon out = SimplifyRing(ring, (double)num / (double)den);
      printf("SIMP %s", id.c_str());
      printRingInt(out);
      printf("\n");
    } else if (tag == "HULL") {
      SimplePolygon pts = readRingInt(in);
      SimplePolygon out = HullImpl(pts);
      printf("HULL %s", id.c_str());
      printRingInt(out);
      printf("\n");
    } else if (tag == "DECO") {
      int k;
      in >> k;
      Polygons polys;
      for (int i = 0; i < k; ++i) polys.push_back(readRingInt(in));
      std::vector<Polygons> comps = DecomposeByContainment(polys);
      std::vector<char> used(polys.size(), 0);
      printf("DECO %s %zu", id.c_str(), comps.size());
      for (const auto& c : comps) {
        printf(" %zu", c.size());
        for (const auto& r : c) {
          int found = -1;
          for (size_t j = 0; j < polys.size(); ++j) {
            if (!used[j] && polys[j] == r) {
              found = (int)j;
              used[j] = 1;
              break;
            }
          }
          printf(" %d", found);
        }
      }
      printf("\n");
    } else if (tag == "SIMPAPI") {
      std::string tb;
      in >> tb;
      int k;
      in >> k;
      Polygons polys;
      for (int i = 0; i < k; ++i) polys.push_back(readRingBits(in));
      CrossSection cs(polys);
      CrossSection out = cs.Simplify(bits2d(tb));
      printf("SIMPAPI %s", id.c_str());
      pd(cs.GetTolerance());
      printf(" IN");
      printRings(cs.ToPolygons());
      printf(" OUT");
      printRings(out.ToPolygons());
      printf("\n");
    } else if (tag == "HULLAPI") {
      SimplePolygon pts = readRingBits(in);
      CrossSection out = CrossSection::Hull(pts);
      printf("HULLAPI %s", id.c_str());
      printRings(out.ToPolygons());
      printf("\n");
    } else if (tag == "DECOAPI") {
      int k;
      in >> k;
      Polygons polys;
      for (int i = 0; i < k; ++i) polys.push_back(readRingBits(in));
      CrossSection cs(polys);
      std::vector<CrossSection> parts = cs.Decompose();
      printf("DECOAPI %s IN", id.c_str());
      printRings(cs.ToPolygons());
      printf(" %zu", parts.size());
      for (const auto& p : parts) printRings(p.ToPolygons());
      printf("\n");
    } else if (tag == "OFF") {
      std::string db, mb;
      int jt, segs, k;
      in >> db >> jt >> mb >> segs >> k;
      Polygons polys;
      for (int i = 0; i < k; ++i) polys.push_back(readRingBits(in));
      CrossSection cs(polys);
      CrossSection out = cs.Offset(bits2d(db), (CrossSection::JoinType)jt, bits2d(mb), segs);
      printf("OFF %s", id.c_str());
      pd(out.GetTolerance());
      printf(" IN");
      printRings(cs.ToPolygons());
      printf(" OUT");
      printRings(out.ToPolygons());
      printf("\n");
    }
    fflush(stdout);
  }
  return 0;
}
