// C17 correspondence harness: raw triVerts of Manifold::Extrude / Revolve as
// handed to CreateHalfedges (captured by wrapping the call with a macro while
// #including src/constructors.cpp), Quality::GetCircularSegments, sind/cosd bits.
//
// stdin, one case per line:
//   EXT id nDivisions cone twist k n1..nk      regular n_j-gons at (3j,0)
//   REV id circularSegments revolveDegrees npoly  n x y ... (per polygon)
//   SEG id angle length explicit radius        (setters applied in this order when != -1)
//   SIND id <hex double>
#include <cinttypes>
#include <cmath>
#include <cstdio>
#include <cstring>
#include <iostream>
#include <sstream>
#include <string>
#include <vector>

#include "csg_tree.h"
#include "disjoint_sets.h"
#include "impl.h"
#include "manifold/manifold.h"
#include "manifold/polygon.h"
#include "parallel.h"

static std::vector<manifold::ivec3> g_cap;
static size_t g_nv = 0;
static bool g_captured = false;
template <class T>
static const T& verif_capture(const T& tv, size_t nv) {
  g_cap.assign(tv.begin(), tv.end());
  g_nv = nv;
  g_captured = true;
  return tv;
}
#define CreateHalfedges(tv) CreateHalfedges(verif_capture(tv, pImpl_->vertPos_.size()))
#include "constructors.cpp"
#undef CreateHalfedges

using namespace manifold;

static void dump(const char* tag, const std::string& id, const Manifold& m) {
  printf("%s %s status %d captured %d nv %zu numvert %zu numtri %zu tris", tag, id.c_str(),
         (int)m.Status(), (int)g_captured, g_nv, m.NumVert(), m.NumTri());
  if (g_captured)
    for (auto& t : g_cap) printf(" %d %d %d", t[0], t[1], t[2]);
  printf("\n");
}

int main() {
  std::string line;
  while (std::getline(std::cin, line)) {
    std::istringstream is(line);
    std::string kind, id;
    if (!(is >> kind >> id)) continue;
    g_captured = false;
    g_cap.clear();
    g_nv = 0;
    if (kind == "EXT") {
      int nDiv, cone, k;
      double twist;
      is >> nDiv >> cone >> twist >> k;
      Polygons ps;
      for (int j = 0; j < k; ++j) {
        int n;
        is >> n;
        SimplePolygon p;
        for (int i = 0; i < n; ++i) {
          double a = 2.0 * kPi * i / n;
          p.push_back({3.0 * j + std::cos(a), std::sin(a)});
        }
        ps.push_back(p);
      }
      Manifold m = Manifold::Extrude(ps, 1.5, nDiv, twist, cone ? vec2(0.0) : vec2(0.75, 1.0));
      dump("EXT", id, m);
    } else if (kind == "REV") {
      int seg, np;
      double deg;
      is >> seg >> deg >> np;
      Polygons ps;
      for (int j = 0; j < np; ++j) {
        int n;
        is >> n;
        SimplePolygon p;
        for (int i = 0; i < n; ++i) {
          double x, y;
          is >> x >> y;
          p.push_back({x, y});
        }
        ps.push_back(p);
      }
      Manifold m = Manifold::Revolve(ps, seg, deg);
      dump("REV", id, m);
    } else if (kind == "SEG") {
      double angle, length, radius;
      int expl;
      is >> angle >> length >> expl >> radius;
      Quality::ResetToDefaults();
      if (angle != -1) Quality::SetMinCircularAngle(angle);
      if (length != -1) Quality::SetMinCircularEdgeLength(length);
      if (expl != -1) Quality::SetCircularSegments(expl);
      int r = Quality::GetCircularSegments(radius);
      Quality::ResetToDefaults();
      int r0 = Quality::GetCircularSegments(radius);
      printf("SEG %s %d %d\n", id.c_str(), r, r0);
    } else if (kind == "SIND") {
      std::string h;
      is >> h;
      double x = strtod(h.c_str(), nullptr);
      printf("SIND %s %a %a %a\n", id.c_str(), x, sind(x), cosd(x));
    }
    fflush(stdout);
  }
  return 0;
}
