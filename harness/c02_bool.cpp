// C02 harness: evaluates Boolean programs with /repo's current library and
// prints the operand/result meshes with EXACT coordinates (integer-valued
// doubles as decimal integers, everything else as raw IEEE-754 bits) for the
// extracted exact classifier (extract/c02_driver.ml).
//
// stdin, one case per line:
//   L <id> <mode> <prefix program>        lattice program; mode 0 = lazy (one CSG tree), 1 = eager (every node evaluated)
//       -> MESH r<id> ...   and   ST <id> <status> <numTri>
//   G <id> <npts> <seed> <shapeA> <shapeB>   generic pair; shape = kind p0 p1 p2 p3  rx ry rz  sx sy sz  tx ty tz (hex floats)
//       -> MESH a<id>, b<id>, add<id>, sub<id>, int<id>, dda<id> (B+A), tni<id> (B^A),
//          PTS p<id> ..., GT <id> <tolerance bits> <surface area bits> <scale bits> <statuses...>
// program (prefix):  B x0 y0 z0 x1 y1 z1 | + e e | - e e | ^ e e | S0 e e | S1 e e
//                    | P0 ax off e | P1 ax off e | T ax sgn off e | BA n e.. | BI n e.. | BS n e..
//                    | RX k e | RY k e | RZ k e (Rotate by k*90 degrees) | MX e | MY e | MZ e (Mirror) | TR x y z e (Translate)
//   applied to SUB-EXPRESSIONS; in lazy mode they stay unevaluated CSG nodes with their own transform
#include <cmath>
#include <cstdint>
#include <cstdio>
#include <cstring>
#include <iostream>
#include <random>
#include <sstream>
#include <string>
#include <vector>

#include "manifold/manifold.h"
using namespace manifold;

static void putd(std::string& o, double x) {
  char buf[40];
  if (std::isfinite(x) && std::fabs(x) < 4503599627370496.0 && (double)(long long)x == x) {
    snprintf(buf, sizeof buf, " %lld", (long long)x);
  } else {
    uint64_t b;
    memcpy(&b, &x, 8);
    snprintf(buf, sizeof buf, " x%016llx", (unsigned long long)b);
  }
  o += buf;
}

static void printMesh(const std::string& name, const Manifold& m) {
  MeshGL64 g = m.GetMeshGL64();
  size_t nv = g.NumVert(), nt = g.NumTri();
  std::string o = "MESH " + name + " " + std::to_string(nv) + " " + std::to_string(nt);
  for (size_t v = 0; v < nv; ++v)
    for (int k = 0; k < 3; ++k) putd(o, g.vertProperties[v * g.numProp + k]);
  for (size_t t = 0; t < 3 * nt; ++t) o += " " + std::to_string(g.triVerts[t]);
  puts(o.c_str());
}

struct Parser {
  std::istringstream& in;
  bool eager;
  bool warp = false;
  Manifold force(Manifold m) {
    if (eager) (void)m.NumTri();
    return m;
  }
  Manifold expr() {
    std::string t;
    in >> t;
    if (t == "B") {
      double a[6];
      for (auto& x : a) in >> x;
      return force(Manifold::Cube(vec3(a[3] - a[0], a[4] - a[1], a[5] - a[2])).Translate(vec3(a[0], a[1], a[2])));
    }
    if (t == "+" || t == "-" || t == "^") {
      Manifold a = expr(), b = expr();
      return force(t == "+" ? a + b : t == "-" ? a - b : a ^ b);
    }
    if (t == "S0" || t == "S1") {
      Manifold a = expr(), b = expr();
      auto pr = a.Split(b);
      return force(t == "S0" ? pr.first : pr.second);
    }
    if (t == "P0" || t == "P1") {
      int ax;
      double off;
      in >> ax >> off;
      Manifold a = expr();
      vec3 n(0.0);
      n[ax] = 1.0;
      auto pr = a.SplitByPlane(n, off);
      return force(t == "P0" ? pr.first : pr.second);
    }
    if (t == "T") {
      int ax, sgn;
      double off;
      in >> ax >> sgn >> off;
      Manifold a = expr();
      vec3 n(0.0);
      n[ax] = sgn;
      return force(a.TrimByPlane(n, off));
    }
    if (t == "RX" || t == "RY" || t == "RZ") {   // rotation by k*90 degrees about an axis (exact: sind/cosd)
      int k;
      in >> k;
      Manifold a = expr();
      double d = 90.0 * k;
      return force(t == "RX" ? a.Rotate(d, 0, 0) : t == "RY" ? a.Rotate(0, d, 0) : a.Rotate(0, 0, d));
    }
    if (t == "MX" || t == "MY" || t == "MZ") {
      Manifold a = expr();
      return force(a.Mirror(t == "MX" ? vec3(1, 0, 0) : t == "MY" ? vec3(0, 1, 0) : vec3(0, 0, 1)));
    }
    if (t == "TR") {
      double x, y, z;
      in >> x >> y >> z;
      Manifold a = expr();
      return force(a.Translate(vec3(x, y, z)));
    }
    if (t == "AF") {
      // AF m00 m01 m02 m10 m11 m12 m20 m21 m22 t0 t1 t2 e : general integer affine map p -> M p + t through
      // Manifold::Transform(mat3x4) (lazy/eager), or -- mode 2 -- applied vertex by vertex with Warp (rebuilds the collider)
      double m[9], tr[3];
      for (auto& x : m) in >> x;
      for (auto& x : tr) in >> x;
      Manifold a = expr();
      if (warp) {
        return force(a.Warp([=](vec3& v) {
          vec3 p = v;
          for (int i = 0; i < 3; ++i) v[i] = m[3 * i] * p.x + m[3 * i + 1] * p.y + m[3 * i + 2] * p.z + tr[i];
        }));
      }
      mat3x4 M(vec3(m[0], m[3], m[6]), vec3(m[1], m[4], m[7]), vec3(m[2], m[5], m[8]), vec3(tr[0], tr[1], tr[2]));
      return force(a.Transform(M));
    }
    if (t == "GB") {
      // GB <kind U|S> <via batch|chain> <n> <G> <nbars> { <pos> x0 y0 z0 x1 y1 z1 }...
      // n unit cubes at (2*(i%G), 2*(i/G), 0); bar k is inserted so that it ends up at index <pos> of the operand list.
      // U: n-ary union (BatchBoolean(Add) or a lazy + chain); S: plate minus all operands (BatchBoolean(Subtract) or a lazy - chain)
      std::string kind, via;
      int n, G, nb;
      in >> kind >> via >> n >> G >> nb;
      std::vector<Manifold> ops;
      const Manifold unit = Manifold::Cube(vec3(1.0));
      for (int i = 0; i < n; ++i) ops.push_back(unit.Translate(vec3(2.0 * (i % G), 2.0 * (i / G), 0)));
      for (int k = 0; k < nb; ++k) {
        int pos;
        double a[6];
        in >> pos;
        for (auto& x : a) in >> x;
        Manifold bar = Manifold::Cube(vec3(a[3] - a[0], a[4] - a[1], a[5] - a[2])).Translate(vec3(a[0], a[1], a[2]));
        pos = std::max(0, std::min<int>(pos, ops.size()));
        ops.insert(ops.begin() + pos, bar);
      }
      int rows = (n + G - 1) / G;
      Manifold plate = Manifold::Cube(vec3(2.0 * G + 2, 2.0 * rows + 2, 1)).Translate(vec3(-1, -1, 0));
      if (kind == "U") {
        if (via == "batch") return Manifold::BatchBoolean(ops, OpType::Add);
        Manifold r = ops[0];
        for (size_t i = 1; i < ops.size(); ++i) r = r + ops[i];
        return r;
      }
      if (via == "batch") {
        std::vector<Manifold> all{plate};
        all.insert(all.end(), ops.begin(), ops.end());
        return Manifold::BatchBoolean(all, OpType::Subtract);
      }
      Manifold r = plate;
      for (size_t i = 0; i < ops.size(); ++i) r = r - ops[i];
      return r;
    }
    if (t == "BA" || t == "BI" || t == "BS") {
      int n;
      in >> n;
      std::vector<Manifold> v;
      for (int i = 0; i < n; ++i) v.push_back(expr());
      return force(Manifold::BatchBoolean(v, t == "BA" ? OpType::Add : t == "BI" ? OpType::Intersect : OpType::Subtract));
    }
    throw std::runtime_error("bad token " + t);
  }
};

// ---- generic position ------------------------------------------------------
static double rdHex(std::istringstream& in) {
  std::string s;
  in >> s;
  return strtod(s.c_str(), nullptr);
}

static Manifold readShape(std::istringstream& in) {
  int kind;
  in >> kind;
  double p[4];
  for (auto& x : p) x = rdHex(in);
  double r[3], s[3], t[3];
  for (auto& x : r) x = rdHex(in);
  for (auto& x : s) x = rdHex(in);
  for (auto& x : t) x = rdHex(in);
  Manifold m;
  switch (kind) {
    case 0: m = Manifold::Cube(vec3(p[0], p[1], p[2]), true); break;
    case 1: m = Manifold::Sphere(p[0], 4 * (int)p[1]); break;
    case 2: m = Manifold::Cylinder(p[0], p[1], p[2], 4 * (int)p[3], true); break;
    default: m = Manifold::Tetrahedron(); break;
  }
  return m.Scale(vec3(s[0], s[1], s[2])).Rotate(r[0], r[1], r[2]).Translate(vec3(t[0], t[1], t[2]));
}

// closest point on triangle (Ericson, Real-Time Collision Detection 5.1.5)
static double dist2PointTri(vec3 p, vec3 a, vec3 b, vec3 c) {
  vec3 ab = b - a, ac = c - a, ap = p - a;
  double d1 = la::dot(ab, ap), d2 = la::dot(ac, ap);
  vec3 q;
  if (d1 <= 0 && d2 <= 0) q = a;
  else {
    vec3 bp = p - b;
    double d3 = la::dot(ab, bp), d4 = la::dot(ac, bp);
    if (d3 >= 0 && d4 <= d3) q = b;
    else {
      double vc = d1 * d4 - d3 * d2;
      if (vc <= 0 && d1 >= 0 && d3 <= 0) q = a + ab * (d1 / (d1 - d3));
      else {
        vec3 cp = p - c;
        double d5 = la::dot(ab, cp), d6 = la::dot(ac, cp);
        if (d6 >= 0 && d5 <= d6) q = c;
        else {
          double vb = d5 * d2 - d1 * d6;
          if (vb <= 0 && d2 >= 0 && d6 <= 0) q = a + ac * (d2 / (d2 - d6));
          else {
            double va = d3 * d6 - d5 * d4;
            if (va <= 0 && (d4 - d3) >= 0 && (d5 - d6) >= 0) q = b + (c - b) * ((d4 - d3) / ((d4 - d3) + (d5 - d6)));
            else {
              double denom = 1.0 / (va + vb + vc);
              q = a + ab * (vb * denom) + ac * (vc * denom);
            }
          }
        }
      }
    }
  }
  vec3 d = p - q;
  return la::dot(d, d);
}

struct Soup {
  std::vector<vec3> v;
  std::vector<int> t;
};
static Soup soupOf(const Manifold& m) {
  MeshGL64 g = m.GetMeshGL64();
  Soup s;
  for (size_t i = 0; i < g.NumVert(); ++i)
    s.v.push_back(vec3(g.vertProperties[i * g.numProp], g.vertProperties[i * g.numProp + 1], g.vertProperties[i * g.numProp + 2]));
  for (auto x : g.triVerts) s.t.push_back((int)x);
  return s;
}
static double distToSoup(vec3 p, const Soup& s) {
  double best = INFINITY;
  for (size_t i = 0; i + 2 < s.t.size(); i += 3) best = std::min(best, dist2PointTri(p, s.v[s.t[i]], s.v[s.t[i + 1]], s.v[s.t[i + 2]]));
  return std::sqrt(best);
}

int main() {
  std::string line;
  while (std::getline(std::cin, line)) {
    std::istringstream in(line);
    std::string tag, id;
    in >> tag >> id;
    if (tag == "L") {
      int mode;
      in >> mode;
      try {
        Parser ps{in, mode == 1, mode == 2};
        Manifold r = ps.expr();
        int st = (int)r.Status();
        printMesh("r" + id, r);
        printf("ST %s %d %d\n", id.c_str(), st, (int)r.NumTri());
      } catch (std::exception& e) {
        printf("ST %s -1 0 %s\n", id.c_str(), e.what());
      }
    } else if (tag == "G") {
      int npts;
      unsigned seed;
      in >> npts >> seed;
      Manifold A = readShape(in), B = readShape(in);
      Manifold add = A + B, sub = A - B, inter = A ^ B, dda = B + A, tni = B ^ A;
      printMesh("a" + id, A);
      printMesh("b" + id, B);
      printMesh("add" + id, add);
      printMesh("sub" + id, sub);
      printMesh("int" + id, inter);
      printMesh("dda" + id, dda);
      printMesh("tni" + id, tni);
      double tol = std::max({A.GetTolerance(), B.GetTolerance(), add.GetTolerance(), sub.GetTolerance(), inter.GetTolerance()});
      Box bb = A.BoundingBox().Union(B.BoundingBox());
      double scale = bb.Scale();
      // conservative distance filter: double evaluation error is ~1e-15*scale, we demand 10*tol + 1e-9*scale
      double minDist = 10 * tol + 1e-9 * scale;
      Soup sa = soupOf(A), sb = soupOf(B), sr = soupOf(sub);
      std::mt19937_64 rng(seed);
      std::uniform_real_distribution<double> U(0.0, 1.0);
      std::string o = "PTS p" + id;
      std::string pts;
      int kept = 0, nearKept = 0;
      for (int i = 0; i < 8 * npts && kept < npts; ++i) {
        vec3 p;
        int kind = i % 4;
        if (kind == 0) {
          for (int k = 0; k < 3; ++k) p[k] = bb.min[k] + (bb.max[k] - bb.min[k]) * U(rng);
        } else {
          // near a surface: a random point of a random triangle of A, B or A-B, moved along a random direction
          const Soup& s = kind == 1 ? sa : kind == 2 ? sb : (sr.t.empty() ? sa : sr);
          size_t t = (size_t)(U(rng) * (s.t.size() / 3));
          if (t >= s.t.size() / 3) t = 0;
          double u = U(rng), v = U(rng);
          if (u + v > 1) { u = 1 - u; v = 1 - v; }
          vec3 a = s.v[s.t[3 * t]], b = s.v[s.t[3 * t + 1]], c = s.v[s.t[3 * t + 2]];
          vec3 q = a + (b - a) * u + (c - a) * v;
          vec3 d(U(rng) - 0.5, U(rng) - 0.5, U(rng) - 0.5);
          double len = std::pow(10.0, -6.0 + 5.5 * U(rng)) * scale;  // 1e-6 .. 0.3 of the scale
          p = q + d * (len / std::max(1e-300, la::length(d)));
        }
        // keep few bits: snap to a grid of 2^-40 * scale (exactly representable)
        double grid = std::ldexp(1.0, (int)std::floor(std::log2(scale)) - 40);
        for (int k = 0; k < 3; ++k) p[k] = std::nearbyint(p[k] / grid) * grid;
        if (distToSoup(p, sa) <= minDist || distToSoup(p, sb) <= minDist) continue;
        for (int k = 0; k < 3; ++k) putd(pts, p[k]);
        ++kept;
        if (kind != 0) ++nearKept;
      }
      o += " " + std::to_string(kept) + pts;
      puts(o.c_str());
      std::string g = "GT " + id;
      putd(g, tol);
      putd(g, A.SurfaceArea() + B.SurfaceArea());
      putd(g, scale);
      g += " " + std::to_string((int)A.Status()) + " " + std::to_string((int)B.Status()) + " " + std::to_string((int)add.Status()) +
           " " + std::to_string((int)sub.Status()) + " " + std::to_string((int)inter.Status()) + " " + std::to_string(nearKept);
      puts(g.c_str());
    }
    fflush(stdout);
  }
  return 0;
}
