// C19 harness.  Includes /repo/src/subdivision.cpp so that the anonymous-
// namespace class Partition (and its private GetCachedPartition) is reachable,
// and links the rest of the library for the end-to-end modes.
//
// stdin lines:
//   P a b c d                         -> Partition::GetPartition({a,b,c,d}) (called twice: fresh + cached)
//   R a b c d  t0 t1 t2 t3  e0 e1 e2 e3  f0 f1 f2 f3  io   -> Partition::Reindex
//   E id kind seed ...                -> end-to-end Refine / Simplify cases (see below)
// All numbers printed are integers or IEEE bit patterns.
#include <algorithm>
#include <array>
#include <cmath>
#include <cstdint>
#include <cstdio>
#include <cstring>
#include <functional>
#include <iostream>
#include <map>
#include <memory>
#include <mutex>
#include <random>
#include <set>
#include <sstream>
#include <string>
#include <unordered_map>
#include <vector>
#define private public
#include "subdivision.cpp"
#undef private
#include "manifold/manifold.h"
#include "csg_tree.h"

using namespace manifold;

static uint64_t bits(double d) {
  uint64_t u;
  std::memcpy(&u, &d, 8);
  return u;
}

static void print_partition(const char* tag, const ivec4& d, const Partition& p, std::ostringstream& out) {
  out << tag << " " << d[0] << " " << d[1] << " " << d[2] << " " << d[3];
  out << " I " << p.idx[0] << " " << p.idx[1] << " " << p.idx[2] << " " << p.idx[3];
  out << " S " << p.sortedDivisions[0] << " " << p.sortedDivisions[1] << " " << p.sortedDivisions[2] << " "
      << p.sortedDivisions[3];
  out << " V " << p.vertBary.size() << " T " << p.triVert.size() << " TV";
  for (size_t i = 0; i < p.triVert.size(); ++i)
    out << " " << p.triVert[i][0] << " " << p.triVert[i][1] << " " << p.triVert[i][2];
  out << " VB";
  char buf[32];
  for (size_t i = 0; i < p.vertBary.size(); ++i)
    for (int k = 0; k < 4; ++k) {
      snprintf(buf, sizeof buf, " %016llx", (unsigned long long)bits(p.vertBary[i][k]));
      out << buf;
    }
}

static bool same_partition(const Partition& a, const Partition& b) {
  if (a.vertBary.size() != b.vertBary.size() || a.triVert.size() != b.triVert.size()) return false;
  for (size_t i = 0; i < a.triVert.size(); ++i)
    for (int k = 0; k < 3; ++k)
      if (a.triVert[i][k] != b.triVert[i][k]) return false;
  for (size_t i = 0; i < a.vertBary.size(); ++i)
    for (int k = 0; k < 4; ++k)
      if (bits(a.vertBary[i][k]) != bits(b.vertBary[i][k])) return false;
  for (int k = 0; k < 4; ++k)
    if (a.idx[k] != b.idx[k] || a.sortedDivisions[k] != b.sortedDivisions[k]) return false;
  return true;
}

#include "c19_e2e.h"

int main() {
  std::string line;
  while (std::getline(std::cin, line)) {
    std::istringstream in(line);
    std::string tag;
    in >> tag;
    if (tag == "P") {
      ivec4 d;
      in >> d[0] >> d[1] >> d[2] >> d[3];
      Partition p = Partition::GetPartition(d);
      Partition q = Partition::GetPartition(d);  // now served from the cache
      std::ostringstream out;
      print_partition("P", d, p, out);
      out << " C " << (same_partition(p, q) ? 1 : 0);
      puts(out.str().c_str());
    } else if (tag == "R") {
      ivec4 d, tv, eo;
      int f[4], io;
      in >> d[0] >> d[1] >> d[2] >> d[3] >> tv[0] >> tv[1] >> tv[2] >> tv[3] >> eo[0] >> eo[1] >> eo[2] >> eo[3] >>
          f[0] >> f[1] >> f[2] >> f[3] >> io;
      bvec4 fwd(f[0] != 0, f[1] != 0, f[2] != 0, f[3] != 0);
      Partition p = Partition::GetPartition(d);
      Vec<ivec3> r = p.Reindex(tv, eo, fwd, io);
      std::ostringstream out;
      out << "R";
      {
        std::istringstream again(line);
        std::string t;
        again >> t;
        int x;
        for (int i = 0; i < 17; ++i) { again >> x; out << " " << x; }
      }
      out << " T " << r.size() << " TV";
      for (size_t i = 0; i < r.size(); ++i) out << " " << r[i][0] << " " << r[i][1] << " " << r[i][2];
      puts(out.str().c_str());
    } else if (tag == "E") {
      run_e2e(in);
    } else if (tag == "S") {
      run_subdiv(in);
    } else if (tag == "X") {
      run_edgeops(in);
    } else if (tag == "Q") {
      run_subdiv_q(in);
    }
    fflush(stdout);
  }
  return 0;
}
