// C08 harness: export / re-import round trip of Manifolds produced by small
// programs.  For every case prints one line
//   C <id> <verdict fields...>
// where each field is name=0/1 (1 = preserved) so that the check compares
// Booleans only.  Comparison is field-wise up to vertex / triangle
// renumbering: every triangle becomes a canonical record (rotation with the
// smallest position first) of bit patterns.
#include <algorithm>
#include <array>
#include <cmath>
#include <cstdint>
#include <cstdio>
#include <cstring>
#include <iostream>
#include <map>
#include <random>
#include <sstream>
#include <string>
#include <vector>

#include "manifold/manifold.h"

using namespace manifold;

static uint64_t bits(double x) {
  if (x == 0) x = 0;  // -0.0 and 0.0 are the same position
  uint64_t u;
  memcpy(&u, &x, 8);
  return u;
}

struct TriRec {
  std::array<std::array<uint64_t, 3>, 3> pos;  // per corner position bits
  uint32_t originalID;
  std::array<uint64_t, 12> xform;
  int flags;
  uint64_t faceID;
  std::vector<uint64_t> props;    // per corner property bits (normals slots skipped when flagged)
  std::vector<uint64_t> tangent;  // per corner 4 values
  bool operator<(const TriRec& o) const {
    return std::tie(pos, originalID, xform, flags, faceID, props, tangent) <
           std::tie(o.pos, o.originalID, o.xform, o.flags, o.faceID, o.props, o.tangent);
  }
};

struct Canon {
  std::vector<TriRec> tris;
  std::vector<std::array<uint64_t, 3>> positions;  // multiset of vertex positions after merging
};

// (originalID, transform bits, flags) of the runs without triangles, in table order
static std::vector<std::array<uint64_t, 14>> emptyRuns(const MeshGL64& g) {
  std::vector<std::array<uint64_t, 14>> out;
  for (size_t r = 0; r + 1 < g.runIndex.size() && r < g.runOriginalID.size(); ++r) {
    if (g.runIndex[r] / 3 != g.runIndex[r + 1] / 3) continue;
    std::array<uint64_t, 14> a;
    a.fill(0);
    a[0] = g.runOriginalID[r];
    a[1] = r < g.runFlags.size() ? g.runFlags[r] : 0;
    for (int k : {0, 4, 8}) a[2 + k] = bits(1.0);
    if (g.runTransform.size() >= 12 * (r + 1))
      for (int k = 0; k < 12; ++k) a[2 + k] = bits(g.runTransform[12 * r + k]);
    out.push_back(a);
  }
  return out;
}

static Canon canon(const MeshGL64& g, bool withTangents, bool withProps, bool withFace, bool withRuns) {
  Canon c;
  const size_t nt = g.NumTri();
  std::vector<int> runOf(nt, 0);
  for (size_t r = 0; r + 1 < g.runIndex.size() && r < g.runOriginalID.size(); ++r)
    for (size_t t = g.runIndex[r] / 3; t < g.runIndex[r + 1] / 3 && t < nt; ++t) runOf[t] = (int)r;
  for (size_t t = 0; t < nt; ++t) {
    TriRec rec;
    const int run = runOf[t];
    rec.originalID = withRuns && run < (int)g.runOriginalID.size() ? g.runOriginalID[run] : 0;
    rec.flags = withRuns && run < (int)g.runFlags.size() ? g.runFlags[run] : 0;
    rec.xform.fill(0);
    // originals are exported without runTransform: that stands for the identity
    if (withRuns) for (int k : {0, 4, 8}) rec.xform[k] = bits(1.0);
    if (withRuns && g.runTransform.size() >= 12 * (size_t)(run + 1))
      for (int k = 0; k < 12; ++k) rec.xform[k] = bits(g.runTransform[12 * run + k]);
    rec.faceID = withFace && !g.faceID.empty() ? g.faceID[t] : 0;
    std::array<std::array<uint64_t, 3>, 3> p;
    for (int i = 0; i < 3; ++i) {
      const size_t v = g.triVerts[3 * t + i];
      for (int k = 0; k < 3; ++k) p[i][k] = bits(g.vertProperties[v * g.numProp + k]);
    }
    int first = 0;
    for (int i = 1; i < 3; ++i)
      if (p[i] < p[first]) first = i;
    const bool skipNormals = (rec.flags & 2) != 0;
    for (int i = 0; i < 3; ++i) {
      const int j = (first + i) % 3;
      rec.pos[i] = p[j];
      const size_t v = g.triVerts[3 * t + j];
      if (withProps)
        for (size_t k = 3; k < g.numProp; ++k) {
          if (skipNormals && k < 6) continue;
          rec.props.push_back(bits(g.vertProperties[v * g.numProp + k]));
        }
      if (withTangents && !g.halfedgeTangent.empty())
        for (int k = 0; k < 4; ++k) rec.tangent.push_back(bits(g.halfedgeTangent[4 * (3 * t + j) + k]));
    }
    c.tris.push_back(rec);
  }
  std::sort(c.tris.begin(), c.tris.end());
  // positions of merged vertices (one per internal vertex)
  std::vector<size_t> rep(g.NumVert());
  for (size_t i = 0; i < rep.size(); ++i) rep[i] = i;
  for (size_t i = 0; i < g.mergeFromVert.size(); ++i) rep[g.mergeFromVert[i]] = g.mergeToVert[i];
  std::vector<char> used(g.NumVert(), 0);
  for (auto v : g.triVerts) used[rep[v]] = 1;
  for (size_t v = 0; v < g.NumVert(); ++v)
    if (used[v] && rep[v] == v)
      c.positions.push_back({bits(g.vertProperties[v * g.numProp]), bits(g.vertProperties[v * g.numProp + 1]),
                             bits(g.vertProperties[v * g.numProp + 2])});
  std::sort(c.positions.begin(), c.positions.end());
  return c;
}

// every directed edge of the merged triangle list has exactly one opposite
static bool mergedIsManifold(const MeshGL64& g) {
  std::vector<size_t> rep(g.NumVert());
  for (size_t i = 0; i < rep.size(); ++i) rep[i] = i;
  for (size_t i = 0; i < g.mergeFromVert.size(); ++i) rep[g.mergeFromVert[i]] = g.mergeToVert[i];
  std::map<std::pair<size_t, size_t>, int> cnt;
  for (size_t t = 0; t < g.NumTri(); ++t)
    for (int i = 0; i < 3; ++i) {
      size_t a = rep[g.triVerts[3 * t + i]], b = rep[g.triVerts[3 * t + (i + 1) % 3]];
      if (a == b) return false;
      cnt[{a, b}]++;
    }
  for (auto& kv : cnt) {
    if (kv.second != 1) return false;
    auto it = cnt.find({kv.first.second, kv.first.first});
    if (it == cnt.end() || it->second != 1) return false;
  }
  return true;
}

static Manifold build(int prog, std::mt19937& rng) {
  std::uniform_real_distribution<double> U(0.1, 0.9);
  auto r = [&]() { return U(rng); };
  Manifold cube = Manifold::Cube(vec3(1.0), true);
  Manifold sph = Manifold::Sphere(0.7, 12);
  Manifold tet = Manifold::Tetrahedron();
  switch (prog % 26) {
    case 0: return cube + sph.Translate({r(), r() * 0.5, 0});                         // two runs
    case 1: return cube - sph.Translate({r(), 0.2, 0.1});                             // back-side run
    case 2: return (cube ^ sph.Translate({r() * 0.5, 0, 0})) + tet.Scale(vec3(0.3)).Translate({2, 0, 0});
    case 3: {                                                                          // instances of one original
      Manifold a = sph.AsOriginal();
      return a + a.Translate({1.0 + r(), 0, 0}) + a.Rotate(30, 0, 0).Translate({0, 2, 0});
    }
    case 4: return (sph + Manifold::Sphere(0.5, 10).Translate({0.4 + 0.4 * r(), 0.1, 0})).SmoothOut();   // finite tangents on two runs
    case 14: return (sph + sph.Translate({2 + r(), 0, 0})).SmoothOut();                 // two disjoint smooth runs
    // results with EMPTY runs: an operand that contributes no triangle still gets a run
    case 16: return cube + Manifold::Sphere(0.2 + 0.1 * r(), 10);                       // nested union: inner part vanishes
    case 17: return sph - cube.Scale(vec3(0.2)).Translate({0.6, 0.6, 0.55 + 0.1 * r()});  // cutter overlaps the bbox but misses
    case 18: return (cube + tet.Translate({5, 0, 0})) ^ cube.Scale(vec3(1.2 + r()));    // operand fully removed
    case 19: return Manifold::Compose({cube, Manifold::Sphere(0.3, 8).Translate({3, 0, 0})}) ^ cube.Scale(vec3(1.5));
    case 20: {                                                                          // empty instance between non-empty runs
      Manifold a = Manifold::Sphere(0.25, 8).AsOriginal();
      return cube + a.Scale(vec3(0.5 + 0.5 * r())) + a.Translate({2, 0, 0}) + tet.Scale(vec3(0.1));
    }
    // NO operand is ever transformed: every run transform is exactly the identity
    case 21: return Manifold::Cube(vec3(1.0)) - Manifold::Sphere(0.7, 12);                 // back-side run
    case 22: return Manifold::Sphere(0.7, 12) - Manifold::Cube(vec3(1.0));
    case 23: return Manifold::Cube(vec3(2.0)) - (Manifold::Cube(vec3(1.0)) - Manifold::Sphere(0.7, 12));  // nested: back of back
    case 24: return Manifold::Cube(vec3(1.0)).CalculateNormals(0) - Manifold::Sphere(0.7, 12).CalculateNormals(0);  // normals-flagged runs
    case 25: return (Manifold::Cube(vec3(1.0)) ^ Manifold::Sphere(0.9, 12)) - Manifold::Sphere(0.5, 10).CalculateNormals(0);
    case 15: return (cube + sph.Translate({r(), r(), r()})).SmoothOut(50 + 20 * r());   // sharp + smooth: non-finite tangents
    case 5: return (cube - tet.Scale(vec3(0.8)).Translate({r() * 0.3, 0, 0})).SmoothOut();
    case 6: return cube.CalculateNormals(0) + sph.CalculateNormals(0).Translate({r(), 0.1, 0});  // property seams + normals
    case 7: return cube.SetProperties(2, [](double* o, vec3 p, const double*) { o[0] = p.x * p.y; o[1] = p.z > 0 ? 1 : 2; }) -
                   sph.SetProperties(1, [](double* o, vec3 p, const double*) { o[0] = p.x; }).Translate({r(), 0, 0});
    case 8: return (sph.SmoothOut() + cube.Translate({r() * 0.4, 0.3, 0})).Refine(2);
    case 9: return Manifold::Compose({cube, sph.Translate({3, 0, 0}), tet.Translate({0, 4, 0})});
    case 10: return (cube.Rotate(10 * r(), 20, 5) + cube.Translate({r(), r(), r()})) - sph.Scale(vec3(0.5));
    case 11: return cube.CalculateNormals(0, 40).SmoothByNormals(0);
    case 12: return (cube.AsOriginal() + sph.AsOriginal().Translate({r(), 0, 0})).AsOriginal();
    default: return (tet + tet.Rotate(0, 0, 90).Translate({r() * 0.2, 0, 0})).SmoothOut().Refine(2) ^ cube.Scale(vec3(1.5));
  }
}

int main() {
  std::string line;
  while (std::getline(std::cin, line)) {
    std::istringstream is(line);
    std::string kind, id;
    int prog;
    unsigned seed;
    if (!(is >> kind >> id >> prog >> seed)) continue;
    // optional: pad the exported mesh with unused vertices up to this vertex count before the re-import,
    // so that the importer takes its large-mesh code paths (CreateHalfedges switches strategy at 2^18 vertices)
    size_t padTo = 0;
    is >> padTo;
    // optional: hand-edit the export before the re-import.  1 = drop runTransform (the field is optional: absent
    // means identity) when every run transform is the identity anyway; the run flags must keep their meaning.
    int edit = 0;
    is >> edit;
    std::mt19937 rng(seed);
    Manifold m = build(prog, rng);
    MeshGL64 g1 = m.GetMeshGL64();
    std::ostringstream os;
    os << "C " << id << " prog=" << prog % 26 << " st=" << (int)m.Status() << " runs=" << g1.runOriginalID.size()
       << " tris=" << g1.NumTri() << " props=" << g1.numProp - 3 << " tangents=" << (g1.halfedgeTangent.empty() ? 0 : 1)
       << " merges=" << g1.mergeFromVert.size();
    {
      size_t nf = 0;
      for (auto x : g1.halfedgeTangent) if (!std::isfinite(x)) nf++;
      os << " tan_nonfinite=" << nf;
    }
    os << " empties=" << emptyRuns(g1).size();
    if (m.Status() != Manifold::Error::NoError || g1.NumTri() == 0) {
      os << " SKIP";
      puts(os.str().c_str());
      fflush(stdout);
      continue;
    }
    MeshGL64 gin = g1;
    if (padTo > gin.NumVert()) {
      const size_t extra = padTo - gin.NumVert();
      for (size_t k = 0; k < extra; ++k) {
        // unused vertices far outside the solid, with distinct positions
        gin.vertProperties.push_back(100.0 + 1e-3 * k);
        gin.vertProperties.push_back(-50.0);
        gin.vertProperties.push_back(7.0);
        for (size_t c = 3; c < gin.numProp; ++c) gin.vertProperties.push_back(0.0);
      }
    }
    if (edit == 1) {
      bool allIdentity = true;
      for (size_t r = 0; 12 * (r + 1) <= gin.runTransform.size(); ++r)
        for (int k = 0; k < 12; ++k)
          if (gin.runTransform[12 * r + k] != ((k == 0 || k == 4 || k == 8) ? 1.0 : 0.0)) allIdentity = false;
      if (allIdentity) gin.runTransform.clear();
      os << " dropped_rt=" << (allIdentity ? 1 : 0);
    }
    os << " padded=" << gin.NumVert();
    Manifold m2(gin);
    MeshGL64 g2 = m2.GetMeshGL64();
    os << " st2=" << (int)m2.Status();
    auto cmp = [&](bool tan, bool props, bool face, bool runs) {
      Canon a = canon(g1, tan, props, face, runs), b = canon(g2, tan, props, face, runs);
      return a.tris.size() == b.tris.size() && std::equal(a.tris.begin(), a.tris.end(), b.tris.begin(),
             [](const TriRec& x, const TriRec& y) { return !(x < y) && !(y < x); });
    };
    {
      Canon a = canon(g1, false, false, false, false), b = canon(g2, false, false, false, false);
      os << " positions=" << (a.positions == b.positions ? 1 : 0);
    }
    os << " empty_runs_ok=" << (emptyRuns(g1) == emptyRuns(g2) ? 1 : 0) << " numruns=" << (g1.runOriginalID.size() == g2.runOriginalID.size() ? 1 : 0);
    os << " triangles=" << cmp(false, false, false, false) << " runs_ok=" << cmp(false, false, false, true)
       << " faceid=" << cmp(false, false, true, false) << " props_ok=" << cmp(false, true, false, true)
       << " tangent=" << cmp(true, false, false, false)
       << " tangent_len=" << (g1.halfedgeTangent.size() == g2.halfedgeTangent.size() ? 1 : 0)
       << " tol=" << (m2.GetTolerance() >= m.GetTolerance() ? 1 : 0);
    // Refine gives the same surface size/status before and after the trip
    Manifold r1 = m.Refine(2), r2 = m2.Refine(2);
    os << " refine_st1=" << (int)r1.Status() << " refine_st2=" << (int)r2.Status()
       << " refine_same=" << ((r1.Status() == r2.Status() && r1.NumTri() == r2.NumTri()) ? 1 : 0);
    // merge vectors alone restore manifoldness; Merge() re-derives them when stripped
    os << " merged_manifold=" << (mergedIsManifold(g1) ? 1 : 0);
    {
      MeshGL64 s = g1;
      s.mergeFromVert.clear();
      s.mergeToVert.clear();
      s.Merge();
      Manifold m3(s);
      os << " merge_rederived=" << (m3.Status() == Manifold::Error::NoError && m3.NumTri() == m.NumTri() ? 1 : 0);
    }
    // 32-bit path: positions equal as float
    {
      MeshGL f = m.GetMeshGL();
      bool ok = f.NumTri() == g1.NumTri() && f.NumVert() == g1.NumVert();
      if (ok)
        for (size_t v = 0; v < f.NumVert() && ok; ++v)
          for (int k = 0; k < 3; ++k)
            if (f.vertProperties[v * f.numProp + k] != (float)g1.vertProperties[v * g1.numProp + k]) ok = false;
      Manifold mf(f);
      os << " f32_positions=" << (ok ? 1 : 0) << " f32_st=" << (int)mf.Status() << " f32_tris=" << (mf.NumTri() == m.NumTri() ? 1 : 0);
    }
    // OBJ text round trip of positions and triangles
    {
      std::stringstream ss;
      bool w = WriteOBJ(ss, g1);
      MeshGL64 o = ReadOBJ(ss);
      auto idxCanon = [](const MeshGL64& x) {
        std::vector<std::array<uint64_t, 3>> v;
        for (size_t t = 0; t < x.NumTri(); ++t) {
          std::array<uint64_t, 3> a = {x.triVerts[3 * t], x.triVerts[3 * t + 1], x.triVerts[3 * t + 2]};
          std::rotate(a.begin(), std::min_element(a.begin(), a.end()), a.end());
          v.push_back(a);
        }
        std::sort(v.begin(), v.end());
        return v;
      };
      bool same = w && o.NumTri() == g1.NumTri() && o.NumVert() == g1.NumVert() && idxCanon(o) == idxCanon(g1);
      size_t differ = 0, small = 0;
      if (same)
        for (size_t v = 0; v < o.NumVert(); ++v)
          for (int k = 0; k < 3; ++k) {
            double a = g1.vertProperties[v * g1.numProp + k], b = o.vertProperties[v * o.numProp + k];
            if (bits(a) != bits(b)) {
              differ++;
              if (std::fabs(a) < 1e-3) small++;
            }
          }
      os << " obj_struct=" << (same ? 1 : 0) << " obj_differ=" << differ << " obj_differ_small=" << small;
    }
    puts(os.str().c_str());
    fflush(stdout);
  }
  return 0;
}
