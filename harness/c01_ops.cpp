// C01 correspondence harness for the simple halfedge operations of Manifold::Impl
// (all members are public).  One case per line:
//   OPS <id> <nV> <nH> s0 p0 s1 p1 ... | op args | op args ...
// The halfedge array is installed directly (Halfedges::FromData), vertPos_[v] = (v+1, 0, 0).
// After the initial state and after every op one line is printed:
//   A <id> <step> H s p s p ... N b b ...      (N: 1 = vertPos_ is NaN)
//   A <id> <step> SKIP                          (op would index out of bounds: not executed)
// sortverts / sortfaces additionally print the permutation the real code chose
//   P <id> <step> new2old...
// so that the extracted model can replay the same (geometric) decision.
#include <cmath>
#include <cstdio>
#include <iostream>
#include <sstream>
#include <string>
#include <vector>
#include "impl.h"
#include "mesh_fixes.h"
using namespace manifold;

static void dump(const std::string& id, int step, const Manifold::Impl& m) {
  std::string o = "A " + id + " " + std::to_string(step) + " H";
  for (size_t e = 0; e < m.halfedge_.size(); ++e)
    o += " " + std::to_string(m.halfedge_.Start(e)) + " " + std::to_string(m.halfedge_.Pair(e));
  o += " N";
  for (size_t v = 0; v < m.vertPos_.size(); ++v) o += std::isnan(m.vertPos_[v].x) ? " 1" : " 0";
  puts(o.c_str());
}

int main() {
  std::string line;
  while (std::getline(std::cin, line)) {
    std::istringstream in(line);
    std::string tag, id;
    in >> tag;
    if (tag != "OPS") continue;
    int nV, nH;
    in >> id >> nV >> nH;
    Manifold::Impl m;
    m.vertPos_.resize(nV);
    for (int v = 0; v < nV; ++v) m.vertPos_[v] = vec3(v + 1, 0.25 * ((v * 7) % 5), 0.5 * ((v * 3) % 4));
    Vec<Halfedge> data(nH);
    for (int e = 0; e < nH; ++e) {
      int s, p;
      in >> s >> p;
      data[e] = {s, 0, p, s};
    }
    m.halfedge_.FromData(data);
    std::vector<std::vector<std::string>> ops;
    std::string tok;
    while (in >> tok) {
      if (tok == "|") ops.push_back({});
      else if (!ops.empty()) ops.back().push_back(tok);
    }
    dump(id, 0, m);
    int step = 0;
    auto inH = [&](long long e) { return e >= 0 && e < (long long)m.halfedge_.size(); };
    auto inV = [&](long long v) { return v >= 0 && v < (long long)m.vertPos_.size(); };
    for (auto& t : ops) {
      ++step;
      const std::string op = t[0];
      auto I = [&](size_t i) { return i < t.size() ? atoll(t[i].c_str()) : 0LL; };
      bool ok = true;
      if (op == "pairup") {
        ok = inH(I(1)) && inH(I(2));
        if (ok) m.PairUp((int)I(1), (int)I(2));
      } else if (op == "collapsetri") {
        const long long e = I(1);
        ok = inH(e);
        if (ok) {
          const ivec3 tr(e, NextHalfedge(e), NextHalfedge(NextHalfedge(e)));
          const int p1 = m.halfedge_.Pair(tr[1]);
          if (p1 != -1) ok = inH(p1) && inH(m.halfedge_.Pair(tr[2]));
          if (ok) m.CollapseTri(tr);
        }
      } else if (op == "removeiffolded") {
        const long long e = I(1);
        ok = inH(e);
        if (ok) {
          const int pe = m.halfedge_.Pair(e);
          const int a1 = NextHalfedge(e), a2 = NextHalfedge(a1);
          const int pa1 = m.halfedge_.Pair(a1);
          if (pa1 != -1) {
            // only now the code reads the triangle of the paired halfedge
            ok = inH(pe);
            const int b1 = ok ? NextHalfedge(pe) : 0, b2 = ok ? NextHalfedge(b1) : 0;
            if (ok && m.halfedge_.Start(a2) == m.halfedge_.Start(b2)) {
              const int pa2 = m.halfedge_.Pair(a2), pb1 = m.halfedge_.Pair(b1), pb2 = m.halfedge_.Pair(b2);
              ok = inH(pa1) && inH(pb2);
              if (pa1 == b2) {
                if (pa2 == b1) ok = ok && inV(m.halfedge_.Start(e)) && inV(m.halfedge_.Start(a1)) && inV(m.halfedge_.Start(a2));
                else ok = ok && inV(m.halfedge_.Start(a1));
              } else if (pa2 == b1) ok = ok && inV(m.halfedge_.Start(b1));
              if (ok) {
                // the second PairUp reads the pairs after the first one
                int qa2 = pa2, qb1 = pb1;
                if (a2 == pa1) qa2 = pb2; else if (a2 == pb2) qa2 = pa1;
                if (b1 == pa1) qb1 = pb2; else if (b1 == pb2) qb1 = pa1;
                ok = inH(qa2) && inH(qb1);
              }
            }
          }
          if (ok) m.RemoveIfFolded((int)e);
        }
      } else if (op == "cleanup" || op == "dedupeedges" || op == "splitpinched") {
        // precondition of CleanupTopology: IsManifold (even-manifold, all indices valid)
        ok = m.IsManifold();
        for (size_t e = 0; e < m.halfedge_.size() && ok; ++e) ok = m.halfedge_.Start(e) < 0 || inV(m.halfedge_.Start(e));
        if (ok) {
          if (op == "cleanup") m.CleanupTopology();
          else if (op == "dedupeedges") m.DedupeEdges();
          else m.SplitPinchedVerts();
        }
      } else if (op == "fliptris") {
        ok = m.halfedge_.size() % 3 == 0;
        if (ok) for (size_t tri = 0; tri < m.halfedge_.size() / 3; ++tri) FlipTris{m.halfedge_}((int)tri);
      } else if (op == "removeunref") {
        for (size_t e = 0; e < m.halfedge_.size(); ++e) ok = ok && (m.halfedge_.Start(e) < 0 || inV(m.halfedge_.Start(e)));
        if (ok) m.RemoveUnreferencedVerts();
      } else if (op == "reindexfull") {
        // a full permutation of the current vertices
        Vec<int> n2o;
        for (size_t i = 1; i < t.size(); ++i) n2o.push_back((int)I(i));
        std::vector<int> seen(m.vertPos_.size(), 0);
        ok = n2o.size() == m.vertPos_.size();
        for (int v : n2o) { if (!inV(v) || seen[v]) ok = false; else seen[v] = 1; }
        for (size_t e = 0; e < m.halfedge_.size(); ++e) ok = ok && (m.halfedge_.Start(e) < 0 || inV(m.halfedge_.Start(e)));
        if (ok) {
          m.ReindexVerts(n2o, m.vertPos_.size());
          Vec<vec3> np(n2o.size());
          for (size_t i = 0; i < n2o.size(); ++i) np[i] = m.vertPos_[n2o[i]];
          m.vertPos_ = np;
        }
      } else if (op == "sortverts") {
        for (size_t e = 0; e < m.halfedge_.size(); ++e) ok = ok && (m.halfedge_.Start(e) < 0 || inV(m.halfedge_.Start(e)));
        if (ok) {
          // tag: x = old index + 1 (kept by Permute)
          const size_t oldN = m.vertPos_.size();
          std::vector<int> wasNan(oldN);
          for (size_t v = 0; v < oldN; ++v) { wasNan[v] = std::isnan(m.vertPos_[v].x); if (!wasNan[v]) m.vertPos_[v].x = v + 1; }
          m.CalculateBBox();
          m.vertNormal_.clear();
          m.SortVerts();
          std::string o = "P " + id + " " + std::to_string(step);
          for (size_t i = 0; i < m.vertPos_.size(); ++i) o += " " + std::to_string((int)std::lround(m.vertPos_[i].x) - 1);
          for (size_t v = 0; v < oldN; ++v) if (wasNan[v]) o += " " + std::to_string(v);
          puts(o.c_str());
        }
      } else if (op == "sortfaces") {
        ok = m.halfedge_.size() % 3 == 0;
        for (size_t e = 0; e < m.halfedge_.size() && ok; ++e) {
          const int s = m.halfedge_.Start(e), p = m.halfedge_.Pair(e);
          ok = (s < 0 && p < 0) || (inV(s) && !std::isnan(m.vertPos_[s].x) && inH(p) && m.halfedge_.Start(p) >= 0 && m.halfedge_.Pair(p) >= 0);
          if (ok && s < 0) {  // tombstones are whole triangles
            const size_t t0 = e - e % 3;
            for (int k = 0; k < 3; ++k) ok = ok && m.halfedge_.Start(t0 + k) < 0 && m.halfedge_.Pair(t0 + k) < 0;
          }
        }
        if (ok) {
          const size_t nT = m.halfedge_.size() / 3;
          m.meshRelation_.triRef.resize(nT);
          for (size_t f = 0; f < nT; ++f) m.meshRelation_.triRef[f] = {0, 0, (int)f, (int)f};
          m.faceNormal_.clear();
          m.halfedgeTangent_.clear();
          m.CalculateBBox();
          Vec<Box> faceBox;
          Vec<uint32_t> faceMorton;
          m.GetFaceBoxMorton(faceBox, faceMorton);
          m.SortFaces(faceBox, faceMorton);
          std::string o = "P " + id + " " + std::to_string(step);
          for (size_t f = 0; f < m.meshRelation_.triRef.size(); ++f) o += " " + std::to_string(m.meshRelation_.triRef[f].faceID);
          puts(o.c_str());
        }
      } else ok = false;
      if (ok) dump(id, step, m);
      else printf("A %s %d SKIP\n", id.c_str(), step);
    }
    printf("E %s\n", id.c_str());
    fflush(stdout);
  }
  return 0;
}
