// C04 gap 2, dynamic tie.  Winding03_ (src/boolean3.cpp) evaluates the winding
// number of ONE vertex per connected component of "edges not cut by the other
// mesh" - the concurrent union-find root, whose identity depends on the
// schedule - and floods it over the component.  The theorem
// winding03_schedule_independent_given_constant_winding needs: the winding the
// kernel computes is the same at EVERY vertex of a component.  This harness
// forces every possible root: it recomputes, with the library's own Kernel02
// (the .cpp is included), the winding at every vertex, and checks
//   nonconst = #components on which it is not constant   (hypothesis violated)
//   mismatch = #vertices where Boolean3's w03_/w30_ differs from it.
//
//   c04_wind <seed> <cases>
//   output: W <id> kind=.. op=.. nvP=.. nvQ=.. compsP=.. compsQ=.. nonconst=.. mismatch=..
#include <algorithm>
#include <cmath>
#include <cstdint>
#include <cstdio>
#include <cstdlib>
#include <functional>
#include <map>
#include <memory>
#include <numeric>
#include <set>
#include <string>
#include <unordered_map>
#include <unordered_set>
#include <vector>
#include <mutex>
#include <atomic>
#include <optional>
#include <sstream>
#include <iostream>

#define private public
#include "boolean3.cpp"
#include "csg_tree.h"
#undef private

using namespace manifold;

struct Rng {
  uint64_t s;
  uint64_t next() {
    s = s * 6364136223846793005ull + 1442695040888963407ull;
    return s >> 17;
  }
  double unit() { return (next() & ((1ull << 40) - 1)) / double(1ull << 40); }
  int below(int n) { return int(next() % uint64_t(n)); }
};

struct UF {
  std::vector<int> p;
  UF(int n) : p(n) { std::iota(p.begin(), p.end(), 0); }
  int find(int x) {
    while (p[x] != x) x = p[x] = p[p[x]];
    return x;
  }
  void unite(int a, int b) { p[find(a)] = find(b); }
};

template <bool expandP, bool forward>
static void checkSide(const Manifold::Impl& inP, const Manifold::Impl& inQ,
                      const Vec<std::array<int, 2>>& p1q2, const Vec<int>& w,
                      int& comps, int& nonconst, int& mismatch) {
  const Manifold::Impl& a = forward ? inP : inQ;
  const Manifold::Impl& b = forward ? inQ : inP;
  const int index = forward ? 0 : 1;
  const int nv = a.NumVert();
  std::set<int> broken;
  for (auto& pq : p1q2) broken.insert(pq[index]);
  UF uf(nv);
  for (int e = 0; e < (int)a.halfedge_.size(); ++e) {
    const int s = a.halfedge_.Start(e), t = a.halfedge_.End(e);
    if (s >= t) continue;
    if (!broken.count(e)) uf.unite(s, t);
  }
  Kernel02<expandP, forward> k02{a, b};
  std::vector<int> wind(nv, 0);
  const int nf = b.NumTri();
  for (int v = 0; v < nv; ++v) {
    const vec3 p = a.vertPos_[v];
    for (int f = 0; f < nf; ++f) {
      // the collider reports exactly the faces whose box contains p in xy (C14)
      double minx = INFINITY, maxx = -INFINITY, miny = INFINITY, maxy = -INFINITY;
      for (int j = 0; j < 3; ++j) {
        const vec3 q = b.vertPos_[b.halfedge_.Start(3 * f + j)];
        minx = std::min(minx, q.x);
        maxx = std::max(maxx, q.x);
        miny = std::min(miny, q.y);
        maxy = std::max(maxy, q.y);
      }
      if (!(p.x <= maxx && p.x >= minx && p.y <= maxy && p.y >= miny)) continue;
      const auto [s02, z02] = k02(v, f);
      if (std::isfinite(z02)) wind[v] += s02 * (forward ? 1 : -1);
    }
  }
  std::map<int, std::set<int>> vals;
  for (int v = 0; v < nv; ++v) vals[uf.find(v)].insert(wind[v]);
  comps = vals.size();
  for (auto& kv : vals)
    if (kv.second.size() > 1) ++nonconst;
  if ((int)w.size() == nv)
    for (int v = 0; v < nv; ++v)
      if (w[v] != wind[v]) ++mismatch;
}

static Manifold part(Rng& g, int kind, bool second) {
  auto rt = [&](Manifold m) {
    return m.Rotate(360 * g.unit(), 360 * g.unit(), 360 * g.unit())
        .Translate(vec3(g.unit() - 0.5, g.unit() - 0.5, g.unit() - 0.5));
  };
  switch (kind) {
    case 0:  // generic
      return rt(second ? Manifold::Cube(vec3(1.2), true) : Manifold::Sphere(1.0, 16 + 4 * g.below(4)));
    case 1:  // two spheres
      return rt(Manifold::Sphere(0.8 + 0.4 * g.unit(), 12 + 4 * g.below(5)));
    case 2:  // lattice boxes: coplanar faces, shared edges and vertices
      return Manifold::Cube(vec3(1 + g.below(3), 1 + g.below(3), 1 + g.below(3)))
          .Translate(vec3(g.below(3), g.below(3), g.below(3)));
    case 3:  // identical / integer-shifted copies of one sphere
      return Manifold::Sphere(1.0, 16).Translate(vec3(second ? g.below(2) : 0, 0, 0));
    case 4:  // several components on each side
      return Manifold::Compose({rt(Manifold::Tetrahedron()), rt(Manifold::Cube(vec3(0.7), true)).Translate(vec3(2, 0, 0)),
                                rt(Manifold::Sphere(0.5, 8)).Translate(vec3(0, 2, 0))});
    default:  // axis-aligned cube vs cube rotated by 45 degrees about z (vertical coincidences)
      return second ? Manifold::Cube(vec3(1.0), true).Rotate(0, 0, 45) : Manifold::Cube(vec3(1.0), true);
  }
}

int main(int argc, char** argv) {
  uint64_t seed = argc > 1 ? std::strtoull(argv[1], 0, 10) : 1;
  int cases = argc > 2 ? std::atoi(argv[2]) : 100;
  Rng g{seed * 104729 + 7};
  for (int id = 0; id < cases; ++id) {
    const int kind = id % 6;
    const OpType op = static_cast<OpType>(g.below(3));
    Manifold P = part(g, kind, false), Q = part(g, kind, true);
    auto ip = P.GetCsgLeafNode().GetImpl();
    auto iq = Q.GetCsgLeafNode().GetImpl();
    Boolean3 b3(*ip, *iq, op);
    int cP = 0, cQ = 0, nonconst = 0, mismatch = 0;
    if (b3.xv12_.p1q2.size() || b3.w03_.size()) {
      if (op == OpType::Add) {
        checkSide<true, true>(*ip, *iq, b3.xv12_.p1q2, b3.w03_, cP, nonconst, mismatch);
        checkSide<true, false>(*ip, *iq, b3.xv21_.p1q2, b3.w30_, cQ, nonconst, mismatch);
      } else {
        checkSide<false, true>(*ip, *iq, b3.xv12_.p1q2, b3.w03_, cP, nonconst, mismatch);
        checkSide<false, false>(*ip, *iq, b3.xv21_.p1q2, b3.w30_, cQ, nonconst, mismatch);
      }
    }
    std::printf("W %d kind=%d op=%d nvP=%zu nvQ=%zu x12=%zu x21=%zu compsP=%d compsQ=%d nonconst=%d mismatch=%d\n", id, kind,
                (int)op, ip->NumVert(), iq->NumVert(), b3.xv12_.p1q2.size(), b3.xv21_.p1q2.size(), cP, cQ, nonconst, mismatch);
    std::fflush(stdout);
  }
  return 0;
}
