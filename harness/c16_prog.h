// Small stack-program interpreter shared by the C16 harnesses (same language
// as harness/c18_measure.cpp): builds manifolds from tokens.
#pragma once
#include <cmath>
#include <cstdint>
#include <cstdio>
#include <cstdlib>
#include <cstring>
#include <sstream>
#include <string>
#include <vector>

#include "manifold/manifold.h"

namespace c16 {
using namespace manifold;

inline uint64_t bits(double d) {
  uint64_t u;
  memcpy(&u, &d, 8);
  return u;
}
inline void pb(double d) { printf(" %016llx", (unsigned long long)bits(d)); }

inline void dump_mesh(const char* tag, const std::string& id, const Manifold& m) {
  MeshGL64 g = m.GetMeshGL64();
  size_t nv = g.NumVert(), nt = g.NumTri();
  printf("%s %s %zu %zu %zu %zu", tag, id.c_str(), nv, nt, (size_t)g.numProp, g.mergeFromVert.size());
  for (size_t i = 0; i < nv; ++i)
    for (int k = 0; k < 3; ++k) pb(g.vertProperties[i * g.numProp + k]);
  for (size_t i = 0; i < 3 * nt; ++i) printf(" %llu", (unsigned long long)g.triVerts[i]);
  for (size_t i = 0; i < g.mergeFromVert.size(); ++i)
    printf(" %llu %llu", (unsigned long long)g.mergeFromVert[i], (unsigned long long)g.mergeToVert[i]);
  printf("\n");
}

// consumes tokens up to (not including) a token that is not part of the language; returns that token ("" at end)
inline std::string run_program(std::istringstream& is, std::vector<Manifold>& st) {
  std::string tok;
  auto num = [&]() {
    std::string s;
    is >> s;
    return strtod(s.c_str(), nullptr);
  };
  while (is >> tok) {
    if (tok == "cube") {
      double x = num(), y = num(), z = num();
      int c = (int)num();
      st.push_back(Manifold::Cube(vec3(x, y, z), c != 0));
    } else if (tok == "tet") {
      st.push_back(Manifold::Tetrahedron());
    } else if (tok == "sphere") {
      double r = num();
      int n = (int)num();
      st.push_back(Manifold::Sphere(r, n));
    } else if (tok == "cyl") {
      double h = num(), a = num(), b = num();
      int n = (int)num();
      st.push_back(Manifold::Cylinder(h, a, b, n, false));
    } else if (tok == "lshape") {
      double a = num(), b = num(), h = num();
      Polygons p = {{{0, 0}, {a, 0}, {a, b}, {b, b}, {b, a}, {0, a}}};
      st.push_back(Manifold::Extrude(p, h));
    } else if (tok == "torus") {
      double R = num(), r = num();
      int n = (int)num(), m = (int)num();
      SimplePolygon c;
      for (int i = 0; i < m; ++i) {
        double t = 2 * 3.14159265358979323846 * i / m;
        c.push_back({R + r * std::cos(t), r * std::sin(t)});
      }
      st.push_back(Manifold::Revolve({c}, n));
    } else if (tok == "compose") {
      // one Manifold made of the two topmost (disjoint) bodies
      Manifold b = st.back();
      st.pop_back();
      Manifold a = st.back();
      st.pop_back();
      st.push_back(Manifold::Compose({a, b}));
    } else if (tok == "refine") {
      int n = (int)num();
      st.back() = st.back().Refine(n);
    } else if (tok == "tr") {
      double x = num(), y = num(), z = num();
      st.back() = st.back().Translate(vec3(x, y, z));
    } else if (tok == "rot") {
      double x = num(), y = num(), z = num();
      st.back() = st.back().Rotate(x, y, z);
    } else if (tok == "sc") {
      double x = num(), y = num(), z = num();
      st.back() = st.back().Scale(vec3(x, y, z));
    } else if (tok == "add" || tok == "sub" || tok == "int") {
      Manifold b = st.back();
      st.pop_back();
      Manifold a = st.back();
      st.pop_back();
      if (tok == "add") st.push_back(a + b);
      if (tok == "sub") st.push_back(a - b);
      if (tok == "int") st.push_back(a ^ b);
    } else {
      return tok;
    }
  }
  return "";
}
}  // namespace c16
