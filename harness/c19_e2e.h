// End-to-end cases of the C19 harness (included by c19_partition.cpp after
// subdivision.cpp, with private members opened).
//   E id shape seed pre op a b
//     shape: 0 cube 1 tetrahedron 2 hexagonal prism 3 L-shape (Boolean) 4 sphere(8)
//            5 cube with face-corner normals as properties (discontinuous at edges)
//            6 cube (+|-|^) rotated cube (Boolean result, generic position)
//            7 cube with a smooth position-valued property
//     pre:   0 none   1 SmoothOut(a-dependent)   2 Smooth(MeshGL)   (tangents)
//     op:    0 Refine(a)  1 RefineToLength(b/1000)  2 RefineToTolerance(b/100000)
//            3 Impl::Refine(hash divisions < a, keepInterior = b&1)
//            4 Refine(a) then Simplify(t)   5 Refine(a) then SetTolerance(t)   (t from b)
//            6 SetTolerance up then down (b selects)
// Output: one line "E id k=v ..." of integers / booleans / bit patterns only.
struct MeshFacts {
  long nv = 0, nt = 0, nprop = 0, npropvert = 0;
  int status = 0;
  bool referenced = true, manifold = true, finite = true;
  long chi = 0, unref = 0;
  double vol = 0, area = 0, tol = 0, eps = 0;
  std::vector<std::array<uint64_t, 3>> pos;  // sorted bit patterns
};

static std::shared_ptr<const Manifold::Impl> impl_of(const Manifold& m) { return m.GetCsgLeafNode().GetImpl(); }

static MeshFacts facts(const Manifold& m) {
  MeshFacts f;
  f.status = (int)m.Status();
  auto impl = impl_of(m);
  f.nv = impl->NumVert();
  f.nt = impl->NumTri();
  f.nprop = impl->NumProp();
  f.npropvert = impl->NumPropVert();
  f.tol = impl->tolerance_;
  f.eps = impl->epsilon_;
  const size_t nh = impl->halfedge_.size();
  std::vector<char> seen(f.nv, 0);
  std::vector<std::pair<int, int>> de;
  de.reserve(nh);
  for (size_t h = 0; h < nh; ++h) {
    const int s = impl->halfedge_.Start(h), e = impl->halfedge_.End(h);
    if (s < 0 || s >= f.nv || e < 0 || e >= f.nv) { f.manifold = false; continue; }
    seen[s] = 1;
    de.push_back({s, e});
    if (s == e) f.manifold = false;
  }
  for (long v = 0; v < f.nv; ++v)
    if (!seen[v]) { f.referenced = false; ++f.unref; }
  std::sort(de.begin(), de.end());
  for (size_t i = 0; i + 1 < de.size(); ++i)
    if (de[i] == de[i + 1]) f.manifold = false;
  for (auto& e : de)
    if (!std::binary_search(de.begin(), de.end(), std::make_pair(e.second, e.first))) f.manifold = false;
  f.chi = f.nv - (long)(nh / 2) + f.nt;
  for (long v = 0; v < f.nv; ++v) {
    const vec3 p = impl->vertPos_[v];
    if (!std::isfinite(p.x) || !std::isfinite(p.y) || !std::isfinite(p.z)) f.finite = false;
    f.pos.push_back({bits(p.x + 0.0), bits(p.y + 0.0), bits(p.z + 0.0)});  // -0.0 and +0.0 are the same position
  }
  std::sort(f.pos.begin(), f.pos.end());
  f.vol = m.Volume();
  f.area = m.SurfaceArea();
  return f;
}

// is the multiset a contained in the multiset b (both sorted)?
static bool sub_multiset(const std::vector<std::array<uint64_t, 3>>& a, const std::vector<std::array<uint64_t, 3>>& b) {
  return std::includes(b.begin(), b.end(), a.begin(), a.end());
}
static bool sub_set(const std::vector<std::array<uint64_t, 3>>& a, const std::vector<std::array<uint64_t, 3>>& b) {
  for (auto& x : a)
    if (!std::binary_search(b.begin(), b.end(), x)) return false;
  return true;
}
// largest distance (in units of 2^-40 * scale) from a point of a to the nearest point of b; brute force
static long max_gap(const Manifold& a, const Manifold& b, double scale) {
  auto ia = impl_of(a), ib = impl_of(b);
  double worst = 0;
  for (size_t i = 0; i < ia->NumVert(); ++i) {
    double best = 1e300;
    for (size_t j = 0; j < ib->NumVert(); ++j) {
      const vec3 d = ia->vertPos_[i] - ib->vertPos_[j];
      best = std::min(best, la::dot(d, d));
    }
    worst = std::max(worst, best);
  }
  return (long)std::min(1e15, std::ceil(std::sqrt(worst) / scale * 1099511627776.0));
}

// closest point on triangle (a,b,c) to p (Ericson, Real-Time Collision Detection 5.1.5)
static vec3 closest_on_tri(vec3 p, vec3 a, vec3 b, vec3 c) {
  const vec3 ab = b - a, ac = c - a, ap = p - a;
  const double d1 = la::dot(ab, ap), d2 = la::dot(ac, ap);
  if (d1 <= 0 && d2 <= 0) return a;
  const vec3 bp = p - b;
  const double d3 = la::dot(ab, bp), d4 = la::dot(ac, bp);
  if (d3 >= 0 && d4 <= d3) return b;
  const double vc = d1 * d4 - d3 * d2;
  if (vc <= 0 && d1 >= 0 && d3 <= 0) return a + ab * (d1 / (d1 - d3));
  const vec3 cp = p - c;
  const double d5 = la::dot(ab, cp), d6 = la::dot(ac, cp);
  if (d6 >= 0 && d5 <= d6) return c;
  const double vb = d5 * d2 - d1 * d6;
  if (vb <= 0 && d2 >= 0 && d6 <= 0) return a + ac * (d2 / (d2 - d6));
  const double va = d3 * d6 - d5 * d4;
  if (va <= 0 && (d4 - d3) >= 0 && (d5 - d6) >= 0) return b + (c - b) * ((d4 - d3) / ((d4 - d3) + (d5 - d6)));
  const double denom = 1.0 / (va + vb + vc);
  return a + ab * (vb * denom) + ac * (vc * denom);
}
// largest distance (units of 2^-40) from a vertex of a to the surface of b; brute force
static long max_surf_gap(const Manifold& a, const Manifold& b) {
  auto ia = impl_of(a), ib = impl_of(b);
  double worst = 0;
  for (size_t i = 0; i < ia->NumVert(); ++i) {
    double best = 1e300;
    const vec3 p = ia->vertPos_[i];
    for (size_t t = 0; t < ib->NumTri(); ++t) {
      const vec3 q = closest_on_tri(p, ib->vertPos_[ib->halfedge_.Start(3 * t)], ib->vertPos_[ib->halfedge_.Start(3 * t + 1)],
                                    ib->vertPos_[ib->halfedge_.Start(3 * t + 2)]);
      best = std::min(best, la::dot(p - q, p - q));
    }
    worst = std::max(worst, best);
  }
  if (!(worst < 1e300)) return 1000000000000000L;
  return (long)std::min(1e15, std::ceil(std::sqrt(worst) * 1099511627776.0));
}

// original vertices whose position (bit pattern) is absent from the result: {all, those whose every
// incident triangle in the input has an opposed twin (same three vertices, reversed) - a zero-volume fin}
static std::pair<long, long> lost_vertices(const Manifold& base, const MeshFacts& fres) {
  auto ib = impl_of(base);
  std::set<std::array<int, 3>> tris;
  auto canon = [](int a, int b, int c) {
    std::array<int, 3> t{a, b, c};
    while (t[0] > t[1] || t[0] > t[2]) std::rotate(t.begin(), t.begin() + 1, t.end());
    return t;
  };
  const size_t nt = ib->NumTri();
  for (size_t t = 0; t < nt; ++t)
    tris.insert(canon(ib->halfedge_.Start(3 * t), ib->halfedge_.Start(3 * t + 1), ib->halfedge_.Start(3 * t + 2)));
  long lost = 0, fin = 0;
  for (size_t v = 0; v < ib->NumVert(); ++v) {
    const vec3 p = ib->vertPos_[v];
    std::array<uint64_t, 3> key{bits(p.x + 0.0), bits(p.y + 0.0), bits(p.z + 0.0)};
    if (std::binary_search(fres.pos.begin(), fres.pos.end(), key)) continue;
    ++lost;
    bool allTwin = true;
    for (size_t t = 0; t < nt; ++t) {
      const int a = ib->halfedge_.Start(3 * t), b = ib->halfedge_.Start(3 * t + 1), c = ib->halfedge_.Start(3 * t + 2);
      if (a != (int)v && b != (int)v && c != (int)v) continue;
      if (!tris.count(canon(a, c, b))) allTwin = false;
    }
    if (allTwin) ++fin;
  }
  return {lost, fin};
}

static bool close_rel(double a, double b, double rel) {
  return std::fabs(a - b) <= rel * std::max(std::fabs(a), std::fabs(b)) + 1e-300;
}

struct Rng {
  std::mt19937_64 g;
  explicit Rng(uint64_t s) : g(s) {}
  double u() { return (double)(g() >> 11) * (1.0 / 9007199254740992.0); }
  double r(double a, double b) { return a + (b - a) * u(); }
};

static Manifold make_shape(int shape, Rng& rng) {
  Manifold m;
  switch (shape) {
    case 0: m = Manifold::Cube(vec3(rng.r(0.5, 2), rng.r(0.5, 2), rng.r(0.5, 2)), true); break;
    case 1: m = Manifold::Tetrahedron(); break;
    case 2: m = Manifold::Cylinder(rng.r(0.5, 2), 1, 1, 6); break;
    case 3: m = Manifold::Cube(vec3(2, 2, 1)) - Manifold::Cube(vec3(1, 1, 2)).Translate(vec3(1, 1, -0.5)); break;
    case 4: m = Manifold::Sphere(1, 8); break;
    case 5: m = Manifold::Cube(vec3(1, 2, 1.5), true).CalculateNormals(0, 60); break;
    case 6: {
      Manifold a = Manifold::Cube(vec3(1.0), true);
      Manifold b = Manifold::Cube(vec3(1.0), true)
                       .Rotate(rng.r(0, 90), rng.r(0, 90), rng.r(0, 90))
                       .Translate(vec3(rng.r(-0.5, 0.5), rng.r(-0.5, 0.5), rng.r(-0.5, 0.5)));
      const int op = (int)(rng.u() * 3);
      m = op == 0 ? a + b : op == 1 ? a - b : a ^ b;
      return m;  // F6's family: no further transform
    }
    default:
      m = Manifold::Cube(vec3(1, 1, 1), true).SetProperties(3, [](double* p, vec3 pos, const double*) {
        p[0] = pos.x + 2 * pos.y; p[1] = pos.z; p[2] = 1;
      });
      break;
  }
  if (rng.u() < 0.7)
    m = m.Rotate(rng.r(0, 360), rng.r(0, 360), rng.r(0, 360)).Translate(vec3(rng.r(-3, 3), rng.r(-3, 3), rng.r(-3, 3)));
  return m;
}

static int hash_div(vec3 v, int modulus, uint64_t salt) {
  // symmetric in the sign of the edge vector; depends only on bit patterns
  uint64_t h = salt;
  for (int i = 0; i < 3; ++i) h = (h ^ bits(std::fabs(v[i]))) * 0x9E3779B97F4A7C15ull + (h >> 29);
  return (int)((h >> 33) % (uint64_t)modulus);
}

static void put(std::ostringstream& o, const char* k, long v) { o << " " << k << "=" << v; }
static void putb(std::ostringstream& o, const char* k, double d) {
  char buf[40];
  snprintf(buf, sizeof buf, " %s=%016llx", k, (unsigned long long)bits(d));
  o << buf;
}

static void run_e2e(std::istringstream& in) {
  std::string id;
  int shape, pre, op;
  uint64_t seed;
  long a, b;
  in >> id >> shape >> seed >> pre >> op >> a >> b;
  Rng rng(seed);
  std::ostringstream o;
  o << "E " << id;
  Manifold base = make_shape(shape, rng);
  if (pre == 1) base = base.SmoothOut(a % 2 ? 52.5 : 30.0, (a / 2) % 2 ? 0.0 : 0.3);
  if (pre == 2) {
    MeshGL mg = base.GetMeshGL();
    MeshGL plain;
    plain.numProp = 3;
    for (size_t i = 0; i < mg.NumVert(); ++i)
      for (int k = 0; k < 3; ++k) plain.vertProperties.push_back(mg.vertProperties[i * mg.numProp + k]);
    plain.triVerts = mg.triVerts;
    plain.mergeFromVert = mg.mergeFromVert;
    plain.mergeToVert = mg.mergeToVert;
    base = Manifold::Smooth(plain);
  }
  MeshFacts f0 = facts(base);
  put(o, "st0", f0.status); put(o, "nt0", f0.nt); put(o, "nv0", f0.nv); put(o, "np0", f0.nprop);
  put(o, "ref0", f0.referenced); put(o, "man0", f0.manifold); put(o, "chi0", f0.chi);
  const bool tang = impl_of(base)->halfedgeTangent_.size() > 0;
  put(o, "tang", tang);
  {
    long nanTan = 0;
    for (const vec4& t : impl_of(base)->halfedgeTangent_)
      if (std::isnan(t.x) || std::isnan(t.y) || std::isnan(t.z) || std::isnan(t.w)) ++nanTan;
    put(o, "nan_tan", nanTan);
  }
  Manifold res;
  if (op == 0) res = base.Refine((int)a);
  else if (op == 1) res = base.RefineToLength(b / 1000.0);
  else if (op == 2) res = base.RefineToTolerance(b / 100000.0);
  else if (op == 3) {
    auto src = impl_of(base);
    auto p = std::make_shared<Manifold::Impl>(*src);
    const int modulus = (int)a;
    const uint64_t salt = seed * 7 + 1;
    // the division triples Subdivide will ask Partition for (keepInterior = false only)
    std::map<std::array<int, 3>, long> hist;
    for (size_t t = 0; t < src->NumTri(); ++t) {
      std::array<int, 3> d;
      for (int i = 0; i < 3; ++i) {
        const vec3 v = src->vertPos_[src->halfedge_.Start(3 * t + i)] - src->vertPos_[src->halfedge_.End(3 * t + i)];
        d[i] = hash_div(v, modulus, salt) + 1;
      }
      std::sort(d.begin(), d.end(), std::greater<int>());
      hist[d]++;
    }
    p->Refine([modulus, salt](vec3 e, vec4, vec4) { return hash_div(e, modulus, salt); }, (b & 1) != 0, nullptr);
    res = Manifold(p);
    o << " div=";
    bool first = true;
    for (auto& kv : hist) {
      o << (first ? "" : ",") << kv.first[0] << ":" << kv.first[1] << ":" << kv.first[2] << ":" << kv.second;
      first = false;
    }
  } else if (op == 4 || op == 5) {
    Manifold fine = base.Refine((int)a);
    MeshFacts ff = facts(fine);
    put(o, "ntf", ff.nt); put(o, "nvf", ff.nv);
    // feature size of shapes 0,2,3 is >= 0.5; tolerances well below it
    const double t = (b % 4 == 0) ? 0.0 : (b % 4 == 1) ? 1e-9 : (b % 4 == 2) ? 1e-4 : 0.01;
    res = op == 4 ? fine.Simplify(t) : fine.SetTolerance(t);
    MeshFacts fr = facts(res);
    put(o, "subset", sub_set(fr.pos, ff.pos));
    put(o, "gap40", sub_set(fr.pos, ff.pos) ? 0 : max_gap(res, fine, 1.0));
    put(o, "corner40", max_gap(base, res, 1.0));
    put(o, "orig_kept", sub_multiset(f0.pos, fr.pos));
    putb(o, "t", t); putb(o, "tolf", ff.tol); putb(o, "epsf", ff.eps);
    put(o, "tol_is_max", bits(fr.tol) == bits(std::max(t, ff.eps)) || (op == 4 && bits(fr.tol) == bits(ff.tol)));
    put(o, "tol_expected_kind", op == 4 ? 0 : 1);
    put(o, "tol_ge_eps", fr.tol >= fr.eps);
  } else if (op == 6) {
    // raise the tolerance, then lower it: below epsilon, and between epsilon and the raised value
    const double up = 0.01, down = (b % 3 == 0) ? 0.0 : (b % 3 == 1) ? 1e-13 * (1 + (double)(b % 7)) : 1e-3;
    Manifold r1 = base.SetTolerance(up);
    MeshFacts f1 = facts(r1);
    res = r1.SetTolerance(down);
    MeshFacts fr = facts(res);
    putb(o, "t", down); putb(o, "tol1", f1.tol); putb(o, "eps1", f1.eps);
    put(o, "tol1_is_max", bits(f1.tol) == bits(std::max(up, f0.eps)));
    put(o, "tol_is_max", bits(fr.tol) == bits(std::max(down, f1.eps)));
    put(o, "tol_ge_eps", fr.tol >= fr.eps && f1.tol >= f1.eps);
    put(o, "lowered", down < f1.tol);
  }
  MeshFacts f1 = facts(res);
  put(o, "st1", f1.status); put(o, "nt1", f1.nt); put(o, "nv1", f1.nv); put(o, "np1", f1.nprop);
  put(o, "ref1", f1.referenced); put(o, "unref1", f1.unref); put(o, "man1", f1.manifold); put(o, "chi1", f1.chi);
  put(o, "finite1", f1.finite);
  put(o, "kept", sub_multiset(f0.pos, f1.pos));
  {
    auto lv = lost_vertices(base, f1);
    put(o, "lost", lv.first); put(o, "lost_fin", lv.second);
  }
  put(o, "surf40", tang || f1.nv > 20000 ? -1 : max_surf_gap(res, base));
  put(o, "vol_same", close_rel(f0.vol, f1.vol, 1e-10));
  put(o, "area_same", close_rel(f0.area, f1.area, 1e-10));
  put(o, "vol_same9", close_rel(f0.vol, f1.vol, 1e-7));
  put(o, "area_same9", close_rel(f0.area, f1.area, 1e-7));
  putb(o, "vol0", f0.vol); putb(o, "vol1", f1.vol); putb(o, "area0", f0.area); putb(o, "area1", f1.area);
  putb(o, "tol", f1.tol); putb(o, "eps", f1.eps);
  puts(o.str().c_str());
}

// S id shape seed modulus : Impl::Subdivide(edgeDivisions = hash of the edge vector, keepInterior = false)
// on a tangent-free mesh (no marked quads).  Prints the input triangles, the per-edge edgeAdded the
// oracle answered, and the triangles Subdivide produced (halfedge_ after its CreateHalfedges).
static void run_subdiv(std::istringstream& in) {
  std::string id;
  int shape, modulus;
  uint64_t seed;
  in >> id >> shape >> seed >> modulus;
  Rng rng(seed);
  Manifold base = make_shape(shape, rng);
  auto src = impl_of(base);
  std::ostringstream o;
  o << "S " << id;
  if (base.Status() != Manifold::Error::NoError || src->NumTri() == 0 || src->halfedgeTangent_.size() > 0) {
    o << " SKIP";
    puts(o.str().c_str());
    return;
  }
  const uint64_t salt = seed * 11 + 3;
  o << " NV " << src->NumVert() << " T " << src->NumTri();
  for (size_t t = 0; t < src->NumTri(); ++t)
    for (int i = 0; i < 3; ++i) o << " " << src->halfedge_.Start(3 * t + i);
  std::ostringstream ed;
  size_t ne = 0;
  for (size_t h = 0; h < src->halfedge_.size(); ++h) {
    const int s = src->halfedge_.Start(h), e = src->halfedge_.End(h);
    if (s < e) {
      const vec3 v = src->vertPos_[s] - src->vertPos_[e];
      ed << " " << s << " " << e << " " << hash_div(v, modulus, salt);
      ++ne;
    }
  }
  o << " A " << ne << ed.str();
  auto p = std::make_shared<Manifold::Impl>(*src);
  Vec<Barycentric> vb = p->Subdivide([modulus, salt](vec3 e, vec4, vec4) { return hash_div(e, modulus, salt); }, false);
  o << " OUT " << p->NumTri();
  for (size_t t = 0; t < p->NumTri(); ++t)
    for (int i = 0; i < 3; ++i) o << " " << p->halfedge_.Start(3 * t + i);
  o << " NV2 " << p->NumVert() << " VB " << vb.size();
  // owner triangle of every vertex (FillRetainedVerts / edge / interior)
  o << " OWN";
  for (size_t v = 0; v < vb.size(); ++v) o << " " << vb[v].tri;
  puts(o.str().c_str());
}

// X id shape seed nops : random sequences of Impl::CollapseEdge2 (short merger: the geometric
// reject block is skipped) and Impl::SwapEdge on valid halfedges; one line per operation with the
// complete integer state before and after (start, pair, prop per halfedge; vertPos_.size();
// NumProp(); number of property vertices).
static void dump_state(std::ostringstream& o, const Manifold::Impl& m) {
  o << " " << m.halfedge_.size();
  for (size_t i = 0; i < m.halfedge_.size(); ++i)
    o << " " << m.halfedge_.Start(i) << " " << m.halfedge_.Pair(i) << " " << m.halfedge_.Prop(i);
  o << " " << m.vertPos_.size() << " " << m.NumProp() << " " << (m.NumProp() ? m.properties_.size() / m.NumProp() : 0);
}
static void run_edgeops(std::istringstream& in) {
  std::string id;
  int shape, nops;
  uint64_t seed;
  in >> id >> shape >> seed >> nops;
  std::mt19937_64 rng(seed);
  Manifold m = shape == 0 ? Manifold::Sphere(1, 4) : shape == 1 ? Manifold::Cube() : shape == 2 ? Manifold::Sphere(1, 8)
             : shape == 3 ? Manifold::Cube(vec3(1, 2, 1.5), true).CalculateNormals(0, 60)
             : shape == 4 ? Manifold::Tetrahedron() : Manifold::Cylinder(1, 1, 1, 5);
  Manifold::Impl impl = *impl_of(m);
  impl.halfedge_.MakeUnique();
  Vec<int> scratch;
  long live0 = 0;
  for (size_t t = 0; t < impl.halfedge_.size() / 3; ++t) live0 += impl.halfedge_.Pair(3 * t) >= 0;
  const size_t slots0 = impl.halfedge_.size();
  for (int k = 0; k < nops; ++k) {
    std::vector<int> valid;
    for (int e = 0; e < (int)impl.halfedge_.size(); ++e)
      if (impl.halfedge_.Valid(e)) valid.push_back(e);
    if (valid.empty()) break;
    const int e = valid[rng() % valid.size()];
    const bool swap = rng() % 3 == 0;
    std::ostringstream o;
    o << "X " << id << "." << k << " " << (swap ? "W" : "C") << " " << e << " ST0";
    dump_state(o, impl);
    bool did = true;
    if (swap) {
      impl.SwapEdge(e, 0.5);
    } else {
      Manifold::Impl::Merger mg;
      mg.totalCost = Manifold::Impl::Merger::kShort;
      mg.addedCost = 0;
      mg.a = 0.5;
      mg.newPos = impl.vertPos_[impl.halfedge_.End(e)];
      did = impl.CollapseEdge2(e, scratch, mg);
    }
    o << " ST1";
    dump_state(o, impl);
    long live = 0;
    for (size_t t = 0; t < impl.halfedge_.size() / 3; ++t) live += impl.halfedge_.Pair(3 * t) >= 0;
    o << " DID " << (did ? 1 : 0) << " LIVE " << live << " LIVE0 " << live0 << " SLOTS0 " << slots0;
    puts(o.str().c_str());
    fflush(stdout);
  }
  printf("X %s.end\n", id.c_str());
}

// Q id shape seed modulus keepInterior pre : like S, but on meshes that may carry tangents with
// marked quads (pre = 1: SmoothOut(52.5, 0.3), pre = 2: SmoothOut(30, 0.3)) and with keepInterior.
// Prints additionally the marked (inside-quad) undirected edges and the keepInterior flag.
static void run_subdiv_q(std::istringstream& in) {
  std::string id;
  int shape, modulus, keep, pre;
  uint64_t seed;
  in >> id >> shape >> seed >> modulus >> keep >> pre;
  Rng rng(seed);
  Manifold base = make_shape(shape, rng);
  if (pre == 1) base = base.SmoothOut(52.5, 0.3);
  if (pre == 2) base = base.SmoothOut(30.0, 0.3);
  auto src = impl_of(base);
  std::ostringstream o;
  o << "Q " << id;
  if (base.Status() != Manifold::Error::NoError || src->NumTri() == 0 || !src->ValidTangents()) {
    o << " SKIP";
    puts(o.str().c_str());
    return;
  }
  const uint64_t salt = seed * 13 + 5;
  o << " KI " << keep << " NV " << src->NumVert() << " T " << src->NumTri();
  for (size_t t = 0; t < src->NumTri(); ++t)
    for (int i = 0; i < 3; ++i) o << " " << src->halfedge_.Start(3 * t + i);
  std::ostringstream ed, mk;
  size_t ne = 0, nm = 0;
  for (size_t h = 0; h < src->halfedge_.size(); ++h) {
    const int s = src->halfedge_.Start(h), e = src->halfedge_.End(h);
    if (s < e) {
      const vec3 v = src->vertPos_[s] - src->vertPos_[e];
      ed << " " << s << " " << e << " " << hash_div(v, modulus, salt);
      ++ne;
      if (src->IsMarkedInsideQuad(h)) { mk << " " << s << " " << e; ++nm; }
    }
  }
  o << " A " << ne << ed.str() << " M " << nm << mk.str();
  auto p = std::make_shared<Manifold::Impl>(*src);
  Vec<Barycentric> vb = p->Subdivide([modulus, salt](vec3 e, vec4, vec4) { return hash_div(e, modulus, salt); }, keep != 0);
  o << " OUT " << p->NumTri();
  for (size_t t = 0; t < p->NumTri(); ++t)
    for (int i = 0; i < 3; ++i) o << " " << p->halfedge_.Start(3 * t + i);
  o << " NV2 " << p->NumVert();
  puts(o.str().c_str());
}
