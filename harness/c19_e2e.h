static void run_e2e(std::istringstream& in) {}
