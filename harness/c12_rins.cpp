// C12 harness: the containment verdicts behind DecomposeByContainment.
// BoxInside / RingInside / Summarize live in the anonymous namespace of
// src/boolean2_offset.cpp and are reached by including the .cpp.
//   RINS id RINGS(int)   -> RINS id k  b(0,0) b(0,1) ... b(k-1,k-1)
// where b(i,j) = (i != j) && BoxInside(info[i], info[j]) && RingInside(rings[i], rings[j], info[j].eps),
// exactly the test of the parent search (rings are passed as stored: first vertex first).
#include <cstdio>
#include <iostream>
#include <sstream>
#include <string>
#include <vector>

#include "../src/boolean2_offset.cpp"

using namespace manifold;

int main() {
  std::string line;
  while (std::getline(std::cin, line)) {
    std::istringstream in(line);
    std::string tag, id;
    in >> tag >> id;
    if (tag != "RINS") continue;
    int k;
    in >> k;
    Polygons rings;
    for (int r = 0; r < k; ++r) {
      int n;
      in >> n;
      SimplePolygon ring(n);
      for (int i = 0; i < n; ++i) {
        long long x, y;
        in >> x >> y;
        ring[i] = vec2((double)x, (double)y);
      }
      rings.push_back(ring);
    }
    std::vector<RingInfo> info;
    for (const auto& r : rings) info.push_back(Summarize(r));
    printf("RINS %s %d", id.c_str(), k);
    for (int i = 0; i < k; ++i)
      for (int j = 0; j < k; ++j)
        printf(" %d", (i != j && BoxInside(info[i], info[j]) && RingInside(rings[i], rings[j], info[j].eps)) ? 1 : 0);
    printf("\n");
    fflush(stdout);
  }
  return 0;
}
