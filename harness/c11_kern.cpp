// C11 kernel correspondence harness: the integer/topological kernels of the 2D
// Boolean, run on integer-valued doubles so that the Gallina ports (over Z) must
// agree exactly.  Anonymous-namespace code (IsInside, PolySetAdd,
// MergeVerticals1D) is reached by including the .cpp (found through -I<repo>/src).
//   ISIN                         -> ISIN then (rule w 0/1) triples for rule 0..2, w in -6..6
//   MV <id> <n> ylo yhi m ...    -> MergeVerticals1D on one x-group, output in map order
//   OE <id> <nv> x y ... <ne> v0 v1 ...  -> OutEdgesToPolygons
#include "boolean2_sweep.cpp"

#include <cinttypes>
#include <cstdio>
#include <iostream>
#include <sstream>
#include <string>

using namespace manifold;

int main() {
  std::string line;
  while (std::getline(std::cin, line)) {
    std::istringstream in(line);
    std::string tok;
    if (!(in >> tok)) continue;
    if (tok == "ISIN") {
      std::printf("ISIN");
      const WindRule rules[3] = {WindRule::Add, WindRule::Intersect,
                                 WindRule::EvenOdd};
      for (int r = 0; r < 3; ++r)
        for (int w = -6; w <= 6; ++w)
          std::printf(" %d %d %d", r, w, IsInside(rules[r], w) ? 1 : 0);
      std::printf("\n");
    } else if (tok == "MV") {
      std::string id;
      long n;
      in >> id >> n;
      PolySet2 ps;
      // a non-vertical bystander that must stay untouched
      PolySetAdd(ps, {-1.0, 0.0}, {5.0, 7.0}, 3);
      for (long i = 0; i < n; ++i) {
        long lo, hi, m;
        in >> lo >> hi >> m;
        PolySetAdd(ps, {2.0, (double)lo}, {2.0, (double)hi}, m);
      }
      MergeVerticals1D(ps);
      std::printf("MV %s", id.c_str());
      long other = 0;
      for (const auto& kv : ps) {
        if (kv.first.first.x == 2.0 && kv.first.second.x == 2.0)
          std::printf(" %ld %ld %ld", (long)kv.first.first.y,
                      (long)kv.first.second.y, (long)kv.second);
        else
          other += 1 + (kv.second != 3);
      }
      std::printf(" | %ld\n", other);
    } else if (tok == "OE") {
      std::string id;
      long nv, ne;
      in >> id >> nv;
      std::vector<vec2> verts;
      for (long i = 0; i < nv; ++i) {
        long x, y;
        in >> x >> y;
        verts.push_back({(double)x, (double)y});
      }
      in >> ne;
      std::vector<OutEdge> edges;
      for (long i = 0; i < ne; ++i) {
        long a, b;
        in >> a >> b;
        edges.push_back({(int)a, (int)b, 1});
      }
      const Polygons ps = OutEdgesToPolygons(verts, edges);
      std::printf("OE %s %zu", id.c_str(), ps.size());
      for (const auto& c : ps) {
        std::printf(" %zu", c.size());
        for (const vec2& v : c) std::printf(" %ld %ld", (long)v.x, (long)v.y);
      }
      std::printf("\n");
    }
    std::fflush(stdout);
  }
  return 0;
}
