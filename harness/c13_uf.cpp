// C13 harness for the lock-free containers: real threads hammering
// DisjointSets::unite / HashTableD::Insert; the resulting partition / table is
// compared with a sequential reference computed here.  A watchdog turns a
// hang (e.g. a parent-pointer cycle) into `HANG <id>` + exit code 3.
// stdin:  UF <id> <n> <threads> <rounds> <m> a0 b0 a1 b1 ...   (pair i goes to thread i % threads, every round on a fresh structure)
//         HT <id> <log2size> <threads> <m> k0 k1 ...            (key i inserted by thread i % threads, value = 3*key+1)
// stdout: U <id> ok=<0|1> ORD=<0|1> LABELS l0..ln-1 ; A <id> rank0 parent0 rank1 parent1 ..   (words after the unions)
//         HH <id> size h(k0) h(k1) .. ; HA <id> key-or--1 per slot ; H <id> ok=<0|1> full=<0|1> entries=<e> distinct=<d>
#include <unistd.h>

#include <atomic>
#include <csignal>
#include <cstdio>
#include <cstring>
#include <iostream>
#include <memory>
#include <set>
#include <sstream>
#include <string>
#include <thread>
#include <vector>

#include "disjoint_sets.h"
#include "hashtable.h"

static char g_id[64] = "?";
static void onAlarm(int) {
  char buf[96];
  int k = snprintf(buf, sizeof buf, "HANG %s\n", g_id);
  if (write(1, buf, k) < 0) {}
  _exit(3);
}

struct SeqUF {
  std::vector<int> p;
  SeqUF(int n) : p(n) { for (int i = 0; i < n; ++i) p[i] = i; }
  int find(int x) { while (p[x] != x) x = p[x] = p[p[x]]; return x; }
  void unite(int a, int b) { a = find(a); b = find(b); if (a != b) p[std::max(a, b)] = std::min(a, b); }
};

int main() {
  signal(SIGALRM, onAlarm);
  std::string line;
  while (std::getline(std::cin, line)) {
    std::istringstream is(line);
    std::string tag, id;
    is >> tag >> id;
    snprintf(g_id, sizeof g_id, "%s", id.c_str());
    if (tag == "UF") {
      int n, threads, rounds, m;
      is >> n >> threads >> rounds >> m;
      std::vector<std::pair<int, int>> pairs(m);
      for (auto& pr : pairs) is >> pr.first >> pr.second;
      alarm(90);   // generous: only a genuine non-termination (parent cycle) should trip it
      bool ok = true, ord = true;
      std::vector<int> labels(n, 0);
      std::vector<uint32_t> words;
      SeqUF ref(n);
      for (auto& pr : pairs) ref.unite(pr.first, pr.second);
      // persistent worker threads; every round works on a fresh structure
      std::unique_ptr<DisjointSets> cur;
      std::atomic<int> roundNo{0}, doneCnt{0}, arrived{0};
      std::atomic<bool> quit{false};
      std::vector<std::thread> ts;
      for (int t = 0; t < threads; ++t)
        ts.emplace_back([&, t] {
          int seen = 0;
          for (;;) {
            while (roundNo.load(std::memory_order_acquire) == seen && !quit.load()) std::this_thread::yield();
            if (quit.load()) return;
            ++seen;
            DisjointSets& uf = *cur;
            arrived.fetch_add(1, std::memory_order_acq_rel);   // tight start line: all workers leave together
            for (int spin = 0; arrived.load(std::memory_order_acquire) < threads; ++spin)
              if (spin > 20000) std::this_thread::yield();   // machine may be oversubscribed
            for (int i = t; i < m; i += threads) uf.unite(pairs[i].first, pairs[i].second);
            doneCnt.fetch_add(1, std::memory_order_acq_rel);
          }
        });
      for (int round = 0; round < rounds && ok; ++round) {
        cur.reset(new DisjointSets(n));
        doneCnt.store(0);
        arrived.store(0);
        roundNo.fetch_add(1, std::memory_order_acq_rel);
        while (doneCnt.load(std::memory_order_acquire) < threads) std::this_thread::yield();
        DisjointSets& uf = *cur;
        words.clear();
        for (int i = 0; i < n; ++i) { words.push_back(uf.rank(i)); words.push_back(uf.parent(i)); }
        // (rank, id) order along parent pointers: parent has larger rank, or equal rank and smaller id
        for (int i = 0; i < n; ++i) {
          uint32_t p = uf.parent(i);
          if (p != (uint32_t)i) {
            uint32_t ri = uf.rank(i), rp = uf.rank(p);
            if (!(ri < rp || (ri == rp && p < (uint32_t)i))) ord = false;
          }
        }
        std::vector<int> minOf(n, n);
        for (int i = 0; i < n; ++i) {
          int r = (int)uf.find(i);
          minOf[r] = std::min(minOf[r], i);
        }
        for (int i = 0; i < n; ++i) {
          labels[i] = minOf[uf.find(i)];
          if (labels[i] != ref.find(i)) ok = false;   // SeqUF roots are class minima
        }
        std::vector<int> comp;
        int nc = uf.connectedComponents(comp);
        std::set<int> distinct(labels.begin(), labels.end());
        if (nc != (int)distinct.size()) ok = false;
        for (int i = 0; i < n && ok; ++i)
          for (int j = 0; j < i && ok; ++j)
            if ((comp[i] == comp[j]) != (labels[i] == labels[j])) ok = false;
      }
      quit.store(true);
      for (auto& th : ts) th.join();
      alarm(0);
      std::string out = "U " + id + " ok=" + (ok && ord ? "1" : "0") + " ORD=" + (ord ? "1" : "0") + " LABELS";
      for (int v : labels) out += " " + std::to_string(v);
      puts(out.c_str());
      // the words mData[i] = (rank, parent) after the unions (before any find of the label pass)
      std::string arr = "A " + id;
      for (uint32_t w : words) arr += " " + std::to_string(w);
      puts(arr.c_str());
    } else if (tag == "HT") {
      int lg, threads, m;
      is >> lg >> threads >> m;
      std::vector<uint64_t> keys(m);
      for (auto& k : keys) is >> k;
      alarm(90);
      manifold::HashTable<uint64_t> table(size_t(1) << lg);
      {
        std::atomic<int> ready{0};
        std::atomic<bool> go{false};
        std::vector<std::thread> ts;
        for (int t = 0; t < threads; ++t)
          ts.emplace_back([&, t] {
            auto d = table.D();
            ready.fetch_add(1);
            while (!go.load(std::memory_order_acquire)) {}
            for (int i = t; i < m; i += threads) d.Insert(keys[i], 3 * keys[i] + 1);
          });
        while (ready.load() < threads) {}
        go.store(true, std::memory_order_release);
        for (auto& th : ts) th.join();
      }
      alarm(0);
      auto d = table.D();
      std::set<uint64_t> distinct(keys.begin(), keys.end());
      bool full = table.Full();
      bool ok = true;
      // each key in at most one slot, stored keys were inserted, values right
      std::multiset<uint64_t> stored;
      for (int i = 0; i < d.Size(); ++i) {
        uint64_t k = d.KeyAt(i);
        if (k == manifold::HashTable<uint64_t>::Open()) continue;
        stored.insert(k);
        if (!distinct.count(k) || d.At(i) != 3 * k + 1) ok = false;
      }
      for (uint64_t k : distinct)
        if (stored.count(k) > 1) ok = false;
      if ((size_t)table.Entries() != stored.size()) ok = false;
      if (!full) {
        for (uint64_t k : distinct)
          if (stored.count(k) != 1 || d[k] != 3 * k + 1) ok = false;
      }
      {
        // hash of every input key (masked) and the final key array (-1 = open), for the model
        std::string hh = "HH " + id + " " + std::to_string(d.Size());
        for (uint64_t k : keys) hh += " " + std::to_string(manifold::hash64bit(k) & (uint64_t)(d.Size() - 1));
        puts(hh.c_str());
        std::string ha = "HA " + id;
        for (int i = 0; i < d.Size(); ++i) {
          uint64_t k = d.KeyAt(i);
          ha += k == manifold::HashTable<uint64_t>::Open() ? std::string(" -1") : " " + std::to_string(k);
        }
        puts(ha.c_str());
      }
      printf("H %s ok=%d full=%d entries=%d distinct=%zu\n", id.c_str(), ok ? 1 : 0, full ? 1 : 0, table.Entries(),
             distinct.size());
    }
    fflush(stdout);
  }
  return 0;
}
