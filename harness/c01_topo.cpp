// C01 correspondence harness: Manifold::Impl::CreateHalfedges + Impl::IsManifold of the
// repo's current sources on generated triangle soups, printed in the format of the
// extracted Gallina port (extract/c01_driver.ml, command CH):
//   H <id> s0 p0 s1 p1 ...      (halfedge_.Start(e), halfedge_.Pair(e))
//   M <id> <IsManifold 0|1>
// Input:  CH <id> <nV> <nT> a b c a b c ...
#include <cstdio>
#include <iostream>
#include <sstream>
#include <string>
#include "impl.h"
using namespace manifold;

int main() {
  std::string line;
  while (std::getline(std::cin, line)) {
    std::istringstream in(line);
    std::string tag, id;
    int nV, nT;
    in >> tag;
    if (tag != "CH") continue;
    in >> id >> nV >> nT;
    Manifold::Impl impl;
    impl.vertPos_.resize(nV);
    for (int v = 0; v < nV; ++v) impl.vertPos_[v] = vec3(v, v * v % 7, v % 3);
    Vec<ivec3> triVerts(nT);
    for (int t = 0; t < nT; ++t) {
      int a, b, c;
      in >> a >> b >> c;
      triVerts[t] = ivec3(a, b, c);
    }
    impl.CreateHalfedges(triVerts);
    std::string out = "H " + id;
    for (size_t e = 0; e < impl.halfedge_.size(); ++e)
      out += " " + std::to_string(impl.halfedge_.Start(e)) + " " + std::to_string(impl.halfedge_.Pair(e));
    puts(out.c_str());
    printf("M %s %d\n", id.c_str(), impl.IsManifold() ? 1 : 0);
    fflush(stdout);
  }
  return 0;
}
