// C04 gap 1, dynamic tie: Face2Tri hands the triangulator contours whose
// CONTENT is schedule independent (proved: assemble_halfedges_slot_order_independent)
// but whose PolyVert::idx labels are the schedule dependent slot numbers.  Bit
// identity of the Boolean output therefore needs TriangulateIdxHalfedges to be
// equivariant under a relabelling of idx:  T(relabel(P)) == relabel(T(P)),
// halfedge for halfedge.  This harness checks exactly that on generated
// polygons, and also REPORTS (not a requirement of the code path, since the
// assembly canonicalises rotation and order) what happens when contours are
// rotated or re-ordered.
//
//   c04_tri <seed> <cases>
//   output: T <id> kind=.. n=.. relabel=<ok|DIFF> rot_seq=<0|1> rot_set=<0|1> ord_seq=<0|1> ord_set=<0|1>
#include <algorithm>
#include <cmath>
#include <cstdint>
#include <cstdio>
#include <cstdlib>
#include <vector>

#include "manifold/polygon.h"
#include "polygon_internal.h"

using namespace manifold;

struct Rng {
  uint64_t s;
  uint64_t next() {
    s = s * 6364136223846793005ull + 1442695040888963407ull;
    return s >> 17;
  }
  double unit() { return (next() & ((1ull << 40) - 1)) / double(1ull << 40); }
  int below(int n) { return n <= 0 ? 0 : int(next() % uint64_t(n)); }
};

static PolygonsIdx make(Rng& g, int kind, int n) {
  PolygonsIdx ps;
  int idx = 0;
  auto push = [&](const std::vector<vec2>& pts) {
    SimplePolygonIdx p;
    for (auto& v : pts) p.push_back({v, idx++});
    ps.push_back(p);
  };
  if (kind == 0) {  // star-shaped, random radii
    std::vector<vec2> pts;
    for (int i = 0; i < n; ++i) {
      double a = 2 * 3.141592653589793 * i / n, r = 1.0 + 2.0 * g.unit();
      pts.push_back({r * std::cos(a), r * std::sin(a)});
    }
    push(pts);
  } else if (kind == 1) {  // comb on an integer lattice (many collinear / equal costs)
    std::vector<vec2> pts;
    int teeth = std::max(2, n / 4);
    pts.push_back({0, 0});
    pts.push_back({2.0 * teeth, 0});
    for (int i = teeth - 1; i >= 0; --i) {
      pts.push_back({2.0 * i + 2, 1});
      pts.push_back({2.0 * i + 2, 3});
      pts.push_back({2.0 * i + 1, 3});
      pts.push_back({2.0 * i + 1, 1});
    }
    push(pts);
  } else if (kind == 2) {  // square with a grid of square holes (lattice: ties everywhere)
    int k = std::max(1, (int)std::sqrt((double)n / 4.0));
    push({{0, 0}, {4.0 * k, 0}, {4.0 * k, 4.0 * k}, {0, 4.0 * k}});
    for (int i = 0; i < k; ++i)
      for (int j = 0; j < k; ++j) {
        double x = 4.0 * i + 1, y = 4.0 * j + 1;
        push({{x, y}, {x, y + 2}, {x + 2, y + 2}, {x + 2, y}});
      }
  } else if (kind == 3) {  // regular polygon (all ear costs equal) + central hole
    std::vector<vec2> pts, hole;
    for (int i = 0; i < n; ++i) {
      double a = 2 * 3.141592653589793 * i / n;
      pts.push_back({4 * std::cos(a), 4 * std::sin(a)});
    }
    push(pts);
    int m = std::max(3, n / 3);
    for (int i = m - 1; i >= 0; --i) {
      double a = 2 * 3.141592653589793 * i / m;
      hole.push_back({std::cos(a), std::sin(a)});
    }
    push(hole);
  } else if (kind == 4) {  // several disjoint random stars with star holes
    int parts = 2 + g.below(3);
    for (int q = 0; q < parts; ++q) {
      std::vector<vec2> pts, hole;
      int m = std::max(3, n / parts);
      for (int i = 0; i < m; ++i) {
        double a = 2 * 3.141592653589793 * i / m, r = 2.0 + 1.5 * g.unit();
        pts.push_back({10.0 * q + r * std::cos(a), r * std::sin(a)});
      }
      push(pts);
      for (int i = m - 1; i >= 0; --i) {
        double a = 2 * 3.141592653589793 * i / m, r = 0.5 + 0.4 * g.unit();
        hole.push_back({10.0 * q + r * std::cos(a), r * std::sin(a)});
      }
      push(hole);
    }
  } else {  // symmetric cross (mirror-symmetric ties) possibly with duplicate points
    std::vector<vec2> pts = {{1, 0}, {2, 0}, {2, 1}, {3, 1}, {3, 2}, {2, 2},
                             {2, 3}, {1, 3}, {1, 2}, {0, 2}, {0, 1}, {1, 1}};
    if (n % 2) pts.insert(pts.begin() + 3, vec2(2.5, 1));  // collinear extra
    push(pts);
  }
  return ps;
}

struct Res {
  std::vector<std::array<int, 3>> he;  // start, end, pair
  size_t contourEnd = 0;
  bool threw = false;
};

static Res run(const PolygonsIdx& ps, double eps, bool allowConvex,
               const std::vector<int>* inv) {
  Res r;
  try {
    HalfedgeTriangulation t = TriangulateIdxHalfedges(ps, eps, allowConvex);
    r.contourEnd = t.contourEnd;
    for (auto& h : t.halfedges) {
      int s = h.startVert, e = h.endVert;
      if (inv) {
        s = (*inv)[s];
        e = (*inv)[e];
      }
      r.he.push_back({s, e, h.pairedHalfedge});
    }
  } catch (...) {
    r.threw = true;
  }
  return r;
}

static std::vector<std::array<int, 3>> triSet(const Res& r) {
  std::vector<std::array<int, 3>> t;
  for (size_t e = r.contourEnd; e + 2 < r.he.size(); e += 3) {
    std::array<int, 3> a = {r.he[e][0], r.he[e + 1][0], r.he[e + 2][0]};
    int k = std::min_element(a.begin(), a.end()) - a.begin();
    t.push_back({a[k], a[(k + 1) % 3], a[(k + 2) % 3]});
  }
  std::sort(t.begin(), t.end());
  return t;
}
static std::vector<std::array<int, 3>> triSeq(const Res& r) {
  std::vector<std::array<int, 3>> t;
  for (size_t e = r.contourEnd; e + 2 < r.he.size(); e += 3)
    t.push_back({r.he[e][0], r.he[e + 1][0], r.he[e + 2][0]});
  return t;
}

int main(int argc, char** argv) {
  uint64_t seed = argc > 1 ? std::strtoull(argv[1], 0, 10) : 1;
  int cases = argc > 2 ? std::atoi(argv[2]) : 200;
  Rng g{seed * 7919 + 13};
  for (int id = 0; id < cases; ++id) {
    int kind = id % 6;
    static const int sizes[] = {5, 8, 12, 16, 24, 40, 64, 100, 160};
    int n = sizes[g.below(9)];
    PolygonsIdx ps = make(g, kind, n);
    int total = 0;
    for (auto& p : ps) total += p.size();
    double eps = (id % 3 == 0) ? -1.0 : (id % 3 == 1 ? 1e-9 : 1e-5);
    bool allowConvex = (id % 2) == 0;
    Res base = run(ps, eps, allowConvex, nullptr);
    // (1) relabel idx by a random permutation, geometry untouched
    bool relabelOk = true;
    for (int trial = 0; trial < 3 && relabelOk; ++trial) {
      std::vector<int> perm(total), inv(total);
      for (int i = 0; i < total; ++i) perm[i] = i;
      for (int i = total - 1; i > 0; --i) std::swap(perm[i], perm[g.below(i + 1)]);
      for (int i = 0; i < total; ++i) inv[perm[i]] = i;
      PolygonsIdx q = ps;
      for (auto& p : q)
        for (auto& v : p) v.idx = perm[v.idx];
      Res r = run(q, eps, allowConvex, &inv);
      relabelOk = r.threw == base.threw && r.contourEnd == base.contourEnd && r.he == base.he;
    }
    // (2) rotate every contour (labels stay with their points)
    PolygonsIdx rot = ps;
    for (auto& p : rot) std::rotate(p.begin(), p.begin() + 1 + g.below((int)p.size() - 1), p.end());
    Res rr = run(rot, eps, allowConvex, nullptr);
    // (3) re-order the contours
    PolygonsIdx ord = ps;
    std::reverse(ord.begin(), ord.end());
    Res ro = run(ord, eps, allowConvex, nullptr);
    std::printf("T %d kind=%d n=%d tris=%zu relabel=%s rot_seq=%d rot_set=%d ord_seq=%d ord_set=%d\n", id, kind,
                total, (base.he.size() - base.contourEnd) / 3, relabelOk ? "ok" : "DIFF",
                (int)(triSeq(rr) == triSeq(base)), (int)(triSet(rr) == triSet(base)),
                (int)(ps.size() == 1 ? 1 : triSeq(ro) == triSeq(base)),
                (int)(triSet(ro) == triSet(base)));
  }
  return 0;
}
