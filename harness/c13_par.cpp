// C13 harness: every template of src/parallel.h instantiated with
// ExecutionPolicy::Par, compared in-process with the std:: algorithm, results
// dumped as integers for the comparison with the extracted Coq model.
//   par variant: real TBB, thread count per case (global_control + task_arena)
//   sim variant: harness/verif_sched.h (-include), schedule seed per case, the
//                schedule log is printed as `SCHED <id> <record>` lines
// -DC13_PARALLEL_H="<file>" substitutes a copy of parallel.h whose sequential
// thresholds were replaced by small values (checks/C13.py generates it).
// stdin: CASE <id> <alg> <seed> <threads> <p1> <p2> <dump> N <n> x.. [M <m> y..]
// stdout per case: [SCHED ..]* [MISMATCH ..] R <id> <alg> ok=<0|1> OUT <count> v.. | HASH <count> <hex>
#include <algorithm>
#include <cstdint>
#include <cstdio>
#include <cstring>
#include <functional>
#include <iostream>
#include <numeric>
#include <sstream>
#include <string>
#include <vector>
#ifdef C13_PARALLEL_H
#include C13_PARALLEL_H
#else
#include "parallel.h"
#endif
#ifndef VERIF_SCHED_H
#include <tbb/global_control.h>
#include <tbb/task_arena.h>
#endif

using namespace manifold;
typedef int64_t i64;

struct P {
  i64 key, idx;
};
struct Q {
  i64 key, idx;
  bool operator<(const Q& o) const { return key < o.key; }
};
static bool cmpP(const P& a, const P& b) { return a.key < b.key; }

static std::function<i64(i64, i64)> opOf(i64 k) {
  switch (k) {
    case 1: return [](i64 a, i64 b) { return std::max(a, b); };
    case 2: return [](i64 a, i64 b) { return std::min(a, b); };
    case 3: return [](i64 a, i64 b) { return a != 0 ? a : b; };
    default: return [](i64 a, i64 b) { return (i64)((uint64_t)a + (uint64_t)b); };
  }
}
static i64 identOf(i64 k) { return k == 1 ? INT64_MIN : k == 2 ? INT64_MAX : 0; }

template <typename T>
static void sortRadix(const std::vector<i64>& x, std::vector<i64>& got, std::vector<i64>& want) {
  std::vector<T> v(x.size()), w(x.size());
  for (size_t i = 0; i < x.size(); ++i) v[i] = w[i] = (T)x[i];
  manifold::stable_sort(ExecutionPolicy::Par, v.data(), v.data() + v.size());
  std::stable_sort(w.begin(), w.end());
  for (auto e : v) got.push_back((i64)e);
  for (auto e : w) want.push_back((i64)e);
}

static void runCase(const std::string& id, const std::string& alg, i64 p1, i64 p2, const std::vector<i64>& x,
                    const std::vector<i64>& y, std::vector<i64>& got, std::vector<i64>& want, bool& skip) {
  const auto Par = ExecutionPolicy::Par;
  size_t n = x.size();
  auto pairsOut = [](const std::vector<P>& v, std::vector<i64>& o) {
    for (auto& e : v) {
      o.push_back(e.key);
      o.push_back(e.idx);
    }
  };
  std::vector<P> vp(n);
  for (size_t i = 0; i < n; ++i) vp[i] = P{x[i], (i64)i};
  if (alg == "sort_cmp") {
    auto w = vp;
    manifold::stable_sort(Par, vp.begin(), vp.end(), cmpP);
    std::stable_sort(w.begin(), w.end(), cmpP);
    pairsOut(vp, got);
    pairsOut(w, want);
  } else if (alg == "sort_less") {
    std::vector<Q> v(n);
    for (size_t i = 0; i < n; ++i) v[i] = Q{x[i], (i64)i};
    auto w = v;
    manifold::stable_sort(Par, v.begin(), v.end());
    std::stable_sort(w.begin(), w.end());
    for (auto& e : v) { got.push_back(e.key); got.push_back(e.idx); }
    for (auto& e : w) { want.push_back(e.key); want.push_back(e.idx); }
  } else if (alg == "sort_u32") {
    sortRadix<uint32_t>(x, got, want);
  } else if (alg == "sort_u64") {
    sortRadix<uint64_t>(x, got, want);
  } else if (alg == "sort_i32") {
    sortRadix<int32_t>(x, got, want);
  } else if (alg == "sort_i64") {
    sortRadix<int64_t>(x, got, want);
  } else if (alg == "sort_sz") {
    sortRadix<size_t>(x, got, want);
  } else if (alg == "lsb_radix") {
#if (MANIFOLD_PAR == 1)
    // details::LSB_radix_sort directly: the return flag and BOTH buffers (intermediate state for the model)
    std::vector<uint32_t> in(n), tmp(n, 0xFFFFFFFFu), sorted(n);
    for (size_t i = 0; i < n; ++i) in[i] = sorted[i] = (uint32_t)x[i];
    std::stable_sort(sorted.begin(), sorted.end());
    bool flag = manifold::details::LSB_radix_sort(in.data(), tmp.data(), n);
    got.push_back(flag ? 1 : 0);
    for (auto e : in) got.push_back((i64)e);
    for (auto e : tmp) got.push_back((i64)e);
    want = got;
    const std::vector<uint32_t>& res = flag ? tmp : in;
    if (res != sorted) {  // the buffer the flag points to must hold the sorted keys
      want.assign(1, flag ? 1 : 0);
      for (auto e : sorted) want.push_back((i64)e);
    }
#endif
  } else if (alg == "mergerec") {
#if (MANIFOLD_PAR == 1)
    std::vector<P> src;
    for (size_t i = 0; i < n; ++i) src.push_back(P{x[i], (i64)i});
    for (size_t i = 0; i < y.size(); ++i) src.push_back(P{y[i], (i64)(n + i)});
    std::vector<P> dest(src.size(), P{-1, -1}), w(src.size());
    manifold::details::mergeRec(src.data(), dest.data(), 0, n, n, src.size(), 0, cmpP);
    std::merge(src.begin(), src.begin() + n, src.begin() + n, src.end(), w.begin(), cmpP);
    pairsOut(dest, got);
    pairsOut(w, want);
#endif
  } else if (alg == "reduce") {
    auto f = opOf(p2);
    got.push_back(manifold::reduce(Par, x.begin(), x.end(), p1, f));
    want.push_back(std::accumulate(x.begin(), x.end(), p1, f));
  } else if (alg == "treduce") {
    auto f = opOf(p2);
    auto g = [](i64 v) { return (i64)(v * v + 1); };
    got.push_back(manifold::transform_reduce(Par, x.begin(), x.end(), p1, f, g));
    i64 acc = p1;
    for (i64 v : x) acc = f(acc, g(v));
    want.push_back(acc);
  } else if (alg == "count_if") {
    i64 m = p1 < 1 ? 1 : p1;
    auto pr = [m](i64 v) { return v % m == 0; };
    got.push_back((i64)manifold::count_if(Par, x.begin(), x.end(), pr));
    want.push_back((i64)std::count_if(x.begin(), x.end(), pr));
  } else if (alg == "all_of") {
    auto pr = [p1](i64 v) { return v != p1; };
    got.push_back(manifold::all_of(Par, x.begin(), x.end(), pr) ? 1 : 0);
    want.push_back(std::all_of(x.begin(), x.end(), pr) ? 1 : 0);
  } else if (alg == "incl_scan") {
    got.assign(n, -7);
    want.assign(n, -7);
    manifold::inclusive_scan(Par, x.begin(), x.end(), got.begin());
    std::inclusive_scan(x.begin(), x.end(), want.begin());
  } else if (alg == "excl_scan") {
    auto f = opOf(p2);
    got.assign(n, -7);
    want.assign(n, -7);
    manifold::exclusive_scan(Par, x.begin(), x.end(), got.begin(), p1, f, identOf(p2));
    std::exclusive_scan(x.begin(), x.end(), want.begin(), p1, f);
  } else if (alg == "exclusive_scan-inplace") {
    // d_first == first: the documented "equal" case (in-tree: face_op.cpp, impl.cpp, quickhull.cpp)
    auto f = opOf(p2);
    got = x;
    want = x;
    manifold::exclusive_scan(Par, got.begin(), got.end(), got.begin(), p1, f, identOf(p2));
    std::exclusive_scan(want.begin(), want.end(), want.begin(), p1, f);
  } else if (alg == "inclusive_scan-inplace") {
    got = x;
    want = x;
    manifold::inclusive_scan(Par, got.begin(), got.end(), got.begin());
    std::inclusive_scan(want.begin(), want.end(), want.begin());
  } else if (alg == "transform-inplace") {
    auto f = [p1](i64 v) { return 3 * v + p1; };
    got = x;
    want = x;
    manifold::transform(Par, got.begin(), got.end(), got.begin(), f);
    std::transform(want.begin(), want.end(), want.begin(), f);
  } else if (alg == "copy_if") {
    i64 m = p1 < 1 ? 1 : p1;
    auto pr = [m](const P& e) { return e.key % m == 0; };
    std::vector<P> o1(n + 2, P{-1, -1}), o2(n + 2, P{-1, -1});
    auto e1 = manifold::copy_if(Par, vp.begin(), vp.end(), o1.begin(), pr);
    auto e2 = std::copy_if(vp.begin(), vp.end(), o2.begin(), pr);
    got.push_back(e1 - o1.begin());
    want.push_back(e2 - o2.begin());
    pairsOut(o1, got);
    pairsOut(o2, want);
  } else if (alg == "remove_if") {
    i64 m = p1 < 1 ? 1 : p1;
    auto pr = [m](const P& e) { return e.key % m == 0; };
    auto w = vp;
    auto e1 = manifold::remove_if(Par, vp.begin(), vp.end(), pr);
    auto e2 = std::remove_if(w.begin(), w.end(), pr);
    vp.resize(e1 - vp.begin());
    w.resize(e2 - w.begin());
    got.push_back(vp.size());
    want.push_back(w.size());
    pairsOut(vp, got);
    pairsOut(w, want);
  } else if (alg == "remove") {
    auto v = x, w = x;
    auto e1 = manifold::remove(Par, v.begin(), v.end(), p1);
    auto e2 = std::remove(w.begin(), w.end(), p1);
    v.resize(e1 - v.begin());
    w.resize(e2 - w.begin());
    got.push_back(v.size());
    want.push_back(w.size());
    got.insert(got.end(), v.begin(), v.end());
    want.insert(want.end(), w.begin(), w.end());
  } else if (alg == "unique") {
    auto v = x, w = x;
    auto e1 = manifold::unique(Par, v.begin(), v.end());
    auto e2 = std::unique(w.begin(), w.end());
    v.resize(e1 - v.begin());
    w.resize(e2 - w.begin());
    got.push_back(v.size());
    want.push_back(w.size());
    got.insert(got.end(), v.begin(), v.end());
    want.insert(want.end(), w.begin(), w.end());
  } else if (alg == "for_each" || alg == "for_each_n") {
    auto w = vp;
    auto f = [p1](P& e) { e.key = e.key * 2 + p1; };
    if (alg == "for_each")
      manifold::for_each(Par, vp.begin(), vp.end(), f);
    else
      manifold::for_each_n(Par, vp.begin(), vp.size(), f);
    std::for_each(w.begin(), w.end(), f);
    pairsOut(vp, got);
    pairsOut(w, want);
  } else if (alg == "transform") {
    auto f = [p1](i64 v) { return 3 * v + p1; };
    got.assign(n, -7);
    want.assign(n, -7);
    manifold::transform(Par, x.begin(), x.end(), got.begin(), f);
    std::transform(x.begin(), x.end(), want.begin(), f);
  } else if (alg == "copy" || alg == "copy_n") {
    got.assign(n, -7);
    if (alg == "copy")
      manifold::copy(Par, x.begin(), x.end(), got.begin());
    else
      manifold::copy_n(Par, x.begin(), n, got.begin());
    want = x;
  } else if (alg == "fill") {
    got.assign(n, -7);
    manifold::fill(Par, got.begin(), got.end(), p1);
    want.assign(n, p1);
  } else if (alg == "sequence") {
    std::vector<size_t> v(n, 77);
    manifold::sequence(Par, v.begin(), v.end());
    for (size_t i = 0; i < n; ++i) {
      got.push_back((i64)v[i]);
      want.push_back((i64)i);
    }
  } else if (alg == "gather") {
    got.assign(y.size(), -7);
    want.assign(y.size(), -7);
    manifold::gather(Par, y.begin(), y.end(), x.begin(), got.begin());
    for (size_t i = 0; i < y.size(); ++i) want[i] = x[y[i]];
  } else if (alg == "scatter") {
    got.assign(n, -7);
    want.assign(n, -7);
    manifold::scatter(Par, x.begin(), x.end(), y.begin(), got.begin());
    for (size_t i = 0; i < n; ++i) want[y[i]] = x[i];
  } else {
    skip = true;
  }
}

int main() {
  std::ios::sync_with_stdio(false);
  std::string line;
  while (std::getline(std::cin, line)) {
    std::istringstream is(line);
    std::string tag, id, alg, tok;
    is >> tag;
    if (tag != "CASE") continue;
    i64 seed, threads, p1, p2, dump;
    is >> id >> alg >> seed >> threads >> p1 >> p2 >> dump;
    std::vector<i64> x, y;
    while (is >> tok) {
      size_t cnt;
      is >> cnt;
      std::vector<i64>& dst = tok == "N" ? x : y;
      dst.resize(cnt);
      for (size_t i = 0; i < cnt; ++i) is >> dst[i];
    }
    std::vector<i64> got, want;
    bool skip = false;
#ifdef VERIF_SCHED_H
    verif_tbb::sched::reseed((uint64_t)seed);
    verif_tbb::sched::clear_log();
    verif_tbb::sched::concurrency = threads > 0 ? (int)threads : 4;
    verif_tbb::sched::enabled_log = dump != 0;
    runCase(id, alg, p1, p2, x, y, got, want, skip);
    for (auto& r : verif_tbb::sched::log()) printf("SCHED %s %s\n", id.c_str(), r.c_str());
#else
    {
      tbb::global_control gc(tbb::global_control::max_allowed_parallelism, threads > 0 ? (size_t)threads : 1);
      tbb::task_arena arena(threads > 0 ? (int)threads : 1);
      arena.execute([&] { runCase(id, alg, p1, p2, x, y, got, want, skip); });
    }
#endif
    if (skip) {
      printf("R %s %s ok=1 SKIP\n", id.c_str(), alg.c_str());
      fflush(stdout);
      continue;
    }
    bool ok = got == want;
    if (!ok) {
      size_t pos = 0;
      while (pos < got.size() && pos < want.size() && got[pos] == want[pos]) ++pos;
      printf("MISMATCH %s %s pos=%zu got=%lld want=%lld gotlen=%zu wantlen=%zu\n", id.c_str(), alg.c_str(), pos,
             pos < got.size() ? (long long)got[pos] : -999LL, pos < want.size() ? (long long)want[pos] : -999LL,
             got.size(), want.size());
    }
    if (dump) {
      std::string out = "R " + id + " " + alg + " ok=" + (ok ? "1" : "0") + " OUT " + std::to_string(got.size());
      for (i64 v : got) out += " " + std::to_string(v);
      puts(out.c_str());
    } else {
      uint64_t h = 1469598103934665603ull;
      for (i64 v : got)
        for (int b = 0; b < 8; ++b) {
          h ^= (uint64_t)(v >> (8 * b)) & 0xFF;
          h *= 1099511628211ull;
        }
      printf("R %s %s ok=%d HASH %zu %016llx\n", id.c_str(), alg.c_str(), ok ? 1 : 0, got.size(), (unsigned long long)h);
    }
    fflush(stdout);
  }
  return 0;
}
